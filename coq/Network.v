(* src/feedback.rs and src/network.rs (builders, forward, backward, update) *)
From NV Require Import Prelude Num Random Tensor Activation Objective Optimizer Layers.
Set Implicit Arguments.

Inductive accumulation := AccAdd | AccSub | AccMul | AccOverwrite | AccMean.

Section Network.
  Variable N : Num.
  Notation T := (T N).
  Notation tensor := (tensor N).
  Notation dense := (dense N).
  Notation conv := (conv N).
  Notation deconv := (deconv N).
  Notation maxpool := (maxpool N).
  Notation optimizer := (optimizer N).

  (* layers that may appear inside a feedback block (nested blocks are unsupported) *)
  Inductive blayer :=
  | BDense (l : dense) | BConv (l : conv) | BDeconv (l : deconv) | BMaxpool (l : maxpool).

  Record feedback := {
    f_inputs : shape; f_outputs : shape; f_optimizer : optimizer; f_flatten : bool;
    f_layers : list blayer;
    f_connect : list (nat * list nat);       (* {to: [from...]} in insertion order *)
    f_accumulation : accumulation;
    f_coupled : list (list nat) }.

  Inductive layer :=
  | LDense (l : dense) | LConv (l : conv) | LDeconv (l : deconv) | LMaxpool (l : maxpool)
  | LFeedback (b : feedback).

  Definition lift_b (b : blayer) : layer :=
    match b with BDense l => LDense l | BConv l => LConv l | BDeconv l => LDeconv l | BMaxpool l => LMaxpool l end.

  Definition layer_inputs (l : layer) : shape :=
    match l with
    | LDense l => d_inputs l | LConv l => c_inputs l | LDeconv l => dc_inputs l
    | LMaxpool l => m_inputs l | LFeedback b => f_inputs b
    end.
  Definition layer_outputs (l : layer) : shape :=
    match l with
    | LDense l => d_outputs l | LConv l => c_outputs l | LDeconv l => dc_outputs l
    | LMaxpool l => m_outputs l | LFeedback b => f_outputs b
    end.

  (* gradient containers: Data::Nested / Data::NestedOptional appear only for feedback blocks *)
  Inductive grad := GPlain (t : tensor) | GNested (l : list tensor).
  Inductive bgrad := BPlain (t : tensor) | BNestedOpt (l : list (option tensor)).
  Inductive mpval := MPIdx (m : maxidx) | MPNested (l : list (option maxidx)).

  (* ------------------------------------------------------------ accumulation of tensors *)
  (* x combined with the sources, in order, by the configured accumulation *)
  Definition accumulate (acc : accumulation) (x : tensor) (srcs : list tensor) : res tensor :=
    match acc with
    | AccAdd => foldM (@add_inplace N) srcs x
    | AccSub => foldM (@sub_inplace N) srcs x
    | AccMul => foldM (@mul_inplace N) srcs x
    | AccOverwrite => match last_opt srcs with Some s => Ok s | None => Panic P_unwrap end
    | AccMean => mean_inplace x srcs
    end.

  (* ------------------------------------------------------------ feedback block *)
  Definition blayer_inputs (b : blayer) := layer_inputs (lift_b b).
  Definition blayer_outputs (b : blayer) := layer_outputs (lift_b b).

  Definition default_sgd : optimizer := OSGD {| sgd_lr := ratio 1 10; sgd_decay := None |}.

  Definition feedback_create (layers : list blayer) (loops : nat) (inskips outskips : bool)
             (acc : accumulation) : res feedback :=
    check (0 <? loops) else P_explicit;
    match layers, last_opt layers with
    | first :: _, Some lst =>
        let inputs := blayer_inputs first in
        let outputs := blayer_outputs lst in
        check (shape_eqb inputs outputs) else P_shape;
        let len := length layers in
        let unrolled := concat (repeat layers loops) in
        let coupled := map (fun l => map (fun i => l + i * len) (seq 0 loops)) (seq 0 len) in
        let ins := if inskips then map (fun i => (i * len, [0])) (seq 1 (loops - 1)) else [] in
        let outs := if outskips && negb (loops - 1 =? 0)
                    then [(loops * len, map (fun i => i * len) (seq 1 (loops - 1)))] else [] in
        (* insertion order: for i in 1..loops { in-skip i }, then the out-skip entry *)
        Ok {| f_inputs := inputs; f_outputs := outputs; f_optimizer := default_sgd;
              f_flatten := false; f_layers := unrolled;
              f_connect := fold_left (fun m kv => alist_set m (fst kv) (snd kv)) (ins ++ outs) [];
              f_accumulation := acc; f_coupled := coupled |}
    | _, _ => Panic P_unwrap
    end.

  Definition blayer_parameters (b : blayer) : res nat :=
    match b with
    | BDense l => dense_parameters l
    | BConv l => conv_parameters l
    | BDeconv l => deconv_parameters l
    | BMaxpool _ => Ok 0
    end.

  Definition feedback_parameters (b : feedback) : res nat :=
    foldM (fun acc idx => do l <- nth_res (f_layers b) idx; do p <- blayer_parameters l; Ok (acc + p))
          (seq 0 (length (f_coupled b))) 0.

  Definition blayer_set_training (t : bool) (b : blayer) : blayer :=
    match b with
    | BDense l => BDense {| d_inputs := d_inputs l; d_outputs := d_outputs l; d_loops := d_loops l;
                            d_weights := d_weights l; d_bias := d_bias l; d_act := d_act l;
                            d_dropout := d_dropout l; d_training := t |}
    | BConv l => BConv {| c_inputs := c_inputs l; c_outputs := c_outputs l; c_loops := c_loops l;
                          c_kernels := c_kernels l; c_stride := c_stride l; c_padding := c_padding l;
                          c_dilation := c_dilation l; c_act := c_act l; c_dropout := c_dropout l;
                          c_flatten := c_flatten l; c_training := t |}
    | BDeconv l => BDeconv {| dc_inputs := dc_inputs l; dc_outputs := dc_outputs l; dc_loops := dc_loops l;
                              dc_kernels := dc_kernels l; dc_stride := dc_stride l;
                              dc_padding := dc_padding l; dc_act := dc_act l; dc_dropout := dc_dropout l;
                              dc_flatten := dc_flatten l; dc_training := t |}
    | BMaxpool l => BMaxpool l
    end.

  Definition set_f_layers (b : feedback) (ls : list blayer) : feedback :=
    {| f_inputs := f_inputs b; f_outputs := f_outputs b; f_optimizer := f_optimizer b;
       f_flatten := f_flatten b; f_layers := ls; f_connect := f_connect b;
       f_accumulation := f_accumulation b; f_coupled := f_coupled b |}.
  Definition set_f_optimizer (b : feedback) (o : optimizer) : feedback :=
    {| f_inputs := f_inputs b; f_outputs := f_outputs b; f_optimizer := o;
       f_flatten := f_flatten b; f_layers := f_layers b; f_connect := f_connect b;
       f_accumulation := f_accumulation b; f_coupled := f_coupled b |}.
  Definition set_f_flatten (b : feedback) (fl : bool) : feedback :=
    {| f_inputs := f_inputs b; f_outputs := f_outputs b; f_optimizer := f_optimizer b;
       f_flatten := fl; f_layers := f_layers b; f_connect := f_connect b;
       f_accumulation := f_accumulation b; f_coupled := f_coupled b |}.

  Definition feedback_training (b : feedback) (t : bool) : feedback :=
    set_f_layers b (map (blayer_set_training t) (f_layers b)).

  (* one inner layer, after the `assert_eq_shape!(layer.inputs, x.shape)` *)
  Definition blayer_forward (b : blayer) (x : tensor) : res (tensor * tensor * option maxidx) :=
    check (shape_eqb (blayer_inputs b) (tshape x)) else P_shape;
    match b with
    | BDense l => do r <- dense_forward l x; Ok (fst r, snd r, None)
    | BConv l => do r <- conv_forward l x; Ok (fst r, snd r, None)
    | BDeconv l => do r <- deconv_forward l x; Ok (fst r, snd r, None)
    | BMaxpool l => do r <- maxpool_forward l x; Ok (fst (fst r), snd (fst r), Some (snd r))
    end.

  (* sources activated[idx] of a skip entry *)
  Definition gather_sources (activated : list tensor) (idxs : list nat) : res (list tensor) :=
    mapM (nth_res activated) idxs.

  Record fb_out := {
    fo_pre : tensor; fo_post : tensor; fo_max : list (option maxidx);
    fo_unactivated : list tensor; fo_activated : list tensor }.

  Definition feedback_forward (b : feedback) (input0 : tensor) : res fb_out :=
    (* a flat input of a spatial block is read as the block's announced input shape *)
    do input <- (if shape_eqb (tshape input0) (f_inputs b) then Ok input0 else reshape input0 (f_inputs b));
    do st <- foldM (fun (st : list tensor * list tensor * list (option maxidx)) il =>
                let '(unact, act, mps) := st in
                let '(i, lyr) := (il : nat * blayer) in
                do x0 <- (match last_opt act with Some t => Ok t | None => Panic P_unwrap end);
                do x <- (match alist_get (f_connect b) i with
                         | Some idxs => do s <- gather_sources act idxs; accumulate (f_accumulation b) x0 s
                         | None => Ok x0
                         end);
                do r <- blayer_forward lyr x;
                let '(pre, post, mx) := r in
                Ok (unact ++ [pre], act ++ [post], mps ++ [mx]))
              (combine (seq 0 (length (f_layers b))) (f_layers b)) ([], [input], []);
    let '(unact, act, mps) := st in
    (* `activated.pop()` *)
    let act' := removelast act in
    do last0 <- (match last_opt act with Some t => Ok t | None => Panic P_unwrap end);
    do last1 <- (match alist_get (f_connect b) (length (f_layers b)) with
                 | Some idxs => do s <- gather_sources act' idxs; accumulate (f_accumulation b) last0 s
                 | None => Ok last0
                 end);
    do last2 <- (if f_flatten b then flatten last1 else Ok last1);
    do pre0 <- nth_res unact 0;
    Ok {| fo_pre := pre0; fo_post := last2; fo_max := mps;
          fo_unactivated := unact; fo_activated := act' ++ [last2] |}.

  (* entries sorted by key (the maps are iterated in key order) *)
  Fixpoint insert_sorted {V} (kv : nat * V) (l : list (nat * V)) : list (nat * V) :=
    match l with
    | [] => [kv]
    | x :: r => if fst kv <=? fst x then kv :: l else x :: insert_sorted kv r
    end.
  Definition sort_by_key {V} (l : list (nat * V)) : list (nat * V) := fold_right insert_sorted [] l.

  (* invert {to: [from]} into {from: [to...]}, iterating the map in key order *)
  Definition invert_connect (m0 : list (nat * list nat)) : list (nat * list nat) :=
    let m := sort_by_key m0 in
    fold_left (fun inv kv =>
      fold_left (fun inv idx =>
        match alist_get inv idx with
        | Some l => alist_set inv idx (l ++ [fst kv])
        | None => alist_set inv idx [fst kv]
        end) (snd kv) inv) m [].

  Definition blayer_backward (b : blayer) (g input output : tensor) (mx : option maxidx)
    : res (tensor * tensor * option tensor) :=
    match b with
    | BDense l => dense_backward l g input output
    | BConv l => conv_backward l g input output
    | BDeconv l => deconv_backward l g input output
    | BMaxpool l =>
        (* `if let Some(Some(max)) = maxpools.get(idx)` else "Maxpool indices are missing." *)
        match mx with
        | Some idx => do ig <- maxpool_backward l g idx; Ok (ig, t_single N (repeat zero 0), None)
        | None => Panic P_explicit
        end
    end.

  (* returns (input gradient, weight gradients, bias gradients), the lists in reversed layer order *)
  Definition feedback_backward (b : feedback) (gradient : tensor)
             (unactivated activated : list tensor) (maxpools : list (option maxidx))
    : res (tensor * list tensor * list (option tensor)) :=
    let len := length (f_layers b) in
    let inv := invert_connect (f_connect b) in
    do st <- foldM (fun (st : list tensor * list tensor * list (option tensor)) il =>
                let '(gs, wgs, bgs) := st in
                let '(i, lyr) := (il : nat * blayer) in
                let idx := len - i - 1 in
                do input <- nth_res activated idx;
                do output <- nth_res unactivated idx;
                do gs1 <- (match alist_get inv idx with
                           | Some tos =>
                               foldM (fun gs j =>
                                 let j' := if j =? len then j - 1 else j in
                                 do k <- csub len j'; do k' <- csub k 1;
                                 do g <- nth_res gs k';
                                 match last_opt gs with
                                 | Some lastg => do s <- add_inplace lastg g; Ok (removelast gs ++ [s])
                                 | None => Panic P_unwrap
                                 end) tos gs
                           | None => Ok gs
                           end);
                do lastg <- (match last_opt gs1 with Some t => Ok t | None => Panic P_unwrap end);
                let mx := match nth_error maxpools idx with Some m => m | None => None end in
                do r <- blayer_backward lyr lastg input output mx;
                let '(g, wg, bg) := r in
                Ok (gs1 ++ [g], wgs ++ [wg], bgs ++ [bg]))
              (combine (seq 0 len) (rev (f_layers b))) ([gradient], [], []);
    let '(gs, wgs, bgs) := st in
    do g <- (match last_opt gs with Some t => Ok t | None => Panic P_unwrap end);
    Ok (g, wgs, bgs).

  (* ------------------------------------------------------------ parameter updates *)
  Definition quad_to_triples (t : tensor) : res (list tensor) :=
    match tdata t with
    | DQuad g => mapM (fun ch => t_triple N ch) g
    | _ => Panic P_explicit
    end.

  (* update the kernels of a conv/deconv layer at optimizer slot i *)
  Definition update_kernels (o : optimizer) (i : nat) (stepnr : Z) (ks : list tensor) (wg : tensor)
    : res (optimizer * list tensor) :=
    do gs <- quad_to_triples wg;
    do r <- foldM (fun (st : optimizer * list tensor) fkg =>
               let '(f, (k, g)) := (fkg : nat * (tensor * tensor)) in
               do u <- opt_update (fst st) i f false stepnr k g;
               Ok (fst (fst u), snd st ++ [snd (fst u)]))
             (combine (seq 0 (length ks)) (combine ks gs)) (o, []);
    (* `zip` stops at the shorter operand: kernels without a gradient stay unchanged *)
    Ok (fst r, snd r ++ skipn (length (snd r)) ks).

  Definition set_d_params (l : dense) (w : tensor) (b : option tensor) : dense :=
    {| d_inputs := d_inputs l; d_outputs := d_outputs l; d_loops := d_loops l;
       d_weights := w; d_bias := b; d_act := d_act l; d_dropout := d_dropout l;
       d_training := d_training l |}.
  Definition set_c_kernels (l : conv) (ks : list tensor) : conv :=
    {| c_inputs := c_inputs l; c_outputs := c_outputs l; c_loops := c_loops l; c_kernels := ks;
       c_stride := c_stride l; c_padding := c_padding l; c_dilation := c_dilation l;
       c_act := c_act l; c_dropout := c_dropout l; c_flatten := c_flatten l;
       c_training := c_training l |}.
  Definition set_dc_kernels (l : deconv) (ks : list tensor) : deconv :=
    {| dc_inputs := dc_inputs l; dc_outputs := dc_outputs l; dc_loops := dc_loops l; dc_kernels := ks;
       dc_stride := dc_stride l; dc_padding := dc_padding l;
       dc_act := dc_act l; dc_dropout := dc_dropout l; dc_flatten := dc_flatten l;
       dc_training := dc_training l |}.

  Definition update_dense (o : optimizer) (i : nat) (stepnr : Z) (l : dense)
             (wg : tensor) (bg : option tensor) : res (optimizer * dense) :=
    do u <- opt_update o i 0 false stepnr (d_weights l) wg;
    let '(o1, w1, _) := u in
    match d_bias l with
    | Some b =>
        do g <- (match bg with Some g => Ok g | None => Panic P_unwrap end);
        do u2 <- opt_update o1 i 0 true stepnr b g;
        let '(o2, b1, _) := u2 in
        Ok (o2, set_d_params l w1 (Some b1))
    | None => Ok (o1, set_d_params l w1 None)
    end.

  Definition update_blayer (o : optimizer) (i : nat) (stepnr : Z) (b : blayer)
             (wg : tensor) (bg : option tensor) : res (optimizer * blayer) :=
    match b with
    | BDense l => do r <- update_dense o i stepnr l wg bg; Ok (fst r, BDense (snd r))
    | BConv l => do r <- update_kernels o i stepnr (c_kernels l) wg; Ok (fst r, BConv (set_c_kernels l (snd r)))
    | BDeconv l => do r <- update_kernels o i stepnr (dc_kernels l) wg; Ok (fst r, BDeconv (set_dc_kernels l (snd r)))
    | BMaxpool _ => Ok (o, b)
    end.

  (* coupling: combine the parameters of the copies and write the result to every copy *)
  Definition couple_acc (acc : accumulation) (count : T) (first : tensor) (rest : list tensor)
    : res tensor :=
    match acc with
    | AccAdd => foldM (@add_inplace N) rest first
    | AccMul => foldM (@mul_inplace N) rest first
    | AccSub => foldM (@sub_inplace N) rest first
    | AccMean => do s <- foldM (@add_inplace N) rest first; Ok (div_scalar_inplace s count)
    | AccOverwrite => Panic P_explicit
    end.

  Definition blayer_weights (b : blayer) : option (list tensor * option tensor) :=
    match b with
    | BDense l => Some ([d_weights l], d_bias l)
    | BConv l => Some (c_kernels l, None)
    | BDeconv l => Some (dc_kernels l, None)
    | BMaxpool _ => None
    end.

  Definition blayer_set_weights (b : blayer) (w : list tensor) (bias : option tensor) : res blayer :=
    match b with
    | BDense l =>
        do w0 <- nth_res w 0;
        match d_bias l with
        | Some _ => match bias with
                    | Some b' => Ok (BDense (set_d_params l w0 (Some b')))
                    | None => Panic P_unwrap
                    end
        | None => Ok (BDense (set_d_params l w0 None))
        end
    | BConv l => Ok (BConv (set_c_kernels l w))
    | BDeconv l => Ok (BDeconv (set_dc_kernels l w))
    | BMaxpool _ => Ok b
    end.

  (* element-wise combination of two parameter sets (a dense weight matrix, or all kernels of a
     convolution held as Data::Nested) *)
  Definition couple_lists (nested : bool) (acc : accumulation) (count : T) (ws : list (list tensor))
    : res (list tensor) :=
    match ws with
    | [] => Panic P_index          (* `weights.remove(0)` on an empty vector *)
    | first :: rest =>
        check (forallb (fun r => length r =? length first) rest) else P_shape;
        (* sub_inplace / mul_inplace have no arm for Data::Nested (the kernels of a convolution) *)
        check (negb (nested && negb (length rest =? 0)
                     && match acc with AccSub | AccMul => true | _ => false end)) else P_explicit;
        mapM (fun k => do f <- nth_res first k;
                       do rs <- mapM (fun r => nth_res r k) rest;
                       couple_acc acc count f rs) (seq 0 (length first))
    end.

  Definition couple_one (acc : accumulation) (layers : list blayer) (couple : list nat)
    : res (list blayer) :=
    do members <- mapM (nth_res layers) couple;
    let ps := flat_map (fun b => match blayer_weights b with Some p => [p] | None => [] end) members in
    let count := of_nat (length ps) in
    let nested := existsb (fun b => match b with BConv _ | BDeconv _ => true | _ => false end) members in
    (* layers without parameters (max-pool) have nothing to couple *)
    if (length ps =? 0) then Ok layers else
    do w <- couple_lists nested acc count (map fst ps);
    let biases := flat_map (fun p => match snd p with Some b => [b] | None => [] end) ps in
    do bias <- (match biases with
                | [] => Ok None
                | b0 :: brest => do b <- couple_acc acc count b0 brest; Ok (Some b)
                end);
    foldM (fun ls i => do l <- nth_res ls i; do l' <- blayer_set_weights l w bias; Ok (set_nth ls i l'))
          couple layers.

  Definition feedback_update (b : feedback) (stepnr : Z) (wgs : list tensor) (bgs : list (option tensor))
    : res feedback :=
    let len := length (f_layers b) in
    do st <- foldM (fun (st : optimizer * list blayer) il =>
                let '(i, lyr) := (il : nat * blayer) in
                match lyr with
                | BMaxpool _ => Ok (fst st, lyr :: snd st)
                | _ =>
                    do wg <- nth_res wgs i;
                    do bg <- nth_res bgs i;
                    do r <- update_blayer (fst st) i stepnr lyr wg bg;
                    Ok (fst r, snd r :: snd st)
                end)
              (combine (seq 0 len) (rev (f_layers b))) (f_optimizer b, []);
    let '(o, layers) := st in
    do layers' <- foldM (fun ls c => couple_one (f_accumulation b) ls c) (f_coupled b) layers;
    Ok (set_f_optimizer (set_f_layers b layers') o).

  (* ------------------------------------------------------------ the network *)
  Record network := {
    n_input : shape;
    n_layers : list layer;
    n_loopbacks : list (nat * (nat * nat * bool));     (* outof -> (into, iterations, inskips) *)
    n_loopacc : accumulation;
    n_connect : list (nat * nat);                      (* into -> infrom *)
    n_skipacc : accumulation;
    n_optimizer : optimizer;
    n_objective : objective * option (T * T) }.

  Definition network_new (input : shape) : network :=
    {| n_input := input; n_layers := []; n_loopbacks := []; n_loopacc := AccMean;
       n_connect := []; n_skipacc := AccAdd; n_optimizer := default_sgd;
       n_objective := (MSE, None) |}.

  Definition set_layers (n : network) (ls : list layer) : network :=
    {| n_input := n_input n; n_layers := ls; n_loopbacks := n_loopbacks n; n_loopacc := n_loopacc n;
       n_connect := n_connect n; n_skipacc := n_skipacc n; n_optimizer := n_optimizer n;
       n_objective := n_objective n |}.

  Definition is_triple (s : shape) : bool := match s with STriple _ _ _ => true | _ => false end.
  Definition is_single (s : shape) : bool := match s with SSingle _ => true | _ => false end.

  Definition set_c_flatten (l : conv) : conv :=
    {| c_inputs := c_inputs l; c_outputs := c_outputs l; c_loops := c_loops l; c_kernels := c_kernels l;
       c_stride := c_stride l; c_padding := c_padding l; c_dilation := c_dilation l;
       c_act := c_act l; c_dropout := c_dropout l; c_flatten := true; c_training := c_training l |}.
  Definition set_dc_flatten (l : deconv) : deconv :=
    {| dc_inputs := dc_inputs l; dc_outputs := dc_outputs l; dc_loops := dc_loops l; dc_kernels := dc_kernels l;
       dc_stride := dc_stride l; dc_padding := dc_padding l;
       dc_act := dc_act l; dc_dropout := dc_dropout l; dc_flatten := true; dc_training := dc_training l |}.
  Definition set_m_flatten (l : maxpool) : maxpool :=
    {| m_inputs := m_inputs l; m_outputs := m_outputs l; m_loops := m_loops l;
       m_kernel := m_kernel l; m_stride := m_stride l; m_flatten := true |}.

  Definition flat_shape (s : shape) : res shape :=
    match s with STriple c h w => Ok (SSingle (c * h * w)) | _ => Panic P_explicit end.

  (* Network::dense *)
  Definition add_dense (seeds : nat -> Z) (n : network) (outputs : nat) (a : activation) (bias : bool)
             (dropout : option T) : res network :=
    match last_opt (n_layers n) with
    | None =>
        check (is_single (n_input n)) else P_explicit;
        do l <- dense_create N seeds (n_input n) (SSingle outputs) a bias dropout;
        Ok (set_layers n [LDense l])
    | Some prev =>
        do pi <- (match prev with
                  | LDense p => Ok (prev, d_outputs p)
                  | LConv p => do s <- flat_shape (c_outputs p); Ok (LConv (set_c_flatten p), s)
                  | LDeconv p => do s <- flat_shape (dc_outputs p); Ok (LDeconv (set_dc_flatten p), s)
                  | LMaxpool p => do s <- flat_shape (m_outputs p); Ok (LMaxpool (set_m_flatten p), s)
                  | LFeedback p =>
                      match f_outputs p with
                      | SSingle _ => Ok (prev, f_outputs p)
                      | STriple c h w => Ok (LFeedback (set_f_flatten p true), SSingle (c * h * w))
                      | _ => Panic P_explicit
                      end
                  end);
        do l <- dense_create N seeds (snd pi) (SSingle outputs) a bias dropout;
        Ok (set_layers n (removelast (n_layers n) ++ [fst pi; LDense l]))
    end.

  Definition next_input (n : network) (spatial_first : bool) : res shape :=
    match last_opt (n_layers n) with
    | None => check (negb spatial_first || is_triple (n_input n)) else P_explicit; Ok (n_input n)
    | Some prev => Ok (layer_outputs prev)
    end.

  Definition add_conv (seeds : nat -> Z) (n : network) (filters : nat)
             (kernel stride padding dilation : nat * nat) (a : activation) (dropout : option T)
    : res network :=
    do inp <- next_input n true;
    do l <- conv_create N seeds inp filters a kernel stride padding dilation dropout;
    Ok (set_layers n (n_layers n ++ [LConv l])).

  Definition add_deconv (seeds : nat -> Z) (n : network) (filters : nat)
             (kernel stride padding : nat * nat) (a : activation) (dropout : option T)
    : res network :=
    do inp <- next_input n true;
    do l <- deconv_create N seeds inp filters a kernel stride padding dropout;
    Ok (set_layers n (n_layers n ++ [LDeconv l])).

  Definition add_maxpool (n : network) (kernel stride : nat * nat) : res network :=
    do inp <- next_input n true;
    do l <- maxpool_create N inp kernel stride;
    Ok (set_layers n (n_layers n ++ [LMaxpool l])).

  (* feedback::Layer : the simplified layer descriptions given to Network::feedback *)
  Inductive fspec :=
  | FDense (outputs : nat) (a : activation) (bias : bool) (dropout : option T)
  | FConv (filters : nat) (a : activation) (kernel stride padding dilation : nat * nat) (dropout : option T)
  | FDeconv (filters : nat) (a : activation) (kernel stride padding : nat * nat) (dropout : option T)
  | FMaxpool (kernel stride : nat * nat).

  Definition add_feedback (seeds : nat -> nat -> Z) (n : network) (specs : list fspec) (loops : nat)
             (inskips outskips : bool) (acc : accumulation) : res network :=
    check (negb (length specs =? 0)) else P_explicit;
    do inp <- next_input n false;
    do st <- foldM (fun (st : shape * list blayer) ks =>
                let '(k, s) := (ks : nat * fspec) in
                do b <- (match s with
                         | FDense o a bias dr =>
                             do l <- dense_create N (seeds k) (fst st) (SSingle o) a bias dr; Ok (BDense l)
                         | FConv f a ke st_ pa di dr =>
                             do l <- conv_create N (seeds k) (fst st) f a ke st_ pa di dr; Ok (BConv l)
                         | FDeconv f a ke st_ pa dr =>
                             do l <- deconv_create N (seeds k) (fst st) f a ke st_ pa dr; Ok (BDeconv l)
                         | FMaxpool ke st_ =>
                             do l <- maxpool_create N (fst st) ke st_; Ok (BMaxpool l)
                         end);
                Ok (blayer_outputs b, snd st ++ [b]))
              (combine (seq 0 (length specs)) specs) (inp, []);
    do blk <- feedback_create (snd st) loops inskips outskips acc;
    Ok (set_layers n (n_layers n ++ [LFeedback blk])).

  (* ---- loopback ---- *)
  Definition bump_loops (iterations : nat) (l : layer) : res layer :=
    let it := of_nat iterations in
    match l with
    | LDense d => Ok (LDense {| d_inputs := d_inputs d; d_outputs := d_outputs d;
                                d_loops := nadd N (d_loops d) it; d_weights := d_weights d;
                                d_bias := d_bias d; d_act := d_act d; d_dropout := d_dropout d;
                                d_training := d_training d |})
    | LConv c => Ok (LConv {| c_inputs := c_inputs c; c_outputs := c_outputs c;
                              c_loops := nadd N (c_loops c) it; c_kernels := c_kernels c;
                              c_stride := c_stride c; c_padding := c_padding c; c_dilation := c_dilation c;
                              c_act := c_act c; c_dropout := c_dropout c; c_flatten := c_flatten c;
                              c_training := c_training c |})
    | LDeconv c => Ok (LDeconv {| dc_inputs := dc_inputs c; dc_outputs := dc_outputs c;
                                  dc_loops := nadd N (dc_loops c) it; dc_kernels := dc_kernels c;
                                  dc_stride := dc_stride c; dc_padding := dc_padding c;
                                  dc_act := dc_act c; dc_dropout := dc_dropout c;
                                  dc_flatten := dc_flatten c; dc_training := dc_training c |})
    | LMaxpool m => Ok (LMaxpool {| m_inputs := m_inputs m; m_outputs := m_outputs m;
                                    m_loops := nadd N (m_loops m) it; m_kernel := m_kernel m;
                                    m_stride := m_stride m; m_flatten := m_flatten m |})
    | LFeedback _ => Panic P_explicit
    end.

  Definition add_loopback (n : network) (outof into iterations : nat) (inskips : bool) : res network :=
    let len := length (n_layers n) in
    check (negb ((len <? outof) || (len <=? into) || (outof <? into))) else P_explicit;
    check (negb (alist_mem (n_loopbacks n) outof)) else P_explicit;
    do lin <- nth_res (n_layers n) into;
    do lout <- nth_res (n_layers n) outof;
    check (shape_eqb (layer_inputs lin) (layer_outputs lout)) else P_shape;
    do ls <- mapM (fun kl => let '(k, l) := (kl : nat * layer) in
                             if (into <=? k) && (k <=? outof) then bump_loops iterations l else Ok l)
                  (combine (seq 0 len) (n_layers n));
    Ok {| n_input := n_input n; n_layers := ls;
          n_loopbacks := alist_set (n_loopbacks n) outof (into, iterations, inskips);
          n_loopacc := n_loopacc n; n_connect := n_connect n; n_skipacc := n_skipacc n;
          n_optimizer := n_optimizer n; n_objective := n_objective n |}.

  (* ---- connect ---- *)
  Definition connect_count (l : layer) (is_from : bool) : res nat :=
    match l with
    | LDense d => match d_inputs d with SSingle k => Ok k | _ => Panic P_explicit end
    | LConv c => match c_inputs c with STriple a b c' => Ok (a * b * c') | _ => Panic P_explicit end
    | LDeconv c => match dc_inputs c with STriple a b c' => Ok (a * b * c') | _ => Panic P_explicit end
    | LMaxpool m =>
        match m_inputs m with
        | SSingle k => Ok k | STriple a b c' => Ok (a * b * c') | _ => Panic P_explicit end
    | LFeedback f =>
        match f_inputs f with
        | SSingle k => Ok k | STriple a b c' => Ok (a * b * c') | _ => Panic P_explicit end
    end.

  Definition add_connect (n : network) (infrom into : nat) : res network :=
    let len := length (n_layers n) in
    check (negb ((len <? infrom) || (len <=? into) || (into <? infrom))) else P_explicit;
    check (negb (alist_mem (n_connect n) into)) else P_explicit;
    do lf <- nth_res (n_layers n) infrom;
    do lt <- nth_res (n_layers n) into;
    do cf <- connect_count lf true;
    do ct <- connect_count lt false;
    check (cf =? ct) else P_explicit;
    Ok {| n_input := n_input n; n_layers := n_layers n; n_loopbacks := n_loopbacks n;
          n_loopacc := n_loopacc n; n_connect := alist_set (n_connect n) into infrom;
          n_skipacc := n_skipacc n; n_optimizer := n_optimizer n; n_objective := n_objective n |}.

  Definition set_accumulation (n : network) (skip loop : accumulation) : network :=
    {| n_input := n_input n; n_layers := n_layers n; n_loopbacks := n_loopbacks n;
       n_loopacc := loop; n_connect := n_connect n; n_skipacc := skip;
       n_optimizer := n_optimizer n; n_objective := n_objective n |}.
  (* Network::set_activation(layer, activation): replaces the activation of a dense / convolution /
     deconvolution layer; panics on an index out of bounds, on max-pool layers and on feedback blocks *)
  Definition set_activation (n : network) (i : nat) (a : activation) : res network :=
    do l <- (match nth_error (n_layers n) i with Some l => Ok l | None => Panic P_explicit end);
    do l' <- (match l with
              | LDense d => Ok (LDense {| d_inputs := d_inputs d; d_outputs := d_outputs d; d_loops := d_loops d;
                                          d_weights := d_weights d; d_bias := d_bias d; d_act := a;
                                          d_dropout := d_dropout d; d_training := d_training d |})
              | LConv c => Ok (LConv {| c_inputs := c_inputs c; c_outputs := c_outputs c; c_loops := c_loops c;
                                        c_kernels := c_kernels c; c_stride := c_stride c; c_padding := c_padding c;
                                        c_dilation := c_dilation c; c_act := a; c_dropout := c_dropout c;
                                        c_flatten := c_flatten c; c_training := c_training c |})
              | LDeconv c => Ok (LDeconv {| dc_inputs := dc_inputs c; dc_outputs := dc_outputs c; dc_loops := dc_loops c;
                                            dc_kernels := dc_kernels c; dc_stride := dc_stride c;
                                            dc_padding := dc_padding c; dc_act := a; dc_dropout := dc_dropout c;
                                            dc_flatten := dc_flatten c; dc_training := dc_training c |})
              | _ => Panic P_explicit
              end);
    Ok (set_layers n (set_nth (n_layers n) i l')).

  (* direct assignment of the public fields `loopbacks` / `connect` (as the crate's examples do) *)
  Definition set_loopbacks (n : network) (l : list (nat * (nat * nat * bool))) : network :=
    {| n_input := n_input n; n_layers := n_layers n; n_loopbacks := l;
       n_loopacc := n_loopacc n; n_connect := n_connect n; n_skipacc := n_skipacc n;
       n_optimizer := n_optimizer n; n_objective := n_objective n |}.
  Definition set_connect (n : network) (l : list (nat * nat)) : network :=
    {| n_input := n_input n; n_layers := n_layers n; n_loopbacks := n_loopbacks n;
       n_loopacc := n_loopacc n; n_connect := l; n_skipacc := n_skipacc n;
       n_optimizer := n_optimizer n; n_objective := n_objective n |}.
  Definition set_objective (n : network) (o : objective) (cl : option (T * T)) : network :=
    {| n_input := n_input n; n_layers := n_layers n; n_loopbacks := n_loopbacks n;
       n_loopacc := n_loopacc n; n_connect := n_connect n; n_skipacc := n_skipacc n;
       n_optimizer := n_optimizer n; n_objective := (o, cl) |}.

  (* ---- set_optimizer: the zero-filled state vectors, layers in reverse order ---- *)
  Definition zero_single (n : nat) : tensor := t_single N (repeat zero n).
  Definition kernel_slot (ks : list tensor) : res (list (list tensor)) :=
    match ks with
    | k :: _ =>
        match tshape k with
        | STriple ch kh kw =>
            (* built with Tensor::triple, whose shape is read off the data *)
            do z <- t_triple N (repeat (repeat (repeat zero kw) kh) ch);
            Ok (repeat [z] (length ks))
        | _ => Panic P_explicit
        end
    | [] => Panic P_index
    end.
  Definition dense_slot (l : dense) : res (list (list tensor)) :=
    match tshape (d_weights l) with
    | SDouble o i =>
        do z <- t_double N (repeat (repeat zero i) o);
        Ok [[z; match d_bias l with Some _ => zero_single o | None => zero_single 0 end]]
    | _ => Panic P_explicit
    end.
  Definition empty_slot : list (list tensor) := [[zero_single 0]].

  Definition blayer_slot (b : blayer) : res (list (list tensor)) :=
    match b with
    | BDense l => dense_slot l
    | BConv l => kernel_slot (c_kernels l)
    | BDeconv l => kernel_slot (dc_kernels l)
    | BMaxpool _ => Ok empty_slot
    end.
  Definition layer_slot (l : layer) : res (list (list tensor)) :=
    match l with
    | LDense d => dense_slot d
    | LConv c => kernel_slot (c_kernels c)
    | LDeconv c => kernel_slot (dc_kernels c)
    | LMaxpool _ => Ok empty_slot
    | LFeedback _ => Ok empty_slot
    end.

  Definition copy_optimizer (b : feedback) (o : optimizer) : res feedback :=
    do v <- mapM blayer_slot (rev (f_layers b));
    Ok (set_f_optimizer b (opt_validate o v)).

  Definition set_optimizer (n : network) (o : optimizer) : res network :=
    do v <- mapM layer_slot (rev (n_layers n));
    let o' := opt_validate o v in
    do ls <- mapM (fun l => match l with
                            | LFeedback b => do b' <- copy_optimizer b o'; Ok (LFeedback b')
                            | _ => Ok l
                            end) (n_layers n);
    Ok {| n_input := n_input n; n_layers := ls; n_loopbacks := n_loopbacks n;
          n_loopacc := n_loopacc n; n_connect := n_connect n; n_skipacc := n_skipacc n;
          n_optimizer := o'; n_objective := n_objective n |}.

  Definition layer_parameters (l : layer) : res nat :=
    match l with
    | LDense d => dense_parameters d
    | LConv c => conv_parameters c
    | LDeconv c => deconv_parameters c
    | LFeedback b => feedback_parameters b
    | LMaxpool _ => Ok 0
    end.
  Definition network_parameters (n : network) : res nat :=
    do ps <- mapM layer_parameters (n_layers n); Ok (sum_nat ps).

  (* ------------------------------------------------------------ forward *)
  Record fwd := {
    fw_pre : list tensor; fw_post : list tensor;
    fw_max : list (option mpval);
    (* per block: unactivated, activated and the block's own max-pool indices *)
    fw_fb : list (list tensor * list tensor * list (option maxidx)) }.

  (* `_forward(input, from, to)` : plain sequential pass through layers[from..to] *)
  Definition forward_range (layers : list layer) (input : tensor) : res fwd :=
    do st <- foldM (fun (st : fwd) l =>
                do x <- (match last_opt (fw_post st) with Some t => Ok t | None => Panic P_unwrap end);
                match l with
                | LDense d => do r <- dense_forward d x;
                    Ok {| fw_pre := fw_pre st ++ [fst r]; fw_post := fw_post st ++ [snd r];
                          fw_max := fw_max st ++ [None]; fw_fb := fw_fb st |}
                | LConv c => do r <- conv_forward c x;
                    Ok {| fw_pre := fw_pre st ++ [fst r]; fw_post := fw_post st ++ [snd r];
                          fw_max := fw_max st ++ [None]; fw_fb := fw_fb st |}
                | LDeconv c => do r <- deconv_forward c x;
                    Ok {| fw_pre := fw_pre st ++ [fst r]; fw_post := fw_post st ++ [snd r];
                          fw_max := fw_max st ++ [None]; fw_fb := fw_fb st |}
                | LMaxpool m => do r <- maxpool_forward m x;
                    Ok {| fw_pre := fw_pre st ++ [fst (fst r)]; fw_post := fw_post st ++ [snd (fst r)];
                          fw_max := fw_max st ++ [Some (MPIdx (snd r))]; fw_fb := fw_fb st |}
                | LFeedback b => do r <- feedback_forward b x;
                    Ok {| fw_pre := fw_pre st ++ [fo_pre r]; fw_post := fw_post st ++ [fo_post r];
                          fw_max := fw_max st ++ [Some (MPNested (fo_max r))];
                          fw_fb := fw_fb st ++ [(fo_unactivated r, fo_activated r, fo_max r)] |}
                end)
              layers {| fw_pre := []; fw_post := [input]; fw_max := []; fw_fb := [] |};
    (* `activated.remove(0)` *)
    Ok {| fw_pre := fw_pre st; fw_post := tl (fw_post st); fw_max := fw_max st; fw_fb := fw_fb st |}.

  Definition sub_layers (layers : list layer) (from to : nat) : list layer :=
    firstn (to - from) (skipn from layers).

  (* Tensor::extend on maxpool indices *)
  Definition extend_idx (a b : maxidx) : maxidx :=
    zipk (zipk (zipk (fun (x y : list (nat * nat)) => x ++ y))) a b.

  Definition upd_res {A} (l : list A) (i : nat) (f : A -> res A) : res (list A) :=
    do x <- nth_res l i; do y <- f x; Ok (set_nth l i y).

  (* combine the stored tensors of layer j with the loop iterations' tensors *)
  Definition loop_combine (acc : accumulation) (x : tensor) (its : list tensor) : res tensor :=
    match acc with
    | AccAdd => foldM (@add_inplace N) its x
    | AccSub => foldM (@sub_inplace N) its x
    | AccMul => foldM (@mul_inplace N) its x
    | AccOverwrite => match last_opt its with Some t => Ok t | None => Ok x end
    | AccMean => mean_inplace x its
    end.

  Definition loop_combine_max (acc : accumulation) (m : option mpval) (its : list (option mpval))
    : res (option mpval) :=
    match m with
    | Some (MPIdx m0) =>
        do fs <- mapM (fun it => match it with
                                 | Some (MPIdx f) => Ok f
                                 | _ => Panic P_explicit end) its;
        match acc with
        | AccOverwrite => Ok (Some (MPIdx (match last_opt fs with Some f => f | None => m0 end)))
        | _ => Ok (Some (MPIdx (fold_left extend_idx fs m0)))
        end
    | Some (MPNested _) =>
        (* Tensor::extend is unimplemented for nested indices; only reached if iterations > 0 *)
        match its with [] => Ok m | _ => Panic P_explicit end
    | None => Ok None
    end.

  Definition forward (n : network) (input : tensor) : res fwd :=
    let layers := n_layers n in
    foldM (fun (st : fwd) i =>
      do x0 <- (match last_opt (fw_post st) with Some t => Ok t | None => Panic P_unwrap end);
      do x <- (match alist_get (n_connect n) i with
               | Some src =>
                   do s0 <- nth_res (fw_post st) src;
                   do s <- (if shape_eqb (tshape s0) (tshape x0) then Ok s0 else reshape s0 (tshape x0));
                   match n_skipacc n with
                   | AccAdd => add_inplace x0 s
                   | AccSub => sub_inplace x0 s
                   | AccMul => mul_inplace x0 s
                   | AccOverwrite => Ok s
                   | AccMean => mean_inplace x0 [s]
                   end
               | None => Ok x0
               end);
      do r <- forward_range (sub_layers layers i (i + 1)) x;
      let st1 := {| fw_pre := fw_pre st ++ fw_pre r; fw_post := fw_post st ++ fw_post r;
                    fw_max := fw_max st ++ fw_max r; fw_fb := fw_fb st ++ fw_fb r |} in
      match alist_get (n_loopbacks n) i with
      | None => Ok st1
      | Some (into, iterations, inskips) =>
          do li <- nth_res layers into;
          do lo <- nth_res layers i;
          do first <- (match last_opt (fw_post st1) with Some t => Ok t | None => Panic P_unwrap end);
          (* the loop iterations *)
          do its <- foldM (fun (acc : tensor * list fwd) _ =>
                      let cur0 := fst acc in
                      do cur1 <- (if shape_eqb (layer_inputs li) (tshape cur0) then Ok cur0
                                  else reshape cur0 (layer_inputs li));
                      do cur <- (if inskips then do a <- nth_res (fw_post st1) into; add_inplace cur1 a
                                 else Ok cur1);
                      do f <- forward_range (sub_layers layers into (i + 1)) cur;
                      do lst <- (match last_opt (fw_post f) with Some t => Ok t | None => Panic P_unwrap end);
                      Ok (lst, snd acc ++ [f]))
                    (seq 0 iterations) (first, []);
          let fs := snd its in
          (* accumulate into the stored tensors of layers into..=i *)
          foldM (fun (st2 : fwd) ij =>
            let '(idx, j) := (ij : nat * nat) in
            do fpre <- mapM (fun f => nth_res (fw_pre f) idx) fs;
            do fpost <- mapM (fun f => nth_res (fw_post f) idx) fs;
            do fmax <- mapM (fun f => nth_res (fw_max f) idx) fs;
            do pre' <- upd_res (fw_pre st2) j (fun t => loop_combine (n_loopacc n) t fpre);
            do post' <- upd_res (fw_post st2) (j + 1) (fun t => loop_combine (n_loopacc n) t fpost);
            do max' <- (match nth_error (fw_max st2) j with
                        | Some m => do m' <- loop_combine_max (n_loopacc n) m fmax;
                                    Ok (set_nth (fw_max st2) j m')
                        | None => Ok (fw_max st2)
                        end);
            Ok {| fw_pre := pre'; fw_post := post'; fw_max := max'; fw_fb := fw_fb st2 |})
            (combine (seq 0 (i + 1 - into)) (seq into (i + 1 - into))) st1
      end)
      (seq 0 (length layers))
      {| fw_pre := []; fw_post := [input]; fw_max := []; fw_fb := [] |}.

  Definition predict (n : network) (input : tensor) : res tensor :=
    do f <- forward n input;
    match last_opt (fw_post f) with Some t => Ok t | None => Panic P_unwrap end.

  (* ------------------------------------------------------------ backward *)
  (* {to: from} -> {from: [to, ...]}: entries visited in key order, targets appended *)
  Definition invert_net_connect (m : list (nat * nat)) : list (nat * list nat) :=
    fold_left (fun inv kv =>
                 match alist_get inv (snd kv) with
                 | Some l => alist_set inv (snd kv) (l ++ [fst kv])
                 | None => alist_set inv (snd kv) [fst kv]
                 end) (sort_by_key m) [].

  Definition layer_backward (l : layer) (g input output : tensor) (mx : option mpval)
             (fb : option (list tensor * list tensor * list (option maxidx)))
    : res (tensor * grad * option bgrad) :=
    match l with
    | LDense d => do r <- dense_backward d g input output;
        Ok (fst (fst r), GPlain (snd (fst r)), option_map BPlain (snd r))
    | LConv c => do r <- conv_backward c g input output;
        Ok (fst (fst r), GPlain (snd (fst r)), option_map BPlain (snd r))
    | LDeconv c => do r <- deconv_backward c g input output;
        Ok (fst (fst r), GPlain (snd (fst r)), option_map BPlain (snd r))
    | LMaxpool m =>
        match mx with
        | Some (MPIdx idx) => do ig <- maxpool_backward m g idx; Ok (ig, GPlain (zero_single 0), None)
        | _ => Panic P_explicit
        end
    | LFeedback b =>
        match fb with
        | Some (unact, act, mps) =>
            do r <- feedback_backward b g unact act mps;
            Ok (fst (fst r), GNested (snd (fst r)), Some (BNestedOpt (snd r)))
        | None => Panic P_unwrap
        end
    end.

  (* returns the weight and bias gradients (reversed layer order) and every layer-input gradient *)
  Definition backward (n : network) (gradient : tensor) (f : fwd)
    : res (list grad * list (option bgrad) * list tensor) :=
    let layers := n_layers n in
    let len := length layers in
    let inv := invert_net_connect (n_connect n) in
    do st <- foldM (fun (st : list tensor * list grad * list (option bgrad) * list (list tensor * list tensor * list (option maxidx)) * list tensor) il =>
                let '(gs, wgs, bgs, fbs, ps) := st in
                let '(i, lyr) := (il : nat * layer) in
                let idx := len - i - 1 in
                do input0 <- nth_res (fw_post f) idx;
                (* the input the layer processed in forward: accumulated with its skip source *)
                do input <- (match alist_get (n_connect n) idx with
                             | Some src =>
                                 do s0 <- nth_res (fw_post f) src;
                                 do s <- (if shape_eqb (tshape s0) (tshape input0) then Ok s0
                                          else reshape s0 (tshape input0));
                                 match n_skipacc n with
                                 | AccAdd => add_inplace input0 s
                                 | AccSub => sub_inplace input0 s
                                 | AccMul => mul_inplace input0 s
                                 | AccOverwrite => Ok s
                                 | AccMean => mean_inplace input0 [s]
                                 end
                             | None => Ok input0
                             end);
                do output <- nth_res (fw_pre f) idx;
                do lastg <- (match last_opt gs with Some t => Ok t | None => Panic P_unwrap end);
                do mx <- nth_res (fw_max f) idx;
                let fb := match lyr with LFeedback _ => last_opt fbs | _ => None end in
                let fbs' := match lyr with LFeedback _ => removelast fbs | _ => fbs end in
                do r <- layer_backward lyr lastg input output mx fb;
                let '(g, wg, bg) := r in
                (* processed[len - idx]: gradient wrt. the input layer idx processed *)
                let ps' := ps ++ [g] in
                do g' <- (match alist_get inv idx with
                          | Some tos =>
                              foldM (fun gacc to =>
                                       do k <- csub len to;
                                       do g2 <- nth_res ps' k;
                                       do g2' <- reshape g2 (tshape gacc);
                                       add_inplace gacc g2') tos g
                          | None => Ok g
                          end);
                Ok (gs ++ [g'], wgs ++ [wg], bgs ++ [bg], fbs', ps'))
              (combine (seq 0 len) (rev layers)) ([gradient], [], [], fw_fb f, [gradient]);
    let '(gs, wgs, bgs, _, _) := st in
    Ok (wgs, bgs, gs).

  (* ------------------------------------------------------------ update *)
  Definition update (n : network) (stepnr : Z) (wgs : list grad) (bgs : list (option bgrad))
    : res network :=
    let len := length (n_layers n) in
    do st <- foldM (fun (st : optimizer * list layer) il =>
                let '(i, lyr) := (il : nat * layer) in
                match lyr with
                | LMaxpool _ => Ok (fst st, lyr :: snd st)
                | LDense d =>
                    do wg <- nth_res wgs i; do bg <- nth_res bgs i;
                    match wg with
                    | GPlain w =>
                        do r <- update_dense (fst st) i stepnr d w
                                  (match bg with Some (BPlain b) => Some b | _ => None end);
                        Ok (fst r, LDense (snd r) :: snd st)
                    | _ => Panic P_explicit
                    end
                | LConv c =>
                    do wg <- nth_res wgs i;
                    match wg with
                    | GPlain w => do r <- update_kernels (fst st) i stepnr (c_kernels c) w;
                                  Ok (fst r, LConv (set_c_kernels c (snd r)) :: snd st)
                    | _ => Panic P_explicit
                    end
                | LDeconv c =>
                    do wg <- nth_res wgs i;
                    match wg with
                    | GPlain w => do r <- update_kernels (fst st) i stepnr (dc_kernels c) w;
                                  Ok (fst r, LDeconv (set_dc_kernels c (snd r)) :: snd st)
                    | _ => Panic P_explicit
                    end
                | LFeedback b =>
                    do wg <- nth_res wgs i; do bg <- nth_res bgs i;
                    match wg, bg with
                    | GNested w, Some (BNestedOpt bb) =>
                        do b' <- feedback_update b stepnr w bb; Ok (fst st, LFeedback b' :: snd st)
                    | _, _ => Panic P_explicit
                    end
                end)
              (combine (seq 0 len) (rev (n_layers n))) (n_optimizer n, []);
    Ok {| n_input := n_input n; n_layers := snd st; n_loopbacks := n_loopbacks n;
          n_loopacc := n_loopacc n; n_connect := n_connect n; n_skipacc := n_skipacc n;
          n_optimizer := fst st; n_objective := n_objective n |}.
End Network.

Arguments FDense {N} outputs a bias dropout.
Arguments FConv {N} filters a kernel stride padding dilation dropout.
Arguments FDeconv {N} filters a kernel stride padding dropout.
Arguments FMaxpool {N} kernel stride.
