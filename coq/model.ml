
type __ = Obj.t
let __ = let rec f _ = Obj.repr f in Obj.repr f

(** val xorb : bool -> bool -> bool **)

let xorb b1 b2 =
  if b1 then if b2 then false else true else b2

(** val negb : bool -> bool **)

let negb = function
| true -> false
| false -> true

type nat =
| O
| S of nat

(** val option_map : ('a1 -> 'a2) -> 'a1 option -> 'a2 option **)

let option_map f = function
| Some a -> Some (f a)
| None -> None

(** val fst : ('a1 * 'a2) -> 'a1 **)

let fst = function
| (x, _) -> x

(** val snd : ('a1 * 'a2) -> 'a2 **)

let snd = function
| (_, y) -> y

(** val length : 'a1 list -> nat **)

let rec length = function
| [] -> O
| _ :: l' -> S (length l')

(** val app : 'a1 list -> 'a1 list -> 'a1 list **)

let rec app l m =
  match l with
  | [] -> m
  | a :: l1 -> a :: (app l1 m)

type comparison =
| Eq
| Lt
| Gt

(** val compOpp : comparison -> comparison **)

let compOpp = function
| Eq -> Eq
| Lt -> Gt
| Gt -> Lt

module Coq__1 = struct
 (** val add : nat -> nat -> nat **)
 let rec add n m =
   match n with
   | O -> m
   | S p -> S (add p m)
end
include Coq__1

(** val mul : nat -> nat -> nat **)

let rec mul n m =
  match n with
  | O -> O
  | S p -> add m (mul p m)

(** val sub : nat -> nat -> nat **)

let rec sub n m =
  match n with
  | O -> n
  | S k -> (match m with
            | O -> n
            | S l -> sub k l)

(** val eqb : bool -> bool -> bool **)

let eqb b1 b2 =
  if b1 then b2 else if b2 then false else true

module Nat =
 struct
  (** val add : nat -> nat -> nat **)

  let rec add n m =
    match n with
    | O -> m
    | S p -> S (add p m)

  (** val sub : nat -> nat -> nat **)

  let rec sub n m =
    match n with
    | O -> n
    | S k -> (match m with
              | O -> n
              | S l -> sub k l)

  (** val eqb : nat -> nat -> bool **)

  let rec eqb n m =
    match n with
    | O -> (match m with
            | O -> true
            | S _ -> false)
    | S n' -> (match m with
               | O -> false
               | S m' -> eqb n' m')

  (** val leb : nat -> nat -> bool **)

  let rec leb n m =
    match n with
    | O -> true
    | S n' -> (match m with
               | O -> false
               | S m' -> leb n' m')

  (** val ltb : nat -> nat -> bool **)

  let ltb n m =
    leb (S n) m

  (** val min : nat -> nat -> nat **)

  let rec min n m =
    match n with
    | O -> O
    | S n' -> (match m with
               | O -> O
               | S m' -> S (min n' m'))

  (** val divmod : nat -> nat -> nat -> nat -> nat * nat **)

  let rec divmod x y q u =
    match x with
    | O -> (q, u)
    | S x' ->
      (match u with
       | O -> divmod x' y (S q) y
       | S u' -> divmod x' y q u')

  (** val div : nat -> nat -> nat **)

  let div x y = match y with
  | O -> y
  | S y' -> fst (divmod x y' O y')

  (** val modulo : nat -> nat -> nat **)

  let modulo x = function
  | O -> x
  | S y' -> sub y' (snd (divmod x y' O y'))
 end

(** val hd : 'a1 -> 'a1 list -> 'a1 **)

let hd default = function
| [] -> default
| x :: _ -> x

(** val tl : 'a1 list -> 'a1 list **)

let tl = function
| [] -> []
| _ :: m -> m

(** val nth : nat -> 'a1 list -> 'a1 -> 'a1 **)

let rec nth n l default =
  match n with
  | O -> (match l with
          | [] -> default
          | x :: _ -> x)
  | S m -> (match l with
            | [] -> default
            | _ :: t0 -> nth m t0 default)

(** val nth_error : 'a1 list -> nat -> 'a1 option **)

let rec nth_error l = function
| O -> (match l with
        | [] -> None
        | x :: _ -> Some x)
| S n0 -> (match l with
           | [] -> None
           | _ :: l0 -> nth_error l0 n0)

(** val removelast : 'a1 list -> 'a1 list **)

let rec removelast = function
| [] -> []
| a :: l0 -> (match l0 with
              | [] -> []
              | _ :: _ -> a :: (removelast l0))

(** val rev : 'a1 list -> 'a1 list **)

let rec rev = function
| [] -> []
| x :: l' -> app (rev l') (x :: [])

(** val concat : 'a1 list list -> 'a1 list **)

let rec concat = function
| [] -> []
| x :: l0 -> app x (concat l0)

(** val map : ('a1 -> 'a2) -> 'a1 list -> 'a2 list **)

let rec map f = function
| [] -> []
| a :: t0 -> (f a) :: (map f t0)

(** val flat_map : ('a1 -> 'a2 list) -> 'a1 list -> 'a2 list **)

let rec flat_map f = function
| [] -> []
| x :: t0 -> app (f x) (flat_map f t0)

(** val fold_left : ('a1 -> 'a2 -> 'a1) -> 'a2 list -> 'a1 -> 'a1 **)

let rec fold_left f l a0 =
  match l with
  | [] -> a0
  | b :: t0 -> fold_left f t0 (f a0 b)

(** val existsb : ('a1 -> bool) -> 'a1 list -> bool **)

let rec existsb f = function
| [] -> false
| a :: l0 -> (||) (f a) (existsb f l0)

(** val forallb : ('a1 -> bool) -> 'a1 list -> bool **)

let rec forallb f = function
| [] -> true
| a :: l0 -> (&&) (f a) (forallb f l0)

(** val filter : ('a1 -> bool) -> 'a1 list -> 'a1 list **)

let rec filter f = function
| [] -> []
| x :: l0 -> if f x then x :: (filter f l0) else filter f l0

(** val combine : 'a1 list -> 'a2 list -> ('a1 * 'a2) list **)

let rec combine l l' =
  match l with
  | [] -> []
  | x :: tl0 ->
    (match l' with
     | [] -> []
     | y :: tl' -> (x, y) :: (combine tl0 tl'))

(** val firstn : nat -> 'a1 list -> 'a1 list **)

let rec firstn n l =
  match n with
  | O -> []
  | S n0 -> (match l with
             | [] -> []
             | a :: l0 -> a :: (firstn n0 l0))

(** val skipn : nat -> 'a1 list -> 'a1 list **)

let rec skipn n l =
  match n with
  | O -> l
  | S n0 -> (match l with
             | [] -> []
             | _ :: l0 -> skipn n0 l0)

(** val seq : nat -> nat -> nat list **)

let rec seq start = function
| O -> []
| S len0 -> start :: (seq (S start) len0)

(** val repeat : 'a1 -> nat -> 'a1 list **)

let rec repeat x = function
| O -> []
| S k -> x :: (repeat x k)

type positive =
| XI of positive
| XO of positive
| XH

type z =
| Z0
| Zpos of positive
| Zneg of positive

module Pos =
 struct
  type mask =
  | IsNul
  | IsPos of positive
  | IsNeg
 end

module Coq_Pos =
 struct
  (** val succ : positive -> positive **)

  let rec succ = function
  | XI p -> XO (succ p)
  | XO p -> XI p
  | XH -> XO XH

  (** val add : positive -> positive -> positive **)

  let rec add x y =
    match x with
    | XI p ->
      (match y with
       | XI q -> XO (add_carry p q)
       | XO q -> XI (add p q)
       | XH -> XO (succ p))
    | XO p ->
      (match y with
       | XI q -> XI (add p q)
       | XO q -> XO (add p q)
       | XH -> XI p)
    | XH -> (match y with
             | XI q -> XO (succ q)
             | XO q -> XI q
             | XH -> XO XH)

  (** val add_carry : positive -> positive -> positive **)

  and add_carry x y =
    match x with
    | XI p ->
      (match y with
       | XI q -> XI (add_carry p q)
       | XO q -> XO (add_carry p q)
       | XH -> XI (succ p))
    | XO p ->
      (match y with
       | XI q -> XO (add_carry p q)
       | XO q -> XI (add p q)
       | XH -> XO (succ p))
    | XH ->
      (match y with
       | XI q -> XI (succ q)
       | XO q -> XO (succ q)
       | XH -> XI XH)

  (** val pred_double : positive -> positive **)

  let rec pred_double = function
  | XI p -> XI (XO p)
  | XO p -> XI (pred_double p)
  | XH -> XH

  type mask = Pos.mask =
  | IsNul
  | IsPos of positive
  | IsNeg

  (** val succ_double_mask : mask -> mask **)

  let succ_double_mask = function
  | IsNul -> IsPos XH
  | IsPos p -> IsPos (XI p)
  | IsNeg -> IsNeg

  (** val double_mask : mask -> mask **)

  let double_mask = function
  | IsPos p -> IsPos (XO p)
  | x0 -> x0

  (** val double_pred_mask : positive -> mask **)

  let double_pred_mask = function
  | XI p -> IsPos (XO (XO p))
  | XO p -> IsPos (XO (pred_double p))
  | XH -> IsNul

  (** val sub_mask : positive -> positive -> mask **)

  let rec sub_mask x y =
    match x with
    | XI p ->
      (match y with
       | XI q -> double_mask (sub_mask p q)
       | XO q -> succ_double_mask (sub_mask p q)
       | XH -> IsPos (XO p))
    | XO p ->
      (match y with
       | XI q -> succ_double_mask (sub_mask_carry p q)
       | XO q -> double_mask (sub_mask p q)
       | XH -> IsPos (pred_double p))
    | XH -> (match y with
             | XH -> IsNul
             | _ -> IsNeg)

  (** val sub_mask_carry : positive -> positive -> mask **)

  and sub_mask_carry x y =
    match x with
    | XI p ->
      (match y with
       | XI q -> succ_double_mask (sub_mask_carry p q)
       | XO q -> double_mask (sub_mask p q)
       | XH -> IsPos (pred_double p))
    | XO p ->
      (match y with
       | XI q -> double_mask (sub_mask_carry p q)
       | XO q -> succ_double_mask (sub_mask_carry p q)
       | XH -> double_pred_mask p)
    | XH -> IsNeg

  (** val mul : positive -> positive -> positive **)

  let rec mul x y =
    match x with
    | XI p -> add y (XO (mul p y))
    | XO p -> XO (mul p y)
    | XH -> y

  (** val iter : ('a1 -> 'a1) -> 'a1 -> positive -> 'a1 **)

  let rec iter f x = function
  | XI n' -> f (iter f (iter f x n') n')
  | XO n' -> iter f (iter f x n') n'
  | XH -> f x

  (** val div2 : positive -> positive **)

  let div2 = function
  | XI p0 -> p0
  | XO p0 -> p0
  | XH -> XH

  (** val div2_up : positive -> positive **)

  let div2_up = function
  | XI p0 -> succ p0
  | XO p0 -> p0
  | XH -> XH

  (** val compare_cont : comparison -> positive -> positive -> comparison **)

  let rec compare_cont r x y =
    match x with
    | XI p ->
      (match y with
       | XI q -> compare_cont r p q
       | XO q -> compare_cont Gt p q
       | XH -> Gt)
    | XO p ->
      (match y with
       | XI q -> compare_cont Lt p q
       | XO q -> compare_cont r p q
       | XH -> Gt)
    | XH -> (match y with
             | XH -> r
             | _ -> Lt)

  (** val compare : positive -> positive -> comparison **)

  let compare =
    compare_cont Eq

  (** val eqb : positive -> positive -> bool **)

  let rec eqb p q =
    match p with
    | XI p0 -> (match q with
                | XI q0 -> eqb p0 q0
                | _ -> false)
    | XO p0 -> (match q with
                | XO q0 -> eqb p0 q0
                | _ -> false)
    | XH -> (match q with
             | XH -> true
             | _ -> false)

  (** val leb : positive -> positive -> bool **)

  let leb x y =
    match compare x y with
    | Gt -> false
    | _ -> true

  (** val sqrtrem_step :
      (positive -> positive) -> (positive -> positive) -> (positive * mask)
      -> positive * mask **)

  let sqrtrem_step f g = function
  | (s, y) ->
    (match y with
     | IsPos r ->
       let s' = XI (XO s) in
       let r' = g (f r) in
       if leb s' r' then ((XI s), (sub_mask r' s')) else ((XO s), (IsPos r'))
     | _ -> ((XO s), (sub_mask (g (f XH)) (XO (XO XH)))))

  (** val sqrtrem : positive -> positive * mask **)

  let rec sqrtrem = function
  | XI p0 ->
    (match p0 with
     | XI p1 -> sqrtrem_step (fun x -> XI x) (fun x -> XI x) (sqrtrem p1)
     | XO p1 -> sqrtrem_step (fun x -> XO x) (fun x -> XI x) (sqrtrem p1)
     | XH -> (XH, (IsPos (XO XH))))
  | XO p0 ->
    (match p0 with
     | XI p1 -> sqrtrem_step (fun x -> XI x) (fun x -> XO x) (sqrtrem p1)
     | XO p1 -> sqrtrem_step (fun x -> XO x) (fun x -> XO x) (sqrtrem p1)
     | XH -> (XH, (IsPos XH)))
  | XH -> (XH, IsNul)

  (** val iter_op : ('a1 -> 'a1 -> 'a1) -> positive -> 'a1 -> 'a1 **)

  let rec iter_op op p a =
    match p with
    | XI p0 -> op a (iter_op op p0 (op a a))
    | XO p0 -> iter_op op p0 (op a a)
    | XH -> a

  (** val to_nat : positive -> nat **)

  let to_nat x =
    iter_op Coq__1.add x (S O)

  (** val of_succ_nat : nat -> positive **)

  let rec of_succ_nat = function
  | O -> XH
  | S x -> succ (of_succ_nat x)
 end

module Z =
 struct
  (** val double : z -> z **)

  let double = function
  | Z0 -> Z0
  | Zpos p -> Zpos (XO p)
  | Zneg p -> Zneg (XO p)

  (** val succ_double : z -> z **)

  let succ_double = function
  | Z0 -> Zpos XH
  | Zpos p -> Zpos (XI p)
  | Zneg p -> Zneg (Coq_Pos.pred_double p)

  (** val pred_double : z -> z **)

  let pred_double = function
  | Z0 -> Zneg XH
  | Zpos p -> Zpos (Coq_Pos.pred_double p)
  | Zneg p -> Zneg (XI p)

  (** val pos_sub : positive -> positive -> z **)

  let rec pos_sub x y =
    match x with
    | XI p ->
      (match y with
       | XI q -> double (pos_sub p q)
       | XO q -> succ_double (pos_sub p q)
       | XH -> Zpos (XO p))
    | XO p ->
      (match y with
       | XI q -> pred_double (pos_sub p q)
       | XO q -> double (pos_sub p q)
       | XH -> Zpos (Coq_Pos.pred_double p))
    | XH ->
      (match y with
       | XI q -> Zneg (XO q)
       | XO q -> Zneg (Coq_Pos.pred_double q)
       | XH -> Z0)

  (** val add : z -> z -> z **)

  let add x y =
    match x with
    | Z0 -> y
    | Zpos x' ->
      (match y with
       | Z0 -> x
       | Zpos y' -> Zpos (Coq_Pos.add x' y')
       | Zneg y' -> pos_sub x' y')
    | Zneg x' ->
      (match y with
       | Z0 -> x
       | Zpos y' -> pos_sub y' x'
       | Zneg y' -> Zneg (Coq_Pos.add x' y'))

  (** val opp : z -> z **)

  let opp = function
  | Z0 -> Z0
  | Zpos x0 -> Zneg x0
  | Zneg x0 -> Zpos x0

  (** val sub : z -> z -> z **)

  let sub m n =
    add m (opp n)

  (** val mul : z -> z -> z **)

  let mul x y =
    match x with
    | Z0 -> Z0
    | Zpos x' ->
      (match y with
       | Z0 -> Z0
       | Zpos y' -> Zpos (Coq_Pos.mul x' y')
       | Zneg y' -> Zneg (Coq_Pos.mul x' y'))
    | Zneg x' ->
      (match y with
       | Z0 -> Z0
       | Zpos y' -> Zneg (Coq_Pos.mul x' y')
       | Zneg y' -> Zpos (Coq_Pos.mul x' y'))

  (** val pow_pos : z -> positive -> z **)

  let pow_pos z0 =
    Coq_Pos.iter (mul z0) (Zpos XH)

  (** val pow : z -> z -> z **)

  let pow x = function
  | Z0 -> Zpos XH
  | Zpos p -> pow_pos x p
  | Zneg _ -> Z0

  (** val compare : z -> z -> comparison **)

  let compare x y =
    match x with
    | Z0 -> (match y with
             | Z0 -> Eq
             | Zpos _ -> Lt
             | Zneg _ -> Gt)
    | Zpos x' -> (match y with
                  | Zpos y' -> Coq_Pos.compare x' y'
                  | _ -> Gt)
    | Zneg x' ->
      (match y with
       | Zneg y' -> compOpp (Coq_Pos.compare x' y')
       | _ -> Lt)

  (** val leb : z -> z -> bool **)

  let leb x y =
    match compare x y with
    | Gt -> false
    | _ -> true

  (** val ltb : z -> z -> bool **)

  let ltb x y =
    match compare x y with
    | Lt -> true
    | _ -> false

  (** val eqb : z -> z -> bool **)

  let eqb x y =
    match x with
    | Z0 -> (match y with
             | Z0 -> true
             | _ -> false)
    | Zpos p -> (match y with
                 | Zpos q -> Coq_Pos.eqb p q
                 | _ -> false)
    | Zneg p -> (match y with
                 | Zneg q -> Coq_Pos.eqb p q
                 | _ -> false)

  (** val max : z -> z -> z **)

  let max n m =
    match compare n m with
    | Lt -> m
    | _ -> n

  (** val min : z -> z -> z **)

  let min n m =
    match compare n m with
    | Gt -> m
    | _ -> n

  (** val to_nat : z -> nat **)

  let to_nat = function
  | Zpos p -> Coq_Pos.to_nat p
  | _ -> O

  (** val of_nat : nat -> z **)

  let of_nat = function
  | O -> Z0
  | S n0 -> Zpos (Coq_Pos.of_succ_nat n0)

  (** val to_pos : z -> positive **)

  let to_pos = function
  | Zpos p -> p
  | _ -> XH

  (** val pos_div_eucl : positive -> z -> z * z **)

  let rec pos_div_eucl a b =
    match a with
    | XI a' ->
      let (q, r) = pos_div_eucl a' b in
      let r' = add (mul (Zpos (XO XH)) r) (Zpos XH) in
      if ltb r' b
      then ((mul (Zpos (XO XH)) q), r')
      else ((add (mul (Zpos (XO XH)) q) (Zpos XH)), (sub r' b))
    | XO a' ->
      let (q, r) = pos_div_eucl a' b in
      let r' = mul (Zpos (XO XH)) r in
      if ltb r' b
      then ((mul (Zpos (XO XH)) q), r')
      else ((add (mul (Zpos (XO XH)) q) (Zpos XH)), (sub r' b))
    | XH -> if leb (Zpos (XO XH)) b then (Z0, (Zpos XH)) else ((Zpos XH), Z0)

  (** val div_eucl : z -> z -> z * z **)

  let div_eucl a b =
    match a with
    | Z0 -> (Z0, Z0)
    | Zpos a' ->
      (match b with
       | Z0 -> (Z0, a)
       | Zpos _ -> pos_div_eucl a' b
       | Zneg b' ->
         let (q, r) = pos_div_eucl a' (Zpos b') in
         (match r with
          | Z0 -> ((opp q), Z0)
          | _ -> ((opp (add q (Zpos XH))), (add b r))))
    | Zneg a' ->
      (match b with
       | Z0 -> (Z0, a)
       | Zpos _ ->
         let (q, r) = pos_div_eucl a' b in
         (match r with
          | Z0 -> ((opp q), Z0)
          | _ -> ((opp (add q (Zpos XH))), (sub b r)))
       | Zneg b' -> let (q, r) = pos_div_eucl a' (Zpos b') in (q, (opp r)))

  (** val div : z -> z -> z **)

  let div a b =
    let (q, _) = div_eucl a b in q

  (** val modulo : z -> z -> z **)

  let modulo a b =
    let (_, r) = div_eucl a b in r

  (** val even : z -> bool **)

  let even = function
  | Z0 -> true
  | Zpos p -> (match p with
               | XO _ -> true
               | _ -> false)
  | Zneg p -> (match p with
               | XO _ -> true
               | _ -> false)

  (** val div2 : z -> z **)

  let div2 = function
  | Z0 -> Z0
  | Zpos p -> (match p with
               | XH -> Z0
               | _ -> Zpos (Coq_Pos.div2 p))
  | Zneg p -> Zneg (Coq_Pos.div2_up p)

  (** val sqrtrem : z -> z * z **)

  let sqrtrem = function
  | Zpos p ->
    let (s, m) = Coq_Pos.sqrtrem p in
    (match m with
     | Coq_Pos.IsPos r -> ((Zpos s), (Zpos r))
     | _ -> ((Zpos s), Z0))
  | _ -> (Z0, Z0)

  (** val shiftl : z -> z -> z **)

  let shiftl a = function
  | Z0 -> a
  | Zpos p -> Coq_Pos.iter (mul (Zpos (XO XH))) a p
  | Zneg p -> Coq_Pos.iter div2 a p
 end

(** val zeq_bool : z -> z -> bool **)

let zeq_bool x y =
  match Z.compare x y with
  | Eq -> true
  | _ -> false

(** val shift_pos : positive -> positive -> positive **)

let shift_pos n z0 =
  Coq_Pos.iter (fun x -> XO x) z0 n

type 'a res =
| Ok of 'a
| Panic of nat

(** val bind : 'a1 res -> ('a1 -> 'a2 res) -> 'a2 res **)

let bind r f =
  match r with
  | Ok a -> f a
  | Panic c -> Panic c

(** val rmap : ('a1 -> 'a2) -> 'a1 res -> 'a2 res **)

let rmap f = function
| Ok a -> Ok (f a)
| Panic c -> Panic c

(** val p_shape : nat **)

let p_shape =
  S O

(** val p_index : nat **)

let p_index =
  S (S O)

(** val p_underflow : nat **)

let p_underflow =
  S (S (S O))

(** val p_divzero : nat **)

let p_divzero =
  S (S (S (S O)))

(** val p_unwrap : nat **)

let p_unwrap =
  S (S (S (S (S O))))

(** val p_explicit : nat **)

let p_explicit =
  S (S (S (S (S (S O)))))

(** val p_overflow : nat **)

let p_overflow =
  S (S (S (S (S (S (S O))))))

(** val p_parse : nat **)

let p_parse =
  S (S (S (S (S (S (S (S (S O))))))))

(** val csub : nat -> nat -> nat res **)

let csub a b =
  if Nat.leb b a then Ok (sub a b) else Panic p_underflow

(** val cdiv : nat -> nat -> nat res **)

let cdiv a b =
  if Nat.eqb b O then Panic p_divzero else Ok (Nat.div a b)

(** val mapM : ('a1 -> 'a2 res) -> 'a1 list -> 'a2 list res **)

let rec mapM f = function
| [] -> Ok []
| x :: xs -> bind (f x) (fun y -> bind (mapM f xs) (fun ys -> Ok (y :: ys)))

(** val foldM : ('a2 -> 'a1 -> 'a2 res) -> 'a1 list -> 'a2 -> 'a2 res **)

let rec foldM f l s =
  match l with
  | [] -> Ok s
  | x :: xs -> bind (f s x) (fun s' -> foldM f xs s')

(** val map2 : ('a1 -> 'a2 -> 'a3) -> 'a1 list -> 'a2 list -> 'a3 list **)

let rec map2 f l1 l2 =
  match l1 with
  | [] -> []
  | x :: xs -> (match l2 with
                | [] -> []
                | y :: ys -> (f x y) :: (map2 f xs ys))

(** val mapi_from : nat -> (nat -> 'a1 -> 'a2) -> 'a1 list -> 'a2 list **)

let rec mapi_from i f = function
| [] -> []
| x :: xs -> (f i x) :: (mapi_from (S i) f xs)

(** val mapi : (nat -> 'a1 -> 'a2) -> 'a1 list -> 'a2 list **)

let mapi f l =
  mapi_from O f l

(** val nth_res : 'a1 list -> nat -> 'a1 res **)

let nth_res l i =
  match nth_error l i with
  | Some x -> Ok x
  | None -> Panic p_index

(** val set_nth : 'a1 list -> nat -> 'a1 -> 'a1 list **)

let rec set_nth l i v =
  match l with
  | [] -> []
  | x :: xs -> (match i with
                | O -> v :: xs
                | S k -> x :: (set_nth xs k v))

(** val upd_nth : 'a1 list -> nat -> ('a1 -> 'a1) -> 'a1 list **)

let upd_nth l i f =
  match nth_error l i with
  | Some x -> set_nth l i (f x)
  | None -> l

(** val chunks_fuel : nat -> nat -> 'a1 list -> 'a1 list list **)

let rec chunks_fuel fuel n l =
  match fuel with
  | O -> []
  | S k ->
    (match l with
     | [] -> []
     | _ :: _ -> (firstn n l) :: (chunks_fuel k n (skipn n l)))

(** val chunks : nat -> 'a1 list -> 'a1 list list **)

let chunks n l =
  chunks_fuel (length l) n l

(** val chunks_exact : nat -> 'a1 list -> 'a1 list list **)

let chunks_exact n l =
  filter (fun c -> Nat.eqb (length c) n) (chunks n l)

(** val take_exact : nat -> 'a1 list -> ('a1 list * 'a1 list) res **)

let rec take_exact n l =
  match n with
  | O -> Ok ([], l)
  | S k ->
    (match l with
     | [] -> Panic p_unwrap
     | x :: xs ->
       bind (take_exact k xs) (fun p -> Ok ((x :: (fst p)), (snd p))))

(** val take_rows :
    nat -> nat -> 'a1 list -> ('a1 list list * 'a1 list) res **)

let rec take_rows n m l =
  match n with
  | O -> Ok ([], l)
  | S k ->
    bind (take_exact m l) (fun r ->
      bind (take_rows k m (snd r)) (fun rs -> Ok (((fst r) :: (fst rs)),
        (snd rs))))

(** val take_chans :
    nat -> nat -> nat -> 'a1 list -> ('a1 list list list * 'a1 list) res **)

let rec take_chans c h w l =
  match c with
  | O -> Ok ([], l)
  | S k ->
    bind (take_rows h w l) (fun r ->
      bind (take_chans k h w (snd r)) (fun rs -> Ok (((fst r) :: (fst rs)),
        (snd rs))))

(** val hd_len : 'a1 list list -> nat **)

let hd_len l =
  length (hd [] l)

(** val last_opt : 'a1 list -> 'a1 option **)

let last_opt l =
  match rev l with
  | [] -> None
  | x :: _ -> Some x

(** val sum_nat : nat list -> nat **)

let sum_nat l =
  fold_left Nat.add l O

(** val alist_get : (nat * 'a1) list -> nat -> 'a1 option **)

let rec alist_get m k =
  match m with
  | [] -> None
  | p :: r ->
    let (k', v) = p in if Nat.eqb k' k then Some v else alist_get r k

(** val alist_mem : (nat * 'a1) list -> nat -> bool **)

let alist_mem m k =
  match alist_get m k with
  | Some _ -> true
  | None -> false

(** val alist_set : (nat * 'a1) list -> nat -> 'a1 -> (nat * 'a1) list **)

let rec alist_set m k v =
  match m with
  | [] -> (k, v) :: []
  | p :: r ->
    let (k', v') = p in
    if Nat.eqb k' k then (k, v) :: r else (k', v') :: (alist_set r k v)

type num = { nofZ : (z -> __); nnzero : __; nneginf : __; nfmin : __;
             nadd : (__ -> __ -> __); nsub : (__ -> __ -> __);
             nmul : (__ -> __ -> __); ndiv : (__ -> __ -> __);
             nneg : (__ -> __); nabs : (__ -> __); nsqrt : (__ -> __);
             nexp : (__ -> __); nln : (__ -> __); ntanh : (__ -> __);
             ncosh : (__ -> __); npowf2 : (__ -> __);
             nltb : (__ -> __ -> bool); nleb : (__ -> __ -> bool);
             neqb : (__ -> __ -> bool); nisnan : (__ -> bool);
             ntoZ : (__ -> z) }

type t = __

(** val zero : num -> t **)

let zero n =
  n.nofZ Z0

(** val one : num -> t **)

let one n =
  n.nofZ (Zpos XH)

(** val of_nat0 : num -> nat -> t **)

let of_nat0 n n0 =
  n.nofZ (Z.of_nat n0)

(** val ratio : num -> z -> z -> t **)

let ratio n p q =
  n.ndiv (n.nofZ p) (n.nofZ q)

(** val gtb : num -> t -> t -> bool **)

let gtb n a b =
  n.nltb b a

(** val fmax : num -> t -> t -> t **)

let fmax n a b =
  if n.nisnan a
  then b
  else if n.nisnan b then a else if n.nltb a b then b else a

(** val clamp : num -> t -> t -> t -> t **)

let clamp n x lo hi =
  let x1 = if n.nltb x lo then lo else x in if n.nltb hi x1 then hi else x1

(** val powi_pos : num -> t -> positive -> t -> t **)

let rec powi_pos n a p r =
  match p with
  | XI p' -> powi_pos n (n.nmul a a) p' (n.nmul r a)
  | XO p' -> powi_pos n (n.nmul a a) p' r
  | XH -> n.nmul r a

(** val powi : num -> t -> z -> t **)

let powi n a = function
| Z0 -> one n
| Zpos p -> powi_pos n a p (one n)
| Zneg p -> n.ndiv (one n) (powi_pos n a p (one n))

(** val fsum : num -> t list -> t **)

let fsum n l =
  fold_left n.nadd l n.nnzero

type spec_float =
| S754_zero of bool
| S754_infinity of bool
| S754_nan
| S754_finite of bool * positive * z

(** val emin : z -> z -> z **)

let emin prec emax =
  Z.sub (Z.sub (Zpos (XI XH)) emax) prec

(** val fexp : z -> z -> z -> z **)

let fexp prec emax e =
  Z.max (Z.sub e prec) (emin prec emax)

(** val digits2_pos : positive -> positive **)

let rec digits2_pos = function
| XI p -> Coq_Pos.succ (digits2_pos p)
| XO p -> Coq_Pos.succ (digits2_pos p)
| XH -> XH

(** val zdigits2 : z -> z **)

let zdigits2 n = match n with
| Z0 -> n
| Zpos p -> Zpos (digits2_pos p)
| Zneg p -> Zpos (digits2_pos p)

(** val iter_pos : ('a1 -> 'a1) -> positive -> 'a1 -> 'a1 **)

let rec iter_pos f n x =
  match n with
  | XI n' -> iter_pos f n' (iter_pos f n' (f x))
  | XO n' -> iter_pos f n' (iter_pos f n' x)
  | XH -> f x

type location =
| Loc_Exact
| Loc_Inexact of comparison

type shr_record = { shr_m : z; shr_r : bool; shr_s : bool }

(** val shr_1 : shr_record -> shr_record **)

let shr_1 mrs =
  let { shr_m = m; shr_r = r; shr_s = s } = mrs in
  let s0 = (||) r s in
  (match m with
   | Z0 -> { shr_m = Z0; shr_r = false; shr_s = s0 }
   | Zpos p0 ->
     (match p0 with
      | XI p -> { shr_m = (Zpos p); shr_r = true; shr_s = s0 }
      | XO p -> { shr_m = (Zpos p); shr_r = false; shr_s = s0 }
      | XH -> { shr_m = Z0; shr_r = true; shr_s = s0 })
   | Zneg p0 ->
     (match p0 with
      | XI p -> { shr_m = (Zneg p); shr_r = true; shr_s = s0 }
      | XO p -> { shr_m = (Zneg p); shr_r = false; shr_s = s0 }
      | XH -> { shr_m = Z0; shr_r = true; shr_s = s0 }))

(** val loc_of_shr_record : shr_record -> location **)

let loc_of_shr_record mrs =
  let { shr_m = _; shr_r = shr_r0; shr_s = shr_s0 } = mrs in
  if shr_r0
  then if shr_s0 then Loc_Inexact Gt else Loc_Inexact Eq
  else if shr_s0 then Loc_Inexact Lt else Loc_Exact

(** val shr_record_of_loc : z -> location -> shr_record **)

let shr_record_of_loc m = function
| Loc_Exact -> { shr_m = m; shr_r = false; shr_s = false }
| Loc_Inexact c ->
  (match c with
   | Eq -> { shr_m = m; shr_r = true; shr_s = false }
   | Lt -> { shr_m = m; shr_r = false; shr_s = true }
   | Gt -> { shr_m = m; shr_r = true; shr_s = true })

(** val shr : shr_record -> z -> z -> shr_record * z **)

let shr mrs e n = match n with
| Zpos p -> ((iter_pos shr_1 p mrs), (Z.add e n))
| _ -> (mrs, e)

(** val shr_fexp : z -> z -> z -> z -> location -> shr_record * z **)

let shr_fexp prec emax m e l =
  shr (shr_record_of_loc m l) e
    (Z.sub (fexp prec emax (Z.add (zdigits2 m) e)) e)

(** val shl_align : positive -> z -> z -> positive * z **)

let shl_align mx ex ex' =
  match Z.sub ex' ex with
  | Zneg d -> ((shift_pos d mx), ex')
  | _ -> (mx, ex)

(** val sFcompare : spec_float -> spec_float -> comparison option **)

let sFcompare f1 f2 =
  match f1 with
  | S754_zero _ ->
    (match f2 with
     | S754_zero _ -> Some Eq
     | S754_infinity s -> Some (if s then Gt else Lt)
     | S754_nan -> None
     | S754_finite (s, _, _) -> Some (if s then Gt else Lt))
  | S754_infinity s ->
    (match f2 with
     | S754_infinity s0 ->
       Some (if s then if s0 then Eq else Lt else if s0 then Gt else Eq)
     | S754_nan -> None
     | _ -> Some (if s then Lt else Gt))
  | S754_nan -> None
  | S754_finite (s1, m1, e1) ->
    (match f2 with
     | S754_zero _ -> Some (if s1 then Lt else Gt)
     | S754_infinity s -> Some (if s then Gt else Lt)
     | S754_nan -> None
     | S754_finite (s2, m2, e2) ->
       Some
         (if s1
          then if s2
               then (match Z.compare e1 e2 with
                     | Eq -> compOpp (Coq_Pos.compare_cont Eq m1 m2)
                     | Lt -> Gt
                     | Gt -> Lt)
               else Lt
          else if s2
               then Gt
               else (match Z.compare e1 e2 with
                     | Eq -> Coq_Pos.compare_cont Eq m1 m2
                     | x -> x)))

(** val sFeqb : spec_float -> spec_float -> bool **)

let sFeqb f1 f2 =
  match sFcompare f1 f2 with
  | Some c -> (match c with
               | Eq -> true
               | _ -> false)
  | None -> false

(** val sFltb : spec_float -> spec_float -> bool **)

let sFltb f1 f2 =
  match sFcompare f1 f2 with
  | Some c -> (match c with
               | Lt -> true
               | _ -> false)
  | None -> false

(** val sFleb : spec_float -> spec_float -> bool **)

let sFleb f1 f2 =
  match sFcompare f1 f2 with
  | Some c -> (match c with
               | Gt -> false
               | _ -> true)
  | None -> false

(** val cond_Zopp : bool -> z -> z **)

let cond_Zopp b m =
  if b then Z.opp m else m

(** val new_location_even : z -> z -> location **)

let new_location_even nb_steps k =
  if zeq_bool k Z0
  then Loc_Exact
  else Loc_Inexact (Z.compare (Z.mul (Zpos (XO XH)) k) nb_steps)

(** val new_location_odd : z -> z -> location **)

let new_location_odd nb_steps k =
  if zeq_bool k Z0
  then Loc_Exact
  else Loc_Inexact
         (match Z.compare (Z.add (Z.mul (Zpos (XO XH)) k) (Zpos XH)) nb_steps with
          | Eq -> Lt
          | x -> x)

(** val new_location : z -> z -> location **)

let new_location nb_steps =
  if Z.even nb_steps
  then new_location_even nb_steps
  else new_location_odd nb_steps

(** val sFdiv_core_binary :
    z -> z -> z -> z -> z -> z -> (z * z) * location **)

let sFdiv_core_binary prec emax m1 e1 m2 e2 =
  let d1 = zdigits2 m1 in
  let d2 = zdigits2 m2 in
  let e' =
    Z.min (fexp prec emax (Z.sub (Z.add d1 e1) (Z.add d2 e2))) (Z.sub e1 e2)
  in
  let s = Z.sub (Z.sub e1 e2) e' in
  let m' = match s with
           | Z0 -> m1
           | Zpos _ -> Z.shiftl m1 s
           | Zneg _ -> Z0 in
  let (q, r) = Z.div_eucl m' m2 in ((q, e'), (new_location m2 r))

(** val sFsqrt_core_binary : z -> z -> z -> z -> (z * z) * location **)

let sFsqrt_core_binary prec emax m e =
  let d = zdigits2 m in
  let e' =
    Z.min (fexp prec emax (Z.div2 (Z.add (Z.add d e) (Zpos XH)))) (Z.div2 e)
  in
  let s = Z.sub e (Z.mul (Zpos (XO XH)) e') in
  let m' = match s with
           | Z0 -> m
           | Zpos _ -> Z.shiftl m s
           | Zneg _ -> Z0 in
  let (q, r) = Z.sqrtrem m' in
  let l =
    if zeq_bool r Z0
    then Loc_Exact
    else Loc_Inexact (if Z.leb r q then Lt else Gt)
  in
  ((q, e'), l)

(** val cond_incr : bool -> z -> z **)

let cond_incr b m =
  if b then Z.add m (Zpos XH) else m

(** val round_sign_DN : bool -> location -> bool **)

let round_sign_DN s = function
| Loc_Exact -> false
| Loc_Inexact _ -> s

(** val round_sign_UP : bool -> location -> bool **)

let round_sign_UP s = function
| Loc_Exact -> false
| Loc_Inexact _ -> negb s

(** val round_N : bool -> location -> bool **)

let round_N p = function
| Loc_Exact -> false
| Loc_Inexact c -> (match c with
                    | Eq -> p
                    | Lt -> false
                    | Gt -> true)

type binary_float =
| B754_zero of bool
| B754_infinity of bool
| B754_nan
| B754_finite of bool * positive * z

(** val sF2B : z -> z -> spec_float -> binary_float **)

let sF2B _ _ = function
| S754_zero s -> B754_zero s
| S754_infinity s -> B754_infinity s
| S754_nan -> B754_nan
| S754_finite (s, m, e) -> B754_finite (s, m, e)

(** val b2SF : z -> z -> binary_float -> spec_float **)

let b2SF _ _ = function
| B754_zero s -> S754_zero s
| B754_infinity s -> S754_infinity s
| B754_nan -> S754_nan
| B754_finite (s, m, e) -> S754_finite (s, m, e)

(** val is_nan : z -> z -> binary_float -> bool **)

let is_nan _ _ = function
| B754_nan -> true
| _ -> false

(** val bopp : z -> z -> binary_float -> binary_float **)

let bopp _ _ x = match x with
| B754_zero sx -> B754_zero (negb sx)
| B754_infinity sx -> B754_infinity (negb sx)
| B754_nan -> x
| B754_finite (sx, mx, ex) -> B754_finite ((negb sx), mx, ex)

(** val babs : z -> z -> binary_float -> binary_float **)

let babs _ _ x = match x with
| B754_zero _ -> B754_zero false
| B754_infinity _ -> B754_infinity false
| B754_nan -> x
| B754_finite (_, mx, ex) -> B754_finite (false, mx, ex)

(** val beqb : z -> z -> binary_float -> binary_float -> bool **)

let beqb prec emax f1 f2 =
  sFeqb (b2SF prec emax f1) (b2SF prec emax f2)

(** val bltb : z -> z -> binary_float -> binary_float -> bool **)

let bltb prec emax f1 f2 =
  sFltb (b2SF prec emax f1) (b2SF prec emax f2)

(** val bleb : z -> z -> binary_float -> binary_float -> bool **)

let bleb prec emax f1 f2 =
  sFleb (b2SF prec emax f1) (b2SF prec emax f2)

type mode =
| Mode_NE
| Mode_ZR
| Mode_DN
| Mode_UP
| Mode_NA

(** val choice_mode : mode -> bool -> z -> location -> z **)

let choice_mode m sx mx lx =
  match m with
  | Mode_NE -> cond_incr (round_N (negb (Z.even mx)) lx) mx
  | Mode_ZR -> mx
  | Mode_DN -> cond_incr (round_sign_DN sx lx) mx
  | Mode_UP -> cond_incr (round_sign_UP sx lx) mx
  | Mode_NA -> cond_incr (round_N true lx) mx

(** val overflow_to_inf : mode -> bool -> bool **)

let overflow_to_inf m s =
  match m with
  | Mode_ZR -> false
  | Mode_DN -> s
  | Mode_UP -> negb s
  | _ -> true

(** val binary_overflow : z -> z -> mode -> bool -> spec_float **)

let binary_overflow prec emax m s =
  if overflow_to_inf m s
  then S754_infinity s
  else S754_finite (s,
         (Z.to_pos (Z.sub (Z.pow (Zpos (XO XH)) prec) (Zpos XH))),
         (Z.sub emax prec))

(** val binary_fit_aux :
    z -> z -> mode -> bool -> positive -> z -> spec_float **)

let binary_fit_aux prec emax mode0 sx mx ex =
  if Z.leb ex (Z.sub emax prec)
  then S754_finite (sx, mx, ex)
  else binary_overflow prec emax mode0 sx

(** val binary_round_aux :
    z -> z -> mode -> bool -> z -> z -> location -> spec_float **)

let binary_round_aux prec emax mode0 sx mx ex lx =
  let (mrs', e') = shr_fexp prec emax mx ex lx in
  let (mrs'', e'') =
    shr_fexp prec emax
      (choice_mode mode0 sx mrs'.shr_m (loc_of_shr_record mrs')) e' Loc_Exact
  in
  (match mrs''.shr_m with
   | Z0 -> S754_zero sx
   | Zpos m -> binary_fit_aux prec emax mode0 sx m e''
   | Zneg _ -> S754_nan)

(** val bmult :
    z -> z -> mode -> binary_float -> binary_float -> binary_float **)

let bmult prec emax m x y =
  match x with
  | B754_zero sx ->
    (match y with
     | B754_zero sy -> B754_zero (xorb sx sy)
     | B754_finite (sy, _, _) -> B754_zero (xorb sx sy)
     | _ -> B754_nan)
  | B754_infinity sx ->
    (match y with
     | B754_infinity sy -> B754_infinity (xorb sx sy)
     | B754_finite (sy, _, _) -> B754_infinity (xorb sx sy)
     | _ -> B754_nan)
  | B754_nan -> B754_nan
  | B754_finite (sx, mx, ex) ->
    (match y with
     | B754_zero sy -> B754_zero (xorb sx sy)
     | B754_infinity sy -> B754_infinity (xorb sx sy)
     | B754_nan -> B754_nan
     | B754_finite (sy, my, ey) ->
       sF2B prec emax
         (binary_round_aux prec emax m (xorb sx sy) (Zpos
           (Coq_Pos.mul mx my)) (Z.add ex ey) Loc_Exact))

(** val shl_align_fexp : z -> z -> positive -> z -> positive * z **)

let shl_align_fexp prec emax mx ex =
  shl_align mx ex (fexp prec emax (Z.add (Zpos (digits2_pos mx)) ex))

(** val binary_round :
    z -> z -> mode -> bool -> positive -> z -> spec_float **)

let binary_round prec emax m sx mx ex =
  let (mz, ez) = shl_align_fexp prec emax mx ex in
  binary_round_aux prec emax m sx (Zpos mz) ez Loc_Exact

(** val binary_normalize :
    z -> z -> mode -> z -> z -> bool -> binary_float **)

let binary_normalize prec emax mode0 m e szero =
  match m with
  | Z0 -> B754_zero szero
  | Zpos m0 -> sF2B prec emax (binary_round prec emax mode0 false m0 e)
  | Zneg m0 -> sF2B prec emax (binary_round prec emax mode0 true m0 e)

(** val fplus_naive :
    bool -> positive -> z -> bool -> positive -> z -> z -> z **)

let fplus_naive sx mx ex sy my ey ez =
  Z.add (cond_Zopp sx (Zpos (fst (shl_align mx ex ez))))
    (cond_Zopp sy (Zpos (fst (shl_align my ey ez))))

(** val bplus :
    z -> z -> mode -> binary_float -> binary_float -> binary_float **)

let bplus prec emax m x y =
  match x with
  | B754_zero sx ->
    (match y with
     | B754_zero sy ->
       if eqb sx sy
       then x
       else (match m with
             | Mode_DN -> B754_zero true
             | _ -> B754_zero false)
     | B754_nan -> B754_nan
     | _ -> y)
  | B754_infinity sx ->
    (match y with
     | B754_infinity sy -> if eqb sx sy then x else B754_nan
     | B754_nan -> B754_nan
     | _ -> x)
  | B754_nan -> B754_nan
  | B754_finite (sx, mx, ex) ->
    (match y with
     | B754_zero _ -> x
     | B754_infinity _ -> y
     | B754_nan -> B754_nan
     | B754_finite (sy, my, ey) ->
       let ez = Z.min ex ey in
       binary_normalize prec emax m (fplus_naive sx mx ex sy my ey ez) ez
         (match m with
          | Mode_DN -> true
          | _ -> false))

(** val bminus :
    z -> z -> mode -> binary_float -> binary_float -> binary_float **)

let bminus prec emax m x y =
  match x with
  | B754_zero sx ->
    (match y with
     | B754_zero sy ->
       if eqb sx (negb sy)
       then x
       else (match m with
             | Mode_DN -> B754_zero true
             | _ -> B754_zero false)
     | B754_infinity sy -> B754_infinity (negb sy)
     | B754_nan -> B754_nan
     | B754_finite (sy, my, ey) -> B754_finite ((negb sy), my, ey))
  | B754_infinity sx ->
    (match y with
     | B754_infinity sy -> if eqb sx (negb sy) then x else B754_nan
     | B754_nan -> B754_nan
     | _ -> x)
  | B754_nan -> B754_nan
  | B754_finite (sx, mx, ex) ->
    (match y with
     | B754_zero _ -> x
     | B754_infinity sy -> B754_infinity (negb sy)
     | B754_nan -> B754_nan
     | B754_finite (sy, my, ey) ->
       let ez = Z.min ex ey in
       binary_normalize prec emax m (fplus_naive sx mx ex (negb sy) my ey ez)
         ez (match m with
             | Mode_DN -> true
             | _ -> false))

(** val bdiv :
    z -> z -> mode -> binary_float -> binary_float -> binary_float **)

let bdiv prec emax m x y =
  match x with
  | B754_zero sx ->
    (match y with
     | B754_infinity sy -> B754_zero (xorb sx sy)
     | B754_finite (sy, _, _) -> B754_zero (xorb sx sy)
     | _ -> B754_nan)
  | B754_infinity sx ->
    (match y with
     | B754_zero sy -> B754_infinity (xorb sx sy)
     | B754_finite (sy, _, _) -> B754_infinity (xorb sx sy)
     | _ -> B754_nan)
  | B754_nan -> B754_nan
  | B754_finite (sx, mx, ex) ->
    (match y with
     | B754_zero sy -> B754_infinity (xorb sx sy)
     | B754_infinity sy -> B754_zero (xorb sx sy)
     | B754_nan -> B754_nan
     | B754_finite (sy, my, ey) ->
       sF2B prec emax
         (let (p, lz) = sFdiv_core_binary prec emax (Zpos mx) ex (Zpos my) ey
          in
          let (mz, ez) = p in
          binary_round_aux prec emax m (xorb sx sy) mz ez lz))

(** val bsqrt : z -> z -> mode -> binary_float -> binary_float **)

let bsqrt prec emax m x = match x with
| B754_zero _ -> x
| B754_infinity s -> if s then B754_nan else x
| B754_nan -> B754_nan
| B754_finite (sx, mx, ex) ->
  if sx
  then B754_nan
  else sF2B prec emax
         (let (p, lz) = sFsqrt_core_binary prec emax (Zpos mx) ex in
          let (mz, ez) = p in binary_round_aux prec emax m false mz ez lz)

type full_float =
| F754_zero of bool
| F754_infinity of bool
| F754_nan of bool * positive
| F754_finite of bool * positive * z

type binary_float0 =
| B754_zero0 of bool
| B754_infinity0 of bool
| B754_nan0 of bool * positive
| B754_finite0 of bool * positive * z

(** val b2BSN : z -> z -> binary_float0 -> binary_float **)

let b2BSN _ _ = function
| B754_zero0 s -> B754_zero s
| B754_infinity0 s -> B754_infinity s
| B754_nan0 (_, _) -> B754_nan
| B754_finite0 (s, m, e) -> B754_finite (s, m, e)

(** val fF2B : z -> z -> full_float -> binary_float0 **)

let fF2B _ _ = function
| F754_zero s -> B754_zero0 s
| F754_infinity s -> B754_infinity0 s
| F754_nan (b, pl) -> B754_nan0 (b, pl)
| F754_finite (s, m, e) -> B754_finite0 (s, m, e)

(** val split_bits : z -> z -> z -> (bool * z) * z **)

let split_bits mw ew x =
  let mm = Z.pow (Zpos (XO XH)) mw in
  let em = Z.pow (Zpos (XO XH)) ew in
  (((Z.leb (Z.mul mm em) x), (Z.modulo x mm)), (Z.modulo (Z.div x mm) em))

(** val binary_float_of_bits_aux : z -> z -> z -> full_float **)

let binary_float_of_bits_aux mw ew =
  let prec = Z.add mw (Zpos XH) in
  let emax = Z.pow (Zpos (XO XH)) (Z.sub ew (Zpos XH)) in
  (fun x ->
  let (p, ex) = split_bits mw ew x in
  let (sx, mx) = p in
  if zeq_bool ex Z0
  then (match mx with
        | Z0 -> F754_zero sx
        | Zpos px -> F754_finite (sx, px, (emin prec emax))
        | Zneg _ -> F754_nan (false, XH))
  else if zeq_bool ex (Z.sub (Z.pow (Zpos (XO XH)) ew) (Zpos XH))
       then (match mx with
             | Z0 -> F754_infinity sx
             | Zpos plx -> F754_nan (sx, plx)
             | Zneg _ -> F754_nan (false, XH))
       else (match Z.add mx (Z.pow (Zpos (XO XH)) mw) with
             | Zpos px ->
               F754_finite (sx, px,
                 (Z.sub (Z.add ex (emin prec emax)) (Zpos XH)))
             | _ -> F754_nan (false, XH)))

(** val binary_float_of_bits : z -> z -> z -> binary_float0 **)

let binary_float_of_bits mw ew x =
  let prec = Z.add mw (Zpos XH) in
  let emax = Z.pow (Zpos (XO XH)) (Z.sub ew (Zpos XH)) in
  fF2B prec emax (binary_float_of_bits_aux mw ew x)

type binary32 = binary_float0

(** val b32_of_bits : z -> binary32 **)

let b32_of_bits =
  binary_float_of_bits (Zpos (XI (XI (XI (XO XH))))) (Zpos (XO (XO (XO XH))))

(** val prec32 : z **)

let prec32 =
  Zpos (XO (XO (XO (XI XH))))

(** val emax32 : z **)

let emax32 =
  Zpos (XO (XO (XO (XO (XO (XO (XO XH)))))))

type f32 = binary_float

(** val f_add : f32 -> f32 -> f32 **)

let f_add =
  bplus prec32 emax32 Mode_NE

(** val f_sub : f32 -> f32 -> f32 **)

let f_sub =
  bminus prec32 emax32 Mode_NE

(** val f_mul : f32 -> f32 -> f32 **)

let f_mul =
  bmult prec32 emax32 Mode_NE

(** val f_div : f32 -> f32 -> f32 **)

let f_div =
  bdiv prec32 emax32 Mode_NE

(** val f_sqrt : f32 -> f32 **)

let f_sqrt =
  bsqrt prec32 emax32 Mode_NE

(** val f_neg : f32 -> f32 **)

let f_neg =
  bopp prec32 emax32

(** val f_abs : f32 -> f32 **)

let f_abs =
  babs prec32 emax32

(** val f_of_Z : z -> f32 **)

let f_of_Z z0 =
  binary_normalize prec32 emax32 Mode_NE z0 Z0 false

(** val f_ltb : f32 -> f32 -> bool **)

let f_ltb =
  bltb prec32 emax32

(** val f_leb : f32 -> f32 -> bool **)

let f_leb =
  bleb prec32 emax32

(** val f_eqb : f32 -> f32 -> bool **)

let f_eqb =
  beqb prec32 emax32

(** val f_is_nan : f32 -> bool **)

let f_is_nan =
  is_nan prec32 emax32

(** val f_of_bits : z -> f32 **)

let f_of_bits z0 =
  b2BSN (Zpos (XO (XO (XO (XI XH))))) (Zpos (XO (XO (XO (XO (XO (XO (XO
    XH)))))))) (b32_of_bits z0)

(** val canonical_nan_bits : z **)

let canonical_nan_bits =
  Zpos (XO (XO (XO (XO (XO (XO (XO (XO (XO (XO (XO (XO (XO (XO (XO (XO (XO
    (XO (XO (XO (XO (XO (XI (XI (XI (XI (XI (XI (XI (XI
    XH))))))))))))))))))))))))))))))

(** val f_to_bits : f32 -> z **)

let f_to_bits = function
| B754_zero s ->
  if s
  then Zpos (XO (XO (XO (XO (XO (XO (XO (XO (XO (XO (XO (XO (XO (XO (XO (XO
         (XO (XO (XO (XO (XO (XO (XO (XO (XO (XO (XO (XO (XO (XO (XO
         XH)))))))))))))))))))))))))))))))
  else Z0
| B754_infinity s ->
  if s
  then Zpos (XO (XO (XO (XO (XO (XO (XO (XO (XO (XO (XO (XO (XO (XO (XO (XO
         (XO (XO (XO (XO (XO (XO (XO (XI (XI (XI (XI (XI (XI (XI (XI
         XH)))))))))))))))))))))))))))))))
  else Zpos (XO (XO (XO (XO (XO (XO (XO (XO (XO (XO (XO (XO (XO (XO (XO (XO
         (XO (XO (XO (XO (XO (XO (XO (XI (XI (XI (XI (XI (XI (XI
         XH))))))))))))))))))))))))))))))
| B754_nan -> canonical_nan_bits
| B754_finite (s, m, e) ->
  let sb =
    if s
    then Zpos (XO (XO (XO (XO (XO (XO (XO (XO (XO (XO (XO (XO (XO (XO (XO (XO
           (XO (XO (XO (XO (XO (XO (XO (XO (XO (XO (XO (XO (XO (XO (XO
           XH)))))))))))))))))))))))))))))))
    else Z0
  in
  if Z.ltb (Zpos m) (Zpos (XO (XO (XO (XO (XO (XO (XO (XO (XO (XO (XO (XO (XO
       (XO (XO (XO (XO (XO (XO (XO (XO (XO (XO XH))))))))))))))))))))))))
  then Z.add sb (Zpos m)
  else Z.add
         (Z.add sb
           (Z.mul (Z.add e (Zpos (XO (XI (XI (XO (XI (XO (XO XH)))))))))
             (Zpos (XO (XO (XO (XO (XO (XO (XO (XO (XO (XO (XO (XO (XO (XO
             (XO (XO (XO (XO (XO (XO (XO (XO (XO XH))))))))))))))))))))))))))
         (Z.sub (Zpos m) (Zpos (XO (XO (XO (XO (XO (XO (XO (XO (XO (XO (XO
           (XO (XO (XO (XO (XO (XO (XO (XO (XO (XO (XO (XO
           XH)))))))))))))))))))))))))

(** val f_to_Z : f32 -> z **)

let f_to_Z = function
| B754_infinity s ->
  if s
  then Z0
  else Zpos (XI (XI (XI (XI (XI (XI (XI (XI (XI (XI (XI (XI (XI (XI (XI (XI
         (XI (XI (XI (XI (XI (XI (XI (XI (XI (XI (XI (XI (XI (XI (XI (XI (XI
         (XI (XI (XI (XI (XI (XI (XI (XI (XI (XI (XI (XI (XI (XI (XI (XI (XI
         (XI (XI (XI (XI (XI (XI (XI (XI (XI (XI (XI (XI (XI
         XH)))))))))))))))))))))))))))))))))))))))))))))))))))))))))))))))
| B754_finite (s, m, e) ->
  if s
  then Z0
  else (match e with
        | Z0 -> Zpos m
        | Zpos p -> Z.mul (Zpos m) (Z.pow_pos (Zpos (XO XH)) p)
        | Zneg p -> Z.div (Zpos m) (Z.pow_pos (Zpos (XO XH)) p))
| _ -> Z0

type libm = { l_exp : (z -> z); l_ln : (z -> z); l_tanh : (z -> z);
              l_cosh : (z -> z); l_powf2 : (z -> z) }

(** val via : (z -> z) -> f32 -> f32 **)

let via f x =
  f_of_bits (f (f_to_bits x))

(** val f_fmin : f32 **)

let f_fmin =
  f_of_bits (Zpos (XI (XI (XI (XI (XI (XI (XI (XI (XI (XI (XI (XI (XI (XI (XI
    (XI (XI (XI (XI (XI (XI (XI (XI (XO (XI (XI (XI (XI (XI (XI (XI
    XH))))))))))))))))))))))))))))))))

(** val numF32 : libm -> num **)

let numF32 l =
  { nofZ = (Obj.magic f_of_Z); nnzero = (Obj.magic (B754_zero true));
    nneginf = (Obj.magic (B754_infinity true)); nfmin = (Obj.magic f_fmin);
    nadd = (Obj.magic f_add); nsub = (Obj.magic f_sub); nmul =
    (Obj.magic f_mul); ndiv = (Obj.magic f_div); nneg = (Obj.magic f_neg);
    nabs = (Obj.magic f_abs); nsqrt = (Obj.magic f_sqrt); nexp =
    (Obj.magic via l.l_exp); nln = (Obj.magic via l.l_ln); ntanh =
    (Obj.magic via l.l_tanh); ncosh = (Obj.magic via l.l_cosh); npowf2 =
    (Obj.magic via l.l_powf2); nltb = (Obj.magic f_ltb); nleb =
    (Obj.magic f_leb); neqb = (Obj.magic f_eqb); nisnan =
    (Obj.magic f_is_nan); ntoZ = (Obj.magic f_to_Z) }

(** val lcg_m : z **)

let lcg_m =
  Zpos (XI (XI (XI (XI (XI (XI (XI (XI (XI (XI (XI (XI (XI (XI (XI (XI (XI
    (XI (XI (XI (XI (XI (XI (XI (XI (XI (XI (XI (XI (XI
    XH))))))))))))))))))))))))))))))

(** val lcg_a : z **)

let lcg_a =
  Zpos (XI (XI (XI (XI (XO (XO (XO (XI (XO (XO (XI (XI (XI (XI (XO
    XH)))))))))))))))

(** val two64 : z **)

let two64 =
  Zpos (XO (XO (XO (XO (XO (XO (XO (XO (XO (XO (XO (XO (XO (XO (XO (XO (XO
    (XO (XO (XO (XO (XO (XO (XO (XO (XO (XO (XO (XO (XO (XO (XO (XO (XO (XO
    (XO (XO (XO (XO (XO (XO (XO (XO (XO (XO (XO (XO (XO (XO (XO (XO (XO (XO
    (XO (XO (XO (XO (XO (XO (XO (XO (XO (XO (XO
    XH))))))))))))))))))))))))))))))))))))))))))))))))))))))))))))))))

(** val lcg_next_checked : z -> z res **)

let lcg_next_checked cur =
  let p = Z.mul lcg_a cur in
  if Z.ltb p two64 then Ok (Z.modulo p lcg_m) else Panic p_overflow

(** val lcg_next_wrap : z -> z **)

let lcg_next_wrap cur =
  Z.modulo (Z.modulo (Z.mul lcg_a cur) two64) lcg_m

(** val lcg_value : num -> z -> t -> t -> t **)

let lcg_value n cur lo hi =
  n.nadd
    (n.nmul (n.ndiv (n.nofZ cur) (n.nofZ (Z.sub lcg_m (Zpos XH))))
      (n.nsub hi lo)) lo

(** val generate_wrap : num -> z -> t -> t -> z * t **)

let generate_wrap n cur lo hi =
  let c = lcg_next_wrap cur in (c, (lcg_value n c lo hi))

(** val generate_n : num -> nat -> z -> t -> t -> z * t list **)

let rec generate_n n n0 cur lo hi =
  match n0 with
  | O -> (cur, [])
  | S k ->
    let (c, v) = generate_wrap n cur lo hi in
    let (c', vs) = generate_n n k c lo hi in (c', (v :: vs))

(** val swap : 'a1 list -> nat -> nat -> 'a1 list res **)

let swap l i j =
  bind (nth_res l i) (fun x ->
    bind (nth_res l j) (fun y -> Ok (set_nth (set_nth l i y) j x)))

(** val shuffle_from :
    num -> bool -> nat -> nat -> z -> 'a1 list -> (z * 'a1 list) res **)

let rec shuffle_from n wrap fuel i cur l =
  match fuel with
  | O -> Ok (cur, l)
  | S k ->
    bind (if wrap then Ok (lcg_next_wrap cur) else lcg_next_checked cur)
      (fun c ->
      let j =
        Z.to_nat (n.ntoZ (lcg_value n c (n.nofZ Z0) (of_nat0 n (length l))))
      in
      bind (swap l i j) (fun l' -> shuffle_from n wrap k (S i) c l'))

(** val shuffle : num -> bool -> z -> 'a1 list -> (z * 'a1 list) res **)

let shuffle n wrap seed l =
  shuffle_from n wrap (length l) O seed l

type shape =
| SSingle of nat
| SDouble of nat * nat
| STriple of nat * nat * nat
| SQuad of nat * nat * nat * nat
| SNested of nat

(** val shape_eqb : shape -> shape -> bool **)

let shape_eqb a b =
  match a with
  | SSingle x -> (match b with
                  | SSingle y -> Nat.eqb x y
                  | _ -> false)
  | SDouble (a1, a2) ->
    (match b with
     | SDouble (b1, b2) -> (&&) (Nat.eqb a1 b1) (Nat.eqb a2 b2)
     | _ -> false)
  | STriple (a1, a2, a3) ->
    (match b with
     | STriple (b1, b2, b3) ->
       (&&) ((&&) (Nat.eqb a1 b1) (Nat.eqb a2 b2)) (Nat.eqb a3 b3)
     | _ -> false)
  | SQuad (a1, a2, a3, a4) ->
    (match b with
     | SQuad (b1, b2, b3, b4) ->
       (&&) ((&&) ((&&) (Nat.eqb a1 b1) (Nat.eqb a2 b2)) (Nat.eqb a3 b3))
         (Nat.eqb a4 b4)
     | _ -> false)
  | SNested x -> (match b with
                  | SNested y -> Nat.eqb x y
                  | _ -> false)

type 'a vec1 = 'a list

type 'a vec2 = 'a list list

type 'a vec3 = 'a list list list

type 'a vec4 = 'a list list list list

(** val zipk : ('a1 -> 'a2 -> 'a1) -> 'a1 list -> 'a2 list -> 'a1 list **)

let rec zipk f l1 l2 =
  match l1 with
  | [] -> l1
  | x :: xs -> (match l2 with
                | [] -> l1
                | y :: ys -> (f x y) :: (zipk f xs ys))

(** val flat3 : 'a1 vec3 -> 'a1 list **)

let flat3 d =
  concat (map concat d)

(** val build1 : nat -> (nat -> 'a1) -> 'a1 list **)

let build1 n f =
  map f (seq O n)

(** val build2 : nat -> nat -> (nat -> nat -> 'a1) -> 'a1 vec2 **)

let build2 h w f =
  build1 h (fun i -> build1 w (f i))

(** val build3 :
    nat -> nat -> nat -> (nat -> nat -> nat -> 'a1) -> 'a1 vec3 **)

let build3 c h w f =
  build1 c (fun k -> build2 h w (f k))

(** val build4 :
    nat -> nat -> nat -> nat -> (nat -> nat -> nat -> nat -> 'a1) -> 'a1 vec4 **)

let build4 a c h w f =
  build1 a (fun k -> build3 c h w (f k))

(** val get2 : 'a1 -> 'a1 vec2 -> nat -> nat -> 'a1 **)

let get2 d x i j =
  nth j (nth i x []) d

(** val get3 : 'a1 -> 'a1 vec3 -> nat -> nat -> nat -> 'a1 **)

let get3 d x c i j =
  nth j (nth i (nth c x []) []) d

(** val get4 : 'a1 -> 'a1 vec4 -> nat -> nat -> nat -> nat -> 'a1 **)

let get4 d x a c i j =
  nth j (nth i (nth c (nth a x []) []) []) d

(** val unflat2 : nat -> nat -> 'a1 list -> 'a1 vec2 **)

let unflat2 r c v =
  build1 r (fun i -> firstn c (skipn (mul i c) v))

(** val unflat3 : nat -> nat -> nat -> 'a1 list -> 'a1 vec3 **)

let unflat3 c h w v =
  build1 c (fun k -> unflat2 h w (skipn (mul k (mul h w)) v))

type data =
| DSingle of t vec1
| DDouble of t vec2
| DTriple of t vec3
| DQuad of t vec4

type tensor = { tshape : shape; tdata : data }

(** val t_single : num -> t vec1 -> tensor **)

let t_single _ v =
  { tshape = (SSingle (length v)); tdata = (DSingle v) }

(** val t_double : num -> t vec2 -> tensor res **)

let t_double _ v = match v with
| [] -> Panic p_index
| r :: _ ->
  Ok { tshape = (SDouble ((length v), (length r))); tdata = (DDouble v) }

(** val t_triple : num -> t vec3 -> tensor res **)

let t_triple _ v = match v with
| [] -> Panic p_index
| l :: _ ->
  (match l with
   | [] -> Panic p_index
   | r :: _ ->
     Ok { tshape = (STriple ((length v), (hd_len v), (length r))); tdata =
       (DTriple v) })

(** val t_quad : num -> t vec4 -> tensor res **)

let t_quad _ v = match v with
| [] -> Panic p_index
| l :: _ ->
  (match l with
   | [] -> Panic p_index
   | l1 :: _ ->
     (match l1 with
      | [] -> Panic p_index
      | r :: _ ->
        Ok { tshape = (SQuad ((length v), (hd_len v), (hd_len (hd [] v)),
          (length r))); tdata = (DQuad v) }))

(** val fill : num -> shape -> t -> tensor res **)

let fill _ s x =
  match s with
  | SSingle n -> Ok { tshape = s; tdata = (DSingle (repeat x n)) }
  | SDouble (r, c) ->
    Ok { tshape = s; tdata = (DDouble (repeat (repeat x c) r)) }
  | STriple (c, h, w) ->
    Ok { tshape = s; tdata = (DTriple (repeat (repeat (repeat x w) h) c)) }
  | SQuad (a, b, c, d) ->
    Ok { tshape = s; tdata = (DQuad
      (repeat (repeat (repeat (repeat x d) c) b) a)) }
  | SNested _ -> Panic p_explicit

(** val ones : num -> shape -> tensor res **)

let ones n s =
  fill n s (one n)

(** val flatten : num -> tensor -> tensor res **)

let flatten n t0 =
  match t0.tdata with
  | DSingle d -> Ok (t_single n d)
  | DTriple d ->
    (match d with
     | [] -> Panic p_index
     | l :: _ ->
       (match l with
        | [] -> Panic p_index
        | _ :: _ -> Ok (t_single n (flat3 d))))
  | _ -> Panic p_explicit

(** val get_flat : num -> tensor -> t list res **)

let get_flat _ t0 =
  match t0.tdata with
  | DSingle d -> Ok d
  | DTriple d -> Ok (flat3 d)
  | _ -> Panic p_explicit

(** val get_triple : num -> tensor -> shape -> t vec3 res **)

let get_triple _ t0 outputs =
  match t0.tdata with
  | DSingle v ->
    (match outputs with
     | STriple (c, h, w) -> bind (take_chans c h w v) (fun r -> Ok (fst r))
     | _ -> Panic p_explicit)
  | DTriple d -> Ok d
  | _ -> Panic p_explicit

(** val reshape : num -> tensor -> shape -> tensor res **)

let reshape n t0 s =
  match t0.tshape with
  | SSingle n0 ->
    (match s with
     | SSingle _ -> Ok t0
     | STriple (c', h', w') ->
       if Nat.eqb n0 (mul (mul c' h') w')
       then bind (get_flat n t0) (fun f ->
              bind (take_chans c' h' w' f) (fun r -> Ok { tshape = s; tdata =
                (DTriple (fst r)) }))
       else Panic p_explicit
     | _ -> Panic p_explicit)
  | STriple (c, h, w) ->
    (match s with
     | SSingle n0 ->
       if Nat.eqb (mul (mul c h) w) n0 then flatten n t0 else Panic p_explicit
     | STriple (c', h', w') ->
       if Nat.eqb (mul (mul c h) w) (mul (mul c' h') w')
       then bind (get_flat n t0) (fun f ->
              bind (take_chans c' h' w' f) (fun r -> Ok { tshape = s; tdata =
                (DTriple (fst r)) }))
       else Panic p_explicit
     | _ -> Panic p_explicit)
  | _ -> Panic p_explicit

(** val argmax_from : num -> t list -> nat -> nat -> t -> nat res **)

let rec argmax_from n l i best bv =
  match l with
  | [] -> Ok best
  | x :: xs ->
    if negb ((||) (n.nisnan x) (n.nisnan bv))
    then if n.nltb x bv
         then argmax_from n xs (S i) best bv
         else argmax_from n xs (S i) i x
    else Panic p_unwrap

(** val argmax : num -> tensor -> nat res **)

let argmax n t0 =
  match t0.tdata with
  | DSingle v ->
    (match v with
     | [] -> Panic p_unwrap
     | x :: xs -> argmax_from n xs (S O) O x)
  | _ -> Panic p_explicit

(** val ew2 : num -> (t -> t -> t) -> data -> data -> data res **)

let ew2 _ f a b =
  match a with
  | DSingle x ->
    (match b with
     | DSingle y -> Ok (DSingle (zipk f x y))
     | _ -> Panic p_explicit)
  | DDouble x ->
    (match b with
     | DDouble y -> Ok (DDouble (zipk (zipk f) x y))
     | _ -> Panic p_explicit)
  | DTriple x ->
    (match b with
     | DTriple y -> Ok (DTriple (zipk (zipk (zipk f)) x y))
     | _ -> Panic p_explicit)
  | DQuad x ->
    (match b with
     | DQuad y -> Ok (DQuad (zipk (zipk (zipk (zipk f))) x y))
     | _ -> Panic p_explicit)

(** val binop_inplace :
    num -> (t -> t -> t) -> tensor -> tensor -> tensor res **)

let binop_inplace n f a b =
  if shape_eqb a.tshape b.tshape
  then bind (ew2 n f a.tdata b.tdata) (fun d -> Ok { tshape = a.tshape;
         tdata = d })
  else Panic p_shape

(** val add_inplace : num -> tensor -> tensor -> tensor res **)

let add_inplace n =
  binop_inplace n n.nadd

(** val sub_inplace : num -> tensor -> tensor -> tensor res **)

let sub_inplace n =
  binop_inplace n n.nsub

(** val mul_inplace : num -> tensor -> tensor -> tensor res **)

let mul_inplace n =
  binop_inplace n n.nmul

(** val hadamard : num -> tensor -> tensor -> t -> tensor res **)

let hadamard n a b scalar =
  binop_inplace n (fun x y -> n.nmul (n.nmul x y) scalar) a b

(** val map_data : num -> (t -> t) -> data -> data **)

let map_data _ f = function
| DSingle x -> DSingle (map f x)
| DDouble x -> DDouble (map (map f) x)
| DTriple x -> DTriple (map (map (map f)) x)
| DQuad x -> DQuad (map (map (map (map f))) x)

(** val div_scalar_inplace : num -> tensor -> t -> tensor **)

let div_scalar_inplace n a s =
  { tshape = a.tshape; tdata = (map_data n (fun x -> n.ndiv x s) a.tdata) }

(** val t_clamp : num -> tensor -> t -> t -> tensor **)

let t_clamp n a lo hi =
  { tshape = a.tshape; tdata =
    (map_data n (fun x -> clamp n x lo hi) a.tdata) }

(** val add_inplace_nested :
    num -> tensor list -> tensor list -> tensor list res **)

let add_inplace_nested n a b =
  if Nat.eqb (length a) (length b)
  then mapM (fun p -> add_inplace n (fst p) (snd p)) (combine a b)
  else Panic p_shape

(** val add_inplace_nestedopt :
    num -> tensor option list -> tensor option list -> tensor option list res **)

let add_inplace_nestedopt n a b =
  if Nat.eqb (length a) (length b)
  then mapM (fun p ->
         let (x, y0) = p in
         (match x with
          | Some x0 ->
            (match y0 with
             | Some y -> bind (add_inplace n x0 y) (fun z0 -> Ok (Some z0))
             | None -> Ok x)
          | None -> Ok x)) (combine a b)
  else Panic p_shape

(** val div_scalar_nested : num -> tensor list -> t -> tensor list **)

let div_scalar_nested n a s =
  map (fun t0 -> div_scalar_inplace n t0 s) a

(** val mean_elem : num -> t -> t -> t list -> t **)

let mean_elem n n0 v os =
  n.ndiv (n.nadd v (fsum n os)) n0

(** val mean_inplace : num -> tensor -> tensor list -> tensor res **)

let mean_inplace n a others =
  if negb (Nat.eqb (length others) O)
  then if forallb (fun o -> shape_eqb a.tshape o.tshape) others
       then let n0 = of_nat0 n (add (length others) (S O)) in
            (match a.tdata with
             | DSingle x ->
               bind
                 (mapM (fun iv ->
                   bind
                     (mapM (fun o ->
                       match o.tdata with
                       | DSingle d -> nth_res d (fst iv)
                       | _ -> Panic p_explicit) others) (fun os -> Ok
                     (mean_elem n n0 (snd iv) os)))
                   (combine (seq O (length x)) x)) (fun r -> Ok { tshape =
                 a.tshape; tdata = (DSingle r) })
             | DDouble x ->
               bind
                 (mapM (fun ir ->
                   mapM (fun jv ->
                     bind
                       (mapM (fun o ->
                         match o.tdata with
                         | DDouble d ->
                           bind (nth_res d (fst ir)) (fun row ->
                             nth_res row (fst jv))
                         | _ -> Panic p_explicit) others) (fun os -> Ok
                       (mean_elem n n0 (snd jv) os)))
                     (combine (seq O (length (snd ir))) (snd ir)))
                   (combine (seq O (length x)) x)) (fun r -> Ok { tshape =
                 a.tshape; tdata = (DDouble r) })
             | DTriple x ->
               bind
                 (mapM (fun ic ->
                   mapM (fun jr ->
                     mapM (fun kv ->
                       bind
                         (mapM (fun o ->
                           match o.tdata with
                           | DTriple d ->
                             bind (nth_res d (fst ic)) (fun ch ->
                               bind (nth_res ch (fst jr)) (fun row ->
                                 nth_res row (fst kv)))
                           | _ -> Panic p_explicit) others) (fun os -> Ok
                         (mean_elem n n0 (snd kv) os)))
                       (combine (seq O (length (snd jr))) (snd jr)))
                     (combine (seq O (length (snd ic))) (snd ic)))
                   (combine (seq O (length x)) x)) (fun r -> Ok { tshape =
                 a.tshape; tdata = (DTriple r) })
             | DQuad x ->
               bind
                 (mapM (fun ia ->
                   mapM (fun ic ->
                     mapM (fun jr ->
                       mapM (fun kv ->
                         bind
                           (mapM (fun o ->
                             match o.tdata with
                             | DQuad d ->
                               bind (nth_res d (fst ia)) (fun cu ->
                                 bind (nth_res cu (fst ic)) (fun ch ->
                                   bind (nth_res ch (fst jr)) (fun row ->
                                     nth_res row (fst kv))))
                             | _ -> Panic p_explicit) others) (fun os -> Ok
                           (mean_elem n n0 (snd kv) os)))
                         (combine (seq O (length (snd jr))) (snd jr)))
                       (combine (seq O (length (snd ic))) (snd ic)))
                     (combine (seq O (length (snd ia))) (snd ia)))
                   (combine (seq O (length x)) x)) (fun r -> Ok { tshape =
                 a.tshape; tdata = (DQuad r) }))
       else Panic p_shape
  else Panic p_explicit

(** val product : num -> tensor -> tensor -> tensor res **)

let product n a b =
  match a.tdata with
  | DSingle x ->
    (match b.tdata with
     | DSingle y -> t_double n (map (fun u -> map (fun v -> n.nmul u v) y) x)
     | _ -> Panic p_explicit)
  | _ -> Panic p_explicit

(** val dot : num -> tensor -> tensor -> tensor res **)

let dot n a b =
  match a.tdata with
  | DDouble m ->
    (match b.tdata with
     | DSingle v ->
       Ok (t_single n (map (fun row -> fsum n (map2 n.nmul row v)) m))
     | _ -> Panic p_explicit)
  | _ -> Panic p_explicit

(** val transpose : num -> tensor -> tensor res **)

let transpose n a =
  match a.tdata with
  | DDouble m ->
    (match m with
     | [] -> Panic p_index
     | r0 :: _ ->
       let cols = length r0 in
       if forallb (fun r -> Nat.leb (length r) cols) m
       then if negb (Nat.eqb cols O)
            then Ok { tshape = (SDouble (cols, (length m))); tdata = (DDouble
                   (build2 cols (length m) (fun j i -> get2 (zero n) m i j))) }
            else Panic p_index
       else Panic p_index)
  | _ -> Panic p_explicit

(** val drop_list : num -> t -> z -> t list -> z * t list **)

let drop_list n rate cur l =
  fold_left (fun acc x ->
    let (c, v) = generate_wrap n (fst acc) (zero n) (one n) in
    (c, (app (snd acc) ((if n.nltb v rate then zero n else x) :: [])))) l
    (cur, [])

(** val drop_list2 : num -> t -> z -> t vec2 -> z * t vec2 **)

let drop_list2 n rate cur l =
  fold_left (fun acc r ->
    let (c, r') = drop_list n rate (fst acc) r in
    (c, (app (snd acc) (r' :: [])))) l (cur, [])

(** val drop_list3 : num -> t -> z -> t vec3 -> z * t vec3 **)

let drop_list3 n rate cur l =
  fold_left (fun acc r ->
    let (c, r') = drop_list2 n rate (fst acc) r in
    (c, (app (snd acc) (r' :: [])))) l (cur, [])

(** val drop_list4 : num -> t -> z -> t vec4 -> z * t vec4 **)

let drop_list4 n rate cur l =
  fold_left (fun acc r ->
    let (c, r') = drop_list3 n rate (fst acc) r in
    (c, (app (snd acc) (r' :: [])))) l (cur, [])

(** val dropout : num -> tensor -> t -> tensor **)

let dropout n a rate =
  { tshape = a.tshape; tdata =
    (match a.tdata with
     | DSingle x ->
       DSingle
         (snd
           (drop_list n rate (Zpos (XI (XO (XO (XI (XI (XI (XO (XO (XO (XO
             (XO (XO (XI XH)))))))))))))) x))
     | DDouble x ->
       DDouble
         (snd
           (drop_list2 n rate (Zpos (XI (XO (XO (XI (XI (XI (XO (XO (XO (XO
             (XO (XO (XI XH)))))))))))))) x))
     | DTriple x ->
       DTriple
         (snd
           (drop_list3 n rate (Zpos (XI (XO (XO (XI (XI (XI (XO (XO (XO (XO
             (XO (XO (XI XH)))))))))))))) x))
     | DQuad x ->
       DQuad
         (snd
           (drop_list4 n rate (Zpos (XI (XO (XO (XI (XI (XI (XO (XO (XO (XO
             (XO (XO (XI XH)))))))))))))) x))) }

(** val pad3d : num -> t vec3 -> nat -> nat -> t vec3 res **)

let pad3d n x ih' iw' =
  match x with
  | [] -> Panic p_index
  | l :: _ ->
    (match l with
     | [] -> Panic p_index
     | r0 :: _ ->
       let h = hd_len x in
       let w = length r0 in
       let dh = if Nat.ltb h ih' then Nat.div (sub ih' h) (S (S O)) else O in
       let dw = if Nat.ltb w iw' then Nat.div (sub iw' w) (S (S O)) else O in
       Ok
       (map (fun ch ->
         build2 ih' iw' (fun i j ->
           if (&&) (Nat.leb dh i)
                (Nat.ltb (sub i dh) (Nat.min (length ch) ih'))
           then let row = nth (sub i dh) ch [] in
                if (&&) (Nat.leb dw j)
                     (Nat.ltb (sub j dw) (Nat.min (length row) iw'))
                then nth (sub j dw) row (zero n)
                else zero n
           else zero n)) x))

(** val hadamard3d : num -> t vec3 -> t vec3 -> t -> t vec3 **)

let hadamard3d n a b s =
  map2 (map2 (map2 (fun e f -> n.nmul (n.nmul e f) s))) a b

(** val random_tensor : num -> z -> shape -> t -> t -> tensor res **)

let random_tensor n seed s lo hi =
  match s with
  | SSingle n0 ->
    Ok { tshape = s; tdata = (DSingle (snd (generate_n n n0 seed lo hi))) }
  | SDouble (r, c) ->
    let vs = snd (generate_n n (mul r c) seed lo hi) in
    Ok { tshape = s; tdata = (DDouble (unflat2 r c vs)) }
  | STriple (c, h, w) ->
    let vs = snd (generate_n n (mul (mul c h) w) seed lo hi) in
    Ok { tshape = s; tdata = (DTriple (unflat3 c h w vs)) }
  | SQuad (a, c, h, w) ->
    let vs = snd (generate_n n (mul (mul (mul a c) h) w) seed lo hi) in
    Ok { tshape = s; tdata = (DQuad
    (build1 a (fun i -> unflat3 c h w (skipn (mul i (mul (mul c h) w)) vs)))) }
  | SNested _ -> Panic p_explicit

type activation =
| ReLU
| LeakyReLU
| Sigmoid
| Softmax
| Tanh
| Linear

(** val alpha : num -> t **)

let alpha n =
  ratio n (Zpos XH) (Zpos (XO (XO (XI (XO (XO (XI XH)))))))

(** val relu_f : num -> t -> t **)

let relu_f n v =
  fmax n v (zero n)

(** val relu_b : num -> t -> t **)

let relu_b n v =
  if gtb n v (zero n) then one n else zero n

(** val leaky_f : num -> t -> t **)

let leaky_f n v =
  if gtb n v (zero n) then v else n.nmul (alpha n) v

(** val leaky_b : num -> t -> t **)

let leaky_b n v =
  if gtb n v (zero n) then one n else alpha n

(** val sigmoid_f : num -> t -> t **)

let sigmoid_f n v =
  n.ndiv (one n) (n.nadd (one n) (n.nexp (n.nneg v)))

(** val sigmoid_b : num -> t -> t **)

let sigmoid_b n v =
  let y = sigmoid_f n v in n.nmul y (n.nsub (one n) y)

(** val tanh_f : num -> t -> t **)

let tanh_f n v =
  n.ntanh v

(** val tanh_b : num -> t -> t **)

let tanh_b n v =
  n.ndiv (one n) (powi n (n.ncosh v) (Zpos (XO XH)))

(** val ew_act : num -> (t -> t) -> tensor -> tensor res **)

let ew_act _ f x =
  match x.tdata with
  | DSingle d ->
    Ok { tshape = (SSingle (length d)); tdata = (DSingle (map f d)) }
  | DTriple d ->
    (match d with
     | [] -> Panic p_index
     | l :: _ ->
       (match l with
        | [] -> Panic p_index
        | r :: _ ->
          Ok { tshape = (STriple ((length d), (hd_len d), (length r)));
            tdata = (DTriple (map (map (map f)) d)) }))
  | _ -> Panic p_explicit

(** val softmax_list : num -> t list -> t list **)

let softmax_list n x =
  let mx = fold_left (fmax n) x n.nneginf in
  let exps = map (fun v -> n.nexp (n.nsub v mx)) x in
  let sum = fold_left n.nadd exps (zero n) in map (fun e -> n.ndiv e sum) exps

(** val softmax_f : num -> tensor -> tensor res **)

let softmax_f n x =
  bind (get_flat n x) (fun f ->
    reshape n (t_single n (softmax_list n f)) x.tshape)

(** val softmax_b_list : num -> t list -> t list **)

let softmax_b_list n p =
  let scalar = fsum n (map2 n.nmul p p) in
  mapi (fun i pi_ ->
    fold_left (fun d jp ->
      if Nat.eqb (fst jp) i
      then n.nadd d (n.nsub (n.nmul pi_ (n.nsub (one n) pi_)) scalar)
      else n.nsub d (n.nsub (n.nmul pi_ (snd jp)) scalar))
      (combine (seq O (length p)) p) (zero n)) p

(** val softmax_b : num -> tensor -> tensor res **)

let softmax_b n x =
  bind (softmax_f n x) (fun y ->
    bind (get_flat n y) (fun p ->
      reshape n (t_single n (softmax_b_list n p)) x.tshape))

(** val act_forward : num -> activation -> tensor -> tensor res **)

let act_forward n a x =
  match a with
  | ReLU -> ew_act n (relu_f n) x
  | LeakyReLU -> ew_act n (leaky_f n) x
  | Sigmoid -> ew_act n (sigmoid_f n) x
  | Softmax -> softmax_f n x
  | Tanh -> ew_act n (tanh_f n) x
  | Linear -> Ok x

(** val act_backward : num -> activation -> tensor -> tensor res **)

let act_backward n a x =
  match a with
  | ReLU -> ew_act n (relu_b n) x
  | LeakyReLU -> ew_act n (leaky_b n) x
  | Sigmoid -> ew_act n (sigmoid_b n) x
  | Softmax -> softmax_b n x
  | Tanh -> ew_act n (tanh_b n) x
  | Linear -> ones n x.tshape

type objective =
| AE
| MAE
| MSE
| RMSE
| CrossEntropy
| BinaryCrossEntropy
| KLDivergence

(** val eps : num -> t **)

let eps n =
  ratio n (Zpos XH) (Zpos (XO (XO (XO (XO (XO (XO (XI (XO (XO (XI (XO (XO (XO
    (XO (XI (XO (XI (XI (XI XH))))))))))))))))))))

(** val one_m_eps : num -> t **)

let one_m_eps n =
  n.nsub (one n) (eps n)

(** val clamp_p : num -> t -> t **)

let clamp_p n p =
  clamp n p (eps n) (one_m_eps n)

(** val neg_two : num -> t **)

let neg_two n =
  n.nofZ (Zneg (XO XH))

(** val neg_one : num -> t **)

let neg_one n =
  n.nofZ (Zneg XH)

(** val sign_grad : num -> t -> t -> t **)

let sign_grad n a p =
  if n.neqb a p then zero n else if gtb n a p then neg_one n else one n

(** val mse_grad : num -> t -> t -> t -> t **)

let mse_grad n len a p =
  n.ndiv (n.nmul (neg_two n) (n.nsub a p)) len

(** val rmse_grad : num -> t -> t -> t -> t **)

let rmse_grad n len a p =
  if n.neqb a p
  then zero n
  else n.ndiv (n.nneg (n.nsub a p))
         (n.nmul (n.nsqrt (powi n (n.nsub a p) (Zpos (XO XH)))) len)

(** val ce_grad : num -> t -> t -> t **)

let ce_grad n a p =
  n.nsub p a

(** val bce_grad : num -> t -> t -> t **)

let bce_grad n a p =
  let q = clamp_p n p in n.ndiv (n.nsub q a) (n.nmul q (n.nsub (one n) q))

(** val kl_grad : num -> t -> t -> t **)

let kl_grad n a p =
  n.ndiv (n.nneg a) (clamp_p n p)

(** val zipf : num -> (t -> t -> t) -> t list -> t list -> t list **)

let zipf _ =
  map2

(** val loss_value : num -> objective -> t list -> t list -> t **)

let loss_value n o t0 p =
  let len = of_nat0 n (length t0) in
  (match o with
   | AE -> fsum n (zipf n (fun a q -> n.nabs (n.nsub a q)) t0 p)
   | MAE -> n.ndiv (fsum n (zipf n (fun a q -> n.nabs (n.nsub a q)) t0 p)) len
   | MSE ->
     fsum n
       (zipf n (fun a q -> n.ndiv (powi n (n.nsub a q) (Zpos (XO XH))) len)
         t0 p)
   | RMSE ->
     n.nsqrt
       (n.ndiv
         (fsum n
           (zipf n (fun a q -> powi n (n.nsub a q) (Zpos (XO XH))) t0 p)) len)
   | CrossEntropy ->
     n.nneg (fsum n (zipf n (fun a q -> n.nmul a (n.nln (clamp_p n q))) t0 p))
   | BinaryCrossEntropy ->
     n.nneg
       (fsum n
         (zipf n (fun a q ->
           let q' = clamp_p n q in
           n.nadd (n.nmul a (n.nln q'))
             (n.nmul (n.nsub (one n) a) (n.nln (n.nsub (one n) q')))) t0 p))
   | KLDivergence ->
     fsum n
       (zipf n (fun a q -> n.nmul a (n.nln (n.ndiv a (clamp_p n q)))) t0 p))

(** val grad_fun : num -> objective -> t -> t -> t -> t **)

let grad_fun n o len =
  match o with
  | MSE -> mse_grad n len
  | RMSE -> rmse_grad n len
  | CrossEntropy -> ce_grad n
  | BinaryCrossEntropy -> bce_grad n
  | KLDivergence -> kl_grad n
  | _ -> sign_grad n

(** val grad_tensor :
    num -> objective -> t -> tensor -> tensor -> tensor res **)

let grad_tensor n o len target prediction =
  let g = grad_fun n o len in
  (match target.tdata with
   | DSingle t0 ->
     (match prediction.tdata with
      | DSingle p -> Ok (t_single n (map2 g t0 p))
      | _ -> Panic p_explicit)
   | DTriple t0 ->
     (match prediction.tdata with
      | DTriple p -> t_triple n (map2 (map2 (map2 g)) t0 p)
      | _ -> Panic p_explicit)
   | _ -> Panic p_explicit)

(** val loss :
    num -> objective -> (t * t) option -> tensor -> tensor -> (t * tensor) res **)

let loss n o cl prediction target =
  bind (get_flat n target) (fun t0 ->
    bind (get_flat n prediction) (fun p ->
      let l = loss_value n o t0 p in
      bind (grad_tensor n o (of_nat0 n (length t0)) target prediction)
        (fun g ->
        match cl with
        | Some p0 ->
          let (lo, hi) = p0 in
          if n.nleb lo hi
          then Ok (l, (t_clamp n g lo hi))
          else Panic p_explicit
        | None -> Ok (l, g))))

type slots = tensor list list list

type sgd_t = { sgd_lr : t; sgd_decay : t option }

type sgdm_t = { sgdm_lr : t; sgdm_momentum : t; sgdm_dampening : t;
                sgdm_decay : t option; sgdm_velocity : slots }

type adam_t = { adam_lr : t; adam_b1 : t; adam_b2 : t; adam_eps : t;
                adam_decay : t option; adam_velocity : slots;
                adam_momentum : slots }

type adamw_t = { adamw_lr : t; adamw_b1 : t; adamw_b2 : t; adamw_eps : 
                 t; adamw_decay : t; adamw_velocity : slots;
                 adamw_momentum : slots }

type rms_t = { rms_lr : t; rms_alpha : t; rms_eps : t; rms_decay : t option;
               rms_momentum : t option; rms_centered : bool;
               rms_velocity : slots; rms_gradient : slots; rms_buffer : 
               slots }

type optimizer =
| OSGD of sgd_t
| OSGDM of sgdm_t
| OAdam of adam_t
| OAdamW of adamw_t
| ORMS of rms_t

(** val is0 : num -> t -> bool **)

let is0 n x =
  n.neqb x (zero n)

(** val dflt : num -> t -> t -> t **)

let dflt n x d =
  if is0 n x then d else x

(** val opt_validate : num -> optimizer -> slots -> optimizer **)

let opt_validate n o v =
  match o with
  | OSGD p ->
    OSGD { sgd_lr =
      (dflt n p.sgd_lr (ratio n (Zpos XH) (Zpos (XO (XI (XO XH))))));
      sgd_decay = p.sgd_decay }
  | OSGDM p ->
    OSGDM { sgdm_lr =
      (dflt n p.sgdm_lr (ratio n (Zpos XH) (Zpos (XO (XI (XO XH))))));
      sgdm_momentum =
      (dflt n p.sgdm_momentum
        (ratio n (Zpos (XI (XO (XO XH)))) (Zpos (XO (XI (XO XH))))));
      sgdm_dampening = p.sgdm_dampening; sgdm_decay = p.sgdm_decay;
      sgdm_velocity = v }
  | OAdam p ->
    OAdam { adam_lr =
      (dflt n p.adam_lr
        (ratio n (Zpos XH) (Zpos (XO (XO (XO (XI (XO (XI (XI (XI (XI
          XH)))))))))))); adam_b1 =
      (dflt n p.adam_b1
        (ratio n (Zpos (XI (XO (XO XH)))) (Zpos (XO (XI (XO XH))))));
      adam_b2 =
      (dflt n p.adam_b2
        (ratio n (Zpos (XI (XI (XI (XO (XO (XI (XI (XI (XI XH)))))))))) (Zpos
          (XO (XO (XO (XI (XO (XI (XI (XI (XI XH)))))))))))); adam_eps =
      (dflt n p.adam_eps
        (ratio n (Zpos XH) (Zpos (XO (XO (XO (XO (XO (XO (XO (XO (XI (XO (XO
          (XO (XO (XI (XI (XI (XI (XO (XI (XO (XI (XI (XI (XI (XI (XO
          XH))))))))))))))))))))))))))))); adam_decay = p.adam_decay;
      adam_velocity = v; adam_momentum = v }
  | OAdamW p ->
    OAdamW { adamw_lr =
      (dflt n p.adamw_lr
        (ratio n (Zpos XH) (Zpos (XO (XO (XO (XI (XO (XI (XI (XI (XI
          XH)))))))))))); adamw_b1 =
      (dflt n p.adamw_b1
        (ratio n (Zpos (XI (XO (XO XH)))) (Zpos (XO (XI (XO XH))))));
      adamw_b2 =
      (dflt n p.adamw_b2
        (ratio n (Zpos (XI (XI (XI (XO (XO (XI (XI (XI (XI XH)))))))))) (Zpos
          (XO (XO (XO (XI (XO (XI (XI (XI (XI XH)))))))))))); adamw_eps =
      (dflt n p.adamw_eps
        (ratio n (Zpos XH) (Zpos (XO (XO (XO (XO (XO (XO (XO (XO (XI (XO (XO
          (XO (XO (XI (XI (XI (XI (XO (XI (XO (XI (XI (XI (XI (XI (XO
          XH))))))))))))))))))))))))))))); adamw_decay = p.adamw_decay;
      adamw_velocity = v; adamw_momentum = v }
  | ORMS p ->
    ORMS { rms_lr =
      (dflt n p.rms_lr
        (ratio n (Zpos XH) (Zpos (XO (XO (XI (XO (XO (XI XH)))))))));
      rms_alpha =
      (dflt n p.rms_alpha
        (ratio n (Zpos (XI (XI (XO (XO (XO (XI XH))))))) (Zpos (XO (XO (XI
          (XO (XO (XI XH))))))))); rms_eps =
      (dflt n p.rms_eps
        (ratio n (Zpos XH) (Zpos (XO (XO (XO (XO (XO (XO (XO (XO (XI (XO (XO
          (XO (XO (XI (XI (XI (XI (XO (XI (XO (XI (XI (XI (XI (XI (XO
          XH))))))))))))))))))))))))))))); rms_decay = p.rms_decay;
      rms_momentum = p.rms_momentum; rms_centered = p.rms_centered;
      rms_velocity = v; rms_gradient = v; rms_buffer = v }

(** val decay_g : num -> t option -> t -> t -> t **)

let decay_g n decay w g =
  match decay with
  | Some d -> n.nadd g (n.nmul d w)
  | None -> g

(** val sgd_step : num -> sgd_t -> t -> t -> t * t **)

let sgd_step n p w g =
  let g1 = decay_g n p.sgd_decay w g in ((n.nsub w (n.nmul p.sgd_lr g1)), g1)

(** val sgdm_step : num -> sgdm_t -> z -> t -> t -> t -> (t * t) * t **)

let sgdm_step n p stepnr w g v =
  let g1 = decay_g n p.sgdm_decay w g in
  if (&&) (Z.ltb (Zpos XH) stepnr) (negb (is0 n p.sgdm_momentum))
  then let v1 =
         n.nadd (n.nmul v p.sgdm_momentum)
           (n.nmul (n.nsub (one n) p.sgdm_dampening) g1)
       in
       (((n.nsub w (n.nmul p.sgdm_lr v1)), v1), v1)
  else (((n.nsub w (n.nmul p.sgdm_lr g1)), g1), g1)

(** val adam_core :
    num -> t -> t -> t -> t -> z -> t -> t -> t -> t -> (t * t) * t **)

let adam_core n lr b1 b2 eps0 stepnr w g m v =
  let m1 = n.nadd (n.nmul m b1) (n.nmul g (n.nsub (one n) b1)) in
  let v1 = n.nadd (n.nmul v b2) (n.nmul (n.npowf2 g) (n.nsub (one n) b2)) in
  let mh = n.ndiv m1 (n.nsub (one n) (powi n b1 stepnr)) in
  let vh = n.ndiv v1 (n.nsub (one n) (powi n b2 stepnr)) in
  (((n.nsub w (n.ndiv (n.nmul lr mh) (n.nadd (n.nsqrt vh) eps0))), m1), v1)

(** val adam_step :
    num -> adam_t -> z -> t -> t -> t -> t -> ((t * t) * t) * t **)

let adam_step n p stepnr w g m v =
  let g1 = decay_g n p.adam_decay w g in
  let (p0, v1) =
    adam_core n p.adam_lr p.adam_b1 p.adam_b2 p.adam_eps stepnr w g1 m v
  in
  let (w1, m1) = p0 in (((w1, g1), m1), v1)

(** val adamw_step :
    num -> adamw_t -> z -> t -> t -> t -> t -> ((t * t) * t) * t **)

let adamw_step n p stepnr w g m v =
  let w0 = n.nsub w (n.nmul (n.nmul p.adamw_lr p.adamw_decay) w) in
  let (p0, v1) =
    adam_core n p.adamw_lr p.adamw_b1 p.adamw_b2 p.adamw_eps stepnr w0 g m v
  in
  let (w1, m1) = p0 in (((w1, g), m1), v1)

(** val rms_step :
    num -> rms_t -> t -> t -> t -> t -> t -> (((t * t) * t) * t) * t **)

let rms_step n p w g vel gr buf =
  let g1 = decay_g n p.rms_decay w g in
  let vel1 =
    n.nadd (n.nmul p.rms_alpha vel)
      (n.nmul (n.nsub (one n) p.rms_alpha) (n.npowf2 g1))
  in
  let gr1 =
    if p.rms_centered
    then n.nadd (n.nmul p.rms_alpha gr)
           (n.nmul (n.nsub (one n) p.rms_alpha) g1)
    else gr
  in
  let v = if p.rms_centered then n.nsub vel1 (n.npowf2 gr1) else vel1 in
  let denom = n.nadd (n.nsqrt v) p.rms_eps in
  (match p.rms_momentum with
   | Some mo ->
     let buf1 = n.nadd (n.nmul mo buf) (n.ndiv g1 denom) in
     (((((n.nsub w (n.nmul p.rms_lr buf1)), g1), vel1), gr1), buf1)
   | None ->
     (((((n.nsub w (n.ndiv (n.nmul p.rms_lr g1) denom)), g1), vel1), gr1),
       buf))

(** val lift_row :
    num -> (t -> t list -> t * t list) -> t list -> t list list -> (t
    list * t list list) res **)

let lift_row n step ws auxs =
  bind
    (mapM (fun iw ->
      bind (mapM (fun aux -> nth_res aux (fst iw)) auxs) (fun a -> Ok
        (step (snd iw) a))) (combine (seq O (length ws)) ws)) (fun r ->
    let ws' = map fst r in
    let auxs' =
      mapi (fun k aux -> zipk (fun _ o -> nth k o (zero n)) aux (map snd r))
        auxs
    in
    Ok (ws', auxs'))

(** val lift_mat :
    num -> (t -> t list -> t * t list) -> t vec2 -> t vec2 list -> (t
    vec2 * t vec2 list) res **)

let lift_mat n step ws auxs =
  bind
    (mapM (fun iw ->
      bind (mapM (fun aux -> nth_res aux (fst iw)) auxs) (fun a ->
        lift_row n step (snd iw) a)) (combine (seq O (length ws)) ws))
    (fun r ->
    let ws' = map fst r in
    let auxs' =
      mapi (fun k aux -> zipk (fun _ o -> nth k o []) aux (map snd r)) auxs
    in
    Ok (ws', auxs'))

(** val lift_cube :
    num -> (t -> t list -> t * t list) -> t vec3 -> t vec3 list -> (t
    vec3 * t vec3 list) res **)

let lift_cube n step ws auxs =
  bind
    (mapM (fun iw ->
      bind (mapM (fun aux -> nth_res aux (fst iw)) auxs) (fun a ->
        lift_mat n step (snd iw) a)) (combine (seq O (length ws)) ws))
    (fun r ->
    let ws' = map fst r in
    let auxs' =
      mapi (fun k aux -> zipk (fun _ o -> nth k o []) aux (map snd r)) auxs
    in
    Ok (ws', auxs'))

(** val lift_tensor :
    num -> (t -> t list -> t * t list) -> tensor -> tensor list ->
    (tensor * tensor list) res **)

let lift_tensor n step w auxs =
  match w.tdata with
  | DSingle ws ->
    bind
      (mapM (fun t0 ->
        match t0.tdata with
        | DSingle d -> Ok d
        | _ -> Panic p_explicit) auxs) (fun a ->
      bind (lift_row n step ws a) (fun r -> Ok ({ tshape = w.tshape; tdata =
        (DSingle (fst r)) },
        (map2 (fun t0 d -> { tshape = t0.tshape; tdata = (DSingle d) }) auxs
          (snd r)))))
  | DDouble ws ->
    bind
      (mapM (fun t0 ->
        match t0.tdata with
        | DDouble d -> Ok d
        | _ -> Panic p_explicit) auxs) (fun a ->
      bind (lift_mat n step ws a) (fun r -> Ok ({ tshape = w.tshape; tdata =
        (DDouble (fst r)) },
        (map2 (fun t0 d -> { tshape = t0.tshape; tdata = (DDouble d) }) auxs
          (snd r)))))
  | DTriple ws ->
    bind
      (mapM (fun t0 ->
        match t0.tdata with
        | DTriple d -> Ok d
        | _ -> Panic p_explicit) auxs) (fun a ->
      bind (lift_cube n step ws a) (fun r -> Ok ({ tshape = w.tshape; tdata =
        (DTriple (fst r)) },
        (map2 (fun t0 d -> { tshape = t0.tshape; tdata = (DTriple d) }) auxs
          (snd r)))))
  | DQuad _ -> Panic p_explicit

(** val slot_get : num -> slots -> nat -> nat -> bool -> tensor res **)

let slot_get _ s layer0 filter0 bias =
  bind (nth_res s layer0) (fun l ->
    bind (nth_res l filter0) (fun f -> nth_res f (if bias then S O else O)))

(** val slot_set : num -> slots -> nat -> nat -> bool -> tensor -> slots **)

let slot_set _ s layer0 filter0 bias t0 =
  upd_nth s layer0 (fun l ->
    upd_nth l filter0 (fun f -> set_nth f (if bias then S O else O) t0))

(** val two_of : num -> t list -> t * t **)

let two_of n = function
| [] -> ((zero n), (zero n))
| a :: l0 -> (match l0 with
              | [] -> (a, (zero n))
              | b :: _ -> (a, b))

(** val opt_update :
    num -> optimizer -> nat -> nat -> bool -> z -> tensor -> tensor ->
    ((optimizer * tensor) * tensor) res **)

let opt_update n o layer0 filter0 bias stepnr values gradients =
  match o with
  | OSGD p ->
    bind
      (lift_tensor n (fun w a ->
        let (w1, g1) = sgd_step n p w (hd (zero n) a) in (w1, (g1 :: [])))
        values (gradients :: [])) (fun r -> Ok ((o, (fst r)),
      (hd gradients (snd r))))
  | OSGDM p ->
    bind (slot_get n p.sgdm_velocity layer0 filter0 bias) (fun vel ->
      bind
        (lift_tensor n (fun w a ->
          let (g, v) = two_of n a in
          let (p0, v1) = sgdm_step n p stepnr w g v in
          let (w1, g1) = p0 in (w1, (g1 :: (v1 :: [])))) values
          (gradients :: (vel :: []))) (fun r ->
        match snd r with
        | [] -> Panic p_explicit
        | g' :: l ->
          (match l with
           | [] -> Panic p_explicit
           | v' :: l0 ->
             (match l0 with
              | [] ->
                Ok (((OSGDM { sgdm_lr = p.sgdm_lr; sgdm_momentum =
                  p.sgdm_momentum; sgdm_dampening = p.sgdm_dampening;
                  sgdm_decay = p.sgdm_decay; sgdm_velocity =
                  (slot_set n p.sgdm_velocity layer0 filter0 bias v') }),
                  (fst r)), g')
              | _ :: _ -> Panic p_explicit))))
  | OAdam p ->
    bind (slot_get n p.adam_momentum layer0 filter0 bias) (fun mo ->
      bind (slot_get n p.adam_velocity layer0 filter0 bias) (fun vel ->
        bind
          (lift_tensor n (fun w a ->
            match a with
            | [] -> (w, a)
            | g :: l ->
              (match l with
               | [] -> (w, a)
               | m :: l0 ->
                 (match l0 with
                  | [] -> (w, a)
                  | v :: l1 ->
                    (match l1 with
                     | [] ->
                       let (p0, v1) = adam_step n p stepnr w g m v in
                       let (p1, m1) = p0 in
                       let (w1, g1) = p1 in (w1, (g1 :: (m1 :: (v1 :: []))))
                     | _ :: _ -> (w, a))))) values
            (gradients :: (mo :: (vel :: [])))) (fun r ->
          match snd r with
          | [] -> Panic p_explicit
          | g' :: l ->
            (match l with
             | [] -> Panic p_explicit
             | m' :: l0 ->
               (match l0 with
                | [] -> Panic p_explicit
                | v' :: l1 ->
                  (match l1 with
                   | [] ->
                     Ok (((OAdam { adam_lr = p.adam_lr; adam_b1 = p.adam_b1;
                       adam_b2 = p.adam_b2; adam_eps = p.adam_eps;
                       adam_decay = p.adam_decay; adam_velocity =
                       (slot_set n p.adam_velocity layer0 filter0 bias v');
                       adam_momentum =
                       (slot_set n p.adam_momentum layer0 filter0 bias m') }),
                       (fst r)), g')
                   | _ :: _ -> Panic p_explicit))))))
  | OAdamW p ->
    bind (slot_get n p.adamw_momentum layer0 filter0 bias) (fun mo ->
      bind (slot_get n p.adamw_velocity layer0 filter0 bias) (fun vel ->
        bind
          (lift_tensor n (fun w a ->
            match a with
            | [] -> (w, a)
            | g :: l ->
              (match l with
               | [] -> (w, a)
               | m :: l0 ->
                 (match l0 with
                  | [] -> (w, a)
                  | v :: l1 ->
                    (match l1 with
                     | [] ->
                       let (p0, v1) = adamw_step n p stepnr w g m v in
                       let (p1, m1) = p0 in
                       let (w1, g1) = p1 in (w1, (g1 :: (m1 :: (v1 :: []))))
                     | _ :: _ -> (w, a))))) values
            (gradients :: (mo :: (vel :: [])))) (fun r ->
          match snd r with
          | [] -> Panic p_explicit
          | g' :: l ->
            (match l with
             | [] -> Panic p_explicit
             | m' :: l0 ->
               (match l0 with
                | [] -> Panic p_explicit
                | v' :: l1 ->
                  (match l1 with
                   | [] ->
                     Ok (((OAdamW { adamw_lr = p.adamw_lr; adamw_b1 =
                       p.adamw_b1; adamw_b2 = p.adamw_b2; adamw_eps =
                       p.adamw_eps; adamw_decay = p.adamw_decay;
                       adamw_velocity =
                       (slot_set n p.adamw_velocity layer0 filter0 bias v');
                       adamw_momentum =
                       (slot_set n p.adamw_momentum layer0 filter0 bias m') }),
                       (fst r)), g')
                   | _ :: _ -> Panic p_explicit))))))
  | ORMS p ->
    bind (slot_get n p.rms_velocity layer0 filter0 bias) (fun vel ->
      bind (slot_get n p.rms_gradient layer0 filter0 bias) (fun gr ->
        bind (slot_get n p.rms_buffer layer0 filter0 bias) (fun buf ->
          bind
            (lift_tensor n (fun w a ->
              match a with
              | [] -> (w, a)
              | g :: l ->
                (match l with
                 | [] -> (w, a)
                 | ve :: l0 ->
                   (match l0 with
                    | [] -> (w, a)
                    | gd :: l1 ->
                      (match l1 with
                       | [] -> (w, a)
                       | bu :: l2 ->
                         (match l2 with
                          | [] ->
                            let (p0, bu1) = rms_step n p w g ve gd bu in
                            let (p1, gd1) = p0 in
                            let (p2, ve1) = p1 in
                            let (w1, g1) = p2 in
                            (w1, (g1 :: (ve1 :: (gd1 :: (bu1 :: [])))))
                          | _ :: _ -> (w, a)))))) values
              (gradients :: (vel :: (gr :: (buf :: []))))) (fun r ->
            match snd r with
            | [] -> Panic p_explicit
            | g' :: l ->
              (match l with
               | [] -> Panic p_explicit
               | ve' :: l0 ->
                 (match l0 with
                  | [] -> Panic p_explicit
                  | gd' :: l1 ->
                    (match l1 with
                     | [] -> Panic p_explicit
                     | bu' :: l2 ->
                       (match l2 with
                        | [] ->
                          Ok (((ORMS { rms_lr = p.rms_lr; rms_alpha =
                            p.rms_alpha; rms_eps = p.rms_eps; rms_decay =
                            p.rms_decay; rms_momentum = p.rms_momentum;
                            rms_centered = p.rms_centered; rms_velocity =
                            (slot_set n p.rms_velocity layer0 filter0 bias
                              ve'); rms_gradient =
                            (slot_set n p.rms_gradient layer0 filter0 bias
                              gd'); rms_buffer =
                            (slot_set n p.rms_buffer layer0 filter0 bias bu') }),
                            (fst r)), g')
                        | _ :: _ -> Panic p_explicit))))))))

(** val scale : num -> t -> t **)

let scale n loops =
  n.ndiv (one n) loops

(** val neg1 : num -> t **)

let neg1 n =
  n.nofZ (Zneg XH)

type dense = { d_inputs : shape; d_outputs : shape; d_loops : t;
               d_weights : tensor; d_bias : tensor option;
               d_act : activation; d_dropout : t option; d_training : 
               bool }

(** val dense_create :
    num -> (nat -> z) -> shape -> shape -> activation -> bool -> t option ->
    dense res **)

let dense_create n seeds inputs outputs a bias dropout0 =
  match inputs with
  | SSingle i ->
    (match outputs with
     | SSingle o ->
       bind (random_tensor n (seeds O) (SDouble (o, i)) (neg1 n) (one n))
         (fun w ->
         bind
           (if bias
            then bind
                   (random_tensor n (seeds (S O)) (SSingle o) (neg1 n)
                     (one n)) (fun t0 -> Ok (Some t0))
            else Ok None) (fun b -> Ok { d_inputs = inputs; d_outputs =
           outputs; d_loops = (one n); d_weights = w; d_bias = b; d_act = a;
           d_dropout = dropout0; d_training = false }))
     | _ -> Panic p_explicit)
  | _ -> Panic p_explicit

(** val dense_parameters : num -> dense -> nat res **)

let dense_parameters _ l =
  match l.d_inputs with
  | SSingle i ->
    (match l.d_outputs with
     | SSingle o ->
       Ok (add (mul i o) (match l.d_bias with
                          | Some _ -> o
                          | None -> O))
     | _ -> Panic p_explicit)
  | _ -> Panic p_explicit

(** val apply_dropout : num -> bool -> t option -> tensor -> tensor **)

let apply_dropout n training rate post =
  if training
  then (match rate with
        | Some r -> dropout n post r
        | None -> post)
  else post

(** val dense_forward : num -> dense -> tensor -> (tensor * tensor) res **)

let dense_forward n l x =
  bind (dot n l.d_weights x) (fun pre0 ->
    bind
      (match l.d_bias with
       | Some b -> add_inplace n pre0 b
       | None -> Ok pre0) (fun pre ->
      bind (act_forward n l.d_act pre) (fun post -> Ok (pre,
        (apply_dropout n l.d_training l.d_dropout post)))))

(** val dense_backward :
    num -> dense -> tensor -> tensor -> tensor -> ((tensor * tensor) * tensor
    option) res **)

let dense_backward n l gradient input output =
  bind
    (match gradient.tshape with
     | SSingle _ -> Ok gradient
     | STriple (_, _, _) -> flatten n gradient
     | _ -> Panic p_explicit) (fun g ->
    bind (act_backward n l.d_act output) (fun der ->
      bind (hadamard n der g (scale n l.d_loops)) (fun delta ->
        bind (product n delta input) (fun wg ->
          let bg = match l.d_bias with
                   | Some _ -> Some delta
                   | None -> None in
          bind (transpose n l.d_weights) (fun wt ->
            bind (dot n wt delta) (fun ig -> Ok ((ig, wg), bg)))))))

(** val froot : num -> nat -> nat **)

let froot n size =
  Z.to_nat (n.ntoZ (n.nsqrt (of_nat0 n size)))

(** val spatial_inputs : num -> shape -> (shape * nat) res **)

let spatial_inputs n inputs = match inputs with
| SSingle size ->
  let root = froot n size in
  if negb (Nat.eqb root O)
  then if Nat.eqb (Nat.modulo size root) O
       then Ok ((STriple ((S O), root, root)), (S O))
       else Panic p_explicit
  else Panic p_divzero
| STriple (ic, _, _) -> Ok (inputs, ic)
| _ -> Panic p_explicit

(** val chunk_input : num -> t list -> nat -> nat -> t vec3 res **)

let chunk_input _ v h w =
  if negb (Nat.eqb (mul h w) O)
  then Ok (map (chunks_exact w) (chunks_exact (mul h w) v))
  else Panic p_explicit

(** val kernel_data : num -> tensor -> t vec3 res **)

let kernel_data _ k =
  match k.tdata with
  | DTriple d -> Ok d
  | _ -> Panic p_explicit

(** val kdims : num -> t vec4 -> (((nat * nat) * nat) * nat) res **)

let kdims _ ks = match ks with
| [] -> Panic p_index
| l :: _ ->
  (match l with
   | [] -> Panic p_index
   | l1 :: _ ->
     (match l1 with
      | [] -> Panic p_index
      | r :: _ ->
        Ok ((((length ks), (hd_len ks)), (hd_len (hd [] ks))), (length r))))

(** val xdims : num -> t vec3 -> (nat * nat) res **)

let xdims _ x = match x with
| [] -> Panic p_index
| l :: _ ->
  (match l with
   | [] -> Panic p_index
   | r :: _ -> Ok ((hd_len x), (length r)))

(** val post_process :
    num -> activation -> bool -> t option -> bool -> t vec3 ->
    (tensor * tensor) res **)

let post_process n a training rate flat y =
  bind (t_triple n y) (fun pre ->
    bind (act_forward n a pre) (fun post0 ->
      let post1 = apply_dropout n training rate post0 in
      bind (if flat then flatten n post1 else Ok post1) (fun post -> Ok (pre,
        post))))

type conv = { c_inputs : shape; c_outputs : shape; c_loops : t;
              c_kernels : tensor list; c_stride : (nat * nat);
              c_padding : (nat * nat); c_dilation : (nat * nat);
              c_act : activation; c_dropout : t option; c_flatten : bool;
              c_training : bool }

(** val conv_out1 : nat -> nat -> nat -> nat -> nat -> nat res **)

let conv_out1 i k s p d =
  bind (csub k (S O)) (fun k1 ->
    bind (csub (add i (mul (S (S O)) p)) (mul d k1)) (fun a ->
      bind (csub a (S O)) (fun b ->
        bind (cdiv b s) (fun q -> Ok (add q (S O))))))

(** val conv_output_size :
    num -> shape -> nat -> (nat * nat) -> (nat * nat) -> (nat * nat) ->
    (nat * nat) -> shape res **)

let conv_output_size n input filters kernel stride padding dilation =
  bind
    (match input with
     | SSingle size -> let r = froot n size in Ok (r, r)
     | STriple (_, h, w) -> Ok (h, w)
     | _ -> Panic p_explicit) (fun hw ->
    bind
      (conv_out1 (fst hw) (fst kernel) (fst stride) (fst padding)
        (fst dilation)) (fun oh ->
      bind
        (conv_out1 (snd hw) (snd kernel) (snd stride) (snd padding)
          (snd dilation)) (fun ow -> Ok (STriple (filters, oh, ow)))))

(** val conv_create :
    num -> (nat -> z) -> shape -> nat -> activation -> (nat * nat) ->
    (nat * nat) -> (nat * nat) -> (nat * nat) -> t option -> conv res **)

let conv_create n seeds inputs filters a kernel stride padding dilation dropout0 =
  bind (spatial_inputs n inputs) (fun ii ->
    let (inputs', ic) = ii in
    bind (conv_output_size n inputs' filters kernel stride padding dilation)
      (fun outputs ->
      bind
        (mapM (fun f ->
          random_tensor n (seeds f) (STriple (ic, (fst kernel),
            (snd kernel))) (neg1 n) (one n)) (seq O filters)) (fun ks -> Ok
        { c_inputs = inputs'; c_outputs = outputs; c_loops = (one n);
        c_kernels = ks; c_stride = stride; c_padding = padding; c_dilation =
        dilation; c_act = a; c_dropout = dropout0; c_flatten = false;
        c_training = false })))

(** val kernels_parameters : num -> tensor list -> nat res **)

let kernels_parameters _ ks = match ks with
| [] -> Panic p_index
| k :: _ ->
  (match k.tdata with
   | DTriple v ->
     (match v with
      | [] -> Panic p_index
      | l :: d ->
        (match l with
         | [] -> Panic p_index
         | r :: _ ->
           Ok (mul (length ks) (mul (mul (length d) (hd_len d)) (length r)))))
   | _ -> Ok O)

(** val conv_parameters : num -> conv -> nat res **)

let conv_parameters n l =
  kernels_parameters n l.c_kernels

(** val convolve :
    num -> (nat * nat) -> (nat * nat) -> t vec3 -> t vec4 -> t vec3 res **)

let convolve n stride dilation x ks =
  bind (xdims n x) (fun ihw ->
    let (ih, iw) = ihw in
    bind (kdims n ks) (fun kd ->
      let (p, kw) = kd in
      let (p0, kh) = p in
      let (kf, kc) = p0 in
      bind
        (bind (csub ih (mul (sub kh (S O)) (fst dilation))) (fun a ->
          bind (csub a (S O)) (fun b ->
            bind (cdiv b (fst stride)) (fun q -> Ok (add q (S O))))))
        (fun oh ->
        bind
          (bind (csub iw (mul (sub kw (S O)) (snd dilation))) (fun a ->
            bind (csub a (S O)) (fun b ->
              bind (cdiv b (snd stride)) (fun q -> Ok (add q (S O))))))
          (fun ow ->
          if Nat.leb kc (length x)
          then Ok
                 (build3 kf oh ow (fun f oy ox ->
                   fold_left (fun sum c ->
                     fold_left (fun sum0 h ->
                       fold_left (fun sum1 w ->
                         let _h =
                           add (mul oy (fst stride)) (mul h (fst dilation))
                         in
                         let _w =
                           add (mul ox (snd stride)) (mul w (snd dilation))
                         in
                         if (&&) (Nat.ltb _h ih) (Nat.ltb _w iw)
                         then n.nadd sum1
                                (n.nmul (get4 (zero n) ks f c h w)
                                  (get3 (zero n) x c _h _w))
                         else sum1) (seq O kw) sum0) (seq O kh) sum)
                     (seq O kc) (zero n)))
          else Panic p_index))))

(** val convolve_gradients :
    num -> (nat * nat) -> (nat * nat) -> t vec3 -> t vec3 -> (nat * nat) -> t
    vec4 res **)

let convolve_gradients n stride dilation a b kernel =
  bind (xdims n a) (fun ahw ->
    let (ah, aw) = ahw in
    bind (xdims n b) (fun bhw ->
      let (bh, bw) = bhw in
      Ok
      (build4 (length b) (length a) (fst kernel) (snd kernel) (fun i j k l ->
        fold_left (fun sum m ->
          fold_left (fun sum0 n0 ->
            let _h = add (mul k (fst stride)) (mul m (fst dilation)) in
            let _w = add (mul l (snd stride)) (mul n0 (snd dilation)) in
            if (&&) (Nat.ltb _h ah) (Nat.ltb _w aw)
            then n.nadd sum0
                   (n.nmul (get3 (zero n) a j _h _w) (get3 (zero n) b i m n0))
            else sum0) (seq O bw) sum) (seq O bh) (zero n)))))

(** val rotate : num -> t vec3 -> t vec3 **)

let rotate _ k =
  map (fun ch -> rev (map rev ch)) k

(** val rearrange : num -> t vec4 -> t vec4 res **)

let rearrange n ks =
  bind (kdims n ks) (fun kd ->
    let (p, kw) = kd in
    let (p0, kh) = p in
    let (kf, kc) = p0 in
    Ok (build4 kc kf kh kw (fun c f h w -> get4 (zero n) ks f c h w)))

(** val conv_input : num -> shape -> tensor -> t vec3 res **)

let conv_input n inputs x =
  match x.tdata with
  | DSingle v ->
    (match inputs with
     | STriple (_, h, w) -> chunk_input n v h w
     | _ -> Panic p_explicit)
  | DTriple d -> Ok d
  | _ -> Panic p_explicit

(** val conv_forward : num -> conv -> tensor -> (tensor * tensor) res **)

let conv_forward n l x =
  bind (conv_input n l.c_inputs x) (fun x0 ->
    bind
      (match x.tdata with
       | DSingle _ ->
         (match l.c_inputs with
          | STriple (_, h, w) -> Ok (h, w)
          | _ -> xdims n x0)
       | _ -> xdims n x0) (fun ihw ->
      let (ih, iw) = ihw in
      bind
        (pad3d n x0 (add ih (mul (S (S O)) (fst l.c_padding)))
          (add iw (mul (S (S O)) (snd l.c_padding)))) (fun xp ->
        bind (mapM (kernel_data n) l.c_kernels) (fun ks ->
          bind (convolve n l.c_stride l.c_dilation xp ks) (fun y ->
            post_process n l.c_act l.c_training l.c_dropout l.c_flatten y)))))

(** val kernel_hw : num -> tensor list -> (nat * nat) res **)

let kernel_hw _ = function
| [] -> Panic p_index
| k :: _ ->
  (match k.tshape with
   | STriple (_, h, w) -> Ok (h, w)
   | _ -> Panic p_explicit)

(** val conv_backward :
    num -> conv -> tensor -> tensor -> tensor -> ((tensor * tensor) * tensor
    option) res **)

let conv_backward n l gradient input output =
  bind (get_triple n gradient l.c_outputs) (fun g ->
    bind (act_backward n l.c_act output) (fun der0 ->
      bind (get_triple n der0 l.c_outputs) (fun der ->
        let delta = hadamard3d n g der (scale n l.c_loops) in
        bind (kernel_hw n l.c_kernels) (fun khw ->
          let (kh, kw) = khw in
          bind (get_triple n input l.c_inputs) (fun inp ->
            bind (xdims n inp) (fun ihw ->
              let (ih, iw) = ihw in
              bind (xdims n delta) (fun dhw ->
                let (sh, sw) = l.c_stride in
                bind (csub (add (fst dhw) (mul kh sh)) sh) (fun ph ->
                  bind (csub (add (snd dhw) (mul kw sw)) sw) (fun pw ->
                    bind (pad3d n inp ph pw) (fun inp_p ->
                      bind
                        (convolve_gradients n l.c_stride l.c_dilation inp_p
                          delta (kh, kw)) (fun kg ->
                        bind (mapM (kernel_data n) l.c_kernels) (fun ks ->
                          bind (rearrange n (map (rotate n) ks)) (fun ks' ->
                            bind (csub (add (mul ih sh) kh) sh) (fun ph2 ->
                              bind (csub (add (mul iw sw) kw) sw) (fun pw2 ->
                                bind (pad3d n delta ph2 pw2) (fun delta_p ->
                                  bind
                                    (convolve n l.c_stride l.c_dilation
                                      delta_p ks') (fun ig ->
                                    bind (t_triple n ig) (fun igt ->
                                      bind (t_quad n kg) (fun kgt -> Ok
                                        ((igt, kgt), None))))))))))))))))))))

type deconv = { dc_inputs : shape; dc_outputs : shape; dc_loops : t;
                dc_kernels : tensor list; dc_stride : (nat * nat);
                dc_padding : (nat * nat); dc_act : activation;
                dc_dropout : t option; dc_flatten : bool; dc_training : 
                bool }

(** val deconv_out1 : nat -> nat -> nat -> nat -> nat res **)

let deconv_out1 i k s p =
  bind (csub i (S O)) (fun i1 -> csub (add (mul i1 s) k) (mul (S (S O)) p))

(** val deconv_output_size :
    num -> shape -> nat -> (nat * nat) -> (nat * nat) -> (nat * nat) -> shape
    res **)

let deconv_output_size n input filters kernel stride padding =
  bind
    (match input with
     | SSingle size -> let r = froot n size in Ok (r, r)
     | STriple (_, h, w) -> Ok (h, w)
     | _ -> Panic p_explicit) (fun hw ->
    bind (deconv_out1 (fst hw) (fst kernel) (fst stride) (fst padding))
      (fun oh ->
      bind (deconv_out1 (snd hw) (snd kernel) (snd stride) (snd padding))
        (fun ow -> Ok (STriple (filters, oh, ow)))))

(** val deconv_create :
    num -> (nat -> z) -> shape -> nat -> activation -> (nat * nat) ->
    (nat * nat) -> (nat * nat) -> t option -> deconv res **)

let deconv_create n seeds inputs filters a kernel stride padding dropout0 =
  bind (spatial_inputs n inputs) (fun ii ->
    let (inputs', ic) = ii in
    bind (deconv_output_size n inputs' filters kernel stride padding)
      (fun outputs ->
      bind
        (mapM (fun f ->
          random_tensor n (seeds f) (STriple (ic, (fst kernel),
            (snd kernel))) (neg1 n) (one n)) (seq O filters)) (fun ks -> Ok
        { dc_inputs = inputs'; dc_outputs = outputs; dc_loops = (one n);
        dc_kernels = ks; dc_stride = stride; dc_padding = padding; dc_act =
        a; dc_dropout = dropout0; dc_flatten = false; dc_training = false })))

(** val deconv_parameters : num -> deconv -> nat res **)

let deconv_parameters n l =
  kernels_parameters n l.dc_kernels

(** val deconv_fwd_out1 : nat -> nat -> nat -> nat -> nat res **)

let deconv_fwd_out1 i k s p =
  bind (csub i (S O)) (fun i1 ->
    bind (csub (mul i1 s) (mul (S (S O)) p)) (fun a -> Ok (add a k)))

(** val deconv_cell :
    num -> (nat * nat) -> (nat * nat) -> t vec3 -> t vec4 -> nat -> nat ->
    nat -> nat -> nat -> nat -> nat -> nat -> t **)

let deconv_cell n stride padding x ks kc ih iw kh kw k oi oj =
  fold_left (fun acc c ->
    fold_left (fun acc0 i ->
      fold_left (fun acc1 j ->
        let ti = add oi (fst padding) in
        let tj = add oj (snd padding) in
        if (&&)
             ((&&)
               ((&&) (Nat.leb (mul i (fst stride)) ti)
                 (Nat.ltb (sub ti (mul i (fst stride))) kh))
               (Nat.leb (mul j (snd stride)) tj))
             (Nat.ltb (sub tj (mul j (snd stride))) kw)
        then n.nadd acc1
               (n.nmul (get3 (zero n) x c i j)
                 (get4 (zero n) ks k c (sub ti (mul i (fst stride)))
                   (sub tj (mul j (snd stride)))))
        else acc1) (seq O iw) acc0) (seq O ih) acc) (seq O kc) (zero n)

(** val deconv_forward : num -> deconv -> tensor -> (tensor * tensor) res **)

let deconv_forward n l x =
  bind (conv_input n l.dc_inputs x) (fun x0 ->
    bind (mapM (kernel_data n) l.dc_kernels) (fun ks ->
      bind (xdims n x0) (fun ihw ->
        let (ih, iw) = ihw in
        bind (kdims n ks) (fun kd ->
          let (p, kw) = kd in
          let (p0, kh) = p in
          let (kf, kc) = p0 in
          bind (deconv_fwd_out1 ih kh (fst l.dc_stride) (fst l.dc_padding))
            (fun oh ->
            bind (deconv_fwd_out1 iw kw (snd l.dc_stride) (snd l.dc_padding))
              (fun ow ->
              if Nat.leb kc (length x0)
              then let y =
                     build3 kf oh ow
                       (deconv_cell n l.dc_stride l.dc_padding x0 ks kc ih iw
                         kh kw)
                   in
                   post_process n l.dc_act l.dc_training l.dc_dropout
                     l.dc_flatten y
              else Panic p_index))))))

(** val deconv_backward :
    num -> deconv -> tensor -> tensor -> tensor ->
    ((tensor * tensor) * tensor option) res **)

let deconv_backward n l gradient input output =
  bind (get_triple n gradient l.dc_outputs) (fun g ->
    bind (act_backward n l.dc_act output) (fun der0 ->
      bind (get_triple n der0 l.dc_outputs) (fun der ->
        let delta = hadamard3d n g der (scale n l.dc_loops) in
        bind (get_triple n input l.dc_inputs) (fun inp ->
          bind (xdims n inp) (fun ihw ->
            let (ih, iw) = ihw in
            bind (xdims n delta) (fun ohw ->
              let (oh, ow) = ohw in
              bind (mapM (kernel_data n) l.dc_kernels) (fun ks ->
                bind (kdims n ks) (fun kd ->
                  let (p, kw) = kd in
                  let (p0, kh) = p in
                  let (kf, kc) = p0 in
                  let (sh, sw) = l.dc_stride in
                  let (ph, pw) = l.dc_padding in
                  if Nat.leb kf (length delta)
                  then if Nat.leb kc (length inp)
                       then let ig =
                              build3 kc ih iw (fun c h w ->
                                fold_left (fun acc f ->
                                  fold_left (fun acc0 i ->
                                    fold_left (fun acc1 j ->
                                      if (&&)
                                           ((&&)
                                             ((&&)
                                               (Nat.leb ph (add (mul h sh) i))
                                               (Nat.ltb
                                                 (sub (add (mul h sh) i) ph)
                                                 oh))
                                             (Nat.leb pw (add (mul w sw) j)))
                                           (Nat.ltb
                                             (sub (add (mul w sw) j) pw) ow)
                                      then n.nadd acc1
                                             (n.nmul
                                               (get3 (zero n) delta f
                                                 (sub (add (mul h sh) i) ph)
                                                 (sub (add (mul w sw) j) pw))
                                               (get4 (zero n) ks f c i j))
                                      else acc1) (seq O kw) acc0) (seq O kh)
                                    acc) (seq O kf) (zero n))
                            in
                            let kg =
                              build4 kf kc kh kw (fun f c i j ->
                                fold_left (fun acc h ->
                                  fold_left (fun acc0 w ->
                                    if (&&)
                                         ((&&)
                                           ((&&)
                                             (Nat.leb ph (add (mul h sh) i))
                                             (Nat.ltb
                                               (sub (add (mul h sh) i) ph) oh))
                                           (Nat.leb pw (add (mul w sw) j)))
                                         (Nat.ltb (sub (add (mul w sw) j) pw)
                                           ow)
                                    then n.nadd acc0
                                           (n.nmul
                                             (get3 (zero n) delta f
                                               (sub (add (mul h sh) i) ph)
                                               (sub (add (mul w sw) j) pw))
                                             (get3 (zero n) inp c h w))
                                    else acc0) (seq O iw) acc) (seq O ih)
                                  (zero n))
                            in
                            bind (t_triple n ig) (fun igt ->
                              bind (t_quad n kg) (fun kgt -> Ok ((igt, kgt),
                                None)))
                       else Panic p_index
                  else Panic p_index))))))))

type maxpool = { m_inputs : shape; m_outputs : shape; m_loops : t;
                 m_kernel : (nat * nat); m_stride : (nat * nat);
                 m_flatten : bool }

type maxidx = (nat * nat) list vec3

(** val pool_out1 : nat -> nat -> nat -> nat res **)

let pool_out1 i k s =
  bind (csub i k) (fun a -> bind (cdiv a s) (fun q -> Ok (add q (S O))))

(** val maxpool_create :
    num -> shape -> (nat * nat) -> (nat * nat) -> maxpool res **)

let maxpool_create n inputs kernel stride =
  bind
    (match inputs with
     | SSingle size ->
       let root = froot n size in
       if negb (Nat.eqb root O)
       then if Nat.eqb (Nat.modulo size root) O
            then Ok (STriple ((S O), root, root))
            else Panic p_explicit
       else Panic p_divzero
     | STriple (_, _, _) -> Ok inputs
     | _ -> Panic p_explicit) (fun inputs' ->
    match inputs' with
    | STriple (c, h, w) ->
      bind (pool_out1 h (fst kernel) (fst stride)) (fun oh ->
        bind (pool_out1 w (snd kernel) (snd stride)) (fun ow -> Ok
          { m_inputs = inputs'; m_outputs = (STriple (c, oh, ow)); m_loops =
          (one n); m_kernel = kernel; m_stride = stride; m_flatten = false }))
    | _ -> Panic p_explicit)

(** val pool_window :
    num -> t vec3 -> nat -> nat -> (nat * nat) -> nat -> nat -> nat ->
    t * (nat * nat) **)

let pool_window n x ih iw kernel c h w =
  fold_left (fun acc k ->
    fold_left (fun acc0 l ->
      if (&&) (Nat.ltb (add h k) ih) (Nat.ltb (add w l) iw)
      then let v = get3 (zero n) x c (add h k) (add w l) in
           if gtb n v (fst acc0) then (v, ((add h k), (add w l))) else acc0
      else acc0) (seq O (snd kernel)) acc) (seq O (fst kernel)) (n.nfmin, (O,
    O))

(** val maxpool_forward :
    num -> maxpool -> tensor -> ((tensor * tensor) * maxidx) res **)

let maxpool_forward n l x =
  bind
    (match l.m_outputs with
     | STriple (oc, oh, ow) -> Ok ((oc, oh), ow)
     | _ -> Panic p_explicit) (fun oc_oh_ow ->
    let (p, ow) = oc_oh_ow in
    let (oc, oh) = p in
    bind
      (match x.tdata with
       | DSingle v -> bind (chunk_input n v oh ow) (fun d -> Ok ((d, oh), ow))
       | DTriple d ->
         bind (xdims n d) (fun hw -> Ok ((d, (fst hw)), (snd hw)))
       | _ -> Panic p_explicit) (fun xi ->
      let (p0, iw) = xi in
      let (x0, ih) = p0 in
      let (kh, kw) = l.m_kernel in
      let (sh, sw) = l.m_stride in
      bind
        (bind (csub ih kh) (fun a ->
          if negb (Nat.eqb sh O)
          then Ok (add (Nat.div a sh) (S O))
          else Panic p_explicit)) (fun nh ->
        bind
          (bind (csub iw kw) (fun a ->
            if negb (Nat.eqb sw O)
            then Ok (add (Nat.div a sw) (S O))
            else Panic p_explicit)) (fun nw ->
          if (||) (Nat.eqb oc O) ((&&) (Nat.leb nh oh) (Nat.leb nw ow))
          then if Nat.leb oc (length x0)
               then let cell = fun c oy ox ->
                      pool_window n x0 ih iw (kh, kw) c (mul oy sh)
                        (mul ox sw)
                    in
                    let y =
                      build3 oc oh ow (fun c oy ox ->
                        if (&&) (Nat.ltb oy nh) (Nat.ltb ox nw)
                        then fst (cell c oy ox)
                        else zero n)
                    in
                    let mx =
                      build3 oc oh ow (fun c oy ox ->
                        if (&&) (Nat.ltb oy nh) (Nat.ltb ox nw)
                        then (snd (cell c oy ox)) :: []
                        else (O, O) :: [])
                    in
                    bind (t_triple n y) (fun pre ->
                      bind (if l.m_flatten then flatten n pre else Ok pre)
                        (fun post -> Ok ((pre, post), mx)))
               else Panic p_index
          else Panic p_index))))

(** val maxpool_backward :
    num -> maxpool -> tensor -> maxidx -> tensor res **)

let maxpool_backward n l gradient mx =
  match l.m_inputs with
  | STriple (ic, ih, iw) ->
    bind (get_triple n gradient l.m_outputs) (fun og ->
      bind (xdims n og) (fun ohw ->
        let (oh, ow) = ohw in
        let inv = n.ndiv (one n) l.m_loops in
        if Nat.leb ic (length mx)
        then if Nat.leb ic (length og)
             then if forallb (fun c ->
                       forallb (fun h ->
                         forallb (fun w ->
                           forallb (fun p ->
                             (&&) (Nat.ltb (fst p) ih) (Nat.ltb (snd p) iw))
                             (nth w (nth h (nth c mx []) []) [])) (seq O ow))
                         (seq O oh)) (seq O ic)
                  then let ig =
                         build3 ic ih iw (fun c a b ->
                           fold_left (fun acc h ->
                             fold_left (fun acc0 w ->
                               fold_left (fun acc1 p ->
                                 if (&&) (Nat.eqb (fst p) a)
                                      (Nat.eqb (snd p) b)
                                 then n.nmul
                                        (n.nadd acc1 (get3 (zero n) og c h w))
                                        inv
                                 else acc1)
                                 (nth w (nth h (nth c mx []) []) []) acc0)
                               (seq O ow) acc) (seq O oh) (zero n))
                       in
                       t_triple n ig
                  else Panic p_index
             else Panic p_index
        else Panic p_index))
  | _ -> Panic p_explicit

type accumulation =
| AccAdd
| AccSub
| AccMul
| AccOverwrite
| AccMean

type blayer =
| BDense of dense
| BConv of conv
| BDeconv of deconv
| BMaxpool of maxpool

type feedback = { f_inputs : shape; f_outputs : shape;
                  f_optimizer : optimizer; f_flatten : bool;
                  f_layers : blayer list; f_connect : (nat * nat list) list;
                  f_accumulation : accumulation; f_coupled : nat list list }

type layer =
| LDense of dense
| LConv of conv
| LDeconv of deconv
| LMaxpool of maxpool
| LFeedback of feedback

(** val lift_b : num -> blayer -> layer **)

let lift_b _ = function
| BDense l -> LDense l
| BConv l -> LConv l
| BDeconv l -> LDeconv l
| BMaxpool l -> LMaxpool l

(** val layer_inputs : num -> layer -> shape **)

let layer_inputs _ = function
| LDense l0 -> l0.d_inputs
| LConv l0 -> l0.c_inputs
| LDeconv l0 -> l0.dc_inputs
| LMaxpool l0 -> l0.m_inputs
| LFeedback b -> b.f_inputs

(** val layer_outputs : num -> layer -> shape **)

let layer_outputs _ = function
| LDense l0 -> l0.d_outputs
| LConv l0 -> l0.c_outputs
| LDeconv l0 -> l0.dc_outputs
| LMaxpool l0 -> l0.m_outputs
| LFeedback b -> b.f_outputs

type grad =
| GPlain of tensor
| GNested of tensor list

type bgrad =
| BPlain of tensor
| BNestedOpt of tensor option list

type mpval =
| MPIdx of maxidx
| MPNested of maxidx option list

(** val accumulate :
    num -> accumulation -> tensor -> tensor list -> tensor res **)

let accumulate n acc x srcs =
  match acc with
  | AccAdd -> foldM (add_inplace n) srcs x
  | AccSub -> foldM (sub_inplace n) srcs x
  | AccMul -> foldM (mul_inplace n) srcs x
  | AccOverwrite ->
    (match last_opt srcs with
     | Some s -> Ok s
     | None -> Panic p_unwrap)
  | AccMean -> mean_inplace n x srcs

(** val blayer_inputs : num -> blayer -> shape **)

let blayer_inputs n b =
  layer_inputs n (lift_b n b)

(** val blayer_outputs : num -> blayer -> shape **)

let blayer_outputs n b =
  layer_outputs n (lift_b n b)

(** val default_sgd : num -> optimizer **)

let default_sgd n =
  OSGD { sgd_lr = (ratio n (Zpos XH) (Zpos (XO (XI (XO XH))))); sgd_decay =
    None }

(** val feedback_create :
    num -> blayer list -> nat -> bool -> bool -> accumulation -> feedback res **)

let feedback_create n layers loops inskips outskips acc =
  if Nat.ltb O loops
  then (match layers with
        | [] -> Panic p_unwrap
        | first :: l ->
          (match last_opt (first :: l) with
           | Some lst ->
             let inputs = blayer_inputs n first in
             let outputs = blayer_outputs n lst in
             if shape_eqb inputs outputs
             then let len = length layers in
                  let unrolled = concat (repeat layers loops) in
                  let coupled =
                    map (fun l0 ->
                      map (fun i -> add l0 (mul i len)) (seq O loops))
                      (seq O len)
                  in
                  let ins =
                    if inskips
                    then map (fun i -> ((mul i len), (O :: [])))
                           (seq (S O) (sub loops (S O)))
                    else []
                  in
                  let outs =
                    if outskips
                    then ((mul loops len),
                           (map (fun i -> mul i len)
                             (seq (S O) (sub loops (S O))))) :: []
                    else []
                  in
                  Ok { f_inputs = inputs; f_outputs = outputs; f_optimizer =
                  (default_sgd n); f_flatten = false; f_layers = unrolled;
                  f_connect =
                  (fold_left (fun m kv -> alist_set m (fst kv) (snd kv))
                    (app ins outs) []); f_accumulation = acc; f_coupled =
                  coupled }
             else Panic p_shape
           | None -> Panic p_unwrap))
  else Panic p_explicit

(** val blayer_parameters : num -> blayer -> nat res **)

let blayer_parameters n = function
| BDense l -> dense_parameters n l
| BConv l -> conv_parameters n l
| BDeconv l -> deconv_parameters n l
| BMaxpool _ -> Ok O

(** val feedback_parameters : num -> feedback -> nat res **)

let feedback_parameters n b =
  foldM (fun acc idx ->
    bind (nth_res b.f_layers idx) (fun l ->
      bind (blayer_parameters n l) (fun p -> Ok (add acc p))))
    (seq O (length b.f_coupled)) O

(** val blayer_set_training : num -> bool -> blayer -> blayer **)

let blayer_set_training _ t0 = function
| BDense l ->
  BDense { d_inputs = l.d_inputs; d_outputs = l.d_outputs; d_loops =
    l.d_loops; d_weights = l.d_weights; d_bias = l.d_bias; d_act = l.d_act;
    d_dropout = l.d_dropout; d_training = t0 }
| BConv l ->
  BConv { c_inputs = l.c_inputs; c_outputs = l.c_outputs; c_loops =
    l.c_loops; c_kernels = l.c_kernels; c_stride = l.c_stride; c_padding =
    l.c_padding; c_dilation = l.c_dilation; c_act = l.c_act; c_dropout =
    l.c_dropout; c_flatten = l.c_flatten; c_training = t0 }
| BDeconv l ->
  BDeconv { dc_inputs = l.dc_inputs; dc_outputs = l.dc_outputs; dc_loops =
    l.dc_loops; dc_kernels = l.dc_kernels; dc_stride = l.dc_stride;
    dc_padding = l.dc_padding; dc_act = l.dc_act; dc_dropout = l.dc_dropout;
    dc_flatten = l.dc_flatten; dc_training = t0 }
| BMaxpool l -> BMaxpool l

(** val set_f_layers : num -> feedback -> blayer list -> feedback **)

let set_f_layers _ b ls =
  { f_inputs = b.f_inputs; f_outputs = b.f_outputs; f_optimizer =
    b.f_optimizer; f_flatten = b.f_flatten; f_layers = ls; f_connect =
    b.f_connect; f_accumulation = b.f_accumulation; f_coupled = b.f_coupled }

(** val set_f_optimizer : num -> feedback -> optimizer -> feedback **)

let set_f_optimizer _ b o =
  { f_inputs = b.f_inputs; f_outputs = b.f_outputs; f_optimizer = o;
    f_flatten = b.f_flatten; f_layers = b.f_layers; f_connect = b.f_connect;
    f_accumulation = b.f_accumulation; f_coupled = b.f_coupled }

(** val set_f_flatten : num -> feedback -> bool -> feedback **)

let set_f_flatten _ b fl =
  { f_inputs = b.f_inputs; f_outputs = b.f_outputs; f_optimizer =
    b.f_optimizer; f_flatten = fl; f_layers = b.f_layers; f_connect =
    b.f_connect; f_accumulation = b.f_accumulation; f_coupled = b.f_coupled }

(** val feedback_training : num -> feedback -> bool -> feedback **)

let feedback_training n b t0 =
  set_f_layers n b (map (blayer_set_training n t0) b.f_layers)

(** val blayer_forward :
    num -> blayer -> tensor -> ((tensor * tensor) * maxidx option) res **)

let blayer_forward n b x =
  if shape_eqb (blayer_inputs n b) x.tshape
  then (match b with
        | BDense l ->
          bind (dense_forward n l x) (fun r -> Ok (((fst r), (snd r)), None))
        | BConv l ->
          bind (conv_forward n l x) (fun r -> Ok (((fst r), (snd r)), None))
        | BDeconv l ->
          bind (deconv_forward n l x) (fun r -> Ok (((fst r), (snd r)), None))
        | BMaxpool l ->
          bind (maxpool_forward n l x) (fun r -> Ok (((fst (fst r)),
            (snd (fst r))), (Some (snd r)))))
  else Panic p_shape

(** val gather_sources : num -> tensor list -> nat list -> tensor list res **)

let gather_sources _ activated idxs =
  mapM (nth_res activated) idxs

type fb_out = { fo_pre : tensor; fo_post : tensor;
                fo_max : maxidx option list; fo_unactivated : tensor list;
                fo_activated : tensor list }

(** val feedback_forward : num -> feedback -> tensor -> fb_out res **)

let feedback_forward n b input =
  bind
    (foldM (fun st il ->
      let (p, mps) = st in
      let (unact, act) = p in
      let (i, lyr) = il in
      bind
        (match last_opt act with
         | Some t0 -> Ok t0
         | None -> Panic p_unwrap) (fun x0 ->
        bind
          (match alist_get b.f_connect i with
           | Some idxs ->
             bind (gather_sources n act idxs) (fun s ->
               accumulate n b.f_accumulation x0 s)
           | None -> Ok x0) (fun x ->
          bind (blayer_forward n lyr x) (fun r ->
            let (p0, mx) = r in
            let (pre, post) = p0 in
            Ok (((app unact (pre :: [])), (app act (post :: []))),
            (app mps (mx :: [])))))))
      (combine (seq O (length b.f_layers)) b.f_layers) (([], (input :: [])),
      [])) (fun st ->
    let (p, mps) = st in
    let (unact, act) = p in
    let act' = removelast act in
    bind (match last_opt act with
          | Some t0 -> Ok t0
          | None -> Panic p_unwrap) (fun last0 ->
      bind
        (match alist_get b.f_connect (length b.f_layers) with
         | Some idxs ->
           bind (gather_sources n act' idxs) (fun s ->
             accumulate n b.f_accumulation last0 s)
         | None -> Ok last0) (fun last1 ->
        bind (if b.f_flatten then flatten n last1 else Ok last1)
          (fun last2 ->
          bind (nth_res unact O) (fun pre0 -> Ok { fo_pre = pre0; fo_post =
            last2; fo_max = mps; fo_unactivated = unact; fo_activated =
            (app act' (last2 :: [])) })))))

(** val invert_connect : (nat * nat list) list -> (nat * nat list) list **)

let invert_connect m =
  fold_left (fun inv kv ->
    fold_left (fun inv0 idx ->
      match alist_get inv0 idx with
      | Some l -> alist_set inv0 idx (app l ((fst kv) :: []))
      | None -> alist_set inv0 idx ((fst kv) :: [])) (snd kv) inv) m []

(** val blayer_backward :
    num -> blayer -> tensor -> tensor -> tensor ->
    ((tensor * tensor) * tensor option) res **)

let blayer_backward n b g input output =
  match b with
  | BDense l -> dense_backward n l g input output
  | BConv l -> conv_backward n l g input output
  | BDeconv l -> deconv_backward n l g input output
  | BMaxpool _ -> Panic p_explicit

(** val feedback_backward :
    num -> feedback -> tensor -> tensor list -> tensor list ->
    ((tensor * tensor list) * tensor option list) res **)

let feedback_backward n b gradient unactivated activated =
  let len = length b.f_layers in
  let inv = invert_connect b.f_connect in
  bind
    (foldM (fun st il ->
      let (p, bgs) = st in
      let (gs, wgs) = p in
      let (i, lyr) = il in
      let idx = sub (sub len i) (S O) in
      bind (nth_res activated idx) (fun input ->
        bind (nth_res unactivated idx) (fun output ->
          bind
            (match alist_get inv idx with
             | Some tos ->
               foldM (fun gs0 j ->
                 let j' = if Nat.eqb j len then sub j (S O) else j in
                 bind (csub len j') (fun k ->
                   bind (csub k (S O)) (fun k' ->
                     bind (nth_res gs0 k') (fun g ->
                       match last_opt gs0 with
                       | Some lastg ->
                         bind (add_inplace n lastg g) (fun s -> Ok
                           (app (removelast gs0) (s :: [])))
                       | None -> Panic p_unwrap)))) tos gs
             | None -> Ok gs) (fun gs1 ->
            bind
              (match last_opt gs1 with
               | Some t0 -> Ok t0
               | None -> Panic p_unwrap) (fun lastg ->
              bind (blayer_backward n lyr lastg input output) (fun r ->
                let (p0, bg) = r in
                let (g, wg) = p0 in
                Ok (((app gs1 (g :: [])), (app wgs (wg :: []))),
                (app bgs (bg :: [])))))))))
      (combine (seq O len) (rev b.f_layers)) (((gradient :: []), []), []))
    (fun st ->
    let (p, bgs) = st in
    let (gs, wgs) = p in
    bind (match last_opt gs with
          | Some t0 -> Ok t0
          | None -> Panic p_unwrap) (fun g -> Ok ((g, wgs), bgs)))

(** val quad_to_triples : num -> tensor -> tensor list res **)

let quad_to_triples n t0 =
  match t0.tdata with
  | DQuad g -> mapM (fun ch -> t_triple n ch) g
  | _ -> Panic p_explicit

(** val update_kernels :
    num -> optimizer -> nat -> z -> tensor list -> tensor ->
    (optimizer * tensor list) res **)

let update_kernels n o i stepnr ks wg =
  bind (quad_to_triples n wg) (fun gs ->
    bind
      (foldM (fun st fkg ->
        let (f, p) = fkg in
        let (k, g) = p in
        bind (opt_update n (fst st) i f false stepnr k g) (fun u -> Ok
          ((fst (fst u)), (app (snd st) ((snd (fst u)) :: [])))))
        (combine (seq O (length ks)) (combine ks gs)) (o, [])) (fun r -> Ok
      ((fst r), (app (snd r) (skipn (length (snd r)) ks)))))

(** val set_d_params : num -> dense -> tensor -> tensor option -> dense **)

let set_d_params _ l w b =
  { d_inputs = l.d_inputs; d_outputs = l.d_outputs; d_loops = l.d_loops;
    d_weights = w; d_bias = b; d_act = l.d_act; d_dropout = l.d_dropout;
    d_training = l.d_training }

(** val set_c_kernels : num -> conv -> tensor list -> conv **)

let set_c_kernels _ l ks =
  { c_inputs = l.c_inputs; c_outputs = l.c_outputs; c_loops = l.c_loops;
    c_kernels = ks; c_stride = l.c_stride; c_padding = l.c_padding;
    c_dilation = l.c_dilation; c_act = l.c_act; c_dropout = l.c_dropout;
    c_flatten = l.c_flatten; c_training = l.c_training }

(** val set_dc_kernels : num -> deconv -> tensor list -> deconv **)

let set_dc_kernels _ l ks =
  { dc_inputs = l.dc_inputs; dc_outputs = l.dc_outputs; dc_loops =
    l.dc_loops; dc_kernels = ks; dc_stride = l.dc_stride; dc_padding =
    l.dc_padding; dc_act = l.dc_act; dc_dropout = l.dc_dropout; dc_flatten =
    l.dc_flatten; dc_training = l.dc_training }

(** val update_dense :
    num -> optimizer -> nat -> z -> dense -> tensor -> tensor option ->
    (optimizer * dense) res **)

let update_dense n o i stepnr l wg bg =
  bind (opt_update n o i O false stepnr l.d_weights wg) (fun u ->
    let (p, _) = u in
    let (o1, w1) = p in
    (match l.d_bias with
     | Some b ->
       bind (match bg with
             | Some g -> Ok g
             | None -> Panic p_unwrap) (fun g ->
         bind (opt_update n o1 i O true stepnr b g) (fun u2 ->
           let (p0, _) = u2 in
           let (o2, b1) = p0 in Ok (o2, (set_d_params n l w1 (Some b1)))))
     | None -> Ok (o1, (set_d_params n l w1 None))))

(** val update_blayer :
    num -> optimizer -> nat -> z -> blayer -> tensor -> tensor option ->
    (optimizer * blayer) res **)

let update_blayer n o i stepnr b wg bg =
  match b with
  | BDense l ->
    bind (update_dense n o i stepnr l wg bg) (fun r -> Ok ((fst r), (BDense
      (snd r))))
  | BConv l ->
    bind (update_kernels n o i stepnr l.c_kernels wg) (fun r -> Ok ((fst r),
      (BConv (set_c_kernels n l (snd r)))))
  | BDeconv l ->
    bind (update_kernels n o i stepnr l.dc_kernels wg) (fun r -> Ok (
      (fst r), (BDeconv (set_dc_kernels n l (snd r)))))
  | BMaxpool _ -> Ok (o, b)

(** val couple_acc :
    num -> accumulation -> t -> tensor -> tensor list -> tensor res **)

let couple_acc n acc count first rest =
  match acc with
  | AccAdd -> foldM (add_inplace n) rest first
  | AccSub -> foldM (sub_inplace n) rest first
  | AccMul -> foldM (mul_inplace n) rest first
  | AccOverwrite -> Panic p_explicit
  | AccMean ->
    bind (foldM (add_inplace n) rest first) (fun s -> Ok
      (div_scalar_inplace n s count))

(** val blayer_weights :
    num -> blayer -> (tensor list * tensor option) option **)

let blayer_weights _ = function
| BDense l -> Some ((l.d_weights :: []), l.d_bias)
| BConv l -> Some (l.c_kernels, None)
| BDeconv l -> Some (l.dc_kernels, None)
| BMaxpool _ -> None

(** val blayer_set_weights :
    num -> blayer -> tensor list -> tensor option -> blayer res **)

let blayer_set_weights n b w bias =
  match b with
  | BDense l ->
    bind (nth_res w O) (fun w0 ->
      match l.d_bias with
      | Some _ ->
        (match bias with
         | Some b' -> Ok (BDense (set_d_params n l w0 (Some b')))
         | None -> Panic p_unwrap)
      | None -> Ok (BDense (set_d_params n l w0 None)))
  | BConv l -> Ok (BConv (set_c_kernels n l w))
  | BDeconv l -> Ok (BDeconv (set_dc_kernels n l w))
  | BMaxpool _ -> Ok b

(** val couple_lists :
    num -> bool -> accumulation -> t -> tensor list list -> tensor list res **)

let couple_lists n nested acc count = function
| [] -> Panic p_index
| first :: rest ->
  if forallb (fun r -> Nat.eqb (length r) (length first)) rest
  then if negb
            ((&&) ((&&) nested (negb (Nat.eqb (length rest) O)))
              (match acc with
               | AccSub -> true
               | AccMul -> true
               | _ -> false))
       then mapM (fun k ->
              bind (nth_res first k) (fun f ->
                bind (mapM (fun r -> nth_res r k) rest) (fun rs ->
                  couple_acc n acc count f rs))) (seq O (length first))
       else Panic p_explicit
  else Panic p_shape

(** val couple_one :
    num -> accumulation -> blayer list -> nat list -> blayer list res **)

let couple_one n acc layers couple =
  bind (mapM (nth_res layers) couple) (fun members ->
    let ps =
      flat_map (fun b ->
        match blayer_weights n b with
        | Some p -> p :: []
        | None -> []) members
    in
    let count = of_nat0 n (length ps) in
    let nested =
      existsb (fun b ->
        match b with
        | BDense _ -> false
        | BMaxpool _ -> false
        | _ -> true) members
    in
    bind (couple_lists n nested acc count (map fst ps)) (fun w ->
      let biases =
        flat_map (fun p -> match snd p with
                           | Some b -> b :: []
                           | None -> []) ps
      in
      bind
        (match biases with
         | [] -> Ok None
         | b0 :: brest ->
           bind (couple_acc n acc count b0 brest) (fun b -> Ok (Some b)))
        (fun bias ->
        foldM (fun ls i ->
          bind (nth_res ls i) (fun l ->
            bind (blayer_set_weights n l w bias) (fun l' -> Ok
              (set_nth ls i l')))) couple layers)))

(** val feedback_update :
    num -> feedback -> z -> tensor list -> tensor option list -> feedback res **)

let feedback_update n b stepnr wgs bgs =
  let len = length b.f_layers in
  bind
    (foldM (fun st il ->
      let (i, lyr) = il in
      (match lyr with
       | BMaxpool _ -> Ok ((fst st), (lyr :: (snd st)))
       | _ ->
         bind (nth_res wgs i) (fun wg ->
           bind (nth_res bgs i) (fun bg ->
             bind (update_blayer n (fst st) i stepnr lyr wg bg) (fun r -> Ok
               ((fst r), ((snd r) :: (snd st))))))))
      (combine (seq O len) (rev b.f_layers)) (b.f_optimizer, [])) (fun st ->
    let (o, layers) = st in
    bind
      (foldM (fun ls c -> couple_one n b.f_accumulation ls c) b.f_coupled
        layers) (fun layers' -> Ok
      (set_f_optimizer n (set_f_layers n b layers') o)))

type network = { n_input : shape; n_layers : layer list;
                 n_loopbacks : (nat * ((nat * nat) * bool)) list;
                 n_loopacc : accumulation; n_connect : (nat * nat) list;
                 n_skipacc : accumulation; n_optimizer : optimizer;
                 n_objective : (objective * (t * t) option) }

(** val network_new : num -> shape -> network **)

let network_new n input =
  { n_input = input; n_layers = []; n_loopbacks = []; n_loopacc = AccMean;
    n_connect = []; n_skipacc = AccAdd; n_optimizer = (default_sgd n);
    n_objective = (MSE, None) }

(** val set_layers : num -> network -> layer list -> network **)

let set_layers _ n ls =
  { n_input = n.n_input; n_layers = ls; n_loopbacks = n.n_loopbacks;
    n_loopacc = n.n_loopacc; n_connect = n.n_connect; n_skipacc =
    n.n_skipacc; n_optimizer = n.n_optimizer; n_objective = n.n_objective }

(** val is_triple : shape -> bool **)

let is_triple = function
| STriple (_, _, _) -> true
| _ -> false

(** val is_single : shape -> bool **)

let is_single = function
| SSingle _ -> true
| _ -> false

(** val set_c_flatten : num -> conv -> conv **)

let set_c_flatten _ l =
  { c_inputs = l.c_inputs; c_outputs = l.c_outputs; c_loops = l.c_loops;
    c_kernels = l.c_kernels; c_stride = l.c_stride; c_padding = l.c_padding;
    c_dilation = l.c_dilation; c_act = l.c_act; c_dropout = l.c_dropout;
    c_flatten = true; c_training = l.c_training }

(** val set_dc_flatten : num -> deconv -> deconv **)

let set_dc_flatten _ l =
  { dc_inputs = l.dc_inputs; dc_outputs = l.dc_outputs; dc_loops =
    l.dc_loops; dc_kernels = l.dc_kernels; dc_stride = l.dc_stride;
    dc_padding = l.dc_padding; dc_act = l.dc_act; dc_dropout = l.dc_dropout;
    dc_flatten = true; dc_training = l.dc_training }

(** val set_m_flatten : num -> maxpool -> maxpool **)

let set_m_flatten _ l =
  { m_inputs = l.m_inputs; m_outputs = l.m_outputs; m_loops = l.m_loops;
    m_kernel = l.m_kernel; m_stride = l.m_stride; m_flatten = true }

(** val flat_shape : shape -> shape res **)

let flat_shape = function
| STriple (c, h, w) -> Ok (SSingle (mul (mul c h) w))
| _ -> Panic p_explicit

(** val add_dense :
    num -> (nat -> z) -> network -> nat -> activation -> bool -> t option ->
    network res **)

let add_dense n seeds n0 outputs a bias dropout0 =
  match last_opt n0.n_layers with
  | Some prev ->
    bind
      (match prev with
       | LDense p -> Ok (prev, p.d_outputs)
       | LConv p ->
         bind (flat_shape p.c_outputs) (fun s -> Ok ((LConv
           (set_c_flatten n p)), s))
       | LDeconv p ->
         bind (flat_shape p.dc_outputs) (fun s -> Ok ((LDeconv
           (set_dc_flatten n p)), s))
       | LMaxpool p ->
         bind (flat_shape p.m_outputs) (fun s -> Ok ((LMaxpool
           (set_m_flatten n p)), s))
       | LFeedback p ->
         (match p.f_outputs with
          | SSingle _ -> Ok (prev, p.f_outputs)
          | STriple (c, h, w) ->
            Ok ((LFeedback (set_f_flatten n p true)), (SSingle
              (mul (mul c h) w)))
          | _ -> Panic p_explicit)) (fun pi ->
      bind (dense_create n seeds (snd pi) (SSingle outputs) a bias dropout0)
        (fun l -> Ok
        (set_layers n n0
          (app (removelast n0.n_layers) ((fst pi) :: ((LDense l) :: []))))))
  | None ->
    if is_single n0.n_input
    then bind
           (dense_create n seeds n0.n_input (SSingle outputs) a bias dropout0)
           (fun l -> Ok (set_layers n n0 ((LDense l) :: [])))
    else Panic p_explicit

(** val next_input : num -> network -> bool -> shape res **)

let next_input n n0 spatial_first =
  match last_opt n0.n_layers with
  | Some prev -> Ok (layer_outputs n prev)
  | None ->
    if (||) (negb spatial_first) (is_triple n0.n_input)
    then Ok n0.n_input
    else Panic p_explicit

(** val add_conv :
    num -> (nat -> z) -> network -> nat -> (nat * nat) -> (nat * nat) ->
    (nat * nat) -> (nat * nat) -> activation -> t option -> network res **)

let add_conv n seeds n0 filters kernel stride padding dilation a dropout0 =
  bind (next_input n n0 true) (fun inp ->
    bind
      (conv_create n seeds inp filters a kernel stride padding dilation
        dropout0) (fun l -> Ok
      (set_layers n n0 (app n0.n_layers ((LConv l) :: [])))))

(** val add_deconv :
    num -> (nat -> z) -> network -> nat -> (nat * nat) -> (nat * nat) ->
    (nat * nat) -> activation -> t option -> network res **)

let add_deconv n seeds n0 filters kernel stride padding a dropout0 =
  bind (next_input n n0 true) (fun inp ->
    bind (deconv_create n seeds inp filters a kernel stride padding dropout0)
      (fun l -> Ok (set_layers n n0 (app n0.n_layers ((LDeconv l) :: [])))))

(** val add_maxpool :
    num -> network -> (nat * nat) -> (nat * nat) -> network res **)

let add_maxpool n n0 kernel stride =
  bind (next_input n n0 true) (fun inp ->
    bind (maxpool_create n inp kernel stride) (fun l -> Ok
      (set_layers n n0 (app n0.n_layers ((LMaxpool l) :: [])))))

type fspec =
| FDense of nat * activation * bool * t option
| FConv of nat * activation * (nat * nat) * (nat * nat) * (nat * nat)
   * (nat * nat) * t option
| FDeconv of nat * activation * (nat * nat) * (nat * nat) * (nat * nat)
   * t option
| FMaxpool of (nat * nat) * (nat * nat)

(** val add_feedback :
    num -> (nat -> nat -> z) -> network -> fspec list -> nat -> bool -> bool
    -> accumulation -> network res **)

let add_feedback n seeds n0 specs loops inskips outskips acc =
  if negb (Nat.eqb (length specs) O)
  then bind (next_input n n0 false) (fun inp ->
         bind
           (foldM (fun st ks ->
             let (k, s) = ks in
             bind
               (match s with
                | FDense (o, a, bias, dr) ->
                  bind
                    (dense_create n (seeds k) (fst st) (SSingle o) a bias dr)
                    (fun l -> Ok (BDense l))
                | FConv (f, a, ke, st_, pa, di, dr) ->
                  bind (conv_create n (seeds k) (fst st) f a ke st_ pa di dr)
                    (fun l -> Ok (BConv l))
                | FDeconv (f, a, ke, st_, pa, dr) ->
                  bind (deconv_create n (seeds k) (fst st) f a ke st_ pa dr)
                    (fun l -> Ok (BDeconv l))
                | FMaxpool (ke, st_) ->
                  bind (maxpool_create n (fst st) ke st_) (fun l -> Ok
                    (BMaxpool l))) (fun b -> Ok ((blayer_outputs n b),
               (app (snd st) (b :: [])))))
             (combine (seq O (length specs)) specs) (inp, [])) (fun st ->
           bind (feedback_create n (snd st) loops inskips outskips acc)
             (fun blk -> Ok
             (set_layers n n0 (app n0.n_layers ((LFeedback blk) :: []))))))
  else Panic p_explicit

(** val bump_loops : num -> nat -> layer -> layer res **)

let bump_loops n iterations l =
  let it = of_nat0 n iterations in
  (match l with
   | LDense d ->
     Ok (LDense { d_inputs = d.d_inputs; d_outputs = d.d_outputs; d_loops =
       (n.nadd d.d_loops it); d_weights = d.d_weights; d_bias = d.d_bias;
       d_act = d.d_act; d_dropout = d.d_dropout; d_training = d.d_training })
   | LConv c ->
     Ok (LConv { c_inputs = c.c_inputs; c_outputs = c.c_outputs; c_loops =
       (n.nadd c.c_loops it); c_kernels = c.c_kernels; c_stride = c.c_stride;
       c_padding = c.c_padding; c_dilation = c.c_dilation; c_act = c.c_act;
       c_dropout = c.c_dropout; c_flatten = c.c_flatten; c_training =
       c.c_training })
   | LDeconv c ->
     Ok (LDeconv { dc_inputs = c.dc_inputs; dc_outputs = c.dc_outputs;
       dc_loops = (n.nadd c.dc_loops it); dc_kernels = c.dc_kernels;
       dc_stride = c.dc_stride; dc_padding = c.dc_padding; dc_act = c.dc_act;
       dc_dropout = c.dc_dropout; dc_flatten = c.dc_flatten; dc_training =
       c.dc_training })
   | LMaxpool m ->
     Ok (LMaxpool { m_inputs = m.m_inputs; m_outputs = m.m_outputs; m_loops =
       (n.nadd m.m_loops it); m_kernel = m.m_kernel; m_stride = m.m_stride;
       m_flatten = m.m_flatten })
   | LFeedback _ -> Panic p_explicit)

(** val add_loopback :
    num -> network -> nat -> nat -> nat -> bool -> network res **)

let add_loopback n n0 outof into iterations inskips =
  let len = length n0.n_layers in
  if negb
       ((||) ((||) (Nat.ltb len outof) (Nat.leb len into))
         (Nat.ltb outof into))
  then if negb (alist_mem n0.n_loopbacks outof)
       then bind (nth_res n0.n_layers into) (fun lin ->
              bind (nth_res n0.n_layers outof) (fun lout ->
                if shape_eqb (layer_inputs n lin) (layer_outputs n lout)
                then bind
                       (mapM (fun kl ->
                         let (k, l) = kl in
                         if (&&) (Nat.leb into k) (Nat.leb k outof)
                         then bump_loops n iterations l
                         else Ok l) (combine (seq O len) n0.n_layers))
                       (fun ls -> Ok { n_input = n0.n_input; n_layers = ls;
                       n_loopbacks =
                       (alist_set n0.n_loopbacks outof ((into, iterations),
                         inskips)); n_loopacc = n0.n_loopacc; n_connect =
                       n0.n_connect; n_skipacc = n0.n_skipacc; n_optimizer =
                       n0.n_optimizer; n_objective = n0.n_objective })
                else Panic p_shape))
       else Panic p_explicit
  else Panic p_explicit

(** val connect_count : num -> layer -> bool -> nat res **)

let connect_count _ l is_from =
  match l with
  | LDense d ->
    (match d.d_inputs with
     | SSingle k -> Ok k
     | _ -> Panic p_explicit)
  | LConv c ->
    (match c.c_inputs with
     | STriple (a, b, c') -> Ok (mul (mul a b) c')
     | _ -> Panic p_explicit)
  | LDeconv c ->
    (match c.dc_inputs with
     | STriple (a, b, c') -> Ok (mul (mul a b) c')
     | _ -> Panic p_explicit)
  | LMaxpool m ->
    if is_from
    then Panic p_explicit
    else (match m.m_inputs with
          | SSingle k -> Ok k
          | STriple (a, b, c') -> Ok (mul (mul a b) c')
          | _ -> Panic p_explicit)
  | LFeedback f ->
    (match f.f_inputs with
     | SSingle k -> Ok k
     | STriple (a, b, c') -> Ok (mul (mul a b) c')
     | _ -> Panic p_explicit)

(** val add_connect : num -> network -> nat -> nat -> network res **)

let add_connect n n0 infrom into =
  let len = length n0.n_layers in
  if negb
       ((||) ((||) (Nat.ltb len infrom) (Nat.leb len into))
         (Nat.ltb into infrom))
  then if negb (alist_mem n0.n_connect infrom)
       then bind (nth_res n0.n_layers infrom) (fun lf ->
              bind (nth_res n0.n_layers into) (fun lt ->
                bind (connect_count n lf true) (fun cf ->
                  bind (connect_count n lt false) (fun ct ->
                    if Nat.eqb cf ct
                    then Ok { n_input = n0.n_input; n_layers = n0.n_layers;
                           n_loopbacks = n0.n_loopbacks; n_loopacc =
                           n0.n_loopacc; n_connect =
                           (alist_set n0.n_connect into infrom); n_skipacc =
                           n0.n_skipacc; n_optimizer = n0.n_optimizer;
                           n_objective = n0.n_objective }
                    else Panic p_explicit))))
       else Panic p_explicit
  else Panic p_explicit

(** val set_accumulation :
    num -> network -> accumulation -> accumulation -> network **)

let set_accumulation _ n skip loop =
  { n_input = n.n_input; n_layers = n.n_layers; n_loopbacks = n.n_loopbacks;
    n_loopacc = loop; n_connect = n.n_connect; n_skipacc = skip;
    n_optimizer = n.n_optimizer; n_objective = n.n_objective }

(** val set_objective :
    num -> network -> objective -> (t * t) option -> network **)

let set_objective _ n o cl =
  { n_input = n.n_input; n_layers = n.n_layers; n_loopbacks = n.n_loopbacks;
    n_loopacc = n.n_loopacc; n_connect = n.n_connect; n_skipacc =
    n.n_skipacc; n_optimizer = n.n_optimizer; n_objective = (o, cl) }

(** val zero_single : num -> nat -> tensor **)

let zero_single n n0 =
  t_single n (repeat (zero n) n0)

(** val kernel_slot : num -> tensor list -> tensor list list res **)

let kernel_slot n ks = match ks with
| [] -> Panic p_index
| k :: _ ->
  (match k.tshape with
   | STriple (ch, kh, kw) ->
     bind (t_triple n (repeat (repeat (repeat (zero n) kw) kh) ch))
       (fun z0 -> Ok (repeat (z0 :: []) (length ks)))
   | _ -> Panic p_explicit)

(** val dense_slot : num -> dense -> tensor list list res **)

let dense_slot n l =
  match l.d_weights.tshape with
  | SDouble (o, i) ->
    bind (t_double n (repeat (repeat (zero n) i) o)) (fun z0 -> Ok
      ((z0 :: ((match l.d_bias with
                | Some _ -> zero_single n o
                | None -> zero_single n O) :: [])) :: []))
  | _ -> Panic p_explicit

(** val empty_slot : num -> tensor list list **)

let empty_slot n =
  ((zero_single n O) :: []) :: []

(** val blayer_slot : num -> blayer -> tensor list list res **)

let blayer_slot n = function
| BDense l -> dense_slot n l
| BConv l -> kernel_slot n l.c_kernels
| BDeconv l -> kernel_slot n l.dc_kernels
| BMaxpool _ -> Ok (empty_slot n)

(** val layer_slot : num -> layer -> tensor list list res **)

let layer_slot n = function
| LDense d -> dense_slot n d
| LConv c -> kernel_slot n c.c_kernels
| LDeconv c -> kernel_slot n c.dc_kernels
| _ -> Ok (empty_slot n)

(** val copy_optimizer : num -> feedback -> optimizer -> feedback res **)

let copy_optimizer n b o =
  bind (mapM (blayer_slot n) (rev b.f_layers)) (fun v -> Ok
    (set_f_optimizer n b (opt_validate n o v)))

(** val set_optimizer : num -> network -> optimizer -> network res **)

let set_optimizer n n0 o =
  bind (mapM (layer_slot n) (rev n0.n_layers)) (fun v ->
    let o' = opt_validate n o v in
    bind
      (mapM (fun l ->
        match l with
        | LFeedback b ->
          bind (copy_optimizer n b o') (fun b' -> Ok (LFeedback b'))
        | _ -> Ok l) n0.n_layers) (fun ls -> Ok { n_input = n0.n_input;
      n_layers = ls; n_loopbacks = n0.n_loopbacks; n_loopacc = n0.n_loopacc;
      n_connect = n0.n_connect; n_skipacc = n0.n_skipacc; n_optimizer = o';
      n_objective = n0.n_objective }))

(** val layer_parameters : num -> layer -> nat res **)

let layer_parameters n = function
| LDense d -> dense_parameters n d
| LConv c -> conv_parameters n c
| LDeconv c -> deconv_parameters n c
| LMaxpool _ -> Ok O
| LFeedback b -> feedback_parameters n b

(** val network_parameters : num -> network -> nat res **)

let network_parameters n n0 =
  bind (mapM (layer_parameters n) n0.n_layers) (fun ps -> Ok (sum_nat ps))

type fwd = { fw_pre : tensor list; fw_post : tensor list;
             fw_max : mpval option list;
             fw_fb : (tensor list * tensor list) list }

(** val forward_range : num -> layer list -> tensor -> fwd res **)

let forward_range n layers input =
  bind
    (foldM (fun st l ->
      bind
        (match last_opt st.fw_post with
         | Some t0 -> Ok t0
         | None -> Panic p_unwrap) (fun x ->
        match l with
        | LDense d ->
          bind (dense_forward n d x) (fun r -> Ok { fw_pre =
            (app st.fw_pre ((fst r) :: [])); fw_post =
            (app st.fw_post ((snd r) :: [])); fw_max =
            (app st.fw_max (None :: [])); fw_fb = st.fw_fb })
        | LConv c ->
          bind (conv_forward n c x) (fun r -> Ok { fw_pre =
            (app st.fw_pre ((fst r) :: [])); fw_post =
            (app st.fw_post ((snd r) :: [])); fw_max =
            (app st.fw_max (None :: [])); fw_fb = st.fw_fb })
        | LDeconv c ->
          bind (deconv_forward n c x) (fun r -> Ok { fw_pre =
            (app st.fw_pre ((fst r) :: [])); fw_post =
            (app st.fw_post ((snd r) :: [])); fw_max =
            (app st.fw_max (None :: [])); fw_fb = st.fw_fb })
        | LMaxpool m ->
          bind (maxpool_forward n m x) (fun r -> Ok { fw_pre =
            (app st.fw_pre ((fst (fst r)) :: [])); fw_post =
            (app st.fw_post ((snd (fst r)) :: [])); fw_max =
            (app st.fw_max ((Some (MPIdx (snd r))) :: [])); fw_fb =
            st.fw_fb })
        | LFeedback b ->
          bind (feedback_forward n b x) (fun r -> Ok { fw_pre =
            (app st.fw_pre (r.fo_pre :: [])); fw_post =
            (app st.fw_post (r.fo_post :: [])); fw_max =
            (app st.fw_max ((Some (MPNested r.fo_max)) :: [])); fw_fb =
            (app st.fw_fb ((r.fo_unactivated, r.fo_activated) :: [])) })))
      layers { fw_pre = []; fw_post = (input :: []); fw_max = []; fw_fb =
      [] }) (fun st -> Ok { fw_pre = st.fw_pre; fw_post = (tl st.fw_post);
    fw_max = st.fw_max; fw_fb = st.fw_fb })

(** val sub_layers : num -> layer list -> nat -> nat -> layer list **)

let sub_layers _ layers from to0 =
  firstn (sub to0 from) (skipn from layers)

(** val extend_idx : maxidx -> maxidx -> maxidx **)

let extend_idx a b =
  zipk (zipk (zipk app)) a b

(** val upd_res : 'a1 list -> nat -> ('a1 -> 'a1 res) -> 'a1 list res **)

let upd_res l i f =
  bind (nth_res l i) (fun x -> bind (f x) (fun y -> Ok (set_nth l i y)))

(** val loop_combine :
    num -> accumulation -> tensor -> tensor list -> tensor res **)

let loop_combine n acc x its =
  match acc with
  | AccAdd -> foldM (add_inplace n) its x
  | AccSub -> foldM (sub_inplace n) its x
  | AccMul -> foldM (mul_inplace n) its x
  | AccOverwrite -> (match last_opt its with
                     | Some t0 -> Ok t0
                     | None -> Ok x)
  | AccMean -> mean_inplace n x its

(** val loop_combine_max :
    accumulation -> mpval option -> mpval option list -> mpval option res **)

let loop_combine_max acc m its =
  match m with
  | Some m1 ->
    (match m1 with
     | MPIdx m0 ->
       bind
         (mapM (fun it ->
           match it with
           | Some y ->
             (match y with
              | MPIdx f -> Ok f
              | MPNested _ -> Panic p_explicit)
           | None -> Panic p_explicit) its) (fun fs ->
         match acc with
         | AccOverwrite ->
           Ok (Some (MPIdx (match last_opt fs with
                            | Some f -> f
                            | None -> m0)))
         | _ -> Ok (Some (MPIdx (fold_left extend_idx fs m0))))
     | MPNested _ -> (match its with
                      | [] -> Ok m
                      | _ :: _ -> Panic p_explicit))
  | None -> Ok None

(** val forward : num -> network -> tensor -> fwd res **)

let forward n n0 input =
  let layers = n0.n_layers in
  foldM (fun st i ->
    bind
      (match last_opt st.fw_post with
       | Some t0 -> Ok t0
       | None -> Panic p_unwrap) (fun x0 ->
      bind
        (match alist_get n0.n_connect i with
         | Some src ->
           bind (nth_res st.fw_post src) (fun s0 ->
             bind
               (if shape_eqb s0.tshape x0.tshape
                then Ok s0
                else reshape n s0 x0.tshape) (fun s ->
               match n0.n_skipacc with
               | AccAdd -> add_inplace n x0 s
               | AccSub -> sub_inplace n x0 s
               | AccMul -> mul_inplace n x0 s
               | AccOverwrite -> Ok s
               | AccMean -> mean_inplace n x0 (s :: [])))
         | None -> Ok x0) (fun x ->
        bind (forward_range n (sub_layers n layers i (add i (S O))) x)
          (fun r ->
          let st1 = { fw_pre = (app st.fw_pre r.fw_pre); fw_post =
            (app st.fw_post r.fw_post); fw_max = (app st.fw_max r.fw_max);
            fw_fb = (app st.fw_fb r.fw_fb) }
          in
          (match alist_get n0.n_loopbacks i with
           | Some p ->
             let (p0, inskips) = p in
             let (into, iterations) = p0 in
             bind (nth_res layers into) (fun li ->
               bind (nth_res layers i) (fun lo ->
                 bind
                   (match last_opt st1.fw_post with
                    | Some t0 -> Ok t0
                    | None -> Panic p_unwrap) (fun first ->
                   bind
                     (foldM (fun acc _ ->
                       let cur0 = fst acc in
                       bind
                         (if shape_eqb (layer_inputs n li)
                               (layer_outputs n lo)
                          then Ok cur0
                          else reshape n cur0 (layer_inputs n li))
                         (fun cur1 ->
                         bind
                           (if inskips
                            then bind (nth_res st1.fw_post into) (fun a ->
                                   add_inplace n cur1 a)
                            else Ok cur1) (fun cur ->
                           bind
                             (forward_range n
                               (sub_layers n layers into (add i (S O))) cur)
                             (fun f ->
                             bind
                               (match last_opt f.fw_post with
                                | Some t0 -> Ok t0
                                | None -> Panic p_unwrap) (fun lst -> Ok
                               (lst, (app (snd acc) (f :: []))))))))
                       (seq O iterations) (first, [])) (fun its ->
                     let fs = snd its in
                     foldM (fun st2 ij ->
                       let (idx, j) = ij in
                       bind (mapM (fun f -> nth_res f.fw_pre idx) fs)
                         (fun fpre ->
                         bind (mapM (fun f -> nth_res f.fw_post idx) fs)
                           (fun fpost ->
                           bind (mapM (fun f -> nth_res f.fw_max idx) fs)
                             (fun fmax0 ->
                             bind
                               (upd_res st2.fw_pre j (fun t0 ->
                                 loop_combine n n0.n_loopacc t0 fpre))
                               (fun pre' ->
                               bind
                                 (upd_res st2.fw_post (add j (S O))
                                   (fun t0 ->
                                   loop_combine n n0.n_loopacc t0 fpost))
                                 (fun post' ->
                                 bind
                                   (match nth_error st2.fw_max j with
                                    | Some m ->
                                      bind
                                        (loop_combine_max n0.n_loopacc m
                                          fmax0) (fun m' -> Ok
                                        (set_nth st2.fw_max j m'))
                                    | None -> Ok st2.fw_max) (fun max' -> Ok
                                   { fw_pre = pre'; fw_post = post'; fw_max =
                                   max'; fw_fb = st2.fw_fb })))))))
                       (combine (seq O (sub (add i (S O)) into))
                         (seq into (sub (add i (S O)) into))) st1))))
           | None -> Ok st1))))) (seq O (length layers)) { fw_pre = [];
    fw_post = (input :: []); fw_max = []; fw_fb = [] }

(** val predict : num -> network -> tensor -> tensor res **)

let predict n n0 input =
  bind (forward n n0 input) (fun f ->
    match last_opt f.fw_post with
    | Some t0 -> Ok t0
    | None -> Panic p_unwrap)

(** val invert_net_connect : (nat * nat) list -> (nat * nat) list **)

let invert_net_connect m =
  fold_left (fun inv kv -> alist_set inv (snd kv) (fst kv)) m []

(** val layer_backward :
    num -> layer -> tensor -> tensor -> tensor -> mpval option -> (tensor
    list * tensor list) option -> ((tensor * grad) * bgrad option) res **)

let layer_backward n l g input output mx fb =
  match l with
  | LDense d ->
    bind (dense_backward n d g input output) (fun r -> Ok (((fst (fst r)),
      (GPlain (snd (fst r)))), (option_map (fun x -> BPlain x) (snd r))))
  | LConv c ->
    bind (conv_backward n c g input output) (fun r -> Ok (((fst (fst r)),
      (GPlain (snd (fst r)))), (option_map (fun x -> BPlain x) (snd r))))
  | LDeconv c ->
    bind (deconv_backward n c g input output) (fun r -> Ok (((fst (fst r)),
      (GPlain (snd (fst r)))), (option_map (fun x -> BPlain x) (snd r))))
  | LMaxpool m ->
    (match mx with
     | Some m0 ->
       (match m0 with
        | MPIdx idx ->
          bind (maxpool_backward n m g idx) (fun ig -> Ok ((ig, (GPlain
            (zero_single n O))), None))
        | MPNested _ -> Panic p_explicit)
     | None -> Panic p_explicit)
  | LFeedback b ->
    (match fb with
     | Some p ->
       let (unact, act) = p in
       bind (feedback_backward n b g unact act) (fun r -> Ok (((fst (fst r)),
         (GNested (snd (fst r)))), (Some (BNestedOpt (snd r)))))
     | None -> Panic p_unwrap)

(** val backward :
    num -> network -> tensor -> fwd -> ((grad list * bgrad option
    list) * tensor list) res **)

let backward n n0 gradient f =
  let layers = n0.n_layers in
  let len = length layers in
  let inv = invert_net_connect n0.n_connect in
  bind
    (foldM (fun st il ->
      let (p, fbs) = st in
      let (p0, bgs) = p in
      let (gs, wgs) = p0 in
      let (i, lyr) = il in
      let idx = sub (sub len i) (S O) in
      bind (nth_res f.fw_post idx) (fun input ->
        bind (nth_res f.fw_pre idx) (fun output ->
          bind
            (match last_opt gs with
             | Some t0 -> Ok t0
             | None -> Panic p_unwrap) (fun lastg ->
            bind (nth_res f.fw_max idx) (fun mx ->
              let fb =
                match lyr with
                | LDense _ -> None
                | LConv _ -> None
                | LDeconv _ -> None
                | LMaxpool _ -> None
                | LFeedback _ -> last_opt fbs
              in
              let fbs' =
                match lyr with
                | LFeedback _ -> removelast fbs
                | _ -> fbs
              in
              bind (layer_backward n lyr lastg input output mx fb) (fun r ->
                let (p1, bg) = r in
                let (g, wg) = p1 in
                bind
                  (match alist_get inv idx with
                   | Some to0 ->
                     bind (csub len to0) (fun k ->
                       bind (nth_res gs k) (fun g2 ->
                         bind (reshape n g2 g.tshape) (fun g2' ->
                           add_inplace n g g2')))
                   | None -> Ok g) (fun g' -> Ok ((((app gs (g' :: [])),
                  (app wgs (wg :: []))), (app bgs (bg :: []))), fbs'))))))))
      (combine (seq O len) (rev layers)) ((((gradient :: []), []), []),
      f.fw_fb)) (fun st ->
    let (p, _) = st in
    let (p0, bgs) = p in let (gs, wgs) = p0 in Ok ((wgs, bgs), gs))

(** val update :
    num -> network -> z -> grad list -> bgrad option list -> network res **)

let update n n0 stepnr wgs bgs =
  let len = length n0.n_layers in
  bind
    (foldM (fun st il ->
      let (i, lyr) = il in
      (match lyr with
       | LDense d ->
         bind (nth_res wgs i) (fun wg ->
           bind (nth_res bgs i) (fun bg ->
             match wg with
             | GPlain w ->
               bind
                 (update_dense n (fst st) i stepnr d w
                   (match bg with
                    | Some b0 ->
                      (match b0 with
                       | BPlain b -> Some b
                       | BNestedOpt _ -> None)
                    | None -> None)) (fun r -> Ok ((fst r), ((LDense
                 (snd r)) :: (snd st))))
             | GNested _ -> Panic p_explicit))
       | LConv c ->
         bind (nth_res wgs i) (fun wg ->
           match wg with
           | GPlain w ->
             bind (update_kernels n (fst st) i stepnr c.c_kernels w)
               (fun r -> Ok ((fst r), ((LConv
               (set_c_kernels n c (snd r))) :: (snd st))))
           | GNested _ -> Panic p_explicit)
       | LDeconv c ->
         bind (nth_res wgs i) (fun wg ->
           match wg with
           | GPlain w ->
             bind (update_kernels n (fst st) i stepnr c.dc_kernels w)
               (fun r -> Ok ((fst r), ((LDeconv
               (set_dc_kernels n c (snd r))) :: (snd st))))
           | GNested _ -> Panic p_explicit)
       | LMaxpool _ -> Ok ((fst st), (lyr :: (snd st)))
       | LFeedback b ->
         bind (nth_res wgs i) (fun wg ->
           bind (nth_res bgs i) (fun bg ->
             match wg with
             | GPlain _ -> Panic p_explicit
             | GNested w ->
               (match bg with
                | Some b0 ->
                  (match b0 with
                   | BPlain _ -> Panic p_explicit
                   | BNestedOpt bb ->
                     bind (feedback_update n b stepnr w bb) (fun b' -> Ok
                       ((fst st), ((LFeedback b') :: (snd st)))))
                | None -> Panic p_explicit)))))
      (combine (seq O len) (rev n0.n_layers)) (n0.n_optimizer, []))
    (fun st -> Ok { n_input = n0.n_input; n_layers = (snd st); n_loopbacks =
    n0.n_loopbacks; n_loopacc = n0.n_loopacc; n_connect = n0.n_connect;
    n_skipacc = n0.n_skipacc; n_optimizer = (fst st); n_objective =
    n0.n_objective })

type pmap_t = __ -> __ -> (__ -> __) -> __ list -> __ list

(** val seq_pmap : (__ -> __) -> __ list -> __ list **)

let seq_pmap =
  map

(** val sequence : 'a1 res list -> 'a1 list res **)

let rec sequence = function
| [] -> Ok []
| r0 :: r ->
  (match r0 with
   | Ok x -> bind (sequence r) (fun xs -> Ok (x :: xs))
   | Panic c -> Panic c)

(** val run_batch :
    num -> pmap_t -> ('a1 -> 'a2 -> ('a3 * t) res) -> ('a3 -> 'a3 -> 'a3 res)
    -> (z -> 'a1 -> 'a3 -> 'a1 res) -> z -> 'a1 -> 'a2 list -> ('a1 * t) res **)

let run_batch n pmap sample gadd step epoch s group =
  bind (sequence (Obj.magic pmap __ __ (sample s) group)) (fun rs ->
    if forallb (fun r -> negb (n.nisnan (snd r))) rs
    then (match rs with
          | [] -> Panic p_index
          | r0 :: rest ->
            bind (foldM gadd (map fst rest) (fst r0)) (fun g ->
              let l = n.ndiv (fsum n (map snd rs)) (of_nat0 n (length rs)) in
              bind (step epoch s g) (fun s' -> Ok (s', l))))
    else Panic p_explicit)

(** val run_epoch :
    num -> pmap_t -> ('a1 -> 'a2 -> ('a3 * t) res) -> ('a3 -> 'a3 -> 'a3 res)
    -> (z -> 'a1 -> 'a3 -> 'a1 res) -> z -> 'a1 -> 'a2 list list -> ('a1 * t)
    res **)

let run_epoch n pmap sample gadd step epoch s bs =
  bind
    (foldM (fun st group ->
      bind (run_batch n pmap sample gadd step epoch (fst st) group) (fun r ->
        Ok ((fst r), (n.nadd (snd st) (snd r))))) bs (s, (zero n))) (fun r ->
    Ok ((fst r), (n.ndiv (snd r) (of_nat0 n (length bs)))))

(** val window_increasing : num -> nat -> t list -> bool res **)

let window_increasing n threshold val_loss =
  let history0 = firstn threshold (rev val_loss) in
  bind (csub threshold (S O)) (fun t1 ->
    foldM (fun acc i ->
      if acc
      then bind (nth_res history0 i) (fun a ->
             bind (nth_res history0 (add i (S O))) (fun b -> Ok
               (negb (n.nleb a b))))
      else Ok false) (seq O t1) true)

(** val should_stop : num -> z option -> z -> t list -> bool res **)

let should_stop n threshold epoch val_loss =
  match threshold with
  | Some th ->
    if Z.ltb th epoch
    then if Z.leb Z0 th
         then window_increasing n (Z.to_nat th) val_loss
         else Panic p_index
    else Ok false
  | None -> Ok false

type history = { h_train : t list; h_vloss : t list; h_vacc : t list }

(** val epochs_loop :
    num -> pmap_t -> ('a1 -> 'a2 -> ('a3 * t) res) -> ('a3 -> 'a3 -> 'a3 res)
    -> (z -> 'a1 -> 'a3 -> 'a1 res) -> ('a1 -> ('a1 * (t * t)) res) -> nat ->
    z -> bool -> z option -> 'a2 list list -> 'a1 -> history ->
    ('a1 * history) res **)

let rec epochs_loop n pmap sample gadd step valid fuel epoch has_val threshold bs s h =
  match fuel with
  | O -> Ok (s, h)
  | S k ->
    bind (run_epoch n pmap sample gadd step epoch s bs) (fun r ->
      let (s1, l) = r in
      bind
        (if has_val
         then bind (valid s1) (fun v -> Ok (((fst v),
                (app h.h_vloss ((fst (snd v)) :: []))),
                (app h.h_vacc ((snd (snd v)) :: []))))
         else Ok ((s1, h.h_vloss), h.h_vacc)) (fun v ->
        let (p, va) = v in
        let (s2, vl) = p in
        let h' = { h_train = (app h.h_train (l :: [])); h_vloss = vl;
          h_vacc = va }
        in
        bind (should_stop n threshold epoch vl) (fun stop ->
          if stop
          then Ok (s2, h')
          else epochs_loop n pmap sample gadd step valid k
                 (Z.add epoch (Zpos XH)) has_val threshold bs s2 h')))

(** val layer_set_training : num -> bool -> layer -> layer **)

let layer_set_training n t0 l = match l with
| LDense d -> lift_b n (blayer_set_training n t0 (BDense d))
| LConv c -> lift_b n (blayer_set_training n t0 (BConv c))
| LDeconv c -> lift_b n (blayer_set_training n t0 (BDeconv c))
| LMaxpool _ -> l
| LFeedback b -> LFeedback (feedback_training n b t0)

(** val set_all_training : num -> bool -> network -> network **)

let set_all_training n t0 n0 =
  set_layers n n0 (map (layer_set_training n t0) n0.n_layers)

(** val blayer_flag : num -> blayer -> bool option **)

let blayer_flag _ = function
| BDense d -> Some d.d_training
| BConv c -> Some c.c_training
| BDeconv c -> Some c.dc_training
| BMaxpool _ -> None

(** val layer_flags : num -> layer -> bool option list **)

let layer_flags n = function
| LDense d -> (Some d.d_training) :: []
| LConv c -> (Some c.c_training) :: []
| LDeconv c -> (Some c.dc_training) :: []
| LMaxpool _ -> None :: []
| LFeedback b -> map (blayer_flag n) b.f_layers

(** val network_flags : num -> network -> bool option list **)

let network_flags n n0 =
  flat_map (layer_flags n) n0.n_layers

(** val validate_clear : num -> layer list -> bool -> layer list * bool **)

let rec validate_clear n ls training =
  match ls with
  | [] -> ([], training)
  | l :: rest ->
    (match l with
     | LDense d ->
       if (&&) d.d_training (negb training)
       then let (rest', t0) = validate_clear n rest true in
            (((layer_set_training n false l) :: rest'), t0)
       else (ls, training)
     | LMaxpool _ ->
       let (rest', t0) = validate_clear n rest training in ((l :: rest'), t0)
     | _ ->
       let (rest', t0) = validate_clear n rest training in
       (((layer_set_training n false l) :: rest'), t0))

(** val abs_lt : num -> t -> t -> t -> bool **)

let abs_lt n a b tol =
  n.nltb (n.nabs (n.nsub a b)) tol

(** val accuracy : num -> network -> t -> tensor -> tensor -> t res **)

let accuracy n n0 tol prediction target =
  match last_opt n0.n_layers with
  | Some l ->
    (match l with
     | LDense d ->
       (match d.d_act with
        | Softmax ->
          bind (argmax n target) (fun a ->
            bind (argmax n prediction) (fun b -> Ok
              (if Nat.eqb a b then one n else zero n)))
        | _ ->
          bind (get_flat n target) (fun t0 ->
            bind (get_flat n prediction) (fun p ->
              if Nat.eqb (length t0) (S O)
              then bind (nth_res p O) (fun p0 ->
                     bind (nth_res t0 O) (fun t1 -> Ok
                       (if abs_lt n p0 t1 tol then one n else zero n)))
              else Ok
                     (n.ndiv
                       (fsum n
                         (map2 (fun ti pi_ ->
                           if abs_lt n ti pi_ tol then one n else zero n) t0
                           p)) (of_nat0 n (length t0))))))
     | _ -> Panic p_explicit)
  | None -> Panic p_explicit

(** val validate_sample :
    num -> network -> t -> (tensor * tensor) -> (t * t) res **)

let validate_sample n n0 tol xt =
  bind (predict n n0 (fst xt)) (fun p ->
    bind (loss n (fst n0.n_objective) (snd n0.n_objective) p (snd xt))
      (fun lg ->
      bind (accuracy n n0 tol p (snd xt)) (fun a -> Ok ((fst lg), a))))

(** val cHUNKS : nat **)

let cHUNKS =
  S (S (S (S (S (S (S (S (S (S (S (S (S (S (S (S (S (S (S (S (S (S (S (S (S
    (S (S (S (S (S (S (S (S (S (S (S (S (S (S (S (S (S (S (S (S (S (S (S (S
    (S (S (S (S (S (S (S (S (S (S (S (S (S (S (S
    O)))))))))))))))))))))))))))))))))))))))))))))))))))))))))))))))

(** val zip_chunks : 'a1 list -> 'a2 list -> ('a1 * 'a2) list list **)

let zip_chunks a b =
  map (fun p -> combine (fst p) (snd p))
    (combine (chunks cHUNKS a) (chunks cHUNKS b))

(** val validate :
    num -> pmap_t -> network -> tensor list -> tensor list -> t ->
    (network * (t * t)) res **)

let validate n pmap n0 inputs targets tol =
  let (ls, training) = validate_clear n n0.n_layers false in
  let n1 = set_layers n n0 ls in
  bind
    (sequence
      (concat
        (Obj.magic pmap __ __ (fun chunk ->
          map (validate_sample n n1 tol) chunk) (zip_chunks inputs targets))))
    (fun rs ->
    let n2 = if training then set_all_training n true n1 else n1 in
    let len = of_nat0 n (length rs) in
    Ok (n2, ((n.ndiv (fsum n (map fst rs)) len),
    (n.ndiv (fsum n (map snd rs)) len))))

(** val predict_batch :
    num -> pmap_t -> network -> tensor list -> tensor list res **)

let predict_batch n pmap n0 inputs =
  sequence
    (concat
      (Obj.magic pmap __ __ (fun chunk -> map (predict n n0) chunk)
        (chunks cHUNKS inputs)))

type grads = grad list * bgrad option list

(** val grad_add : num -> grad -> grad -> grad res **)

let grad_add n a b =
  match a with
  | GPlain x ->
    (match b with
     | GPlain y -> bind (add_inplace n x y) (fun z0 -> Ok (GPlain z0))
     | GNested _ -> Panic p_shape)
  | GNested x ->
    (match b with
     | GPlain _ -> Panic p_shape
     | GNested y ->
       bind (add_inplace_nested n x y) (fun z0 -> Ok (GNested z0)))

(** val bgrad_add :
    num -> bgrad option -> bgrad option -> bgrad option res **)

let bgrad_add n a b =
  match a with
  | Some b0 ->
    (match b0 with
     | BPlain x ->
       (match b with
        | Some b1 ->
          (match b1 with
           | BPlain y ->
             bind (add_inplace n x y) (fun z0 -> Ok (Some (BPlain z0)))
           | BNestedOpt _ -> Panic p_explicit)
        | None -> Panic p_explicit)
     | BNestedOpt x ->
       (match b with
        | Some b1 ->
          (match b1 with
           | BPlain _ -> Panic p_explicit
           | BNestedOpt y ->
             bind (add_inplace_nestedopt n x y) (fun z0 -> Ok (Some
               (BNestedOpt z0))))
        | None -> Panic p_explicit))
  | None -> (match b with
             | Some _ -> Panic p_explicit
             | None -> Ok None)

(** val zipM :
    ('a1 -> 'a1 -> 'a1 res) -> 'a1 list -> 'a1 list -> 'a1 list res **)

let rec zipM f a b =
  match a with
  | [] -> Ok a
  | x :: xs ->
    (match b with
     | [] -> Ok a
     | y :: ys ->
       bind (f x y) (fun z0 -> bind (zipM f xs ys) (fun zs -> Ok (z0 :: zs))))

(** val grads_add : num -> grads -> grads -> grads res **)

let grads_add n a b =
  bind (zipM (grad_add n) (fst a) (fst b)) (fun w ->
    bind (zipM (bgrad_add n) (snd a) (snd b)) (fun bb -> Ok (w, bb)))

(** val sample_grad :
    num -> network -> (tensor * tensor) -> (grads * t) res **)

let sample_grad n n0 xt =
  bind (forward n n0 (fst xt)) (fun f ->
    bind
      (match last_opt f.fw_post with
       | Some t0 -> Ok t0
       | None -> Panic p_unwrap) (fun out ->
      bind (loss n (fst n0.n_objective) (snd n0.n_objective) out (snd xt))
        (fun lg ->
        bind (backward n n0 (snd lg) f) (fun r -> Ok (((fst (fst r)),
          (snd (fst r))), (fst lg))))))

(** val net_step : num -> z -> network -> grads -> network res **)

let net_step n epoch n0 g =
  update n n0 epoch (fst g) (snd g)

(** val tol_1e6 : num -> t **)

let tol_1e6 n =
  ratio n (Zpos XH) (Zpos (XO (XO (XO (XO (XO (XO (XI (XO (XO (XI (XO (XO (XO
    (XO (XI (XO (XI (XI (XI XH))))))))))))))))))))

(** val learn :
    num -> pmap_t -> network -> tensor list -> tensor list -> ((tensor
    list * tensor list) * z) option -> nat -> z -> (network * history) res **)

let learn n pmap n0 inputs targets validation batch epochs =
  if negb (Nat.eqb batch O)
  then let bs =
         map (fun p -> combine (fst p) (snd p))
           (combine (chunks batch inputs) (chunks batch targets))
       in
       let valid = fun s ->
         match validation with
         | Some p ->
           let (p0, _) = p in
           let (vi, vt) = p0 in validate n pmap s vi vt (tol_1e6 n)
         | None -> Panic p_explicit
       in
       let has_val = match validation with
                     | Some _ -> true
                     | None -> false in
       let threshold =
         match validation with
         | Some p -> let (_, t0) = p in t0
         | None -> Z0
       in
       let s0 = set_all_training n true n0 in
       bind
         (epochs_loop n pmap (sample_grad n) (grads_add n) (net_step n) valid
           (Z.to_nat epochs) (Zpos XH) has_val
           (if has_val then Some threshold else None) bs s0 { h_train = [];
           h_vloss = []; h_vacc = [] }) (fun r -> Ok
         ((set_all_training n false (fst r)), (snd r)))
  else Panic p_explicit

type 'a parser0 = z list -> ('a * z list) res

(** val pret : 'a1 -> 'a1 parser0 **)

let pret a l =
  Ok (a, l)

(** val pbind : 'a1 parser0 -> ('a1 -> 'a2 parser0) -> 'a2 parser0 **)

let pbind p f l =
  match p l with
  | Ok a0 -> let (a, l') = a0 in f a l'
  | Panic c -> Panic c

(** val pfail : 'a1 parser0 **)

let pfail _ =
  Panic p_parse

(** val tok : z parser0 **)

let tok = function
| [] -> Panic p_parse
| x :: r -> Ok (x, r)

(** val pnat : nat parser0 **)

let pnat =
  pbind tok (fun z0 -> pret (Z.to_nat z0))

(** val pbool : bool parser0 **)

let pbool =
  pbind tok (fun z0 -> pret (negb (Z.eqb z0 Z0)))

(** val prep : nat -> 'a1 parser0 -> 'a1 list parser0 **)

let rec prep n p =
  match n with
  | O -> pret []
  | S k -> pbind p (fun x -> pbind (prep k p) (fun xs -> pret (x :: xs)))

(** val plist : 'a1 parser0 -> 'a1 list parser0 **)

let plist p =
  pbind pnat (fun n -> prep n p)

(** val popt : 'a1 parser0 -> 'a1 option parser0 **)

let popt p =
  pbind pbool (fun b ->
    if b then pbind p (fun x -> pret (Some x)) else pret None)

(** val ppair : (nat * nat) parser0 **)

let ppair =
  pbind pnat (fun a -> pbind pnat (fun b -> pret (a, b)))

(** val nF : libm -> num **)

let nF =
  numF32

(** val pfloat : libm -> t parser0 **)

let pfloat _ =
  pbind tok (fun z0 -> pret (Obj.magic f_of_bits z0))

(** val pshape : shape parser0 **)

let pshape =
  pbind tok (fun k ->
    match k with
    | Zpos p ->
      (match p with
       | XI p0 ->
         (match p0 with
          | XI _ -> pfail
          | XO p1 ->
            (match p1 with
             | XH -> pbind pnat (fun n -> pret (SNested n))
             | _ -> pfail)
          | XH ->
            pbind pnat (fun c ->
              pbind pnat (fun h ->
                pbind pnat (fun w -> pret (STriple (c, h, w))))))
       | XO p0 ->
         (match p0 with
          | XI _ -> pfail
          | XO p1 ->
            (match p1 with
             | XH ->
               pbind pnat (fun a ->
                 pbind pnat (fun b ->
                   pbind pnat (fun c ->
                     pbind pnat (fun d -> pret (SQuad (a, b, c, d))))))
             | _ -> pfail)
          | XH ->
            pbind pnat (fun r -> pbind pnat (fun c -> pret (SDouble (r, c)))))
       | XH -> pbind pnat (fun n -> pret (SSingle n)))
    | _ -> pfail)

(** val ptensor : libm -> tensor parser0 **)

let ptensor l =
  pbind tok (fun k ->
    match k with
    | Zpos p ->
      (match p with
       | XI p0 ->
         (match p0 with
          | XH ->
            pbind pnat (fun c ->
              pbind pnat (fun h ->
                pbind pnat (fun w ->
                  pbind (prep c (prep h (prep w (pfloat l)))) (fun v ->
                    pret { tshape = (STriple (c, h, w)); tdata = (DTriple v) }))))
          | _ -> pfail)
       | XO p0 ->
         (match p0 with
          | XI _ -> pfail
          | XO p1 ->
            (match p1 with
             | XH ->
               pbind pnat (fun a ->
                 pbind pnat (fun c ->
                   pbind pnat (fun h ->
                     pbind pnat (fun w ->
                       pbind (prep a (prep c (prep h (prep w (pfloat l)))))
                         (fun v ->
                         pret { tshape = (SQuad (a, c, h, w)); tdata = (DQuad
                           v) })))))
             | _ -> pfail)
          | XH ->
            pbind pnat (fun r ->
              pbind pnat (fun c ->
                pbind (prep r (prep c (pfloat l))) (fun v ->
                  pret { tshape = (SDouble (r, c)); tdata = (DDouble v) }))))
       | XH ->
         pbind pnat (fun n ->
           pbind (prep n (pfloat l)) (fun v ->
             pret { tshape = (SSingle n); tdata = (DSingle v) })))
    | _ -> pfail)

(** val pact : activation parser0 **)

let pact =
  pbind tok (fun k ->
    match k with
    | Z0 -> pret ReLU
    | Zpos p ->
      (match p with
       | XI p0 ->
         (match p0 with
          | XI _ -> pfail
          | XO p1 -> (match p1 with
                      | XH -> pret Linear
                      | _ -> pfail)
          | XH -> pret Softmax)
       | XO p0 ->
         (match p0 with
          | XI _ -> pfail
          | XO p1 -> (match p1 with
                      | XH -> pret Tanh
                      | _ -> pfail)
          | XH -> pret Sigmoid)
       | XH -> pret LeakyReLU)
    | Zneg _ -> pfail)

(** val pacc : accumulation parser0 **)

let pacc =
  pbind tok (fun k ->
    match k with
    | Z0 -> pret AccAdd
    | Zpos p ->
      (match p with
       | XI p0 -> (match p0 with
                   | XH -> pret AccOverwrite
                   | _ -> pfail)
       | XO p0 ->
         (match p0 with
          | XI _ -> pfail
          | XO p1 -> (match p1 with
                      | XH -> pret AccMean
                      | _ -> pfail)
          | XH -> pret AccMul)
       | XH -> pret AccSub)
    | Zneg _ -> pfail)

(** val pobj : objective parser0 **)

let pobj =
  pbind tok (fun k ->
    match k with
    | Z0 -> pret AE
    | Zpos p ->
      (match p with
       | XI p0 ->
         (match p0 with
          | XI _ -> pfail
          | XO p1 ->
            (match p1 with
             | XH -> pret BinaryCrossEntropy
             | _ -> pfail)
          | XH -> pret RMSE)
       | XO p0 ->
         (match p0 with
          | XI p1 -> (match p1 with
                      | XH -> pret KLDivergence
                      | _ -> pfail)
          | XO p1 -> (match p1 with
                      | XH -> pret CrossEntropy
                      | _ -> pfail)
          | XH -> pret MSE)
       | XH -> pret MAE)
    | Zneg _ -> pfail)

(** val pclamp : libm -> (t * t) option parser0 **)

let pclamp l =
  popt (pbind (pfloat l) (fun a -> pbind (pfloat l) (fun b -> pret (a, b))))

(** val poptimizer : libm -> optimizer parser0 **)

let poptimizer l =
  pbind tok (fun k ->
    match k with
    | Z0 ->
      pbind (pfloat l) (fun lr ->
        pbind (popt (pfloat l)) (fun d ->
          pret (OSGD { sgd_lr = lr; sgd_decay = d })))
    | Zpos p ->
      (match p with
       | XI p0 ->
         (match p0 with
          | XH ->
            pbind (pfloat l) (fun lr ->
              pbind (pfloat l) (fun b1 ->
                pbind (pfloat l) (fun b2 ->
                  pbind (pfloat l) (fun e ->
                    pbind (pfloat l) (fun d ->
                      pret (OAdamW { adamw_lr = lr; adamw_b1 = b1; adamw_b2 =
                        b2; adamw_eps = e; adamw_decay = d; adamw_velocity =
                        []; adamw_momentum = [] }))))))
          | _ -> pfail)
       | XO p0 ->
         (match p0 with
          | XI _ -> pfail
          | XO p1 ->
            (match p1 with
             | XH ->
               pbind (pfloat l) (fun lr ->
                 pbind (pfloat l) (fun al ->
                   pbind (pfloat l) (fun e ->
                     pbind (popt (pfloat l)) (fun d ->
                       pbind (popt (pfloat l)) (fun m ->
                         pbind pbool (fun c ->
                           pret (ORMS { rms_lr = lr; rms_alpha = al;
                             rms_eps = e; rms_decay = d; rms_momentum = m;
                             rms_centered = c; rms_velocity = [];
                             rms_gradient = []; rms_buffer = [] })))))))
             | _ -> pfail)
          | XH ->
            pbind (pfloat l) (fun lr ->
              pbind (pfloat l) (fun b1 ->
                pbind (pfloat l) (fun b2 ->
                  pbind (pfloat l) (fun e ->
                    pbind (popt (pfloat l)) (fun d ->
                      pret (OAdam { adam_lr = lr; adam_b1 = b1; adam_b2 = b2;
                        adam_eps = e; adam_decay = d; adam_velocity = [];
                        adam_momentum = [] })))))))
       | XH ->
         pbind (pfloat l) (fun lr ->
           pbind (pfloat l) (fun m ->
             pbind (pfloat l) (fun da ->
               pbind (popt (pfloat l)) (fun d ->
                 pret (OSGDM { sgdm_lr = lr; sgdm_momentum = m;
                   sgdm_dampening = da; sgdm_decay = d; sgdm_velocity = [] }))))))
    | Zneg _ -> pfail)

(** val enat : nat -> z **)

let enat =
  Z.of_nat

(** val ebool : bool -> z **)

let ebool = function
| true -> Zpos XH
| false -> Z0

(** val efl : libm -> t -> z **)

let efl _ x =
  f_to_bits (Obj.magic x)

(** val elist : ('a1 -> z list) -> 'a1 list -> z list **)

let elist f l =
  (enat (length l)) :: (flat_map f l)

(** val eshape : shape -> z list **)

let eshape = function
| SSingle n -> (Zpos XH) :: ((enat n) :: [])
| SDouble (r, c) -> (Zpos (XO XH)) :: ((enat r) :: ((enat c) :: []))
| STriple (c, h, w) ->
  (Zpos (XI XH)) :: ((enat c) :: ((enat h) :: ((enat w) :: [])))
| SQuad (a, b, c, d) ->
  (Zpos (XO (XO
    XH))) :: ((enat a) :: ((enat b) :: ((enat c) :: ((enat d) :: []))))
| SNested n -> (Zpos (XI (XO XH))) :: ((enat n) :: [])

(** val etensor : libm -> tensor -> z list **)

let etensor l t0 =
  app (eshape t0.tshape)
    (match t0.tdata with
     | DSingle v -> (Zpos XH) :: (elist (fun x -> (efl l x) :: []) v)
     | DDouble v ->
       (Zpos (XO XH)) :: (elist (elist (fun x -> (efl l x) :: [])) v)
     | DTriple v ->
       (Zpos (XI XH)) :: (elist (elist (elist (fun x -> (efl l x) :: []))) v)
     | DQuad v ->
       (Zpos (XO (XO
         XH))) :: (elist (elist (elist (elist (fun x -> (efl l x) :: [])))) v))

(** val eopt : ('a1 -> z list) -> 'a1 option -> z list **)

let eopt f = function
| Some x -> (Zpos XH) :: (f x)
| None -> Z0 :: []

(** val eres : ('a1 -> z list) -> 'a1 res -> z list **)

let eres f = function
| Ok a -> Z0 :: (f a)
| Panic c -> (Zpos XH) :: ((enat c) :: [])

(** val pdropout : libm -> t option parser0 **)

let pdropout l =
  popt (pfloat l)

(** val pfspec : libm -> fspec parser0 **)

let pfspec l =
  pbind tok (fun k ->
    match k with
    | Z0 ->
      pbind pnat (fun o ->
        pbind pact (fun a ->
          pbind pbool (fun b ->
            pbind (pdropout l) (fun d -> pret (FDense (o, a, b, d))))))
    | Zpos p ->
      (match p with
       | XI p0 ->
         (match p0 with
          | XH ->
            pbind ppair (fun ke ->
              pbind ppair (fun st -> pret (FMaxpool (ke, st))))
          | _ -> pfail)
       | XO p0 ->
         (match p0 with
          | XH ->
            pbind pnat (fun f ->
              pbind ppair (fun ke ->
                pbind ppair (fun st ->
                  pbind ppair (fun pa ->
                    pbind pact (fun a ->
                      pbind (pdropout l) (fun d ->
                        pret (FDeconv (f, a, ke, st, pa, d))))))))
          | _ -> pfail)
       | XH ->
         pbind pnat (fun f ->
           pbind ppair (fun ke ->
             pbind ppair (fun st ->
               pbind ppair (fun pa ->
                 pbind ppair (fun di ->
                   pbind pact (fun a ->
                     pbind (pdropout l) (fun d ->
                       pret (FConv (f, a, ke, st, pa, di, d))))))))))
    | Zneg _ -> pfail)

type lspec =
| LSimple of fspec
| LBlock of fspec list * nat * bool * bool * accumulation

(** val plspec : libm -> lspec parser0 **)

let plspec l l0 = match l0 with
| [] -> pbind (pfspec l) (fun s -> pret (LSimple s)) l0
| z0 :: r ->
  (match z0 with
   | Zpos p ->
     (match p with
      | XO p0 ->
        (match p0 with
         | XO p1 ->
           (match p1 with
            | XH ->
              pbind (plist (pfspec l)) (fun specs ->
                pbind pnat (fun loops ->
                  pbind pbool (fun i ->
                    pbind pbool (fun o ->
                      pbind pacc (fun a ->
                        pret (LBlock (specs, loops, i, o, a))))))) r
            | _ -> pbind (pfspec l) (fun s -> pret (LSimple s)) l0)
         | _ -> pbind (pfspec l) (fun s -> pret (LSimple s)) l0)
      | _ -> pbind (pfspec l) (fun s -> pret (LSimple s)) l0)
   | _ -> pbind (pfspec l) (fun s -> pret (LSimple s)) l0)

(** val seeds1 : nat -> z **)

let seeds1 _ =
  Zpos XH

(** val add_lspec : libm -> network -> lspec -> network res **)

let add_lspec l n = function
| LSimple s0 ->
  (match s0 with
   | FDense (o, a, b, d) -> add_dense (nF l) seeds1 n o a b d
   | FConv (f, a, ke, st, pa, di, d) ->
     add_conv (nF l) seeds1 n f ke st pa di a d
   | FDeconv (f, a, ke, st, pa, d) ->
     add_deconv (nF l) seeds1 n f ke st pa a d
   | FMaxpool (ke, st) -> add_maxpool (nF l) n ke st)
| LBlock (specs, loops, i, o, a) ->
  add_feedback (nF l) (fun _ -> seeds1) n specs loops i o a

type wspec =
| WDense of tensor * tensor option
| WKernels of tensor list
| WNone

(** val pwspec : libm -> wspec parser0 **)

let pwspec l =
  pbind tok (fun k ->
    match k with
    | Z0 ->
      pbind (ptensor l) (fun w ->
        pbind (popt (ptensor l)) (fun b -> pret (WDense (w, b))))
    | Zpos p ->
      (match p with
       | XI _ -> pfail
       | XO p0 -> (match p0 with
                   | XH -> pret WNone
                   | _ -> pfail)
       | XH -> pbind (plist (ptensor l)) (fun ks -> pret (WKernels ks)))
    | Zneg _ -> pfail)

(** val set_blayer_w : libm -> blayer -> wspec -> blayer res **)

let set_blayer_w l b w =
  match b with
  | BDense l0 ->
    (match w with
     | WDense (wt, bs) -> Ok (BDense (set_d_params (nF l) l0 wt bs))
     | _ -> Panic p_parse)
  | BConv l0 ->
    (match w with
     | WKernels ks -> Ok (BConv (set_c_kernels (nF l) l0 ks))
     | _ -> Panic p_parse)
  | BDeconv l0 ->
    (match w with
     | WKernels ks -> Ok (BDeconv (set_dc_kernels (nF l) l0 ks))
     | _ -> Panic p_parse)
  | BMaxpool _ -> (match w with
                   | WNone -> Ok b
                   | _ -> Panic p_parse)

type lw =
| LWOne of wspec
| LWBlock of wspec list

(** val plw : libm -> lw parser0 **)

let plw l l0 = match l0 with
| [] -> pbind (pwspec l) (fun w -> pret (LWOne w)) l0
| z0 :: r ->
  (match z0 with
   | Zpos p ->
     (match p with
      | XO p0 ->
        (match p0 with
         | XO p1 ->
           (match p1 with
            | XH -> pbind (plist (pwspec l)) (fun ws -> pret (LWBlock ws)) r
            | _ -> pbind (pwspec l) (fun w -> pret (LWOne w)) l0)
         | _ -> pbind (pwspec l) (fun w -> pret (LWOne w)) l0)
      | _ -> pbind (pwspec l) (fun w -> pret (LWOne w)) l0)
   | _ -> pbind (pwspec l) (fun w -> pret (LWOne w)) l0)

(** val set_layer_w : libm -> layer -> lw -> layer res **)

let set_layer_w l l0 w =
  match l0 with
  | LDense d ->
    (match w with
     | LWOne w' ->
       bind (set_blayer_w l (BDense d) w') (fun b -> Ok (lift_b (nF l) b))
     | LWBlock _ -> Panic p_parse)
  | LConv c ->
    (match w with
     | LWOne w' ->
       bind (set_blayer_w l (BConv c) w') (fun b -> Ok (lift_b (nF l) b))
     | LWBlock _ -> Panic p_parse)
  | LDeconv c ->
    (match w with
     | LWOne w' ->
       bind (set_blayer_w l (BDeconv c) w') (fun b -> Ok (lift_b (nF l) b))
     | LWBlock _ -> Panic p_parse)
  | LMaxpool _ ->
    (match w with
     | LWOne w0 -> (match w0 with
                    | WNone -> Ok l0
                    | _ -> Panic p_parse)
     | LWBlock _ -> Panic p_parse)
  | LFeedback blk ->
    (match w with
     | LWOne _ -> Panic p_parse
     | LWBlock ws ->
       let len = length ws in
       if negb (Nat.eqb len O)
       then bind
              (mapM (fun ib ->
                bind (nth_res ws (Nat.modulo (fst ib) len)) (fun w' ->
                  set_blayer_w l (snd ib) w'))
                (combine (seq O (length blk.f_layers)) blk.f_layers))
              (fun ls -> Ok (LFeedback (set_f_layers (nF l) blk ls)))
       else Panic p_parse)

type netcase = { nc_input : shape; nc_layers : lspec list;
                 nc_connect : (nat * nat) list; nc_skipacc : accumulation;
                 nc_loops : (((nat * nat) * nat) * bool) list;
                 nc_loopacc : accumulation; nc_opt : optimizer;
                 nc_obj : (objective * (t * t) option);
                 nc_weights : lw list option }

(** val pnetcase : libm -> netcase parser0 **)

let pnetcase l =
  pbind pshape (fun inp ->
    pbind (plist (plspec l)) (fun ls ->
      pbind (plist ppair) (fun cn ->
        pbind pacc (fun sa ->
          pbind
            (plist
              (pbind pnat (fun a ->
                pbind pnat (fun b ->
                  pbind pnat (fun c ->
                    pbind pbool (fun d -> pret (((a, b), c), d)))))))
            (fun lp ->
            pbind pacc (fun la ->
              pbind (poptimizer l) (fun o ->
                pbind pobj (fun ob ->
                  pbind (pclamp l) (fun cl ->
                    pbind (popt (plist (plw l))) (fun ws ->
                      pret { nc_input = inp; nc_layers = ls; nc_connect = cn;
                        nc_skipacc = sa; nc_loops = lp; nc_loopacc = la;
                        nc_opt = o; nc_obj = (ob, cl); nc_weights = ws }))))))))))

(** val build_net : libm -> netcase -> network res **)

let build_net l c =
  bind (foldM (add_lspec l) c.nc_layers (network_new (nF l) c.nc_input))
    (fun n1 ->
    bind
      (foldM (fun n p -> add_connect (nF l) n (fst p) (snd p)) c.nc_connect
        n1) (fun n2 ->
      bind
        (foldM (fun n p ->
          let (p0, sk) = p in
          let (p1, it) = p0 in
          let (outof, into) = p1 in add_loopback (nF l) n outof into it sk)
          c.nc_loops n2) (fun n3 ->
        let n4 = set_accumulation (nF l) n3 c.nc_skipacc c.nc_loopacc in
        bind
          (match c.nc_weights with
           | Some ws ->
             if Nat.eqb (length ws) (length n4.n_layers)
             then bind
                    (mapM (fun p -> set_layer_w l (fst p) (snd p))
                      (combine n4.n_layers ws)) (fun ls -> Ok
                    (set_layers (nF l) n4 ls))
             else Panic p_parse
           | None -> Ok n4) (fun n5 ->
          bind (set_optimizer (nF l) n5 c.nc_opt) (fun n6 -> Ok
            (set_objective (nF l) n6 (fst c.nc_obj) (snd c.nc_obj)))))))

(** val eblayer_w : libm -> blayer -> z list **)

let eblayer_w l = function
| BDense l0 ->
  Z0 :: (app (etensor l l0.d_weights) (eopt (etensor l) l0.d_bias))
| BConv l0 -> (Zpos XH) :: (elist (etensor l) l0.c_kernels)
| BDeconv l0 -> (Zpos XH) :: (elist (etensor l) l0.dc_kernels)
| BMaxpool _ -> (Zpos (XO XH)) :: []

(** val elayer_w : libm -> layer -> z list **)

let elayer_w l = function
| LDense d -> eblayer_w l (BDense d)
| LConv c -> eblayer_w l (BConv c)
| LDeconv c -> eblayer_w l (BDeconv c)
| LMaxpool _ -> (Zpos (XO XH)) :: []
| LFeedback b -> (Zpos (XO (XO XH))) :: (elist (eblayer_w l) b.f_layers)

(** val eweights : libm -> network -> z list **)

let eweights l n =
  elist (elayer_w l) n.n_layers

(** val eflags : libm -> network -> z list **)

let eflags l n =
  elist (fun o ->
    match o with
    | Some b -> (ebool b) :: []
    | None -> (Zpos (XO XH)) :: []) (network_flags (nF l) n)

(** val egrad : libm -> grad -> z list **)

let egrad l = function
| GPlain t0 -> Z0 :: (etensor l t0)
| GNested l0 -> (Zpos XH) :: (elist (etensor l) l0)

(** val ebgrad : libm -> bgrad option -> z list **)

let ebgrad l = function
| Some b ->
  (match b with
   | BPlain t0 -> (Zpos XH) :: (etensor l t0)
   | BNestedOpt l0 -> (Zpos (XO XH)) :: (elist (eopt (etensor l)) l0))
| None -> Z0 :: []

(** val ppairs : libm -> (tensor * tensor) list parser0 **)

let ppairs l =
  plist
    (pbind (ptensor l) (fun x -> pbind (ptensor l) (fun t0 -> pret (x, t0))))

(** val ehist : libm -> history -> z list **)

let ehist l h =
  app (elist (fun x -> (efl l x) :: []) h.h_train)
    (app (elist (fun x -> (efl l x) :: []) h.h_vloss)
      (elist (fun x -> (efl l x) :: []) h.h_vacc))

(** val run_net_cmd : libm -> network -> z list parser0 **)

let run_net_cmd l n =
  pbind tok (fun cmd ->
    match cmd with
    | Zpos p ->
      (match p with
       | XI p0 ->
         (match p0 with
          | XI p1 ->
            (match p1 with
             | XH ->
               pbind (plist (ptensor l)) (fun xs ->
                 pret
                   (eres (elist (etensor l))
                     (predict_batch (nF l) (fun _ _ -> seq_pmap) n xs)))
             | _ -> pfail)
          | XO p1 ->
            (match p1 with
             | XH ->
               pbind (ppairs l) (fun data0 ->
                 pbind (pfloat l) (fun tol ->
                   pbind pbool (fun pre ->
                     let n' =
                       if pre then set_all_training (nF l) true n else n
                     in
                     pret
                       (eres (fun r ->
                         app
                           ((efl l (fst (snd r))) :: ((efl l (snd (snd r))) :: []))
                           (eflags l (fst r)))
                         (validate (nF l) (fun _ _ -> seq_pmap) n'
                           (map fst data0) (map snd data0) tol)))))
             | _ -> pfail)
          | XH ->
            pbind (ptensor l) (fun x ->
              pbind (ptensor l) (fun t0 ->
                pret
                  (eres (fun r ->
                    (efl l (fst r)) :: (app
                                         (elist (egrad l) (fst (fst (snd r))))
                                         (app
                                           (elist (ebgrad l)
                                             (snd (fst (snd r))))
                                           (elist (etensor l) (snd (snd r))))))
                    (bind (forward (nF l) n x) (fun f ->
                      bind
                        (match last_opt f.fw_post with
                         | Some o -> Ok o
                         | None -> Panic p_unwrap) (fun out ->
                        bind
                          (loss (nF l) (fst n.n_objective)
                            (snd n.n_objective) out t0) (fun lg ->
                          bind (backward (nF l) n (snd lg) f) (fun r -> Ok
                            ((fst lg), r))))))))))
       | XO p0 ->
         (match p0 with
          | XI p1 ->
            (match p1 with
             | XH ->
               pret
                 (eres (fun p2 ->
                   (enat p2) :: (elist (fun l0 ->
                                  app (eshape (layer_inputs (nF l) l0))
                                    (eshape (layer_outputs (nF l) l0)))
                                  n.n_layers)) (network_parameters (nF l) n))
             | _ -> pfail)
          | XO p1 ->
            (match p1 with
             | XI _ -> pfail
             | XO p2 ->
               (match p2 with
                | XH ->
                  pbind (ptensor l) (fun x ->
                    pbind (ptensor l) (fun t0 ->
                      pbind tok (fun stepnr ->
                        pret
                          (eres (fun n' -> eweights l n')
                            (bind (sample_grad (nF l) n (x, t0)) (fun g ->
                              net_step (nF l) stepnr n (fst g)))))))
                | _ -> pfail)
             | XH ->
               pbind (ppairs l) (fun data0 ->
                 pbind
                   (popt
                     (pbind (ppairs l) (fun v ->
                       pbind tok (fun th -> pret (v, th))))) (fun val0 ->
                   pbind pnat (fun batch ->
                     pbind tok (fun epochs ->
                       let validation =
                         match val0 with
                         | Some p2 ->
                           let (v, th) = p2 in
                           Some (((map fst v), (map snd v)), th)
                         | None -> None
                       in
                       pret
                         (eres (fun r ->
                           app (ehist l (snd r))
                             (app (eweights l (fst r)) (eflags l (fst r))))
                           (learn (nF l) (fun _ _ -> seq_pmap) n
                             (map fst data0) (map snd data0) validation batch
                             epochs)))))))
          | XH ->
            pbind (ptensor l) (fun x ->
              pret
                (eres (fun f ->
                  app (elist (etensor l) f.fw_pre)
                    (elist (etensor l) f.fw_post)) (forward (nF l) n x))))
       | XH ->
         pbind (ptensor l) (fun x ->
           pret (eres (etensor l) (predict (nF l) n x))))
    | _ -> pfail)

(** val zero_like : libm -> tensor -> tensor **)

let zero_like l t0 =
  { tshape = t0.tshape; tdata =
    (map_data (nF l) (fun _ -> zero (nF l)) t0.tdata) }

(** val run_opt_case : libm -> z list parser0 **)

let run_opt_case l =
  pbind (poptimizer l) (fun o ->
    pbind (plist (plist (plist (ptensor l)))) (fun vals ->
      pbind
        (plist
          (pbind pnat (fun l0 ->
            pbind pnat (fun f ->
              pbind pbool (fun b ->
                pbind tok (fun s ->
                  pbind (ptensor l) (fun g -> pret ((((l0, f), b), s), g))))))))
        (fun steps ->
        let o0 = opt_validate (nF l) o (map (map (map (zero_like l))) vals) in
        pret
          (eres (fun r ->
            app (snd r) (elist (elist (elist (etensor l))) (snd (fst r))))
            (foldM (fun st stp ->
              let (p, g) = stp in
              let (p0, s) = p in
              let (p1, b) = p0 in
              let (l0, f) = p1 in
              let (p2, out) = st in
              let (oc, vs) = p2 in
              bind (slot_get (nF l) vs l0 f b) (fun v ->
                bind (opt_update (nF l) oc l0 f b s v g) (fun u ->
                  let (p3, g') = u in
                  let (o', v') = p3 in
                  Ok ((o', (slot_set (nF l) vs l0 f b v')),
                  (app out (etensor l g')))))) steps ((o0, vals), []))))))

(** val run_connect_seq : libm -> network -> z list parser0 **)

let run_connect_seq l n =
  pbind (plist ppair) (fun calls ->
    let r =
      fold_left (fun st p ->
        match add_connect (nF l) (fst st) (fst p) (snd p) with
        | Ok n' -> (n', (app (snd st) (Z0 :: [])))
        | Panic _ -> ((fst st), (app (snd st) ((Zpos XH) :: [])))) calls (n,
        [])
    in
    pret
      (Z0 :: (app (snd r)
               (elist (fun kv -> (enat (fst kv)) :: ((enat (snd kv)) :: []))
                 (let m = (fst r).n_connect in
                  flat_map (fun k ->
                    match alist_get m k with
                    | Some v -> (k, v) :: []
                    | None -> []) (seq O (S (length (fst r).n_layers))))))))

(** val ebinop : libm -> z -> tensor -> tensor -> tensor res **)

let ebinop l k a b =
  match k with
  | Z0 -> add_inplace (nF l) a b
  | Zpos p ->
    (match p with
     | XI _ -> Panic p_parse
     | XO p0 ->
       (match p0 with
        | XH -> mul_inplace (nF l) a b
        | _ -> Panic p_parse)
     | XH -> sub_inplace (nF l) a b)
  | Zneg _ -> Panic p_parse

(** val run_op : libm -> z list parser0 **)

let run_op l =
  pbind tok (fun op ->
    match op with
    | Zpos p ->
      (match p with
       | XI p0 ->
         (match p0 with
          | XI p1 ->
            (match p1 with
             | XI p2 ->
               (match p2 with
                | XI p3 ->
                  (match p3 with
                   | XH ->
                     pbind pbool (fun wrap ->
                       pbind tok (fun seed ->
                         pbind pnat (fun n ->
                           pret
                             (eres (fun r ->
                               elist (fun k -> (enat k) :: []) (snd r))
                               (shuffle (nF l) wrap seed (seq O n))))))
                   | _ -> pfail)
                | XO _ -> pfail
                | XH ->
                  pbind (ptensor l) (fun t0 ->
                    pret (eres (fun n -> (enat n) :: []) (argmax (nF l) t0))))
             | XO p2 ->
               (match p2 with
                | XH ->
                  pbind (ptensor l) (fun a ->
                    pret (eres (etensor l) (transpose (nF l) a)))
                | _ -> pfail)
             | XH ->
               pbind (ptensor l) (fun a ->
                 pbind (pfloat l) (fun s ->
                   pret (Z0 :: (etensor l (div_scalar_inplace (nF l) a s))))))
          | XO p1 ->
            (match p1 with
             | XI p2 ->
               (match p2 with
                | XI _ -> pfail
                | XO p3 ->
                  (match p3 with
                   | XH ->
                     pbind pobj (fun o ->
                       pbind (pclamp l) (fun cl ->
                         pbind (ptensor l) (fun p4 ->
                           pbind (ptensor l) (fun t0 ->
                             pret
                               (eres (fun r ->
                                 (efl l (fst r)) :: (etensor l (snd r)))
                                 (loss (nF l) o cl p4 t0))))))
                   | _ -> pfail)
                | XH ->
                  pbind (plist (ptensor l)) (fun a ->
                    pbind (plist (ptensor l)) (fun b ->
                      pret
                        (eres (elist (etensor l))
                          (add_inplace_nested (nF l) a b)))))
             | XO p2 ->
               (match p2 with
                | XI p3 ->
                  (match p3 with
                   | XO p4 ->
                     (match p4 with
                      | XH ->
                        pbind (pnetcase l) (fun c ->
                          match build_net l c with
                          | Ok n -> run_connect_seq l n
                          | Panic code ->
                            pret ((Zpos XH) :: ((enat code) :: [])))
                      | _ -> pfail)
                   | _ -> pfail)
                | XO p3 ->
                  (match p3 with
                   | XH ->
                     pbind (ptensor l) (fun t0 ->
                       pbind pnat (fun h ->
                         pbind pnat (fun w ->
                           pret
                             (eres
                               (elist
                                 (elist (elist (fun x -> (efl l x) :: []))))
                               (match t0.tdata with
                                | DSingle _ -> Panic p_parse
                                | DDouble _ -> Panic p_parse
                                | DTriple d -> pad3d (nF l) d h w
                                | DQuad _ -> Panic p_parse)))))
                   | _ -> pfail)
                | XH ->
                  pbind (ptensor l) (fun a ->
                    pbind (ptensor l) (fun b ->
                      pret (eres (etensor l) (product (nF l) a b)))))
             | XH ->
               pbind tok (fun k ->
                 pbind (ptensor l) (fun a ->
                   pbind (ptensor l) (fun b ->
                     pret (eres (etensor l) (ebinop l k a b))))))
          | XH ->
            pbind (ptensor l) (fun t0 ->
              pbind pshape (fun s ->
                pret (eres (etensor l) (reshape (nF l) t0 s)))))
       | XO p0 ->
         (match p0 with
          | XI p1 ->
            (match p1 with
             | XI p2 ->
               (match p2 with
                | XI p3 ->
                  (match p3 with
                   | XH ->
                     pbind pbool (fun wrap ->
                       pbind tok (fun seed ->
                         pbind pnat (fun n ->
                           pbind (pfloat l) (fun lo ->
                             pbind (pfloat l) (fun hi ->
                               pret
                                 (eres (elist (fun x -> (efl l x) :: []))
                                   (rmap snd
                                     (foldM (fun st _ ->
                                       bind
                                         (if wrap
                                          then Ok (lcg_next_wrap (fst st))
                                          else lcg_next_checked (fst st))
                                         (fun c -> Ok (c,
                                         (app (snd st)
                                           ((lcg_value (nF l) c lo hi) :: [])))))
                                       (seq O n) (seed, [])))))))))
                   | _ -> pfail)
                | XO p3 -> (match p3 with
                            | XH -> run_opt_case l
                            | _ -> pfail)
                | XH ->
                  pbind (plist (ptensor l)) (fun a ->
                    pbind (pfloat l) (fun s ->
                      pret
                        (Z0 :: (elist (etensor l)
                                 (div_scalar_nested (nF l) a s))))))
             | XO p2 ->
               (match p2 with
                | XH ->
                  pbind (ptensor l) (fun a ->
                    pbind (ptensor l) (fun b ->
                      pret (eres (etensor l) (dot (nF l) a b))))
                | _ -> pfail)
             | XH ->
               pbind (ptensor l) (fun a ->
                 pbind (ptensor l) (fun b ->
                   pbind (pfloat l) (fun s ->
                     pret (eres (etensor l) (hadamard (nF l) a b s))))))
          | XO p1 ->
            (match p1 with
             | XI p2 ->
               (match p2 with
                | XI _ -> pfail
                | XO p3 ->
                  (match p3 with
                   | XH ->
                     pbind pact (fun a ->
                       pbind pbool (fun dir ->
                         pbind (ptensor l) (fun t0 ->
                           pret
                             (eres (etensor l)
                               (if dir
                                then act_backward (nF l) a t0
                                else act_forward (nF l) a t0)))))
                   | _ -> pfail)
                | XH ->
                  pbind (ptensor l) (fun a ->
                    pbind (Obj.magic pfloat l) (fun lo ->
                      pbind (Obj.magic pfloat l) (fun hi ->
                        pret
                          (eres (etensor l)
                            (if f_leb lo hi
                             then Ok
                                    (t_clamp (nF l) a (Obj.magic lo)
                                      (Obj.magic hi))
                             else Panic p_explicit))))))
             | XO p2 ->
               (match p2 with
                | XI p3 ->
                  (match p3 with
                   | XO p4 ->
                     (match p4 with
                      | XH ->
                        pbind (pnetcase l) (fun c ->
                          match build_net l c with
                          | Ok n -> run_net_cmd l n
                          | Panic code ->
                            pret ((Zpos XH) :: ((enat code) :: [])))
                      | _ -> pfail)
                   | _ -> pfail)
                | XO p3 ->
                  (match p3 with
                   | XI _ -> pfail
                   | XO p4 ->
                     (match p4 with
                      | XH ->
                        pbind tok (fun seed ->
                          pbind pshape (fun s ->
                            pbind (pfloat l) (fun lo ->
                              pbind (pfloat l) (fun hi ->
                                pret
                                  (eres (etensor l)
                                    (random_tensor (nF l) seed s lo hi))))))
                      | _ -> pfail)
                   | XH ->
                     pbind (ptensor l) (fun t0 ->
                       pbind (pfloat l) (fun r ->
                         pret (Z0 :: (etensor l (dropout (nF l) t0 r))))))
                | XH ->
                  pbind (ptensor l) (fun a ->
                    pbind (plist (ptensor l)) (fun os ->
                      pret (eres (etensor l) (mean_inplace (nF l) a os)))))
             | XH ->
               pbind (ptensor l) (fun t0 ->
                 pbind pshape (fun s ->
                   pret
                     (eres (elist (elist (elist (fun x -> (efl l x) :: []))))
                       (get_triple (nF l) t0 s)))))
          | XH ->
            pbind (ptensor l) (fun t0 ->
              pret
                (eres (elist (fun x -> (efl l x) :: [])) (get_flat (nF l) t0))))
       | XH ->
         pbind (ptensor l) (fun t0 ->
           pret (eres (etensor l) (flatten (nF l) t0))))
    | _ -> pfail)

(** val run_case : libm -> z list -> z list **)

let run_case l toks =
  match run_op l toks with
  | Ok a -> let (out, _) = a in out
  | Panic c -> (Zpos (XO XH)) :: ((enat c) :: [])
