(* IEEE-754 binary32 instance of Num, built on Flocq's BinarySingleNaN (one NaN, no payload).
   The five libm functions used by the Rust code (expf, logf, tanhf, coshf, powf(.,2))
   are supplied as an oracle record of functions on bit patterns. *)
From NV Require Import Prelude Num.
From Flocq Require Import Core BinarySingleNaN.
From Flocq Require Binary Bits.

Local Open Scope Z_scope.

Definition prec32 : Z := 24.
Definition emax32 : Z := 128.
Definition f32 := binary_float prec32 emax32.

Lemma prec32_gt_0 : FLX.Prec_gt_0 prec32. Proof. reflexivity. Qed.
Lemma prec32_lt_emax : (prec32 < emax32)%Z. Proof. reflexivity. Qed.

Definition f_add : f32 -> f32 -> f32 := @Bplus prec32 emax32 prec32_gt_0 prec32_lt_emax mode_NE.
Definition f_sub : f32 -> f32 -> f32 := @Bminus prec32 emax32 prec32_gt_0 prec32_lt_emax mode_NE.
Definition f_mul : f32 -> f32 -> f32 := @Bmult prec32 emax32 prec32_gt_0 prec32_lt_emax mode_NE.
Definition f_div : f32 -> f32 -> f32 := @Bdiv prec32 emax32 prec32_gt_0 prec32_lt_emax mode_NE.
Definition f_sqrt : f32 -> f32 := @Bsqrt prec32 emax32 prec32_gt_0 prec32_lt_emax mode_NE.
Definition f_neg : f32 -> f32 := @Bopp prec32 emax32.
Definition f_abs : f32 -> f32 := @Babs prec32 emax32.
Definition f_of_Z (z : Z) : f32 :=
  @binary_normalize prec32 emax32 prec32_gt_0 prec32_lt_emax mode_NE z 0 false.
Definition f_ltb : f32 -> f32 -> bool := @Bltb prec32 emax32.
Definition f_leb : f32 -> f32 -> bool := @Bleb prec32 emax32.
Definition f_eqb : f32 -> f32 -> bool := @Beqb prec32 emax32.
Definition f_is_nan : f32 -> bool := @is_nan prec32 emax32.

(* bit patterns <-> floats. Input goes through Flocq's proven decoder (Bits.b32_of_bits)
   followed by the NaN-forgetting map; output is a direct encoder with a canonical NaN. *)
Definition f_of_bits (z : Z) : f32 := Binary.B2BSN 24 128 (Bits.b32_of_bits z).

Definition canonical_nan_bits : Z := 2143289344. (* 0x7FC00000 *)

Definition f_to_bits (x : f32) : Z :=
  match x with
  | B754_zero false => 0
  | B754_zero true => 2147483648
  | B754_infinity false => 2139095040
  | B754_infinity true => 4286578688
  | B754_nan => canonical_nan_bits
  | B754_finite s m e _ =>
      let sb := if s then 2147483648 else 0 in
      if (Zpos m <? 8388608)%Z
      then (sb + Zpos m)%Z                                   (* subnormal: e = -149 *)
      else (sb + (e + 150) * 8388608 + (Zpos m - 8388608))%Z (* normal *)
  end.

(* `as usize` on a float: truncation toward zero, saturating; NaN and negatives give 0 *)
Definition f_to_Z (x : f32) : Z :=
  match x with
  | B754_finite false m e _ =>
      match e with
      | Z0 => Zpos m
      | Zpos p => (Zpos m * Z.pow_pos 2 p)%Z
      | Zneg p => (Zpos m / Z.pow_pos 2 p)%Z
      end
  | B754_infinity false => 18446744073709551615
  | _ => 0
  end.

Record Libm : Type := {
  l_exp : Z -> Z;
  l_ln : Z -> Z;
  l_tanh : Z -> Z;
  l_cosh : Z -> Z;
  l_powf2 : Z -> Z;
}.

Definition via (f : Z -> Z) (x : f32) : f32 := f_of_bits (f (f_to_bits x)).

Definition f_fmin : f32 := f_of_bits 4286578687.  (* 0xFF7FFFFF = f32::MIN *)

Definition NumF32 (L : Libm) : Num := {|
  T := f32;
  nofZ := f_of_Z;
  nnzero := B754_zero true;
  nneginf := B754_infinity true;
  nfmin := f_fmin;
  nadd := f_add; nsub := f_sub; nmul := f_mul; ndiv := f_div;
  nneg := f_neg; nabs := f_abs; nsqrt := f_sqrt;
  nexp := via (l_exp L); nln := via (l_ln L); ntanh := via (l_tanh L); ncosh := via (l_cosh L);
  npowf2 := via (l_powf2 L);
  nltb := f_ltb; nleb := f_leb; neqb := f_eqb;
  nisnan := f_is_nan;
  ntoZ := f_to_Z;
|}.

(* A libm-free oracle for evaluation inside Coq: every call yields NaN, so any case that
   reaches libm is visibly poisoned. Used only by the vm_compute cross-check of extraction. *)
Definition libm_none : Libm :=
  let nan := fun _ : Z => canonical_nan_bits in
  {| l_exp := nan; l_ln := nan; l_tanh := nan; l_cosh := nan; l_powf2 := nan |}.
