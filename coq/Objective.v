(* src/objective.rs : seven objectives, loss from the flat views, gradient per rank. *)
From NV Require Import Prelude Num Random Tensor.
Set Implicit Arguments.

Inductive objective := AE | MAE | MSE | RMSE | CrossEntropy | BinaryCrossEntropy | KLDivergence.

Section Objective.
  Variable N : Num.
  Notation T := (T N).
  Notation tensor := (tensor N).

  Definition eps : T := ratio 1 1000000.
  Definition one_m_eps : T := nsub N one eps.
  Definition clamp_p (p : T) : T := clamp p eps one_m_eps.
  Definition neg_two : T := nofZ N (-2).
  Definition neg_one : T := nofZ N (-1).

  (* per-element gradient functions: actual (target) first, predicted second, as in the closures *)
  Definition sign_grad (a p : T) : T :=
    if neqb N a p then zero else if gtb a p then neg_one else one.
  Definition mse_grad (len : T) (a p : T) : T := ndiv N (nmul N neg_two (nsub N a p)) len.
  Definition rmse_grad (len : T) (a p : T) : T :=
    if neqb N a p then zero
    else ndiv N (nneg N (nsub N a p)) (nmul N (nsqrt N (powi (nsub N a p) 2)) len).
  Definition ce_grad (a p : T) : T := nsub N p a.
  Definition bce_grad (a p : T) : T :=
    let q := clamp_p p in ndiv N (nsub N q a) (nmul N q (nsub N one q)).
  Definition kl_grad (a p : T) : T := ndiv N (nneg N a) (clamp_p p).

  (* losses on the flat views; zip of target with prediction *)
  Definition zipf (f : T -> T -> T) (t p : list T) : list T := map2 f t p.

  Definition loss_value (o : objective) (t p : list T) : T :=
    let len := of_nat (length t) in
    match o with
    | AE => fsum (zipf (fun a q => nabs N (nsub N a q)) t p)
    | MAE => ndiv N (fsum (zipf (fun a q => nabs N (nsub N a q)) t p)) len
    | MSE => fsum (zipf (fun a q => ndiv N (powi (nsub N a q) 2) len) t p)
    | RMSE => nsqrt N (ndiv N (fsum (zipf (fun a q => powi (nsub N a q) 2) t p)) len)
    | CrossEntropy => nneg N (fsum (zipf (fun a q => nmul N a (nln N (clamp_p q))) t p))
    | BinaryCrossEntropy =>
        nneg N (fsum (zipf (fun a q =>
          let q' := clamp_p q in
          nadd N (nmul N a (nln N q')) (nmul N (nsub N one a) (nln N (nsub N one q')))) t p))
    | KLDivergence =>
        fsum (zipf (fun a q => if neqb N a zero then zero
                               else nmul N a (nln N (ndiv N a (clamp_p q)))) t p)
    end.

  Definition grad_fun (o : objective) (len : T) : T -> T -> T :=
    match o with
    | AE | MAE => sign_grad
    | MSE => mse_grad len
    | RMSE => rmse_grad len
    | CrossEntropy => ce_grad
    | BinaryCrossEntropy => bce_grad
    | KLDivergence => kl_grad
    end.

  (* gradient: only (Triple,Triple) and (Single,Single); the result is rebuilt with
     Tensor::triple / Tensor::single, so its shape is read off the data *)
  Definition grad_tensor (o : objective) (len : T) (target prediction : tensor) : res tensor :=
    let g := grad_fun o len in
    match tdata target, tdata prediction with
    | DTriple t, DTriple p => t_triple N (map2 (map2 (map2 g)) t p)
    | DSingle t, DSingle p => Ok (t_single N (map2 g t p))
    | _, _ => Panic P_explicit
    end.

  (* objective.loss(prediction, target) -> (loss, gradient) *)
  Definition loss (o : objective) (cl : option (T * T)) (prediction target : tensor)
    : res (T * tensor) :=
    do t <- get_flat target;
    do p <- get_flat prediction;
    let l := loss_value o t p in
    do g <- grad_tensor o (of_nat (length t)) target prediction;
    match cl with
    | Some (lo, hi) =>
        (* f32::clamp asserts min <= max *)
        check (nleb N lo hi) else P_explicit;
        Ok (l, t_clamp g lo hi)
    | None => Ok (l, g)
    end.
End Objective.
