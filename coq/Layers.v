(* src/dense.rs, src/convolution.rs, src/deconvolution.rs, src/maxpool.rs *)
From NV Require Import Prelude Num Random Tensor Activation.
Set Implicit Arguments.

Section Layers.
  Variable N : Num.
  Notation T := (T N).
  Notation tensor := (tensor N).

  (* the default loop scaling closure `|x| 1.0 / x`; the harness always installs this one *)
  Definition scale (loops : T) : T := ndiv N one loops.

  Definition neg1 : T := nofZ N (-1).

  (* ---------------------------------------------------------------- dense *)
  Record dense := {
    d_inputs : shape; d_outputs : shape; d_loops : T;
    d_weights : tensor; d_bias : option tensor;
    d_act : activation; d_dropout : option T; d_training : bool }.

  Definition dense_create (seeds : nat -> Z) (inputs outputs : shape) (a : activation)
             (bias : bool) (dropout : option T) : res dense :=
    match inputs, outputs with
    | SSingle i, SSingle o =>
        do w <- random_tensor N (seeds 0) (SDouble o i) neg1 one;
        do b <- (if bias then do t <- random_tensor N (seeds 1) (SSingle o) neg1 one; Ok (Some t)
                 else Ok None);
        Ok {| d_inputs := inputs; d_outputs := outputs; d_loops := one;
              d_weights := w; d_bias := b; d_act := a; d_dropout := dropout; d_training := false |}
    | _, _ => Panic P_explicit
    end.

  Definition dense_parameters (l : dense) : res nat :=
    match d_inputs l, d_outputs l with
    | SSingle i, SSingle o => Ok (i * o + match d_bias l with Some _ => o | None => 0 end)
    | _, _ => Panic P_explicit
    end.

  Definition apply_dropout (training : bool) (rate : option T) (post : tensor) : tensor :=
    if training then match rate with Some r => dropout post r | None => post end else post.

  Definition dense_forward (l : dense) (x : tensor) : res (tensor * tensor) :=
    do pre0 <- dot (d_weights l) x;
    do pre <- match d_bias l with Some b => add_inplace pre0 b | None => Ok pre0 end;
    do post <- act_forward (d_act l) pre;
    Ok (pre, apply_dropout (d_training l) (d_dropout l) post).

  (* returns (input gradient, weight gradient, bias gradient) *)
  Definition dense_backward (l : dense) (gradient input output : tensor)
    : res (tensor * tensor * option tensor) :=
    do g <- match tshape gradient with
            | SSingle _ => Ok gradient
            | STriple _ _ _ => flatten gradient
            | _ => Panic P_explicit
            end;
    do der <- (match d_act l with
               | Softmax => ones N (tshape output)
               | a => act_backward a output
               end);
    do delta <- hadamard der g (scale (d_loops l));
    do wg <- product delta input;
    let bg := match d_bias l with Some _ => Some delta | None => None end in
    do wt <- transpose (d_weights l);
    do ig <- dot wt delta;
    Ok (ig, wg, bg).

  (* ---------------------------------------------------------------- shared helpers *)
  (* `(size as f32).sqrt() as usize` and the `size % root == 0` test of the three spatial layers *)
  Definition froot (size : nat) : nat := Z.to_nat (ntoZ N (nsqrt N (of_nat size))).

  Definition spatial_inputs (inputs : shape) : res (shape * nat) :=
    match inputs with
    | SSingle size =>
        let root := froot size in
        check (root * root =? size) else P_explicit;
        Ok (STriple 1 root root, 1)
    | STriple ic _ _ => Ok (inputs, ic)
    | _ => Panic P_explicit
    end.

  (* flat input of a spatial layer: `vector.chunks_exact(h*w).map(|c| c.chunks_exact(w))` *)
  Definition chunk_input (v : list T) (h w : nat) : res (vec3 T) :=
    check (negb (h * w =? 0)) else P_explicit;
    Ok (map (chunks_exact w) (chunks_exact (h * w) v)).

  Definition kernel_data (k : tensor) : res (vec3 T) :=
    match tdata k with DTriple d => Ok d | _ => Panic P_explicit end.

  (* (kf, kc, kh, kw) read off kernels[0]; panics without kernels or with empty dimensions *)
  Definition kdims (ks : vec4 T) : res (nat * nat * nat * nat) :=
    match ks with
    | ((r :: _) :: _) :: _ => Ok (length ks, hd_len ks, hd_len (hd [] ks), length r)
    | _ => Panic P_index
    end.
  Definition xdims (x : vec3 T) : res (nat * nat) :=
    match x with
    | (r :: _) :: _ => Ok (hd_len x, length r)
    | _ => Panic P_index
    end.

  Definition post_process (a : activation) (training : bool) (rate : option T) (flat : bool)
             (y : vec3 T) : res (tensor * tensor) :=
    do pre <- t_triple N y;
    do post0 <- act_forward a pre;
    let post1 := apply_dropout training rate post0 in
    do post <- (if flat then flatten post1 else Ok post1);
    Ok (pre, post).

  (* ---------------------------------------------------------------- convolution *)
  Record conv := {
    c_inputs : shape; c_outputs : shape; c_loops : T;
    c_kernels : list tensor;
    c_stride : nat * nat; c_padding : nat * nat; c_dilation : nat * nat;
    c_act : activation; c_dropout : option T; c_flatten : bool; c_training : bool }.

  (* (in + 2*pad - dilation*(kernel-1) - 1) / stride + 1 in usize arithmetic *)
  Definition conv_out1 (i k s p d : nat) : res nat :=
    do k1 <- csub k 1;
    do a <- csub (i + 2 * p) (d * k1);
    do b <- csub a 1;
    do q <- cdiv b s;
    Ok (q + 1).

  Definition conv_output_size (input : shape) (filters : nat)
             (kernel stride padding dilation : nat * nat) : res shape :=
    do hw <- match input with
             | SSingle size => let r := froot size in Ok (r, r)
             | STriple _ h w => Ok (h, w)
             | _ => Panic P_explicit
             end;
    do oh <- conv_out1 (fst hw) (fst kernel) (fst stride) (fst padding) (fst dilation);
    do ow <- conv_out1 (snd hw) (snd kernel) (snd stride) (snd padding) (snd dilation);
    Ok (STriple filters oh ow).

  Definition conv_create (seeds : nat -> Z) (inputs : shape) (filters : nat) (a : activation)
             (kernel stride padding dilation : nat * nat) (dropout : option T) : res conv :=
    do ii <- spatial_inputs inputs;
    let '(inputs', ic) := ii in
    do outputs <- conv_output_size inputs' filters kernel stride padding dilation;
    do ks <- mapM (fun f => random_tensor N (seeds f) (STriple ic (fst kernel) (snd kernel)) neg1 one)
                  (seq 0 filters);
    Ok {| c_inputs := inputs'; c_outputs := outputs; c_loops := one; c_kernels := ks;
          c_stride := stride; c_padding := padding; c_dilation := dilation;
          c_act := a; c_dropout := dropout; c_flatten := false; c_training := false |}.

  Definition kernels_parameters (ks : list tensor) : res nat :=
    match ks with
    | [] => Panic P_index
    | k :: _ => match tdata k with
                | DTriple (((r :: _) :: _) as d) => Ok (length ks * (length d * hd_len d * length r))
                | DTriple _ => Panic P_index
                | _ => Ok 0
                end
    end.
  Definition conv_parameters (l : conv) : res nat := kernels_parameters (c_kernels l).

  (* convolve: x is already padded; kernels[f][c][h][w]; accumulation order c, h, w from +0.0 *)
  Definition convolve (stride dilation : nat * nat) (x : vec3 T) (ks : vec4 T) : res (vec3 T) :=
    do ihw <- xdims x;
    let '(ih, iw) := ihw in
    do kd <- kdims ks;
    let '(kf, kc, kh, kw) := kd in
    do oh <- (do a <- csub ih ((kh - 1) * fst dilation); do b <- csub a 1;
              do q <- cdiv b (fst stride); Ok (q + 1));
    do ow <- (do a <- csub iw ((kw - 1) * snd dilation); do b <- csub a 1;
              do q <- cdiv b (snd stride); Ok (q + 1));
    check (kc <=? length x) else P_index;
    Ok (build3 kf oh ow (fun f oy ox =>
          fold_left (fun sum c =>
            fold_left (fun sum h =>
              fold_left (fun sum w =>
                let _h := oy * fst stride + h * fst dilation in
                let _w := ox * snd stride + w * snd dilation in
                if (_h <? ih) && (_w <? iw)
                then nadd N sum (nmul N (get4 zero ks f c h w) (get3 zero x c _h _w))
                else sum) (seq 0 kw) sum) (seq 0 kh) sum) (seq 0 kc) zero)).

  Definition conv_input (inputs : shape) (x : tensor) : res (vec3 T) :=
    match tdata x with
    | DSingle v =>
        match inputs with
        | STriple _ h w => chunk_input v h w
        | _ => Panic P_explicit
        end
    | DTriple d => Ok d
    | _ => Panic P_explicit
    end.

  Definition conv_forward (l : conv) (x : tensor) : res (tensor * tensor) :=
    do x0 <- conv_input (c_inputs l) x;
    do ihw <- (match tdata x, c_inputs l with
               | DSingle _, STriple _ h w => Ok (h, w)
               | _, _ => xdims x0
               end);
    let '(ih, iw) := ihw in
    do xp <- pad3d N x0 (ih + 2 * fst (c_padding l)) (iw + 2 * snd (c_padding l));
    do ks <- mapM kernel_data (c_kernels l);
    do y <- convolve (c_stride l) (c_dilation l) xp ks;
    post_process (c_act l) (c_training l) (c_dropout l) (c_flatten l) y.

  (* Both gradients are accumulated term by term over the forward sum (loops f, c, oy, ox, h, w):
       igradient[c][y][x]    += delta[f][oy][ox] * K[f][c][h][w]
       kgradient[f][c][h][w] += delta[f][oy][ox] * input[c][y][x]
     with (y, x) = (oy*sh + h*dh - ph, ox*sw + w*dw - pw) when that lies inside the input.
     Re-ordered per cell: for one input cell and one (f, oy, ox) at most one kernel tap (h, w)
     contributes (dilation >= 1), so the contributions arrive in (f, oy, ox) order; for one kernel
     cell they arrive in (oy, ox) order. *)
  Definition conv_backward (l : conv) (gradient input output : tensor)
    : res (tensor * tensor * option tensor) :=
    do g <- get_triple gradient (c_outputs l);
    do der0 <- act_backward (c_act l) output;
    do der <- get_triple der0 (c_outputs l);
    let delta := hadamard3d N g der (scale (c_loops l)) in
    do inp <- get_triple input (c_inputs l);
    do ihw <- xdims inp;
    let '(ih, iw) := ihw in
    do ohw <- xdims delta;
    let '(oh, ow) := ohw in
    do ks <- mapM kernel_data (c_kernels l);
    do kd <- kdims ks;
    let '(kf, kc, kh, kw) := kd in
    let '(sh, sw) := c_stride l in
    let '(dh, dw) := c_dilation l in
    let '(ph, pw) := c_padding l in
    check (kf <=? length delta) else P_index;
    check (kc <=? length inp) else P_index;
    let tap (o s d p k y : nat) : option nat :=
      (* the kernel offset h with o*s + h*d - p = y, if any *)
      if (o * s <=? y + p) && negb (d =? 0) && ((y + p - o * s) mod d =? 0) && ((y + p - o * s) / d <? k)
      then Some ((y + p - o * s) / d) else None in
    let ig := build3 kc ih iw (fun c y x =>
      fold_left (fun acc f =>
        fold_left (fun acc oy =>
          fold_left (fun acc ox =>
            match tap oy sh dh ph kh y, tap ox sw dw pw kw x with
            | Some h, Some w =>
                nadd N acc (nmul N (get3 zero delta f oy ox) (get4 zero ks f c h w))
            | _, _ => acc
            end) (seq 0 ow) acc) (seq 0 oh) acc) (seq 0 kf) zero) in
    let kg := build4 kf kc kh kw (fun f c h w =>
      fold_left (fun acc oy =>
        fold_left (fun acc ox =>
          if (ph <=? oy * sh + h * dh) && (oy * sh + h * dh - ph <? ih)
             && (pw <=? ox * sw + w * dw) && (ox * sw + w * dw - pw <? iw)
          then nadd N acc (nmul N (get3 zero delta f oy ox)
                                  (get3 zero inp c (oy * sh + h * dh - ph) (ox * sw + w * dw - pw)))
          else acc) (seq 0 ow) acc) (seq 0 oh) zero) in
    do igt <- t_triple N ig;
    do kgt <- t_quad N kg;
    Ok (igt, kgt, None).

  (* ---------------------------------------------------------------- deconvolution *)
  Record deconv := {
    dc_inputs : shape; dc_outputs : shape; dc_loops : T;
    dc_kernels : list tensor;
    dc_stride : nat * nat; dc_padding : nat * nat;
    dc_act : activation; dc_dropout : option T; dc_flatten : bool; dc_training : bool }.

  (* (in - 1) * stride + kernel - 2 * padding *)
  Definition deconv_out1 (i k s p : nat) : res nat :=
    do i1 <- csub i 1; csub (i1 * s + k) (2 * p).

  Definition deconv_output_size (input : shape) (filters : nat) (kernel stride padding : nat * nat)
    : res shape :=
    do hw <- match input with
             | SSingle size => let r := froot size in Ok (r, r)
             | STriple _ h w => Ok (h, w)
             | _ => Panic P_explicit
             end;
    do oh <- deconv_out1 (fst hw) (fst kernel) (fst stride) (fst padding);
    do ow <- deconv_out1 (snd hw) (snd kernel) (snd stride) (snd padding);
    Ok (STriple filters oh ow).

  Definition deconv_create (seeds : nat -> Z) (inputs : shape) (filters : nat) (a : activation)
             (kernel stride padding : nat * nat) (dropout : option T) : res deconv :=
    do ii <- spatial_inputs inputs;
    let '(inputs', ic) := ii in
    do outputs <- deconv_output_size inputs' filters kernel stride padding;
    do ks <- mapM (fun f => random_tensor N (seeds f) (STriple ic (fst kernel) (snd kernel)) neg1 one)
                  (seq 0 filters);
    Ok {| dc_inputs := inputs'; dc_outputs := outputs; dc_loops := one; dc_kernels := ks;
          dc_stride := stride; dc_padding := padding;
          dc_act := a; dc_dropout := dropout; dc_flatten := false; dc_training := false |}.

  Definition deconv_parameters (l : deconv) : res nat := kernels_parameters (dc_kernels l).

  (* forward in usize arithmetic: (ih - 1) * stride + kh - 2 * padding *)
  Definition deconv_fwd_out1 (i k s p : nat) : res nat :=
    do i1 <- csub i 1; csub (i1 * s + k) (2 * p).

  (* The six nested loops `y[k][oi][oj] += x[c][i][j] * K[k][c][ki][kj]` re-ordered per output
     cell: the contributions to one cell arrive in (c, i, j) order (ki, kj are then determined),
     which is the order of this fold; the accumulator starts from +0.0. *)
  Definition deconv_cell (stride padding : nat * nat) (x : vec3 T) (ks : vec4 T)
             (kc ih iw kh kw : nat) (k oi oj : nat) : T :=
    fold_left (fun acc c =>
      fold_left (fun acc i =>
        fold_left (fun acc j =>
          let ti := oi + fst padding in
          let tj := oj + snd padding in
          if (i * fst stride <=? ti) && (ti - i * fst stride <? kh)
             && (j * snd stride <=? tj) && (tj - j * snd stride <? kw)
          then nadd N acc (nmul N (get3 zero x c i j)
                                  (get4 zero ks k c (ti - i * fst stride) (tj - j * snd stride)))
          else acc) (seq 0 iw) acc) (seq 0 ih) acc) (seq 0 kc) zero.

  Definition deconv_forward (l : deconv) (x : tensor) : res (tensor * tensor) :=
    do x0 <- conv_input (dc_inputs l) x;
    do ks <- mapM kernel_data (dc_kernels l);
    do ihw <- xdims x0;
    let '(ih, iw) := ihw in
    do kd <- kdims ks;
    let '(kf, kc, kh, kw) := kd in
    do oh <- deconv_fwd_out1 ih kh (fst (dc_stride l)) (fst (dc_padding l));
    do ow <- deconv_fwd_out1 iw kw (snd (dc_stride l)) (snd (dc_padding l));
    check (kc <=? length x0) else P_index;
    let y := build3 kf oh ow (deconv_cell (dc_stride l) (dc_padding l) x0 ks kc ih iw kh kw) in
    post_process (dc_act l) (dc_training l) (dc_dropout l) (dc_flatten l) y.

  Definition deconv_backward (l : deconv) (gradient input output : tensor)
    : res (tensor * tensor * option tensor) :=
    do g <- get_triple gradient (dc_outputs l);
    do der0 <- act_backward (dc_act l) output;
    do der <- get_triple der0 (dc_outputs l);
    let delta := hadamard3d N g der (scale (dc_loops l)) in
    do inp <- get_triple input (dc_inputs l);
    do ihw <- xdims inp;
    let '(ih, iw) := ihw in
    do ohw <- xdims delta;
    let '(oh, ow) := ohw in
    do ks <- mapM kernel_data (dc_kernels l);
    do kd <- kdims ks;
    let '(kf, kc, kh, kw) := kd in
    let '(sh, sw) := dc_stride l in
    let '(ph, pw) := dc_padding l in
    check (kf <=? length delta) else P_index;
    check (kc <=? length inp) else P_index;
    (* igradient[c][h][w] += delta[f][oi][oj] * K[f][c][i][j] : per cell in (f, i, j) order *)
    let ig := build3 kc ih iw (fun c h w =>
      fold_left (fun acc f =>
        fold_left (fun acc i =>
          fold_left (fun acc j =>
            if (ph <=? h * sh + i) && (h * sh + i - ph <? oh)
               && (pw <=? w * sw + j) && (w * sw + j - pw <? ow)
            then nadd N acc (nmul N (get3 zero delta f (h * sh + i - ph) (w * sw + j - pw))
                                    (get4 zero ks f c i j))
            else acc) (seq 0 kw) acc) (seq 0 kh) acc) (seq 0 kf) zero) in
    (* kgradient[f][c][i][j] += delta[f][oi][oj] * input[c][h][w] : per cell in (h, w) order *)
    let kg := build4 kf kc kh kw (fun f c i j =>
      fold_left (fun acc h =>
        fold_left (fun acc w =>
          if (ph <=? h * sh + i) && (h * sh + i - ph <? oh)
             && (pw <=? w * sw + j) && (w * sw + j - pw <? ow)
          then nadd N acc (nmul N (get3 zero delta f (h * sh + i - ph) (w * sw + j - pw))
                                  (get3 zero inp c h w))
          else acc) (seq 0 iw) acc) (seq 0 ih) zero) in
    do igt <- t_triple N ig;
    do kgt <- t_quad N kg;
    Ok (igt, kgt, None).

  (* ---------------------------------------------------------------- maxpool *)
  Record maxpool := {
    m_inputs : shape; m_outputs : shape; m_loops : T;
    m_kernel : nat * nat; m_stride : nat * nat; m_flatten : bool }.

  Definition maxidx := vec3 (list (nat * nat)).

  Definition pool_out1 (i k s : nat) : res nat :=
    do a <- csub i k; do q <- cdiv a s; Ok (q + 1).

  Definition maxpool_create (inputs : shape) (kernel stride : nat * nat) : res maxpool :=
    do inputs' <- match inputs with
                  | SSingle size =>
                      let root := froot size in
                      check (root * root =? size) else P_explicit;
                      Ok (STriple 1 root root)
                  | STriple _ _ _ => Ok inputs
                  | _ => Panic P_explicit
                  end;
    match inputs' with
    | STriple c h w =>
        do oh <- pool_out1 h (fst kernel) (fst stride);
        do ow <- pool_out1 w (snd kernel) (snd stride);
        Ok {| m_inputs := inputs'; m_outputs := STriple c oh ow; m_loops := one;
              m_kernel := kernel; m_stride := stride; m_flatten := false |}
    | _ => Panic P_explicit
    end.

  (* one pooling window: strict `>` against f32::MIN, first maximum in row-major order wins *)
  Definition pool_window (x : vec3 T) (ih iw : nat) (kernel : nat * nat) (c h w : nat)
    : T * (nat * nat) :=
    fold_left (fun (acc : T * (nat * nat)) k =>
      fold_left (fun (acc : T * (nat * nat)) l =>
        if (h + k <? ih) && (w + l <? iw)
        then let v := get3 zero x c (h + k) (w + l) in
             if gtb v (fst acc) then (v, (h + k, w + l)) else acc
        else acc) (seq 0 (snd kernel)) acc) (seq 0 (fst kernel)) (nfmin N, (0, 0)).

  Definition maxpool_forward (l : maxpool) (x : tensor) : res (tensor * tensor * maxidx) :=
    do oc_oh_ow <- match m_outputs l with
                   | STriple oc oh ow => Ok (oc, oh, ow)
                   | _ => Panic P_explicit
                   end;
    let '(oc, oh, ow) := oc_oh_ow in
    do xi <- match tdata x with
             | DSingle v =>
                 match m_inputs l with
                 | STriple _ h w => do d <- chunk_input v h w; Ok (d, h, w)
                 | _ => Panic P_explicit
                 end
             | DTriple d => do hw <- xdims d; Ok (d, fst hw, snd hw)
             | _ => Panic P_explicit
             end;
    let '(x0, ih, iw) := xi in
    let '(kh, kw) := m_kernel l in
    let '(sh, sw) := m_stride l in
    do nh <- (do a <- csub ih kh; check (negb (sh =? 0)) else P_explicit; Ok (a / sh + 1));
    do nw <- (do a <- csub iw kw; check (negb (sw =? 0)) else P_explicit; Ok (a / sw + 1));
    check ((oc =? 0) || ((nh <=? oh) && (nw <=? ow))) else P_index;
    check (oc <=? length x0) else P_index;
    let cell c oy ox := pool_window x0 ih iw (kh, kw) c (oy * sh) (ox * sw) in
    let y := build3 oc oh ow (fun c oy ox =>
               if (oy <? nh) && (ox <? nw) then fst (cell c oy ox) else zero) in
    let mx := build3 oc oh ow (fun c oy ox =>
               if (oy <? nh) && (ox <? nw) then [snd (cell c oy ox)] else [(0, 0)]) in
    do pre <- t_triple N y;
    do post <- (if m_flatten l then flatten pre else Ok pre);
    Ok (pre, post, mx).

  (* igradient[c][mh][mw] += og[c][h][w]; igradient[c][mh][mw] *= 1/loops, per recorded index,
     re-ordered per input cell (contributions arrive in (h, w, list) order) *)
  Definition maxpool_backward (l : maxpool) (gradient : tensor) (mx : maxidx) : res tensor :=
    match m_inputs l with
    | STriple ic ih iw =>
        do og <- get_triple gradient (m_outputs l);
        do ohw <- xdims og;
        let '(oh, ow) := ohw in
        let inv := ndiv N one (m_loops l) in
        check (ic <=? length mx) else P_index;
        check (ic <=? length og) else P_index;
        (* every recorded index must address a cell of the input-shaped gradient *)
        check (forallb (fun c =>
                 forallb (fun h => forallb (fun w =>
                   forallb (fun p => (fst p <? ih) && (snd p <? iw))
                           (nth w (nth h (nth c mx []) []) []))
                   (seq 0 ow)) (seq 0 oh)) (seq 0 ic)) else P_index;
        let ig := build3 ic ih iw (fun c a b =>
          fold_left (fun acc h =>
            fold_left (fun acc w =>
              fold_left (fun acc (p : nat * nat) =>
                if (fst p =? a) && (snd p =? b)
                then nmul N (nadd N acc (get3 zero og c h w)) inv
                else acc) (nth w (nth h (nth c mx []) []) []) acc)
              (seq 0 ow) acc) (seq 0 oh) zero) in
        t_triple N ig
    | _ => Panic P_explicit
    end.
End Layers.
