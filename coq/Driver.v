(* Case decoder / result encoder for the correspondence check.
   A case is a list of integers (floats as IEEE bit patterns); [run_case] decodes it, runs the
   model instantiated at binary32 and encodes the result as a list of integers:
   first token 0 (Ok) or 1 (Panic). The same function is extracted to OCaml and evaluated by
   vm_compute, so the decoder itself is inside the checked model. *)
From NV Require Import Prelude Num NumF32 Random Tensor Activation Objective Optimizer Layers Network Learn.
From Flocq Require Import BinarySingleNaN.
Set Implicit Arguments.
Local Open Scope Z_scope.

Definition parser (A : Type) := list Z -> res (A * list Z).
Definition pret {A} (a : A) : parser A := fun l => Ok (a, l).
Definition pbind {A B} (p : parser A) (f : A -> parser B) : parser B :=
  fun l => match p l with Ok (a, l') => f a l' | Panic c => Panic c end.
Definition pfail {A} : parser A := fun _ => Panic P_parse.
Definition plift {A} (r : res A) : parser A :=
  fun l => match r with Ok a => Ok (a, l) | Panic c => Panic c end.

Declare Scope parser_scope.
Delimit Scope parser_scope with parser.
Notation "'let*' x := a 'in' b" := (pbind a (fun x => b))
  (at level 200, x pattern, a at level 100, b at level 200) : parser_scope.
Open Scope parser_scope.

Definition tok : parser Z := fun l => match l with [] => Panic P_parse | x :: r => Ok (x, r) end.
Definition pnat : parser nat := let* z := tok in pret (Z.to_nat z).
Definition pbool : parser bool := let* z := tok in pret (negb (z =? 0)).
Fixpoint prep {A} (n : nat) (p : parser A) : parser (list A) :=
  match n with
  | O => pret []
  | S k => let* x := p in let* xs := prep k p in pret (x :: xs)
  end.
Definition plist {A} (p : parser A) : parser (list A) := let* n := pnat in prep n p.
Definition popt {A} (p : parser A) : parser (option A) :=
  let* b := pbool in if b then (let* x := p in pret (Some x)) else pret None.
Definition ppair : parser (nat * nat) := let* a := pnat in let* b := pnat in pret (a, b).

Section Driver.
  Variable L : Libm.
  Definition NF := NumF32 L.
  Notation T := (T NF).
  Notation tensor := (tensor NF).

  Definition pfloat : parser T := let* z := tok in pret (f_of_bits z).

  Definition pshape : parser shape :=
    let* k := tok in
    match k with
    | 1 => let* n := pnat in pret (SSingle n)
    | 2 => let* r := pnat in let* c := pnat in pret (SDouble r c)
    | 3 => let* c := pnat in let* h := pnat in let* w := pnat in pret (STriple c h w)
    | 4 => let* a := pnat in let* b := pnat in let* c := pnat in let* d := pnat in pret (SQuad a b c d)
    | 5 => let* n := pnat in pret (SNested n)
    | _ => pfail
    end.

  Definition ptensor : parser tensor :=
    let* k := tok in
    match k with
    | 1 => let* n := pnat in let* v := prep n pfloat in pret (mkT (SSingle n) (DSingle v))
    | 2 => let* r := pnat in let* c := pnat in
           let* v := prep r (prep c pfloat) in pret (mkT (SDouble r c) (DDouble v))
    | 3 => let* c := pnat in let* h := pnat in let* w := pnat in
           let* v := prep c (prep h (prep w pfloat)) in pret (mkT (STriple c h w) (DTriple v))
    | 4 => let* a := pnat in let* c := pnat in let* h := pnat in let* w := pnat in
           let* v := prep a (prep c (prep h (prep w pfloat))) in pret (mkT (SQuad a c h w) (DQuad v))
    | _ => pfail
    end.

  Definition pact : parser activation :=
    let* k := tok in
    match k with
    | 0 => pret ReLU | 1 => pret LeakyReLU | 2 => pret Sigmoid | 3 => pret Softmax
    | 4 => pret Tanh | 5 => pret Linear | _ => pfail
    end.
  Definition pacc : parser accumulation :=
    let* k := tok in
    match k with
    | 0 => pret AccAdd | 1 => pret AccSub | 2 => pret AccMul | 3 => pret AccOverwrite
    | 4 => pret AccMean | _ => pfail
    end.
  Definition pobj : parser objective :=
    let* k := tok in
    match k with
    | 0 => pret AE | 1 => pret MAE | 2 => pret MSE | 3 => pret RMSE | 4 => pret CrossEntropy
    | 5 => pret BinaryCrossEntropy | 6 => pret KLDivergence | _ => pfail
    end.
  Definition pclamp : parser (option (T * T)) :=
    popt (let* a := pfloat in let* b := pfloat in pret (a, b)).

  Definition poptimizer : parser (optimizer NF) :=
    let* k := tok in
    match k with
    | 0 => let* lr := pfloat in let* d := popt pfloat in
           pret (OSGD {| sgd_lr := lr; sgd_decay := d |})
    | 1 => let* lr := pfloat in let* m := pfloat in let* da := pfloat in let* d := popt pfloat in
           pret (OSGDM {| sgdm_lr := lr; sgdm_momentum := m; sgdm_dampening := da; sgdm_decay := d;
                          sgdm_velocity := [] |})
    | 2 => let* lr := pfloat in let* b1 := pfloat in let* b2 := pfloat in let* e := pfloat in
           let* d := popt pfloat in
           pret (OAdam {| adam_lr := lr; adam_b1 := b1; adam_b2 := b2; adam_eps := e; adam_decay := d;
                          adam_velocity := []; adam_momentum := [] |})
    | 3 => let* lr := pfloat in let* b1 := pfloat in let* b2 := pfloat in let* e := pfloat in
           let* d := pfloat in
           pret (OAdamW {| adamw_lr := lr; adamw_b1 := b1; adamw_b2 := b2; adamw_eps := e;
                           adamw_decay := d; adamw_velocity := []; adamw_momentum := [] |})
    | 4 => let* lr := pfloat in let* al := pfloat in let* e := pfloat in let* d := popt pfloat in
           let* m := popt pfloat in let* c := pbool in
           pret (ORMS {| rms_lr := lr; rms_alpha := al; rms_eps := e; rms_decay := d;
                         rms_momentum := m; rms_centered := c;
                         rms_velocity := []; rms_gradient := []; rms_buffer := [] |})
    | _ => pfail
    end.

  (* ---------------- encoders ---------------- *)
  Definition enat (n : nat) : Z := Z.of_nat n.
  Definition ebool (b : bool) : Z := if b then 1 else 0.
  (* floats in results carry an offset of 2^40: the comparison may then treat them up to rounding *)
  Definition efl (x : T) : Z := 1099511627776 + f_to_bits x.
  Definition elist {A} (f : A -> list Z) (l : list A) : list Z := enat (length l) :: flat_map f l.

  Definition eshape (s : shape) : list Z :=
    match s with
    | SSingle n => [1; enat n]
    | SDouble r c => [2; enat r; enat c]
    | STriple c h w => [3; enat c; enat h; enat w]
    | SQuad a b c d => [4; enat a; enat b; enat c; enat d]
    | SNested n => [5; enat n]
    end.

  (* a tensor is emitted as its recorded shape followed by its data with explicit lengths, so
     that a disagreement between shape and data is visible *)
  Definition etensor (t : tensor) : list Z :=
    eshape (tshape t) ++
    match tdata t with
    | DSingle v => 1 :: elist (fun x => [efl x]) v
    | DDouble v => 2 :: elist (elist (fun x => [efl x])) v
    | DTriple v => 3 :: elist (elist (elist (fun x => [efl x]))) v
    | DQuad v => 4 :: elist (elist (elist (elist (fun x => [efl x])))) v
    end.
  Definition eopt {A} (f : A -> list Z) (o : option A) : list Z :=
    match o with Some x => 1 :: f x | None => [0] end.

  Definition eres {A} (f : A -> list Z) (r : res A) : list Z :=
    match r with Ok a => 0 :: f a | Panic c => [1; enat c] end.

  (* ---------------- network description ---------------- *)
  Definition pdropout : parser (option T) := popt pfloat.

  Definition pfspec : parser (fspec NF) :=
    let* k := tok in
    match k with
    | 0 => let* o := pnat in let* a := pact in let* b := pbool in let* d := pdropout in
           pret (FDense o a b d)
    | 1 => let* f := pnat in let* ke := ppair in let* st := ppair in let* pa := ppair in
           let* di := ppair in let* a := pact in let* d := pdropout in
           pret (FConv f a ke st pa di d)
    | 2 => let* f := pnat in let* ke := ppair in let* st := ppair in let* pa := ppair in
           let* a := pact in let* d := pdropout in
           pret (FDeconv f a ke st pa d)
    | 3 => let* ke := ppair in let* st := ppair in pret (FMaxpool ke st)
    | _ => pfail
    end.

  Inductive lspec :=
  | LSimple (s : fspec NF)
  | LBlock (specs : list (fspec NF)) (loops : nat) (inskips outskips : bool) (acc : accumulation).

  Definition plspec : parser lspec :=
    fun l =>
    match l with
    | 4 :: r => (let* specs := plist pfspec in let* loops := pnat in let* i := pbool in
                 let* o := pbool in let* a := pacc in pret (LBlock specs loops i o a)) r
    | _ => (let* s := pfspec in pret (LSimple s)) l
    end.

  Definition seeds1 : nat -> Z := fun _ => 1.

  Definition add_lspec (n : network NF) (s : lspec) : res (network NF) :=
    match s with
    | LSimple (FDense o a b d) => add_dense seeds1 n o a b d
    | LSimple (FConv f a ke st pa di d) => add_conv seeds1 n f ke st pa di a d
    | LSimple (FDeconv f a ke st pa d) => add_deconv seeds1 n f ke st pa a d
    | LSimple (FMaxpool ke st) => add_maxpool n ke st
    | LBlock specs loops i o a => add_feedback (fun _ => seeds1) n specs loops i o a
    end.

  (* weights: one record per parameterised layer, in layer order; for a feedback block one
     record per layer of ONE repetition, copied to every repetition *)
  Inductive wspec := WDense (w : tensor) (b : option tensor) | WKernels (ks : list tensor) | WNone.

  Definition pwspec : parser wspec :=
    let* k := tok in
    match k with
    | 0 => let* w := ptensor in let* b := popt ptensor in pret (WDense w b)
    | 1 => let* ks := plist ptensor in pret (WKernels ks)
    | 2 => pret WNone
    | _ => pfail
    end.

  Definition set_blayer_w (b : blayer NF) (w : wspec) : res (blayer NF) :=
    match b, w with
    | BDense l, WDense wt bs => Ok (BDense (set_d_params l wt bs))
    | BConv l, WKernels ks => Ok (BConv (set_c_kernels l ks))
    | BDeconv l, WKernels ks => Ok (BDeconv (set_dc_kernels l ks))
    | BMaxpool _, WNone => Ok b
    | _, _ => Panic P_parse
    end.

  Inductive lw := LWOne (w : wspec) | LWBlock (ws : list wspec).
  Definition plw : parser lw :=
    fun l =>
    match l with
    | 4 :: r => (let* ws := plist pwspec in pret (LWBlock ws)) r
    | _ => (let* w := pwspec in pret (LWOne w)) l
    end.

  Definition set_layer_w (l : layer NF) (w : lw) : res (layer NF) :=
    match l, w with
    | LDense d, LWOne w' => do b <- set_blayer_w (BDense d) w'; Ok (lift_b b)
    | LConv c, LWOne w' => do b <- set_blayer_w (BConv c) w'; Ok (lift_b b)
    | LDeconv c, LWOne w' => do b <- set_blayer_w (BDeconv c) w'; Ok (lift_b b)
    | LMaxpool m, LWOne WNone => Ok l
    | LFeedback blk, LWBlock ws =>
        let len := length ws in
        check (negb (len =? 0)%nat) else P_parse;
        do ls <- mapM (fun ib => do w' <- nth_res ws (fst ib mod len)%nat; set_blayer_w (snd ib) w')
                      (combine (seq 0 (length (f_layers blk))) (f_layers blk));
        Ok (LFeedback (set_f_layers blk ls))
    | _, _ => Panic P_parse
    end.

  Record netcase := {
    nc_input : shape;
    nc_layers : list lspec;
    nc_connect : list (nat * nat);
    nc_skipacc : accumulation;
    nc_loops : list (nat * nat * nat * bool);
    nc_loopacc : accumulation;
    nc_opt : optimizer NF;
    nc_obj : objective * option (T * T);
    nc_weights : option (list lw) }.

  Definition pnetcase : parser netcase :=
    let* inp := pshape in
    let* ls := plist plspec in
    let* cn := plist ppair in
    let* sa := pacc in
    let* lp := plist (let* a := pnat in let* b := pnat in let* c := pnat in let* d := pbool in
                      pret (a, b, c, d)) in
    let* la := pacc in
    let* o := poptimizer in
    let* ob := pobj in
    let* cl := pclamp in
    let* ws := popt (plist plw) in
    pret {| nc_input := inp; nc_layers := ls; nc_connect := cn; nc_skipacc := sa; nc_loops := lp;
            nc_loopacc := la; nc_opt := o; nc_obj := (ob, cl); nc_weights := ws |}.

  (* the harness performs the same calls in the same order *)
  Definition build_net (c : netcase) : res (network NF) :=
    do n1 <- foldM add_lspec (nc_layers c) (network_new NF (nc_input c));
    do n2 <- foldM (fun n p => add_connect n (fst p) (snd p)) (nc_connect c) n1;
    do n3 <- foldM (fun n (p : nat * nat * nat * bool) =>
                      let '(outof, into, it, sk) := p in add_loopback n outof into it sk)
                   (nc_loops c) n2;
    let n4 := set_accumulation n3 (nc_skipacc c) (nc_loopacc c) in
    do n5 <- (match nc_weights c with
              | Some ws =>
                  check (length ws =? length (n_layers n4))%nat else P_parse;
                  do ls <- mapM (fun p => set_layer_w (fst p) (snd p)) (combine (n_layers n4) ws);
                  Ok (set_layers n4 ls)
              | None => Ok n4
              end);
    do n6 <- set_optimizer n5 (nc_opt c);
    Ok (set_objective n6 (fst (nc_obj c)) (snd (nc_obj c))).

  (* ---------------- encoders for network results ---------------- *)
  Definition eblayer_w (b : blayer NF) : list Z :=
    match b with
    | BDense l => 0 :: etensor (d_weights l) ++ eopt etensor (d_bias l)
    | BConv l => 1 :: elist etensor (c_kernels l)
    | BDeconv l => 1 :: elist etensor (dc_kernels l)
    | BMaxpool _ => [2]
    end.
  Definition elayer_w (l : layer NF) : list Z :=
    match l with
    | LDense d => eblayer_w (BDense d)
    | LConv c => eblayer_w (BConv c)
    | LDeconv c => eblayer_w (BDeconv c)
    | LMaxpool m => [2]
    | LFeedback b => 4 :: elist eblayer_w (f_layers b)
    end.
  Definition eweights (n : network NF) : list Z := elist elayer_w (n_layers n).
  Definition eflags (n : network NF) : list Z :=
    elist (fun o => match o with Some b => [ebool b] | None => [2] end) (network_flags n).

  Definition egrad (g : grad NF) : list Z :=
    match g with GPlain t => 0 :: etensor t | GNested l => 1 :: elist etensor l end.
  Definition ebgrad (g : option (bgrad NF)) : list Z :=
    match g with
    | None => [0]
    | Some (BPlain t) => 1 :: etensor t
    | Some (BNestedOpt l) => 2 :: elist (eopt etensor) l
    end.

  Definition ppairs : parser (list (tensor * tensor)) :=
    plist (let* x := ptensor in let* t := ptensor in pret (x, t)).

  (* the batch size of `learn` is a usize; the model's is a unary nat.  A request beyond the size of the
     data set is represented by (size + 1): Theory/Learn [learn_batch_beyond] proves that `learn` returns
     the same for every two batch sizes that are at least the number of samples (and not 0). *)
  Definition pbatch {A} (data : list A) : parser nat :=
    let* b := tok in pret (Z.to_nat (Z.min b (Z.of_nat (S (length data))))).

  Definition ehist (h : history NF) : list Z :=
    elist (fun x => [efl x]) (h_train h) ++ elist (fun x => [efl x]) (h_vloss h)
    ++ elist (fun x => [efl x]) (h_vacc h).

  (* a script: several calls on ONE network object, each emitting what the stand-alone command emits *)
  Inductive sop :=
  | SPredict (x : tensor)
  | SBackward (x t : tensor)
  | SLearn (data : list (tensor * tensor)) (val : option (list (tensor * tensor) * Z)) (batch : nat) (epochs : Z)
  | SValidate (data : list (tensor * tensor)) (tol : T) (pre : bool)
  | SPredictBatch (xs : list tensor)
  (* direct writes of the public maps `Network.loopbacks` / `Network.connect` between calls *)
  | SSetLoops (l : list (nat * (nat * nat * bool)))
  | SSetConnect (l : list (nat * nat))
  | SSetActivation (i : nat) (a : activation)
  (* reconfiguration between calls: set_optimizer (state sized and zero-filled anew), set_objective,
     set_accumulation *)
  | SSetOptimizer (o : optimizer NF)
  | SSetObjective (ob : objective) (cl : option (T * T))
  | SSetAccumulation (skip loop : accumulation).

  Definition psop : parser sop :=
    let* k := tok in
    match k with
    | 1 => let* x := ptensor in pret (SPredict x)
    | 3 => let* x := ptensor in let* t := ptensor in pret (SBackward x t)
    | 4 => let* data := ppairs in
           let* val := popt (let* v := ppairs in let* th := tok in pret (v, th)) in
           let* batch := pbatch data in let* epochs := tok in pret (SLearn data val batch epochs)
    | 5 => let* data := ppairs in let* tol := pfloat in let* pre := pbool in pret (SValidate data tol pre)
    | 7 => let* xs := plist ptensor in pret (SPredictBatch xs)
    | 13 => let* l := plist (let* o := pnat in let* i := pnat in let* k := pnat in let* s := pbool in
                             pret (o, (i, k, s))) in pret (SSetLoops l)
    | 14 => let* l := plist ppair in pret (SSetConnect l)
    | 15 => let* i := pnat in let* a := pact in pret (SSetActivation i a)
    | 16 => let* o := poptimizer in pret (SSetOptimizer o)
    | 17 => let* ob := pobj in let* cl := pclamp in pret (SSetObjective ob cl)
    | 18 => let* sa := pacc in let* la := pacc in pret (SSetAccumulation sa la)
    | _ => pfail
    end.

  Fixpoint run_script (n : network NF) (ops : list sop) : res (list Z) :=
    match ops with
    | [] => Ok (eweights n ++ eflags n)
    | SPredict x :: rest =>
        do y <- predict n x; do o <- run_script n rest; Ok (etensor y ++ o)
    | SBackward x t :: rest =>
        do f <- forward n x;
        do out <- (match last_opt (fw_post f) with Some o => Ok o | None => Panic P_unwrap end);
        do lg <- loss (fst (n_objective n)) (snd (n_objective n)) out t;
        do r <- backward n (snd lg) f;
        do o <- run_script n rest;
        Ok (efl (fst lg) :: elist egrad (fst (fst r)) ++ elist ebgrad (snd (fst r)) ++ o)
    | SLearn data val batch epochs :: rest =>
        let validation := match val with
                          | Some (v, th) => Some (map fst v, map snd v, th)
                          | None => None end in
        do r <- learn seq_pmap n (map fst data) (map snd data) validation batch epochs;
        do o <- run_script (fst r) rest;
        Ok (ehist (snd r) ++ eweights (fst r) ++ eflags (fst r) ++ o)
    | SValidate data tol pre :: rest =>
        let n' := if pre then set_all_training true n else n in
        do r <- validate seq_pmap n' (map fst data) (map snd data) tol;
        do o <- run_script (fst r) rest;
        Ok ([efl (fst (snd r)); efl (snd (snd r))] ++ eflags (fst r) ++ o)
    | SPredictBatch xs :: rest =>
        do ys <- predict_batch seq_pmap n xs; do o <- run_script n rest; Ok (elist etensor ys ++ o)
    | SSetLoops l :: rest => run_script (set_loopbacks n l) rest
    | SSetConnect l :: rest => run_script (set_connect n l) rest
    | SSetActivation i a :: rest => do n' <- set_activation n i a; run_script n' rest
    | SSetOptimizer o :: rest => do n' <- set_optimizer n o; run_script n' rest
    | SSetObjective ob cl :: rest => run_script (set_objective n ob cl) rest
    | SSetAccumulation sa la :: rest => run_script (set_accumulation n sa la) rest
    end.

  Definition run_net_cmd (n : network NF) : parser (list Z) :=
    let* cmd := tok in
    match cmd with
    | 1 => let* x := ptensor in pret (eres etensor (predict n x))
    | 2 => let* x := ptensor in
           pret (eres (fun f => elist etensor (fw_pre f) ++ elist etensor (fw_post f)) (forward n x))
    | 3 => let* x := ptensor in let* t := ptensor in
           pret (eres (fun r : T * (list (grad NF) * list (option (bgrad NF)) * list tensor) =>
                         efl (fst r) :: elist egrad (fst (fst (snd r)))
                         ++ elist ebgrad (snd (fst (snd r))))
                      (do f <- forward n x;
                       do out <- (match last_opt (fw_post f) with Some o => Ok o | None => Panic P_unwrap end);
                       do lg <- loss (fst (n_objective n)) (snd (n_objective n)) out t;
                       do r <- backward n (snd lg) f;
                       Ok (fst lg, r)))
    | 4 => let* data := ppairs in
           let* val := popt (let* v := ppairs in let* th := tok in pret (v, th)) in
           let* batch := pbatch data in
           let* epochs := tok in
           let validation := match val with
                             | Some (v, th) => Some (map fst v, map snd v, th)
                             | None => None end in
           pret (eres (fun r : network NF * history NF =>
                         ehist (snd r) ++ eweights (fst r) ++ eflags (fst r))
                      (learn seq_pmap n (map fst data) (map snd data) validation batch epochs))
    | 5 => let* data := ppairs in let* tol := pfloat in let* pre := pbool in
           let n' := if pre then set_all_training true n else n in
           pret (eres (fun r : network NF * (T * T) =>
                         [efl (fst (snd r)); efl (snd (snd r))] ++ eflags (fst r))
                      (validate seq_pmap n' (map fst data) (map snd data) tol))
    | 6 => pret (eres (fun p => enat p :: elist (fun l => eshape (layer_inputs l) ++ eshape (layer_outputs l))
                                               (n_layers n))
                      (network_parameters n))
    | 7 => let* xs := plist ptensor in
           pret (eres (elist etensor) (predict_batch seq_pmap n xs))
    | 8 => let* x := ptensor in let* t := ptensor in let* stepnr := tok in
           pret (eres (fun n' => eweights n')
                      (do g <- sample_grad n (x, t); net_step stepnr n (fst g)))
    | 10 => let* data := ppairs in let* batch := pbatch data in let* e1 := tok in let* e2 := tok in
            (* two consecutive calls of learn on the same network: optimizer state carries over *)
            pret (eres (fun r : network NF * history NF => ehist (snd r) ++ eweights (fst r))
                       (do r1 <- learn seq_pmap n (map fst data) (map snd data) None batch e1;
                        learn seq_pmap (fst r1) (map fst data) (map snd data) None batch e2))
    | 12 => let* ops := plist psop in pret (eres (fun o => o) (run_script n ops))
    | 11 => let* data := ppairs in let* v := ppairs in let* th := tok in let* batch := pbatch data in
            let* e1 := tok in let* e2 := tok in
            (* two consecutive calls of learn WITH validation data: the second call starts its own epoch
               count and its own validation history *)
            let validation := Some (map fst v, map snd v, th) in
            pret (eres (fun r : network NF * history NF => ehist (snd r) ++ eweights (fst r))
                       (do r1 <- learn seq_pmap n (map fst data) (map snd data) validation batch e1;
                        learn seq_pmap (fst r1) (map fst data) (map snd data) validation batch e2))
    | 9 => let* idx := pnat in let* x := ptensor in let* g := ptensor in
           pret (eres (fun r : tensor * tensor * option tensor =>
                         etensor (fst (fst r)) ++ etensor (snd (fst r)) ++ eopt etensor (snd r))
                      (do l <- nth_res (n_layers n) idx;
                       match l with
                       | LDense d => do r <- dense_forward d x; dense_backward d g x (fst r)
                       | LConv c => do r <- conv_forward c x; conv_backward c g x (fst r)
                       | LDeconv c => do r <- deconv_forward c x; deconv_backward c g x (fst r)
                       | LMaxpool m => do r <- maxpool_forward m x;
                                       do ig <- maxpool_backward m g (snd r);
                                       Ok (ig, zero_single NF 0, None)
                       | LFeedback _ => Panic P_parse
                       end))
    | _ => pfail
    end.

  (* ---------------- optimizer histories ---------------- *)
  Definition zero_like (t : tensor) : tensor :=
    mkT (tshape t) (map_data (fun _ => zero) (tdata t)).

  Definition run_opt_case : parser (list Z) :=
    let* o := poptimizer in
    let* vals := plist (plist (plist ptensor)) in
    let* steps := plist (let* l := pnat in let* f := pnat in let* b := pbool in let* s := tok in
                         let* g := ptensor in pret (l, f, b, s, g)) in
    let o0 := opt_validate o (map (map (map zero_like)) vals) in
    pret (eres (fun r : optimizer NF * list (list (list tensor)) * list Z =>
                  snd r ++ elist (elist (elist etensor)) (snd (fst r)))
      (foldM (fun (st : optimizer NF * list (list (list tensor)) * list Z)
                  (stp : nat * nat * bool * Z * tensor) =>
                let '(l, f, b, s, g) := stp in
                let '(oc, vs, out) := st in
                do v <- slot_get vs l f b;
                do u <- opt_update oc l f b s v g;
                let '(o', v', g') := u in
                Ok (o', slot_set vs l f b v', out ++ etensor g'))
             steps (o0, vals, []))).

  (* the optimizer is attached (validated) again between phases of steps: the state kept by the value
     is zero-initialised at every attachment, the parameters carry on *)
  Definition opt_steps (st : optimizer NF * list (list (list tensor)) * list Z)
             (steps : list (nat * nat * bool * Z * tensor))
    : res (optimizer NF * list (list (list tensor)) * list Z) :=
    foldM (fun (st : optimizer NF * list (list (list tensor)) * list Z)
               (stp : nat * nat * bool * Z * tensor) =>
             let '(l, f, b, s, g) := stp in
             let '(oc, vs, out) := st in
             do v <- slot_get vs l f b;
             do u <- opt_update oc l f b s v g;
             let '(o', v', g') := u in
             Ok (o', slot_set vs l f b v', out ++ etensor g'))
          steps st.
  Definition run_opt_phases : parser (list Z) :=
    let* o := poptimizer in
    let* vals := plist (plist (plist ptensor)) in
    let* phases := plist (plist (let* l := pnat in let* f := pnat in let* b := pbool in let* s := tok in
                                 let* g := ptensor in pret (l, f, b, s, g))) in
    pret (eres (fun r : optimizer NF * list (list (list tensor)) * list Z =>
                  snd r ++ elist (elist (elist etensor)) (snd (fst r)))
      (foldM (fun (st : optimizer NF * list (list (list tensor)) * list Z) steps =>
                let '(oc, vs, out) := st in
                opt_steps (opt_validate oc (map (map (map zero_like)) vals), vs, out) steps)
             phases (o, vals, []))).

  (* ---------------- connect call sequences ---------------- *)
  Definition run_connect_seq (n : network NF) : parser (list Z) :=
    let* calls := plist ppair in
    let r := fold_left (fun (st : network NF * list Z) p =>
                 match add_connect (fst st) (fst p) (snd p) with
                 | Ok n' => (n', snd st ++ [0])
                 | Panic _ => (fst st, snd st ++ [1])
                 end) calls (n, []) in
    pret (0 :: snd r ++ elist (fun kv => [enat (fst kv); enat (snd kv)])
                              (* sorted by key for a canonical view of the HashMap *)
                              (let m := n_connect (fst r) in
                               flat_map (fun k => match alist_get m k with
                                                  | Some v => [(k, v)] | None => [] end)
                                        (seq 0 (S (length (n_layers (fst r))))))).

  (* ---------------- top level ---------------- *)
  Definition ebinop (k : Z) (a b : tensor) : res tensor :=
    match k with
    | 0 => add_inplace a b | 1 => sub_inplace a b | 2 => mul_inplace a b | _ => Panic P_parse
    end.

  Definition run_op : parser (list Z) :=
    let* op := tok in
    match op with
    | 1 => let* t := ptensor in pret (eres etensor (flatten t))
    | 2 => let* t := ptensor in pret (eres (elist (fun x => [efl x])) (get_flat t))
    | 3 => let* t := ptensor in let* s := pshape in pret (eres etensor (reshape t s))
    | 4 => let* t := ptensor in let* s := pshape in
           pret (eres (elist (elist (elist (fun x => [efl x])))) (get_triple t s))
    | 5 => let* k := tok in let* a := ptensor in let* b := ptensor in pret (eres etensor (ebinop k a b))
    | 6 => let* a := ptensor in let* b := ptensor in let* s := pfloat in
           pret (eres etensor (hadamard a b s))
    | 7 => let* a := ptensor in let* s := pfloat in pret (0 :: etensor (div_scalar_inplace a s))
    | 8 => let* a := ptensor in let* os := plist ptensor in pret (eres etensor (mean_inplace a os))
    | 9 => let* a := ptensor in let* b := ptensor in pret (eres etensor (product a b))
    | 10 => let* a := ptensor in let* b := ptensor in pret (eres etensor (dot a b))
    | 11 => let* a := ptensor in pret (eres etensor (transpose a))
    | 12 => let* a := ptensor in let* lo := pfloat in let* hi := pfloat in
            pret (eres etensor (check (f_leb lo hi) else P_explicit; Ok (t_clamp a lo hi)))
    | 13 => let* a := plist ptensor in let* b := plist ptensor in
            pret (eres (elist etensor) (add_inplace_nested a b))
    | 14 => let* a := plist ptensor in let* s := pfloat in
            pret (0 :: elist etensor (div_scalar_nested a s))
    | 18 => let* a := plist (popt ptensor) in let* b := plist (popt ptensor) in
            pret (eres (elist (eopt etensor)) (add_inplace_nestedopt a b))
    | 15 => let* t := ptensor in pret (eres (fun n => [enat n]) (argmax t))
    | 16 => let* t := ptensor in let* r := pfloat in pret (0 :: etensor (dropout t r))
    | 17 => let* t := ptensor in let* h := pnat in let* w := pnat in
            pret (eres (elist (elist (elist (fun x => [efl x]))))
                       (match tdata t with DTriple d => pad3d NF d h w | _ => Panic P_parse end))
    | 20 => let* a := pact in let* dir := pbool in let* t := ptensor in
            pret (eres etensor (if dir then act_backward a t else act_forward a t))
    | 21 => let* o := pobj in let* cl := pclamp in let* p := ptensor in let* t := ptensor in
            pret (eres (fun r : T * tensor => efl (fst r) :: etensor (snd r)) (loss o cl p t))
    | 22 => run_opt_case
    | 23 => run_opt_phases
    | 30 => let* wrap := pbool in let* seed := tok in let* n := pnat in
            let* lo := pfloat in let* hi := pfloat in
            pret (eres (elist (fun x => [efl x]))
                   (rmap snd (foldM (fun (st : Z * list T) _ =>
                                do c <- (if wrap then Ok (lcg_next_wrap (fst st)) else lcg_next_checked (fst st));
                                Ok (c, snd st ++ [lcg_value NF c lo hi]))
                              (seq 0 n) (seed, []))))
    | 31 => let* wrap := pbool in let* seed := tok in let* n := pnat in
            pret (eres (fun r : Z * list nat => elist (fun k => [enat k]) (snd r))
                       (shuffle NF wrap seed (seq 0 n)))
    | 32 => let* seed := tok in let* s := pshape in let* lo := pfloat in let* hi := pfloat in
            pret (eres etensor (random_tensor NF seed s lo hi))
    | 40 => let* c := pnetcase in
            match build_net c with
            | Ok n => run_net_cmd n
            | Panic code => pret [1; enat code]
            end
    | 41 => let* c := pnetcase in
            match build_net c with
            | Ok n => run_connect_seq n
            | Panic code => pret [1; enat code]
            end
    | _ => pfail
    end.

  Definition run_case (toks : list Z) : list Z :=
    match run_op toks with
    | Ok (out, _) => out
    | Panic c => [2; enat c]          (* malformed case: never expected *)
    end.
End Driver.
