(* src/tensor.rs : shapes, data, and the tensor operations, generic over Num.
   A tensor keeps [tshape] and [tdata] separately, as the Rust struct does. *)
From NV Require Import Prelude Num Random.
Set Implicit Arguments.

Inductive shape : Type :=
| SSingle (n : nat)
| SDouble (r c : nat)
| STriple (c h w : nat)
| SQuad (a b c d : nat)
| SNested (n : nat).

Definition shape_eqb (a b : shape) : bool :=
  match a, b with
  | SSingle x, SSingle y => x =? y
  | SDouble a1 a2, SDouble b1 b2 => (a1 =? b1) && (a2 =? b2)
  | STriple a1 a2 a3, STriple b1 b2 b3 => (a1 =? b1) && (a2 =? b2) && (a3 =? b3)
  | SQuad a1 a2 a3 a4, SQuad b1 b2 b3 b4 => (a1 =? b1) && (a2 =? b2) && (a3 =? b3) && (a4 =? b4)
  | SNested x, SNested y => x =? y
  | _, _ => false
  end.

Definition shape_numel (s : shape) : nat :=
  match s with
  | SSingle n => n
  | SDouble r c => r * c
  | STriple c h w => c * h * w
  | SQuad a b c d => a * b * c * d
  | SNested n => n
  end.

Definition vec1 (A : Type) := list A.
Definition vec2 (A : Type) := list (list A).
Definition vec3 (A : Type) := list (list (list A)).
Definition vec4 (A : Type) := list (list (list (list A))).

(* zip that keeps the unmatched tail of the first list: `a.iter_mut().zip(b.iter())` *)
Fixpoint zipk {A B} (f : A -> B -> A) (l1 : list A) (l2 : list B) : list A :=
  match l1, l2 with
  | x :: xs, y :: ys => f x y :: zipk f xs ys
  | _, _ => l1
  end.

Definition flat3 {A} (d : vec3 A) : list A := concat (map (@concat A) d).

Definition build1 {A} (n : nat) (f : nat -> A) : list A := map f (seq 0 n).
Definition build2 {A} (h w : nat) (f : nat -> nat -> A) : vec2 A :=
  build1 h (fun i => build1 w (f i)).
Definition build3 {A} (c h w : nat) (f : nat -> nat -> nat -> A) : vec3 A :=
  build1 c (fun k => build2 h w (f k)).
Definition build4 {A} (a c h w : nat) (f : nat -> nat -> nat -> nat -> A) : vec4 A :=
  build1 a (fun k => build3 c h w (f k)).

Definition get1 {A} (d : A) (x : list A) (i : nat) : A := nth i x d.
Definition get2 {A} (d : A) (x : vec2 A) (i j : nat) : A := nth j (nth i x []) d.
Definition get3 {A} (d : A) (x : vec3 A) (c i j : nat) : A := nth j (nth i (nth c x []) []) d.
Definition get4 {A} (d : A) (x : vec4 A) (a c i j : nat) : A :=
  nth j (nth i (nth c (nth a x []) []) []) d.

(* row-major un-flattening by position *)
(* row i is firstn c (skipn (i * c) v) (Theory/Shapes.v [unflat2_spec]); computed by one pass over v *)
Fixpoint unflat2 {A} (r c : nat) (v : list A) : vec2 A :=
  match r with
  | O => []
  | S k => firstn c v :: unflat2 k c (skipn c v)
  end.
Definition unflat3 {A} (c h w : nat) (v : list A) : vec3 A :=
  build1 c (fun k => unflat2 h w (skipn (k * (h * w)) v)).

Definition dims3 {A} (x : vec3 A) : nat * nat * nat :=
  (length x, hd_len x, hd_len (hd [] x)).

Section Tensor.
  Variable N : Num.
  Notation T := (T N).

  Inductive data : Type :=
  | DSingle (v : vec1 T)
  | DDouble (v : vec2 T)
  | DTriple (v : vec3 T)
  | DQuad (v : vec4 T).

  Record tensor : Type := mkT { tshape : shape; tdata : data }.

  (* ---- constructors ---- *)
  Definition t_single (v : vec1 T) : tensor := mkT (SSingle (length v)) (DSingle v).
  (* `data[0].len()` panics on an empty outer vector *)
  Definition t_double (v : vec2 T) : res tensor :=
    match v with
    | [] => Panic P_index
    | r :: _ => Ok (mkT (SDouble (length v) (length r)) (DDouble v))
    end.
  Definition t_triple (v : vec3 T) : res tensor :=
    match v with
    | (r :: _) :: _ => Ok (mkT (STriple (length v) (hd_len v) (length r)) (DTriple v))
    | _ => Panic P_index
    end.
  Definition t_quad (v : vec4 T) : res tensor :=
    match v with
    | ((r :: _) :: _) :: _ =>
        Ok (mkT (SQuad (length v) (hd_len v) (hd_len (hd [] v)) (length r)) (DQuad v))
    | _ => Panic P_index
    end.

  Definition fill (s : shape) (x : T) : res tensor :=
    match s with
    | SSingle n => Ok (mkT s (DSingle (repeat x n)))
    | SDouble r c => Ok (mkT s (DDouble (repeat (repeat x c) r)))
    | STriple c h w => Ok (mkT s (DTriple (repeat (repeat (repeat x w) h) c)))
    | SQuad a b c d => Ok (mkT s (DQuad (repeat (repeat (repeat (repeat x d) c) b) a)))
    | SNested _ => Panic P_explicit
    end.
  Definition zeros (s : shape) := fill s zero.
  Definition ones (s : shape) := fill s one.

  (* ---- flatten / get_flat / get_triple / reshape ---- *)
  Definition flatten (t : tensor) : res tensor :=
    match tdata t with
    | DTriple d =>
        (* `data[0].len() * data[0][0].len()` is evaluated first *)
        match d with
        | (_ :: _) :: _ => Ok (t_single (flat3 d))
        | _ => Panic P_index
        end
    | DSingle d => Ok (t_single d)
    | _ => Panic P_explicit
    end.

  Definition get_flat (t : tensor) : res (list T) :=
    match tdata t with
    | DTriple d => Ok (flat3 d)
    | DSingle d => Ok d
    | _ => Panic P_explicit
    end.

  Definition get_triple (t : tensor) (outputs : shape) : res (vec3 T) :=
    match tdata t with
    | DSingle v =>
        match outputs with
        | STriple c h w => do r <- take_chans c h w v; Ok (fst r)
        | _ => Panic P_explicit
        end
    | DTriple d => Ok d
    | _ => Panic P_explicit
    end.

  Definition reshape (t : tensor) (s : shape) : res tensor :=
    match tshape t, s with
    | SSingle _, SSingle _ => Ok t
    | STriple c h w, STriple c' h' w' =>
        check (c * h * w =? c' * h' * w') else P_explicit;
        do f <- get_flat t;
        do r <- take_chans c' h' w' f;
        Ok (mkT s (DTriple (fst r)))
    | SSingle n, STriple c' h' w' =>
        check (n =? c' * h' * w') else P_explicit;
        do f <- get_flat t;
        do r <- take_chans c' h' w' f;
        Ok (mkT s (DTriple (fst r)))
    | STriple c h w, SSingle n =>
        check (c * h * w =? n) else P_explicit;
        flatten t
    | _, _ => Panic P_explicit
    end.

  (* argmax: `max_by(partial_cmp().unwrap())` returns the LAST maximal element;
     panics on an empty vector and on NaN *)
  Fixpoint argmax_from (l : list T) (i : nat) (best : nat) (bv : T) : res nat :=
    match l with
    | [] => Ok best
    | x :: xs =>
        check (negb (nisnan N x || nisnan N bv)) else P_unwrap;
        if nltb N x bv then argmax_from xs (S i) best bv
        else argmax_from xs (S i) i x
    end.
  Definition argmax (t : tensor) : res nat :=
    match tdata t with
    | DSingle (x :: xs) => argmax_from xs 1 0 x
    | DSingle [] => Panic P_unwrap
    | _ => Panic P_explicit
    end.

  (* ---- element-wise in-place arithmetic ---- *)
  Definition ew2 (f : T -> T -> T) (a b : data) : res data :=
    match a, b with
    | DSingle x, DSingle y => Ok (DSingle (zipk f x y))
    | DDouble x, DDouble y => Ok (DDouble (zipk (zipk f) x y))
    | DTriple x, DTriple y => Ok (DTriple (zipk (zipk (zipk f)) x y))
    | DQuad x, DQuad y => Ok (DQuad (zipk (zipk (zipk (zipk f))) x y))
    | _, _ => Panic P_explicit
    end.

  Definition binop_inplace (f : T -> T -> T) (a b : tensor) : res tensor :=
    check (shape_eqb (tshape a) (tshape b)) else P_shape;
    do d <- ew2 f (tdata a) (tdata b);
    Ok (mkT (tshape a) d).

  Definition add_inplace := binop_inplace (nadd N).
  Definition sub_inplace := binop_inplace (nsub N).
  Definition mul_inplace := binop_inplace (nmul N).
  (* `*a = *a * b * scalar` *)
  Definition hadamard (a b : tensor) (scalar : T) : res tensor :=
    binop_inplace (fun x y => nmul N (nmul N x y) scalar) a b.

  Definition map_data (f : T -> T) (d : data) : data :=
    match d with
    | DSingle x => DSingle (map f x)
    | DDouble x => DDouble (map (map f) x)
    | DTriple x => DTriple (map (map (map f)) x)
    | DQuad x => DQuad (map (map (map (map f))) x)
    end.

  Definition div_scalar_inplace (a : tensor) (s : T) : tensor :=
    mkT (tshape a) (map_data (fun x => ndiv N x s) (tdata a)).

  Definition t_clamp (a : tensor) (lo hi : T) : tensor :=
    mkT (tshape a) (map_data (fun x => clamp x lo hi) (tdata a)).

  (* nested tensors: Data::Nested(Vec<Tensor>) / Data::NestedOptional *)
  Definition add_inplace_nested (a b : list tensor) : res (list tensor) :=
    check (length a =? length b) else P_shape;
    mapM (fun p => add_inplace (fst p) (snd p)) (combine a b).
  Definition add_inplace_nestedopt (a b : list (option tensor)) : res (list (option tensor)) :=
    check (length a =? length b) else P_shape;
    mapM (fun p => match p with
                   | (Some x, Some y) => do z <- add_inplace x y; Ok (Some z)
                   | (x, _) => Ok x
                   end) (combine a b).
  Definition div_scalar_nested (a : list tensor) (s : T) : list tensor :=
    map (fun t => div_scalar_inplace t s) a.

  (* mean_inplace: (val + sum_{others} other[idx]) / (k+1), the sum starting from -0.0 *)
  Definition mean_elem (n : T) (v : T) (os : list T) : T := ndiv N (nadd N v (fsum os)) n.

  Definition mean_inplace (a : tensor) (others : list tensor) : res tensor :=
    check (negb (length others =? 0)) else P_explicit;
    check (forallb (fun o => shape_eqb (tshape a) (tshape o)) others) else P_shape;
    let n := of_nat (length others + 1) in
    match tdata a with
    | DSingle x =>
        do r <- mapM (fun iv =>
                 do os <- mapM (fun o => match tdata o with
                                         | DSingle d => nth_res d (fst iv)
                                         | _ => Panic P_explicit end) others;
                 Ok (mean_elem n (snd iv) os)) (combine (seq 0 (length x)) x);
        Ok (mkT (tshape a) (DSingle r))
    | DDouble x =>
        do r <- mapM (fun ir =>
                 mapM (fun jv =>
                   do os <- mapM (fun o => match tdata o with
                                           | DDouble d => do row <- nth_res d (fst ir); nth_res row (fst jv)
                                           | _ => Panic P_explicit end) others;
                   Ok (mean_elem n (snd jv) os)) (combine (seq 0 (length (snd ir))) (snd ir)))
               (combine (seq 0 (length x)) x);
        Ok (mkT (tshape a) (DDouble r))
    | DTriple x =>
        do r <- mapM (fun ic =>
                 mapM (fun jr =>
                   mapM (fun kv =>
                     do os <- mapM (fun o => match tdata o with
                                             | DTriple d =>
                                                 do ch <- nth_res d (fst ic);
                                                 do row <- nth_res ch (fst jr);
                                                 nth_res row (fst kv)
                                             | _ => Panic P_explicit end) others;
                     Ok (mean_elem n (snd kv) os)) (combine (seq 0 (length (snd jr))) (snd jr)))
                 (combine (seq 0 (length (snd ic))) (snd ic)))
               (combine (seq 0 (length x)) x);
        Ok (mkT (tshape a) (DTriple r))
    | DQuad x =>
        do r <- mapM (fun ia =>
                 mapM (fun ic =>
                   mapM (fun jr =>
                     mapM (fun kv =>
                       do os <- mapM (fun o => match tdata o with
                                               | DQuad d =>
                                                   do cu <- nth_res d (fst ia);
                                                   do ch <- nth_res cu (fst ic);
                                                   do row <- nth_res ch (fst jr);
                                                   nth_res row (fst kv)
                                               | _ => Panic P_explicit end) others;
                       Ok (mean_elem n (snd kv) os)) (combine (seq 0 (length (snd jr))) (snd jr)))
                   (combine (seq 0 (length (snd ic))) (snd ic)))
                 (combine (seq 0 (length (snd ia))) (snd ia)))
               (combine (seq 0 (length x)) x);
        Ok (mkT (tshape a) (DQuad r))
    end.

  (* ---- products ---- *)
  (* outer product: rows from self, columns from other *)
  Definition product (a b : tensor) : res tensor :=
    match tdata a, tdata b with
    | DSingle x, DSingle y =>
        t_double (map (fun u => map (fun v => nmul N u v) y) x)
    | _, _ => Panic P_explicit
    end.

  (* matrix-vector product; each row sum starts from -0.0 *)
  Definition dot (a b : tensor) : res tensor :=
    match tdata a, tdata b with
    | DDouble m, DSingle v => Ok (t_single (map (fun row => fsum (map2 (nmul N) row v)) m))
    | _, _ => Panic P_explicit
    end.

  (* transpose: zero matrix of size cols x rows, then transposed[j][i] = x *)
  Definition transpose (a : tensor) : res tensor :=
    match tdata a with
    | DDouble m =>
        match m with
        | [] => Panic P_index
        | r0 :: _ =>
            let cols := length r0 in
            check (forallb (fun r => length r <=? cols) m) else P_index;
            check (negb (cols =? 0)) else P_index;
            Ok (mkT (SDouble cols (length m))
                    (DDouble (build2 cols (length m) (fun j i => get2 zero m i j))))
        end
    | _ => Panic P_explicit
    end.

  (* ---- dropout: LCG seeded with 12345, one draw per element in row-major order ---- *)
  Definition drop_list (rate : T) (cur : Z) (l : list T) : Z * list T :=
    fold_left (fun (acc : Z * list T) x =>
                 let '(c, v) := generate_wrap N (fst acc) zero one in
                 (c, snd acc ++ [if nltb N v rate then zero else x])) l (cur, []).
  Definition drop_list2 (rate : T) (cur : Z) (l : vec2 T) : Z * vec2 T :=
    fold_left (fun (acc : Z * vec2 T) r =>
                 let '(c, r') := drop_list rate (fst acc) r in (c, snd acc ++ [r'])) l (cur, []).
  Definition drop_list3 (rate : T) (cur : Z) (l : vec3 T) : Z * vec3 T :=
    fold_left (fun (acc : Z * vec3 T) r =>
                 let '(c, r') := drop_list2 rate (fst acc) r in (c, snd acc ++ [r'])) l (cur, []).
  Definition drop_list4 (rate : T) (cur : Z) (l : vec4 T) : Z * vec4 T :=
    fold_left (fun (acc : Z * vec4 T) r =>
                 let '(c, r') := drop_list3 rate (fst acc) r in (c, snd acc ++ [r'])) l (cur, []).
  Definition dropout (a : tensor) (rate : T) : tensor :=
    mkT (tshape a)
      match tdata a with
      | DSingle x => DSingle (snd (drop_list rate 12345 x))
      | DDouble x => DDouble (snd (drop_list2 rate 12345 x))
      | DTriple x => DTriple (snd (drop_list3 rate 12345 x))
      | DQuad x => DQuad (snd (drop_list4 rate 12345 x))
      end.

  (* ---- free functions ---- *)
  (* pad3d: centre `data` in a zero tensor of spatial size `into`; rows/columns that do not
     fit are dropped from the end. `data[0].len()` panics on empty data. *)
  Definition pad3d (x : vec3 T) (ih' iw' : nat) : res (vec3 T) :=
    match x with
    | (r0 :: _) :: _ =>
        let h := hd_len x in
        let w := length r0 in
        let dh := if h <? ih' then (ih' - h) / 2 else 0 in
        let dw := if w <? iw' then (iw' - w) / 2 else 0 in
        Ok (map (fun ch =>
              build2 ih' iw' (fun i j =>
                if (dh <=? i) && (i - dh <? Nat.min (length ch) ih') then
                  let row := nth (i - dh) ch [] in
                  if (dw <=? j) && (j - dw <? Nat.min (length row) iw') then nth (j - dw) row zero
                  else zero
                else zero)) x)
    | _ => Panic P_index
    end.

  Definition hadamard3d (a b : vec3 T) (s : T) : vec3 T :=
    map2 (map2 (map2 (fun e f => nmul N (nmul N e f) s))) a b.

  (* Tensor::random with the clock-derived seed made a parameter *)
  Definition random_tensor (seed : Z) (s : shape) (lo hi : T) : res tensor :=
    match s with
    | SSingle n => Ok (mkT s (DSingle (snd (generate_n N n seed lo hi))))
    | SDouble r c =>
        let vs := snd (generate_n N (r * c) seed lo hi) in
        Ok (mkT s (DDouble (unflat2 r c vs)))
    | STriple c h w =>
        let vs := snd (generate_n N (c * h * w) seed lo hi) in
        Ok (mkT s (DTriple (unflat3 c h w vs)))
    | SQuad a c h w =>
        let vs := snd (generate_n N (a * c * h * w) seed lo hi) in
        Ok (mkT s (DQuad (build1 a (fun i => unflat3 c h w (skipn (i * (c * h * w)) vs)))))
    | SNested _ => Panic P_explicit
    end.
End Tensor.

Arguments mkT {N} tshape tdata.
Arguments DSingle {N} v.
Arguments DDouble {N} v.
Arguments DTriple {N} v.
Arguments DQuad {N} v.
Arguments tshape {N} t.
Arguments tdata {N} t.
