(* C06 — Objective functions return the documented loss and gradient.
   Real-number statements about the model instantiated at NumR; the shape/clamp/rank statements
   are generic in the number structure. *)
From NV Require Import Prelude Num NumR Random Tensor Objective.
From NV.Theory Require Import C06.
Require Import Reals.
From Coquelicot Require Import Coquelicot.
Local Open Scope R_scope.

(* the documented loss formulas (both ranks read the data through the flat view) *)
Theorem C06_loss_AE : forall t p, loss_value NumR AE t p = Rsum (map2 (fun a q => Rabs (a - q)) t p).
Proof. exact loss_formula_AE. Qed.
Print Assumptions C06_loss_AE.
Theorem C06_loss_MAE :
  forall t p, loss_value NumR MAE t p = Rsum (map2 (fun a q => Rabs (a - q)) t p) / INR (length t).
Proof. exact loss_formula_MAE. Qed.
Print Assumptions C06_loss_MAE.
Theorem C06_loss_MSE :
  forall t p, loss_value NumR MSE t p = Rsum (map2 (fun a q => (a - q) * (a - q) / INR (length t)) t p).
Proof. exact loss_formula_MSE. Qed.
Print Assumptions C06_loss_MSE.
Theorem C06_loss_RMSE :
  forall t p, loss_value NumR RMSE t p = sqrt (Rsum (map2 (fun a q => (a - q) * (a - q)) t p) / INR (length t)).
Proof. exact loss_formula_RMSE. Qed.
Print Assumptions C06_loss_RMSE.
Theorem C06_loss_CE :
  forall t p, loss_value NumR CrossEntropy t p = - Rsum (map2 (fun a q => a * ln (clampR q)) t p).
Proof. exact loss_formula_CE. Qed.
Print Assumptions C06_loss_CE.
Theorem C06_loss_BCE :
  forall t p, loss_value NumR BinaryCrossEntropy t p
              = - Rsum (map2 (fun a q => a * ln (clampR q) + (1 - a) * ln (1 - clampR q)) t p).
Proof. exact loss_formula_BCE. Qed.
Print Assumptions C06_loss_BCE.
Theorem C06_loss_KL :
  forall t p, loss_value NumR KLDivergence t p
              = Rsum (map2 (fun a q => if Reqb a 0 then 0 else a * ln (a / clampR q)) t p).
Proof. exact loss_formula_KL. Qed.
Print Assumptions C06_loss_KL.

(* the gradient is the partial derivative of the reported loss with respect to the i-th
   prediction component (position |t1| = |p1|), under exactly the guards the definitions force *)
Theorem C06_gradient_is_derivative_AE :
  forall (t1 t2 p1 p2 : list R) ti, length t1 = length p1 -> forall q, q <> ti ->
    is_derive (fun h => loss_value NumR AE (t1 ++ ti :: t2) (p1 ++ h :: p2)) q
              (grad_fun NumR AE (INR (length (t1 ++ ti :: t2))) ti q).
Proof. exact grad_is_derivative_AE. Qed.
Print Assumptions C06_gradient_is_derivative_AE.
Theorem C06_gradient_is_derivative_MSE :
  forall (t1 t2 p1 p2 : list R) ti, length t1 = length p1 -> forall q,
    INR (length (t1 ++ ti :: t2)) <> 0 ->
    is_derive (fun h => loss_value NumR MSE (t1 ++ ti :: t2) (p1 ++ h :: p2)) q
              (grad_fun NumR MSE (INR (length (t1 ++ ti :: t2))) ti q).
Proof. exact grad_is_derivative_MSE. Qed.
Print Assumptions C06_gradient_is_derivative_MSE.
Theorem C06_gradient_is_derivative_BCE :
  forall (t1 t2 p1 p2 : list R) ti, length t1 = length p1 -> forall q, eps_R < q < 1 - eps_R ->
    is_derive (fun h => loss_value NumR BinaryCrossEntropy (t1 ++ ti :: t2) (p1 ++ h :: p2)) q
              (grad_fun NumR BinaryCrossEntropy (INR (length (t1 ++ ti :: t2))) ti q).
Proof. exact grad_is_derivative_BCE. Qed.
Print Assumptions C06_gradient_is_derivative_BCE.
Theorem C06_gradient_is_derivative_KL :
  forall (t1 t2 p1 p2 : list R) ti, length t1 = length p1 -> forall q, eps_R < q < 1 - eps_R -> 0 <= ti ->
    is_derive (fun h => loss_value NumR KLDivergence (t1 ++ ti :: t2) (p1 ++ h :: p2)) q
              (grad_fun NumR KLDivergence (INR (length (t1 ++ ti :: t2))) ti q).
Proof. exact grad_is_derivative_KL. Qed.
Print Assumptions C06_gradient_is_derivative_KL.

(* the 3-D arm computes the flat arm's numbers in row-major order (any number structure) *)
Theorem C06_rank_independent :
  forall (N : Num) (g : T N -> T N -> T N) (t p : vec3 (T N)),
    Forall2 (fun c1 c2 => Forall2 (fun r1 r2 => length r1 = length r2) c1 c2) t p ->
    flat3 (map2 (map2 (map2 g)) t p) = map2 g (flat3 t) (flat3 p).
Proof. exact grad_rank_independent. Qed.
Print Assumptions C06_rank_independent.

(* with a clamp configured each gradient component is the unclamped value limited to the interval,
   and the loss is unchanged *)
Theorem C06_clamp :
  forall (N : Num) o cl (prediction target : tensor N) l g,
    loss o cl prediction target = Ok (l, g) ->
    exists g0, loss o None prediction target = Ok (l, g0) /\
               match cl with Some (lo, hi) => g = t_clamp g0 lo hi | None => g = g0 end.
Proof. exact clamp_spec. Qed.
Print Assumptions C06_clamp.
