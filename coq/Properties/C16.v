(* C16 — Skip connections combine source and target inputs as configured; the builder never
   discards a connection. Generic in the number structure. The gradient clause of the property is
   not a theorem: it was false of the code (seven classes, repaired by fix commit 5ea5be1, see
   known_findings.json) and is decided by the finite-difference falsifier; see DESIGN.md D2. *)
From NV Require Import Prelude Num Random Tensor Activation Objective Optimizer Layers Network.
From NV.Theory Require Import Forward C16 C17.

Theorem C16_connect_keeps_earlier_connections :
  forall (N : Num) (n n' : network N) (a b : nat),
         add_connect n a b = Ok n' ->
         (forall k v : nat, alist_get (n_connect n) k = Some v -> alist_get (n_connect n') k = Some v) /\
         alist_get (n_connect n') b = Some a /\
         alist_get (n_connect n) b = None /\
         n_layers n' = n_layers n /\ n_loopbacks n' = n_loopbacks n /\ n_skipacc n' = n_skipacc n.
Proof. exact @connect_keeps_earlier. Qed.
Print Assumptions C16_connect_keeps_earlier_connections.

Theorem C16_connect_rejects_second_connection_into_a_target :
  forall (N : Num) (n : network N) (a b : nat),
         alist_mem (n_connect n) b = true -> exists c : nat, add_connect n a b = Panic c.
Proof. exact @connect_rejects_second_into_same_target. Qed.
Print Assumptions C16_connect_rejects_second_connection_into_a_target.

Theorem C16_connect_accepts :
  forall (N : Num) (n : network N) (a b : nat) (lf lt0 : layer N) (cnt : nat),
         a <= b ->
         b < length (n_layers n) ->
         alist_get (n_connect n) b = None ->
         nth_error (n_layers n) a = Some lf ->
         nth_error (n_layers n) b = Some lt0 ->
         connect_count lf true = Ok cnt ->
         connect_count lt0 false = Ok cnt ->
         exists n' : network N, add_connect n a b = Ok n' /\ n_connect n' = alist_set (n_connect n) b a.
Proof. exact @connect_accepts. Qed.
Print Assumptions C16_connect_accepts.

Theorem C16_any_accepted_sequence_keeps_all :
  forall (N : Num) (pairs : list (nat * nat)) (n n' : network N),
         foldM (fun (m : network N) (ab : nat * nat) => add_connect m (fst ab) (snd ab)) pairs n = Ok n' ->
         (forall k v : nat, alist_get (n_connect n) k = Some v -> alist_get (n_connect n') k = Some v) /\
         (forall ab : nat * nat, In ab pairs -> alist_get (n_connect n') (snd ab) = Some (fst ab)).
Proof. exact @connects_all_kept. Qed.
Print Assumptions C16_any_accepted_sequence_keeps_all.

Theorem C16_forward_combines_target_input_with_source_input :
  forall (N : Num) (n : network N) (x : tensor N),
         n_loopbacks n = [] -> (do f <- forward n x; Ok (fw_post f)) = skip_forward n x.
Proof. exact @forward_with_skips. Qed.
Print Assumptions C16_forward_combines_target_input_with_source_input.

Theorem C16_specification_step :
  forall (N : Num) (n : network N) (acts : list (tensor N)) (i : nat) (l : layer N),
         skip_step n acts (i, l) =
         (do x0 <- match last_opt acts with
                   | Some t => Ok t
                   | None => Panic P_unwrap
                   end;
          do x <-
          match alist_get (n_connect n) i with
          | Some src => do s0 <- nth_res acts src; skip_combine (n_skipacc n) x0 s0
          | None => Ok x0
          end; do y <- layer_out l x; Ok (acts ++ [y])).
Proof. exact @skip_step_unfold. Qed.
Print Assumptions C16_specification_step.

Theorem C16_specification_combination :
  forall (N : Num) (acc : accumulation) (x0 s0 : tensor N),
         skip_combine acc x0 s0 =
         (do s <- (if shape_eqb (tshape s0) (tshape x0) then Ok s0 else reshape s0 (tshape x0));
          match acc with
          | AccAdd => add_inplace x0 s
          | AccSub => sub_inplace x0 s
          | AccMul => mul_inplace x0 s
          | AccOverwrite => Ok s
          | AccMean => mean_inplace x0 [s]
          end).
Proof. exact @skip_combine_unfold. Qed.
Print Assumptions C16_specification_combination.

