(* C05 — Results are independent of thread count and scheduling (the part that is logic).
   Every parallel region of the model is an ordered parallel map; a schedule is the tree along
   which rayon splits the work. What the model cannot exhibit: the rayon implementation itself,
   data races (excluded by Rust's typing), and HashMap iteration order. *)
From NV Require Import Prelude Num NumF32 Random Tensor Activation Objective Optimizer Layers Network Learn.
From NV.Theory Require Import Monad Chunks Par.

(* an ordered collect along ANY split tree is the sequential map *)
Theorem C05_par_collect_det :
  forall A B (s : sched) (f : A -> B) xs, par_collect s f xs = map f xs.
Proof. exact par_collect_det. Qed.
Print Assumptions C05_par_collect_det.

(* training (losses, accuracies, final weights) does not depend on the schedules *)
Theorem C05_learn_schedule_independent :
  forall (N : Num) (pick1 pick2 : forall A, list A -> sched) (n : network N) xs ts val batch epochs,
    learn (sched_pmap pick1) n xs ts val batch epochs = learn (sched_pmap pick2) n xs ts val batch epochs.
Proof.
  intros. apply learn_inv; apply sched_pmap_ordered.
Qed.
Print Assumptions C05_learn_schedule_independent.

Theorem C05_validate_schedule_independent :
  forall (N : Num) (pick1 pick2 : forall A, list A -> sched) (n : network N) xs ts tol,
    validate (sched_pmap pick1) n xs ts tol = validate (sched_pmap pick2) n xs ts tol.
Proof. intros. apply validate_inv; apply sched_pmap_ordered. Qed.
Print Assumptions C05_validate_schedule_independent.

Theorem C05_predict_batch_schedule_independent :
  forall (N : Num) (pick1 pick2 : forall A, list A -> sched) (n : network N) xs,
    predict_batch (sched_pmap pick1) n xs = predict_batch (sched_pmap pick2) n xs.
Proof. intros. apply predict_batch_inv; apply sched_pmap_ordered. Qed.
Print Assumptions C05_predict_batch_schedule_independent.

(* contrast (non-vacuity): a binary32 sum reduced along the split tree DOES depend on the tree *)
Example C05_tree_reduce_differs :
  f_to_bits (par_reduce Leaf f_add (f_of_Z 0) tr_xs)
  <> f_to_bits (par_reduce (Split 1 Leaf Leaf) f_add (f_of_Z 0) tr_xs).
Proof. exact tree_reduce_differs. Qed.

(* one thread: every schedule gives the results of the purely sequential run (seq_pmap = map) *)
Theorem C05_learn_equals_sequential :
  forall (N : Num) (pick : forall A, list A -> sched) (n : network N) xs ts val batch epochs,
    learn (sched_pmap pick) n xs ts val batch epochs = learn seq_pmap n xs ts val batch epochs.
Proof. intros. apply learn_inv; [apply sched_pmap_ordered | intros A B f l; reflexivity]. Qed.
Print Assumptions C05_learn_equals_sequential.

Theorem C05_validate_equals_sequential :
  forall (N : Num) (pick : forall A, list A -> sched) (n : network N) xs ts tol,
    validate (sched_pmap pick) n xs ts tol = validate seq_pmap n xs ts tol.
Proof. intros. apply validate_inv; [apply sched_pmap_ordered | intros A B f l; reflexivity]. Qed.
Print Assumptions C05_validate_equals_sequential.

Theorem C05_predict_batch_equals_sequential :
  forall (N : Num) (pick : forall A, list A -> sched) (n : network N) xs,
    predict_batch (sched_pmap pick) n xs = predict_batch seq_pmap n xs.
Proof. intros. apply predict_batch_inv; [apply sched_pmap_ordered | intros A B f l; reflexivity]. Qed.
Print Assumptions C05_predict_batch_equals_sequential.
