(* C01 — Backpropagated gradients are the true derivatives of the objective.
   Three layers of statements, for every configuration (any stride, padding, dilation, kernel and
   input extents, channel and filter counts):
   (1) *_backward_spec / *_closed_form: what the model's backward pass returns, cell by cell
       (any number structure);
   (2) *_cell_R: over the reals those cells are the operators of Theory/Adjoint.v;
   (3) *_reverse_mode: for differentiable curves of parameters and inputs the derivative of
       <g, activation(layer output)> is the pairing of the tangents with exactly those operators,
       i.e. the returned weight/kernel/bias gradients are the partial derivatives and the gradient
       handed to the preceding layer is the derivative with respect to the layer input;
   reverse_accumulation composes any sequence of such layers with the objective; the soft-max /
   cross-entropy pair is treated separately. *)
From NV Require Import Prelude Num NumR Random Tensor Activation Layers.
From NV.Theory Require Import Lists RSum Adjoint Deriv Chain C01 Forward PoolDeriv.
Require Import Reals.
From Coquelicot Require Import Coquelicot.
Import ListNotations.
Local Open Scope list_scope.
Local Open Scope R_scope.

Theorem C01_dense_backward_closed_form :
  forall (N : Num) (l : dense N) (gradient input output dert : tensor N) (k : nat)
           (gv dv xv : vec1 (T N)) (m : vec2 (T N)) (r0 : list (T N)),
         tshape gradient = SSingle k ->
         tdata gradient = DSingle gv ->
         match d_act l with
         | ReLU => act_backward ReLU output
         | LeakyReLU => act_backward LeakyReLU output
         | Sigmoid => act_backward Sigmoid output
         | Softmax => ones N (tshape output)
         | Tanh => act_backward Tanh output
         | Linear => act_backward Linear output
         end = Ok dert ->
         tshape dert = SSingle k ->
         tdata dert = DSingle dv ->
         tdata input = DSingle xv ->
         tdata (d_weights l) = DDouble m ->
         m = r0 :: tl m ->
         r0 <> [] ->
         List.Forall (fun r : list (T N) => length r = length r0) m ->
         let delta := zipk (fun x y : T N => nmul N (nmul N x y) (scale N (d_loops l))) dv gv in
         let dt := {| tshape := SSingle k; tdata := DSingle delta |} in
         dense_backward l gradient input output =
         (do wg <- t_double N (map (fun u : T N => map (fun v : T N => nmul N u v) xv) delta);
          Ok
            (t_single N
               (map (fun row : list (T N) => fsum (map2 (nmul N) row delta))
                  (build2 (length r0) (length m) (fun j i : nat => get2 Num.zero m i j))), wg,
             match d_bias l with
             | Some _ => Some dt
             | None => None
             end)).
Proof. exact @dense_backward_spec. Qed.
Print Assumptions C01_dense_backward_closed_form.

Theorem C01_dense_input_gradient_entry :
  forall (m : vec2 R) (delta : list R) (o n j : nat),
         length delta = o ->
         (j < n)%nat ->
         nth j
           (map (fun row : list R => fsum (N:=NumR) (map2 Rmult row delta))
              (build2 n o (fun j0 i : nat => get2 z0 m i j0))) 0 =
         bsum o (fun i : nat => get2 z0 m i j * nth i delta 0).
Proof. exact @dense_ig_entry_R. Qed.
Print Assumptions C01_dense_input_gradient_entry.

Theorem C01_dense_weight_gradient_entry :
  forall (delta xv : list R) (i j : nat),
         (i < length delta)%nat ->
         (j < length xv)%nat ->
         get2 z0 (map (fun u : R => map (fun v : R => u * v) xv) delta) i j = nth i delta 0 * nth j xv 0.
Proof. exact @dense_wg_entry_R. Qed.
Print Assumptions C01_dense_weight_gradient_entry.

Theorem C01_dense_gradients_are_derivatives :
  forall (o n : nat) (W : R -> nat -> nat -> R) (B X : R -> nat -> R)
           (W' : nat -> nat -> R_NormedModule) (B' X' : nat -> R_NormedModule) (h0 : R_AbsRing) 
           (g : nat -> R) (phi phi' : R -> R),
         (forall i j : nat, (i < o)%nat -> (j < n)%nat -> is_derive (fun t : R_AbsRing => W t i j) h0 (W' i j)) ->
         (forall i : nat, (i < o)%nat -> is_derive (fun t : R_AbsRing => B t i) h0 (B' i)) ->
         (forall j : nat, (j < n)%nat -> is_derive (fun t : R_AbsRing => X t j) h0 (X' j)) ->
         (forall i : nat,
          (i < o)%nat -> is_derive phi (affR n (W h0) (B h0) (X h0) i) (phi' (affR n (W h0) (B h0) (X h0) i))) ->
         let D := fun i : nat => g i * phi' (affR n (W h0) (B h0) (X h0) i) in
         is_derive (fun t : R_AbsRing => bsum o (fun i : nat => g i * phi (affR n (W t) (B t) (X t) i))) h0
           (bsum o (fun i : nat => bsum n (fun j : nat => W' i j * (D i * X h0 j))) +
            bsum o (fun i : nat => B' i * D i) +
            bsum n (fun j : nat => X' j * bsum o (fun i : nat => W h0 i j * D i))).
Proof. exact @dense_reverse_mode. Qed.
Print Assumptions C01_dense_gradients_are_derivatives.

Theorem C01_conv_backward_cells :
  forall (N : Num) (l : conv N) (gradient input output : tensor N) (gg : vec3 (T N)) 
           (der0 : tensor N) (der inp : vec3 (T N)) (ih iw oh ow : nat) (ks : list (vec3 (T N)))
           (kf kc kh kw : nat),
         get_triple gradient (c_outputs l) = Ok gg ->
         act_backward (c_act l) output = Ok der0 ->
         get_triple der0 (c_outputs l) = Ok der ->
         let delta := hadamard3d N gg der (scale N (c_loops l)) in
         get_triple input (c_inputs l) = Ok inp ->
         xdims N inp = Ok (ih, iw) ->
         xdims N delta = Ok (oh, ow) ->
         mapM (kernel_data (N:=N)) (c_kernels l) = Ok ks ->
         kdims N ks = Ok (kf, kc, kh, kw) ->
         (kf <= length delta)%nat ->
         (kc <= length inp)%nat ->
         conv_backward l gradient input output =
         (do igt <-
          t_triple N
            (build3 kc ih iw
               (conv_ig_cell N delta ks kf oh ow kh kw (fst (c_stride l)) (snd (c_stride l))
                  (fst (c_dilation l)) (snd (c_dilation l)) (fst (c_padding l)) (snd (c_padding l))));
          do kgt <-
          t_quad N
            (build4 kf kc kh kw
               (conv_kg_cell N delta inp oh ow ih iw (fst (c_stride l)) (snd (c_stride l)) 
                  (fst (c_dilation l)) (snd (c_dilation l)) (fst (c_padding l)) (snd (c_padding l))));
          Ok (igt, kgt, None)).
Proof. exact @conv_backward_spec. Qed.
Print Assumptions C01_conv_backward_cells.

Theorem C01_conv_forward_cell_R :
  forall (stride dilation padding : nat * nat) (d : vec3 R) (ks : vec4 R) (ih iw kc kh kw f oy ox : nat),
         Conv.corr_cell NumR stride dilation (Conv.xpad NumR d ih iw (fst padding) (snd padding)) ks kc kh kw f
           oy ox =
         convR (fst stride) (snd stride) (fst dilation) (snd dilation) (fst padding) 
           (snd padding) kc kh kw ih iw (get4 z0 ks) (get3 z0 d) f oy ox.
Proof. exact @conv_cell_is_convR. Qed.
Print Assumptions C01_conv_forward_cell_R.

Theorem C01_conv_input_gradient_cell_R :
  forall (delta : vec3 R) (ks : vec4 R) (kf oh ow kh kw sh sw dh dw ph pw c y x : nat),
         conv_ig_cell NumR delta ks kf oh ow kh kw sh sw dh dw ph pw c y x =
         conv_igR sh sw dh dw ph pw kf kh kw oh ow (get3 z0 delta) (get4 z0 ks) c y x.
Proof. exact @conv_ig_cell_R. Qed.
Print Assumptions C01_conv_input_gradient_cell_R.

Theorem C01_conv_kernel_gradient_cell_R :
  forall (delta inp : vec3 R) (oh ow ih iw sh sw dh dw ph pw f c h w : nat),
         conv_kg_cell NumR delta inp oh ow ih iw sh sw dh dw ph pw f c h w =
         conv_kgR sh sw dh dw ph pw ih iw oh ow (get3 z0 delta) (get3 z0 inp) f c h w.
Proof. exact @conv_kg_cell_R. Qed.
Print Assumptions C01_conv_kernel_gradient_cell_R.

Theorem C01_conv_input_gradient_is_transpose :
  forall s1 s2 d1 d2 p1 p2 kf kc kh kw ih iw oh ow : nat,
         (0 < d1)%nat ->
         (0 < d2)%nat ->
         forall (D : nat -> nat -> nat -> R) (K : nat -> nat -> nat -> nat -> R) (X : nat -> nat -> nat -> R),
         bsum3 kf oh ow (fun f oy ox : nat => D f oy ox * convR s1 s2 d1 d2 p1 p2 kc kh kw ih iw K X f oy ox) =
         bsum3 kc ih iw (fun c y x : nat => X c y x * conv_igR s1 s2 d1 d2 p1 p2 kf kh kw oh ow D K c y x).
Proof. exact @conv_adjoint_input. Qed.
Print Assumptions C01_conv_input_gradient_is_transpose.

Theorem C01_conv_kernel_gradient_is_transpose :
  forall (s1 s2 d1 d2 p1 p2 kf kc kh kw ih iw oh ow : nat) (D : nat -> nat -> nat -> R)
           (K' : nat -> nat -> nat -> nat -> R) (X : nat -> nat -> nat -> R),
         bsum3 kf oh ow (fun f oy ox : nat => D f oy ox * convR s1 s2 d1 d2 p1 p2 kc kh kw ih iw K' X f oy ox) =
         bsum kf
           (fun f : nat =>
            bsum3 kc kh kw (fun c h w : nat => K' f c h w * conv_kgR s1 s2 d1 d2 p1 p2 ih iw oh ow D X f c h w)).
Proof. exact @conv_adjoint_kernel. Qed.
Print Assumptions C01_conv_kernel_gradient_is_transpose.

Theorem C01_conv_gradients_are_derivatives :
  forall s1 s2 d1 d2 p1 p2 kf kc kh kw ih iw oh ow : nat,
         (0 < d1)%nat ->
         (0 < d2)%nat ->
         forall (K : R -> nat -> nat -> nat -> nat -> R) (X : R -> nat -> nat -> nat -> R)
           (K' : nat -> nat -> nat -> nat -> R_NormedModule) (X' : nat -> nat -> nat -> R_NormedModule)
           (h0 : R_AbsRing) (g : nat -> nat -> nat -> R) (phi phi' : R -> R),
         (forall f c h w : nat,
          (f < kf)%nat ->
          (c < kc)%nat ->
          (h < kh)%nat -> (w < kw)%nat -> is_derive (fun t : R_AbsRing => K t f c h w) h0 (K' f c h w)) ->
         (forall c y x : nat,
          (c < kc)%nat ->
          (y < ih)%nat -> (x < iw)%nat -> is_derive (fun t : R_AbsRing => X t c y x) h0 (X' c y x)) ->
         (forall f oy ox : nat,
          (f < kf)%nat ->
          (oy < oh)%nat ->
          (ox < ow)%nat ->
          is_derive phi (convR s1 s2 d1 d2 p1 p2 kc kh kw ih iw (K h0) (X h0) f oy ox)
            (phi' (convR s1 s2 d1 d2 p1 p2 kc kh kw ih iw (K h0) (X h0) f oy ox))) ->
         let D :=
           fun f oy ox : nat => g f oy ox * phi' (convR s1 s2 d1 d2 p1 p2 kc kh kw ih iw (K h0) (X h0) f oy ox)
           in
         is_derive
           (fun t : R_AbsRing =>
            bsum3 kf oh ow
              (fun f oy ox : nat =>
               g f oy ox * phi (convR s1 s2 d1 d2 p1 p2 kc kh kw ih iw (K t) (X t) f oy ox))) h0
           (bsum kf
              (fun f : nat =>
               bsum3 kc kh kw
                 (fun c h w : nat => K' f c h w * conv_kgR s1 s2 d1 d2 p1 p2 ih iw oh ow D (X h0) f c h w)) +
            bsum3 kc ih iw
              (fun c y x : nat => X' c y x * conv_igR s1 s2 d1 d2 p1 p2 kf kh kw oh ow D (K h0) c y x)).
Proof. exact @conv_reverse_mode. Qed.
Print Assumptions C01_conv_gradients_are_derivatives.

Theorem C01_deconv_backward_cells :
  forall (N : Num) (l : deconv N) (gradient input output : tensor N) (gg : vec3 (T N)) 
           (der0 : tensor N) (der inp : vec3 (T N)) (ih iw oh ow : nat) (ks : list (vec3 (T N)))
           (kf kc kh kw : nat),
         get_triple gradient (dc_outputs l) = Ok gg ->
         act_backward (dc_act l) output = Ok der0 ->
         get_triple der0 (dc_outputs l) = Ok der ->
         let delta := hadamard3d N gg der (scale N (dc_loops l)) in
         get_triple input (dc_inputs l) = Ok inp ->
         xdims N inp = Ok (ih, iw) ->
         xdims N delta = Ok (oh, ow) ->
         mapM (kernel_data (N:=N)) (dc_kernels l) = Ok ks ->
         kdims N ks = Ok (kf, kc, kh, kw) ->
         (kf <= length delta)%nat ->
         (kc <= length inp)%nat ->
         deconv_backward l gradient input output =
         (do igt <-
          t_triple N
            (build3 kc ih iw
               (deconv_ig_cell N delta ks kf kh kw oh ow (fst (dc_stride l)) (snd (dc_stride l))
                  (fst (dc_padding l)) (snd (dc_padding l))));
          do kgt <-
          t_quad N
            (build4 kf kc kh kw
               (deconv_kg_cell N delta inp ih iw oh ow (fst (dc_stride l)) (snd (dc_stride l))
                  (fst (dc_padding l)) (snd (dc_padding l)))); Ok (igt, kgt, None)).
Proof. exact @deconv_backward_spec. Qed.
Print Assumptions C01_deconv_backward_cells.

Theorem C01_deconv_forward_cell_R :
  forall (stride padding : nat * nat) (x : vec3 R) (ks : vec4 R) (kc ih iw kh kw k oi oj : nat),
         deconv_cell NumR stride padding x ks kc ih iw kh kw k oi oj =
         deconvR (fst stride) (snd stride) (fst padding) (snd padding) kc kh kw ih iw 
           (get4 z0 ks) (get3 z0 x) k oi oj.
Proof. exact @deconv_cell_is_deconvR. Qed.
Print Assumptions C01_deconv_forward_cell_R.

Theorem C01_deconv_input_gradient_cell_R :
  forall (delta : vec3 R) (ks : vec4 R) (kf kh kw oh ow sh sw ph pw c h w : nat),
         deconv_ig_cell NumR delta ks kf kh kw oh ow sh sw ph pw c h w =
         deconv_igR sh sw ph pw kf kh kw oh ow (get3 z0 delta) (get4 z0 ks) c h w.
Proof. exact @deconv_ig_cell_R. Qed.
Print Assumptions C01_deconv_input_gradient_cell_R.

Theorem C01_deconv_kernel_gradient_cell_R :
  forall (delta inp : vec3 R) (ih iw oh ow sh sw ph pw f c i j : nat),
         deconv_kg_cell NumR delta inp ih iw oh ow sh sw ph pw f c i j =
         deconv_kgR sh sw ph pw ih iw oh ow (get3 z0 delta) (get3 z0 inp) f c i j.
Proof. exact @deconv_kg_cell_R. Qed.
Print Assumptions C01_deconv_kernel_gradient_cell_R.

Theorem C01_deconv_gradients_are_derivatives :
  forall (s1 s2 p1 p2 kf kc kh kw ih iw oh ow : nat) (K : R -> nat -> nat -> nat -> nat -> R)
           (X : R -> nat -> nat -> nat -> R) (K' : nat -> nat -> nat -> nat -> R_NormedModule)
           (X' : nat -> nat -> nat -> R_NormedModule) (h0 : R_AbsRing) (g : nat -> nat -> nat -> R)
           (phi phi' : R -> R),
         (forall f c h w : nat,
          (f < kf)%nat ->
          (c < kc)%nat ->
          (h < kh)%nat -> (w < kw)%nat -> is_derive (fun t : R_AbsRing => K t f c h w) h0 (K' f c h w)) ->
         (forall c y x : nat,
          (c < kc)%nat ->
          (y < ih)%nat -> (x < iw)%nat -> is_derive (fun t : R_AbsRing => X t c y x) h0 (X' c y x)) ->
         (forall k oi oj : nat,
          (k < kf)%nat ->
          (oi < oh)%nat ->
          (oj < ow)%nat ->
          is_derive phi (deconvR s1 s2 p1 p2 kc kh kw ih iw (K h0) (X h0) k oi oj)
            (phi' (deconvR s1 s2 p1 p2 kc kh kw ih iw (K h0) (X h0) k oi oj))) ->
         let D :=
           fun k oi oj : nat => g k oi oj * phi' (deconvR s1 s2 p1 p2 kc kh kw ih iw (K h0) (X h0) k oi oj) in
         is_derive
           (fun t : R_AbsRing =>
            bsum3 kf oh ow
              (fun k oi oj : nat => g k oi oj * phi (deconvR s1 s2 p1 p2 kc kh kw ih iw (K t) (X t) k oi oj)))
           h0
           (bsum kc
              (fun c : nat =>
               bsum3 kf kh kw
                 (fun f i j : nat => K' f c i j * deconv_kgR s1 s2 p1 p2 ih iw oh ow D (X h0) f c i j)) +
            bsum3 kc ih iw (fun c h w : nat => X' c h w * deconv_igR s1 s2 p1 p2 kf kh kw oh ow D (K h0) c h w)).
Proof. exact @deconv_reverse_mode. Qed.
Print Assumptions C01_deconv_gradients_are_derivatives.

Theorem C01_maxpool_backward_cells :
  forall (N : Num) (l : maxpool N) (gradient : tensor N) (mx : maxidx) (ic ih iw : nat)
           (og : vec3 (T N)) (oh ow : nat),
         m_inputs l = STriple ic ih iw ->
         get_triple gradient (m_outputs l) = Ok og ->
         xdims N og = Ok (oh, ow) ->
         (ic <= length mx)%nat ->
         (ic <= length og)%nat ->
         (forall (c h w : nat) (p : nat * nat),
          (c < ic)%nat ->
          (h < oh)%nat ->
          (w < ow)%nat -> In p (nth w (nth h (nth c mx []) []) []) -> (fst p < ih)%nat /\ (snd p < iw)%nat) ->
         maxpool_backward l gradient mx =
         t_triple N (build3 ic ih iw (pool_ig_cell N og mx oh ow (ndiv N Num.one (m_loops l)))).
Proof. exact @maxpool_backward_spec. Qed.
Print Assumptions C01_maxpool_backward_cells.

Theorem C01_maxpool_input_gradient_cell_R :
  forall (og : vec3 R) (mx : maxidx) (oh ow : nat) (iy ix : nat -> nat -> nat -> nat) (c a b : nat),
         (forall h w : nat,
          (h < oh)%nat -> (w < ow)%nat -> nth w (nth h (nth c mx []) []) [] = ((iy c h w, ix c h w) :: nil)) ->
         pool_ig_cell NumR og mx oh ow (1 / 1) c a b = pool_igR oh ow (get3 z0 og) iy ix c a b.
Proof. exact @pool_ig_cell_R. Qed.
Print Assumptions C01_maxpool_input_gradient_cell_R.

Theorem C01_maxpool_gradient_is_derivative :
  forall (kc ih iw oh ow : nat) (X : R -> nat -> nat -> nat -> R)
           (X' : nat -> nat -> nat -> R_NormedModule) (Y : R -> nat -> nat -> nat -> R) 
           (h0 : R_AbsRing) (g : nat -> nat -> nat -> R) (iy ix : nat -> nat -> nat -> nat),
         (forall c y x : nat,
          (c < kc)%nat ->
          (y < ih)%nat -> (x < iw)%nat -> is_derive (fun t : R_AbsRing => X t c y x) h0 (X' c y x)) ->
         (forall c oy ox : nat,
          (c < kc)%nat ->
          (oy < oh)%nat ->
          (ox < ow)%nat ->
          (iy c oy ox < ih)%nat /\
          (ix c oy ox < iw)%nat /\
          locally h0 (fun t : AbsRing_UniformSpace R_AbsRing => Y t c oy ox = X t c (iy c oy ox) (ix c oy ox))) ->
         is_derive (fun t : R_AbsRing => bsum3 kc oh ow (fun c oy ox : nat => g c oy ox * Y t c oy ox)) h0
           (bsum3 kc ih iw (fun c a b : nat => X' c a b * pool_igR oh ow g iy ix c a b)).
Proof. exact @pool_reverse_mode. Qed.
Print Assumptions C01_maxpool_gradient_is_derivative.

Theorem C01_delta_cell :
  forall (N : Num) (a b : vec3 (T N)) (s : T N) (c h w k i j : nat),
         rect3 c h w a ->
         rect3 c h w b ->
         (k < c)%nat ->
         (i < h)%nat ->
         (j < w)%nat ->
         get3 Num.zero (hadamard3d N a b s) k i j =
         nmul N (nmul N (get3 Num.zero a k i j) (get3 Num.zero b k i j)) s.
Proof. exact @hadamard3d_cell. Qed.
Print Assumptions C01_delta_cell.

Theorem C01_softmax_cross_entropy_gradient :
  forall (n : nat) (Z : R -> nat -> R) (Z' : nat -> R_NormedModule) (h0 : R_AbsRing) (tg : nat -> R),
         (0 < n)%nat ->
         bsum n tg = 1 ->
         (forall i : nat, (i < n)%nat -> is_derive (fun t : R_AbsRing => Z t i) h0 (Z' i)) ->
         is_derive (fun t : R_AbsRing => ce_smR n tg (Z t)) h0
           (bsum n (fun i : nat => Z' i * (smR n (Z h0) i - tg i))).
Proof. exact @softmax_ce_gradient. Qed.
Print Assumptions C01_softmax_cross_entropy_gradient.

Theorem C01_reverse_layer_walk_composes :
  forall (nw : net) (d : nat) (X : R -> vec) (X' : vec) (h0 : R) (Lf : vec -> R) (gL : vec -> vec),
         chained nw d ->
         all_ok nw X h0 ->
         dvec d X h0 X' ->
         (forall (Y : R -> vec) (Y' : vec),
          dvec (last_dim nw d) Y h0 Y' ->
          is_derive (fun t : R_AbsRing => Lf (Y t)) h0 (dotp (last_dim nw d) (gL (Y h0)) Y')) ->
         let
         '(gin, gps) := reverse nw X h0 gL in
          is_derive (fun t : R_AbsRing => Lf (run nw X t)) h0 (param_pairing nw gps + dotp d gin X').
Proof. exact @reverse_accumulation. Qed.
Print Assumptions C01_reverse_layer_walk_composes.


Theorem C01_maxpool_forward_cell_gradient_is_derivative_away_from_ties :
  forall (kc ih iw oh ow kh kw sh sw : nat) (Xd : R -> vec3 R) (X' : nat -> nat -> nat -> R)
           (h0 : R_AbsRing) (g : nat -> nat -> nat -> R) (iy ix : nat -> nat -> nat -> nat),
         (forall c y x : nat,
          (c < kc)%nat ->
          (y < ih)%nat -> (x < iw)%nat -> is_derive (fun t : R_AbsRing => get3 z0 (Xd t) c y x) h0 (X' c y x)) ->
         (forall c oy ox : nat,
          (c < kc)%nat ->
          (oy < oh)%nat ->
          (ox < ow)%nat ->
          let m := (iy c oy ox, ix c oy ox) in
          (iy c oy ox < ih)%nat /\
          (ix c oy ox < iw)%nat /\
          In m (window kh kw (oy * sh) (ox * sw)) /\
          (forall q : nat * nat,
           In q (window kh kw (oy * sh) (ox * sw)) -> (fst q < ih)%nat /\ (snd q < iw)%nat) /\
          nfmin NumR < get3 z0 (Xd h0) c (fst m) (snd m) /\
          (forall q : nat * nat,
           In q (window kh kw (oy * sh) (ox * sw)) ->
           q <> m -> get3 z0 (Xd h0) c (fst q) (snd q) < get3 z0 (Xd h0) c (fst m) (snd m))) ->
         is_derive
           (fun t : R_AbsRing =>
            bsum3 kc oh ow
              (fun c oy ox : nat => g c oy ox * fst (pool_cell NumR (Xd t) (kh, kw) c (oy * sh) (ox * sw)))) h0
           (bsum3 kc ih iw (fun c a b : nat => X' c a b * pool_igR oh ow g iy ix c a b)).
Proof. exact @maxpool_gradient_is_derivative. Qed.
Print Assumptions C01_maxpool_forward_cell_gradient_is_derivative_away_from_ties.

