(* C16, gradient clause, on the MODEL's own functions: for a dense network with one additive skip
   connection a -> b (a < b; any depth, widths, parameter values, bias on/off, relu / leaky relu /
   sigmoid / tanh / linear) under the mean-squared error, Network.forward records the tensors of
   the skip network (layer b processes its ordinary input plus the input of layer a),
   Network.backward - the walk repaired by fix 5ea5be1 - returns the gradients skip_grads, and these
   are the derivative of the loss that Learn.sample_grad returns, along every differentiable curve
   of all weights and biases. *)
From NV Require Import Prelude Num NumR Random Tensor Activation Objective Optimizer Layers Network Learn.
From NV.Theory Require Import RSum Chain ChainDense NetDeriv NetDerivObj NetDerivSkip NetDerivSkipModel.
Require Import Reals List.
From Coquelicot Require Import Coquelicot.
Import ListNotations.
Local Open Scope list_scope.
Local Open Scope R_scope.

Theorem C16_dense_chain_is_a_vector_valued_stage :
  forall (cs : curves) (d : nat) (X : R -> list R) (X' : vec) (h0 : R) (m : nat),
         chainedS (at_t cs h0) d ->
         (forall t : R, length (X t) = d) ->
         dvec d (fun t : R => vof (X t)) h0 X' ->
         curves_ok cs h0 ->
         smoothL (at_t cs h0) (X h0) ->
         m = lastD (at_t cs h0) d ->
         exists Y' : vec,
           dvec m (fun t : R => vof (predL (at_t cs t) (X t))) h0 Y' /\
           (forall g : list R,
            length g = m ->
            let
            '(gin, gps, _) := gradsL (at_t cs h0) (X h0) g in
             dotp m (vof g) Y' = pairing cs gps + dotp d (vof gin) X').
Proof. exact @chain_contract. Qed.
Print Assumptions C16_dense_chain_is_a_vector_valued_stage.

Theorem C16_skip_walk_is_the_derivative :
  forall (cpre cmid cpost : curves) (cb : lspec * (R -> vec) * vec) (d : nat) 
           (xl : list R) (h0 : R) (m : nat) (Lf : list R -> R) (gL : list R -> list R),
         let da := lastD (at_t cpre h0) d in
         chainedS (at_t cpre h0) d ->
         length xl = d ->
         chainedS (at_t cmid h0) da ->
         lastD (at_t cmid h0) da = da ->
         chainedS (at_t (cb :: cpost) h0) da ->
         m = lastD (at_t (cb :: cpost) h0) da ->
         curves_ok cpre h0 ->
         curves_ok cmid h0 ->
         curves_ok (cb :: cpost) h0 ->
         let xa := predL (at_t cpre h0) xl in
         let xb := predL (at_t cmid h0) xa in
         smoothL (at_t cpre h0) xl ->
         smoothL (at_t cmid h0) xa ->
         smoothL (at_t (cb :: cpost) h0) (addL xb xa) ->
         (forall (Y : R -> list R) (Y' : vec),
          (forall t : R, length (Y t) = m) ->
          dvec m (fun t : R => vof (Y t)) h0 Y' ->
          is_derive (fun t : R_AbsRing => Lf (Y t)) h0 (dotp m (vof (gL (Y h0))) Y')) ->
         (forall y : list R, length y = m -> length (gL y) = m) ->
         let pred :=
           fun t : R => skip_pred (at_t cpre t) (at_t cmid t) (at_t cpost t) (fst (fst cb), snd (fst cb) t) xl
           in
         let
         '(gps_pre, gps_mid, gps_bp) :=
          skip_grads (at_t cpre h0) (at_t cmid h0) (at_t cpost h0) (fst (fst cb), snd (fst cb) h0) xl
            (gL (pred h0)) in
          is_derive (fun t : R_AbsRing => Lf (pred t)) h0
            (pairing cpre gps_pre + pairing cmid gps_mid + pairing (cb :: cpost) gps_bp).
Proof. exact @skip_walk_is_derivative. Qed.
Print Assumptions C16_skip_walk_is_the_derivative.

Theorem C16_model_forward_with_one_additive_skip :
  forall (pre mid post : list (lspec * vec)) (lb : lspec * vec) (n : network NR),
         n_layers n = map mkL (pre ++ mid ++ lb :: post) ->
         n_loopbacks n = [] ->
         n_connect n = (((length pre + length mid)%nat, length pre) :: nil) ->
         n_skipacc n = AccAdd ->
         mid <> [] ->
         forall (d : nat) (xl : list R),
         length xl = d ->
         chainedS pre d ->
         chainedS mid (lastD pre d) ->
         lastD mid (lastD pre d) = lastD pre d ->
         chainedS (lb :: post) (lastD pre d) ->
         forward n (t_single NR xl) =
         Ok
           {|
             fw_pre := map (t_single NR) (stored_pres pre mid post lb xl);
             fw_post := map (t_single NR) (stored_inputs pre mid post lb xl ++ (skip_out pre mid post lb xl :: nil));
             fw_max := repeat None (length (pre ++ mid ++ lb :: post));
             fw_fb := []
           |}.
Proof. exact @forward_skip. Qed.
Print Assumptions C16_model_forward_with_one_additive_skip.

Theorem C16_model_backward_with_one_additive_skip :
  forall (pre mid' post : list (lspec * vec)) (sa sb : lspec) (tha thb : vec) (n : network NR),
         n_layers n = map mkL (pre ++ ((sa, tha) :: mid') ++ (sb, thb) :: post) ->
         n_connect n = (((length pre + length ((sa, tha) :: mid'))%nat, length pre) :: nil) ->
         n_skipacc n = AccAdd ->
         forall (d : nat) (xl gl : list R),
         length xl = d ->
         chainedS pre d ->
         chainedS ((sa, tha) :: mid') (lastD pre d) ->
         lastD ((sa, tha) :: mid') (lastD pre d) = lastD pre d ->
         chainedS ((sb, thb) :: post) (lastD pre d) ->
         length gl = lastD ((sb, thb) :: post) (lastD pre d) ->
         forall f : fwd NR,
         fw_pre f = map (t_single NR) (stored_pres pre ((sa, tha) :: mid') post (sb, thb) xl) ->
         fw_post f =
         map (t_single NR)
           (stored_inputs pre ((sa, tha) :: mid') post (sb, thb) xl ++
            (skip_out pre ((sa, tha) :: mid') post (sb, thb) xl :: nil)) ->
         fw_max f = repeat None (length (pre ++ ((sa, tha) :: mid') ++ (sb, thb) :: post)) ->
         let
         '(gps_pre, gps_mid, gps_bp) := skip_grads pre ((sa, tha) :: mid') post (sb, thb) xl gl in
          exists gs : list (tensor NR),
            backward n (t_single NR gl) f =
            Ok
              (ws_of (pre ++ ((sa, tha) :: mid') ++ (sb, thb) :: post) (gps_pre ++ gps_mid ++ gps_bp),
               bs_of (pre ++ ((sa, tha) :: mid') ++ (sb, thb) :: post) (gps_pre ++ gps_mid ++ gps_bp), gs).
Proof. exact @backward_skip. Qed.
Print Assumptions C16_model_backward_with_one_additive_skip.

Theorem C16_model_gradient_with_additive_skip_is_the_derivative :
  forall (cpre cmid' cpost : curves) (sa sb : lspec) (Tha Thb : R -> vec) (Tha' Thb' : vec)
           (n0 : network NR),
         n_loopbacks n0 = [] ->
         n_connect n0 = (((length cpre + length ((sa, Tha, Tha') :: cmid'))%nat, length cpre) :: nil) ->
         n_skipacc n0 = AccAdd ->
         n_objective n0 = (MSE, None) ->
         forall (d : nat) (xl tgl : list R) (h0 : R),
         length xl = d ->
         chainedS (at_t cpre h0) d ->
         chainedS (at_t ((sa, Tha, Tha') :: cmid') h0) (lastD (at_t cpre h0) d) ->
         lastD (at_t ((sa, Tha, Tha') :: cmid') h0) (lastD (at_t cpre h0) d) = lastD (at_t cpre h0) d ->
         chainedS (at_t ((sb, Thb, Thb') :: cpost) h0) (lastD (at_t cpre h0) d) ->
         length tgl = lastD (at_t ((sb, Thb, Thb') :: cpost) h0) (lastD (at_t cpre h0) d) ->
         (0 < length tgl)%nat ->
         curves_ok cpre h0 ->
         curves_ok ((sa, Tha, Tha') :: cmid') h0 ->
         curves_ok ((sb, Thb, Thb') :: cpost) h0 ->
         smoothL (at_t cpre h0) xl ->
         smoothL (at_t ((sa, Tha, Tha') :: cmid') h0) (predL (at_t cpre h0) xl) ->
         smoothL (at_t ((sb, Thb, Thb') :: cpost) h0)
           (addL (predL (at_t ((sa, Tha, Tha') :: cmid') h0) (predL (at_t cpre h0) xl))
              (predL (at_t cpre h0) xl)) ->
         exists gps_pre gps_mid gps_bp : list vec,
           sample_grad (skip_net_at cpre cmid' cpost sa sb Tha Thb Tha' n0 h0)
             (t_single NR xl, t_single NR tgl) =
           Ok
             (ws_of (at_t cpre h0 ++ at_t ((sa, Tha, Tha') :: cmid') h0 ++ (sb, Thb h0) :: at_t cpost h0)
                (gps_pre ++ gps_mid ++ gps_bp),
              bs_of (at_t cpre h0 ++ at_t ((sa, Tha, Tha') :: cmid') h0 ++ (sb, Thb h0) :: at_t cpost h0)
                (gps_pre ++ gps_mid ++ gps_bp),
              mseR (length tgl) (vof tgl)
                (vof
                   (skip_pred (at_t cpre h0) (at_t ((sa, Tha, Tha') :: cmid') h0) (at_t cpost h0) (
                      sb, Thb h0) xl))) /\
           (forall t : R,
            loss_of
              (sample_grad (skip_net_at cpre cmid' cpost sa sb Tha Thb Tha' n0 t)
                 (t_single NR xl, t_single NR tgl)) =
            mseR (length tgl) (vof tgl)
              (vof (skip_pred (at_t cpre t) (at_t ((sa, Tha, Tha') :: cmid') t) (at_t cpost t) (sb, Thb t) xl))) /\
           is_derive
             (fun t : R_AbsRing =>
              loss_of
                (sample_grad (skip_net_at cpre cmid' cpost sa sb Tha Thb Tha' n0 t)
                   (t_single NR xl, t_single NR tgl))) h0
             (pairing cpre gps_pre + pairing ((sa, Tha, Tha') :: cmid') gps_mid +
              pairing ((sb, Thb, Thb') :: cpost) gps_bp).
Proof. exact @skip_model_gradient. Qed.
Print Assumptions C16_model_gradient_with_additive_skip_is_the_derivative.

Theorem C16_skip_gradient_theorem_applies :
  forall (th0 th1 th2 d0 d1 d2 : vec) (x1 x2 y : R),
         let s0 := {| ls_o := 2; ls_n := 2; ls_act := Sigmoid; ls_bias := true |} in
         let s1 := {| ls_o := 2; ls_n := 2; ls_act := Tanh; ls_bias := true |} in
         let s2 := {| ls_o := 1; ls_n := 2; ls_act := Linear; ls_bias := false |} in
         let cpre := ((s0, fun (t : R) (i : nat) => th0 i + t * d0 i, d0) :: nil) in
         let n0 :=
           {|
             n_input := SSingle 2;
             n_layers := [];
             n_loopbacks := [];
             n_loopacc := AccMean;
             n_connect := ((2%nat, 1%nat) :: nil);
             n_skipacc := AccAdd;
             n_optimizer := default_sgd NR;
             n_objective := (MSE, None)
           |} in
         exists gps_pre gps_mid gps_bp : list vec,
           is_derive
             (fun t : R_AbsRing =>
              loss_of
                (sample_grad
                   (skip_net_at cpre [] [] s1 s2 (fun (t0 : R) (i : nat) => th1 i + t0 * d1 i)
                      (fun (t0 : R) (i : nat) => th2 i + t0 * d2 i) d1 n0 t)
                   (t_single NR [x1; x2], t_single NR (y :: nil)))) 0
             (pairing cpre gps_pre + pairing ((s1, fun (t : R) (i : nat) => th1 i + t * d1 i, d1) :: nil) gps_mid +
              pairing ((s2, fun (t : R) (i : nat) => th2 i + t * d2 i, d2) :: nil) gps_bp).
Proof. exact @skip_model_gradient_applies. Qed.
Print Assumptions C16_skip_gradient_theorem_applies.

