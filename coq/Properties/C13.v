(* C13 — Early stopping and the returned histories obey their contract.
   The statements hold for the generic training loop: arbitrary per-sample, accumulate, step and
   validate functions, i.e. for every validation-loss trajectory, tolerance and epoch budget. *)
From NV Require Import Prelude Num NumF32 Random Tensor Activation Objective Optimizer Layers Network Learn.
From NV.Theory Require Import Monad Chunks Par Training.

(* The test executed after each epoch, in closed form: more than T epochs have run and in the
   window of the last T recorded validation losses no loss is <= the one before it. *)
Theorem C13_stop_rule :
  forall (N : Num) Tn epoch (vl : list (T N)),
    0 < Tn -> ((Z.of_nat Tn < epoch)%Z -> Tn <= length vl) ->
    should_stop N (Some (Z.of_nat Tn)) epoch vl = Ok (stop_at N Tn epoch vl).
Proof. exact should_stop_closed. Qed.
Print Assumptions C13_stop_rule.

(* Lengths of the three histories; training stops early only if the rule holds at the last epoch
   run; the rule did not hold at any earlier epoch (so training never continues past the first
   epoch at which it holds). n = number of epochs actually run. *)
Theorem C13_contract :
  forall (N : Num) (pmap : pmap_t) (S X G : Type)
         (sample : S -> X -> res (G * T N)) (gadd : G -> G -> res G) (step : Z -> S -> G -> res S)
         (valid : S -> res (S * (T N * T N))) fuel e0 hv th bs s h s' h',
    epochs_loop pmap sample gadd step valid fuel e0 hv th bs s h = Ok (s', h') ->
    exists n,
      n <= fuel /\
      length (h_train h') = length (h_train h) + n /\
      firstn (length (h_vloss h)) (h_vloss h') = h_vloss h /\
      (if hv then length (h_vloss h') = length (h_vloss h) + n /\ length (h_vacc h') = length (h_vacc h) + n
       else h_vloss h' = h_vloss h /\ h_vacc h' = h_vacc h) /\
      (n < fuel -> 0 < n /\ should_stop N th (e0 + Z.of_nat n - 1) (h_vloss h') = Ok true) /\
      (forall k, Datatypes.S k < n ->
         should_stop N th (e0 + Z.of_nat k)
                     (firstn (length (h_vloss h) + (if hv then Datatypes.S k else 0)) (h_vloss h')) = Ok false).
Proof. exact epochs_loop_contract. Qed.
Print Assumptions C13_contract.

(* Without validation data every epoch runs and no validation history is produced. *)
Theorem C13_no_validation_runs_all :
  forall (N : Num) (pmap : pmap_t) (S X G : Type)
         (sample : S -> X -> res (G * T N)) (gadd : G -> G -> res G) (step : Z -> S -> G -> res S)
         (valid : S -> res (S * (T N * T N))) fuel e0 bs s h s' h',
    epochs_loop pmap sample gadd step valid fuel e0 false None bs s h = Ok (s', h') ->
    length (h_train h') = length (h_train h) + fuel /\ h_vloss h' = h_vloss h /\ h_vacc h' = h_vacc h.
Proof. exact no_validation_runs_all. Qed.
Print Assumptions C13_no_validation_runs_all.

(* Non-vacuity on binary32: with T = 2 the rising trajectory 1,2,3 stops after epoch 3, the
   plateau 1,2,2 does not, and nothing stops while epoch <= T. *)
Example C13_nonvacuous :
  let N := NumF32 libm_none in
  let f := f_of_Z in
  (stop_at N 2 3 [f 1; f 2; f 3], stop_at N 2 3 [f 1; f 2; f 2], stop_at N 2 2 [f 1; f 2],
   stop_at N 3 4 [f 5; f 1; f 2; f 3], stop_at N 3 4 [f 1; f 3; f 2; f 4])%Z
  = (true, false, false, true, false).
Proof. vm_compute. reflexivity. Qed.

(* A NaN training loss is no way of stopping early: the mini-batch in which a sample's loss is NaN panics
   (nothing is returned, no shortened history), and every mini-batch that returns has seen no NaN loss. *)
Theorem C13_nan_training_loss_aborts :
  forall (N : Num) (pmap : pmap_t) (S X G : Type) (sample : S -> X -> res (G * T N))
         (gadd : G -> G -> res G) (step : Z -> S -> G -> res S) epoch (s : S) (group : list X) rs,
    sequence (pmap _ _ (sample s) group) = Ok rs ->
    existsb (fun r => nisnan N (snd r)) rs = true ->
    exists c, run_batch N pmap sample gadd step epoch s group = Panic c.
Proof. exact run_batch_nan_aborts. Qed.
Print Assumptions C13_nan_training_loss_aborts.

Theorem C13_returning_batch_saw_no_nan :
  forall (N : Num) (pmap : pmap_t) (S X G : Type) (sample : S -> X -> res (G * T N))
         (gadd : G -> G -> res G) (step : Z -> S -> G -> res S) epoch (s s' : S) (group : list X) l,
    run_batch N pmap sample gadd step epoch s group = Ok (s', l) ->
    exists rs, sequence (pmap _ _ (sample s) group) = Ok rs /\
               forallb (fun r => negb (nisnan N (snd r))) rs = true.
Proof. exact run_batch_ok_no_nan. Qed.
Print Assumptions C13_returning_batch_saw_no_nan.
