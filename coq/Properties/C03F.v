(* C03, binary32 part: the operand of the square root of centred RMSprop, max(velocity - mean^2, 0), has a
   square root that is never NaN for ANY binary32 value of the difference (NaN, infinities, negatives included). *)
From NV Require Import Prelude Num NumF32 Optimizer.
From NV.Theory Require Import C03F32.
From Flocq Require Import Core BinarySingleNaN.

Theorem C03_centred_rmsprop_square_root_never_nan_F32 :
  forall (L : Libm) (x : f32), is_nan (f_sqrt (@fmax (NumF32 L) x zero)) = false.
Proof. exact @sqrt_of_clamped_is_not_nan. Qed.
Print Assumptions C03_centred_rmsprop_square_root_never_nan_F32.

