(* C12 — validate and predict_batch are faithful aggregations of predict. *)
From NV Require Import Prelude Num NumF32 Random Tensor Activation Objective Optimizer Layers Network Learn.
From NV.Theory Require Import Monad Chunks Par Training SetAct.

(* predict_batch = predict of each input, in input order, for any number of inputs and any
   ordered parallel map (the 64-element chunking is invisible in the result). *)
Theorem C12_predict_batch_spec :
  forall (N : Num) (p : pmap_t), pmap_ordered p ->
    forall (n : network N) xs, predict_batch p n xs = mapM (predict n) xs.
Proof. exact predict_batch_spec. Qed.
Print Assumptions C12_predict_batch_spec.

(* validate = arithmetic means (sum from -0.0, divided by the count) over the samples, in order,
   of the loss of the prediction and of the per-sample accuracy. *)
Theorem C12_validate_spec :
  forall (N : Num) (p : pmap_t), pmap_ordered p ->
    forall (n : network N) xs ts tol, length xs = length ts ->
    validate p n xs ts tol =
    (let '(ls, training) := validate_clear (n_layers n) false in
     let n1 := set_layers n ls in
     do rs <- mapM (validate_sample n1 tol) (combine xs ts);
     let n2 := if training then set_all_training true n1 else n1 in
     let len := of_nat (length rs) in
     Ok (n2, (ndiv N (fsum (map fst rs)) len, ndiv N (fsum (map snd rs)) len))).
Proof. exact validate_spec. Qed.
Print Assumptions C12_validate_spec.

(* predict is the final activation of forward. *)
Theorem C12_predict_is_last_activation :
  forall (N : Num) (n : network N) x,
    predict n x = do f <- forward n x; match last_opt (fw_post f) with Some t => Ok t | None => Panic P_unwrap end.
Proof. exact predict_is_last_activation. Qed.
Print Assumptions C12_predict_is_last_activation.

(* The per-sample accuracy rule is read from the OUTPUT layer at every call: after set_activation on the
   output layer it is arg-max agreement exactly when the NEW activation is soft-max, the tolerance band
   otherwise - whatever activation the layer was created with. *)
Theorem C12_accuracy_rule_follows_current_output_activation :
  forall (N : Num) (n n' : network N) (i : nat) (a : activation) (d : dense N) (tol : T N) (p t : tensor N),
    set_activation n i a = Ok n' -> length (n_layers n) = S i ->
    nth_error (n_layers n) i = Some (LDense d) ->
    accuracy n' tol p t =
    match a with
    | Softmax => do x <- argmax t; do y <- argmax p; Ok (if x =? y then one else zero)
    | _ => do tf <- get_flat t; do pf <- get_flat p;
           if length tf =? 1 then
             do p0 <- nth_res pf 0; do t0 <- nth_res tf 0; Ok (if abs_lt N p0 t0 tol then one else zero)
           else Ok (ndiv N (fsum (map2 (fun ti pi_ => if abs_lt N ti pi_ tol then one else zero) tf pf))
                          (of_nat (length tf)))
    end.
Proof. exact set_activation_accuracy. Qed.
Print Assumptions C12_accuracy_rule_follows_current_output_activation.

(* set_activation changes the activation of the addressed layer and nothing else *)
Theorem C12_set_activation_changes_one_activation_only :
  forall (N : Num) (n n' : network N) (i : nat) (a : activation),
    set_activation n i a = Ok n' ->
    exists l l', nth_error (n_layers n) i = Some l /\ with_act l a = Some l' /\
                 n_layers n' = set_nth (n_layers n) i l' /\
                 n_loopbacks n' = n_loopbacks n /\ n_connect n' = n_connect n /\
                 n_optimizer n' = n_optimizer n /\ n_objective n' = n_objective n /\
                 n_skipacc n' = n_skipacc n /\ n_loopacc n' = n_loopacc n /\ n_input n' = n_input n.
Proof. exact set_activation_spec. Qed.
Print Assumptions C12_set_activation_changes_one_activation_only.

(* predict_batch position by position: as many results as inputs, the i-th result is the prediction
   of the i-th input *)
Theorem C12_predict_batch_is_positional :
  forall (N : Num) (p : pmap_t), pmap_ordered p ->
    forall (n : network N) (xs ys : list (tensor N)),
    predict_batch p n xs = Ok ys ->
    length ys = length xs /\
    forall i x, nth_error xs i = Some x -> exists y, nth_error ys i = Some y /\ predict n x = Ok y.
Proof. exact @predict_batch_positional. Qed.
Print Assumptions C12_predict_batch_is_positional.

(* predict_batch succeeds whenever every single prediction does: batching adds no failure *)
Theorem C12_predict_batch_adds_no_failure :
  forall (N : Num) (p : pmap_t), pmap_ordered p ->
    forall (n : network N) (xs : list (tensor N)),
    (forall x, In x xs -> exists y, predict n x = Ok y) -> exists ys, predict_batch p n xs = Ok ys.
Proof. exact @predict_batch_succeeds_when_each_predict_does. Qed.
Print Assumptions C12_predict_batch_adds_no_failure.
