(* C12 — validate and predict_batch are faithful aggregations of predict. *)
From NV Require Import Prelude Num NumF32 Random Tensor Activation Objective Optimizer Layers Network Learn.
From NV.Theory Require Import Monad Chunks Par Training.

(* predict_batch = predict of each input, in input order, for any number of inputs and any
   ordered parallel map (the 64-element chunking is invisible in the result). *)
Theorem C12_predict_batch_spec :
  forall (N : Num) (p : pmap_t), pmap_ordered p ->
    forall (n : network N) xs, predict_batch p n xs = mapM (predict n) xs.
Proof. exact predict_batch_spec. Qed.
Print Assumptions C12_predict_batch_spec.

(* validate = arithmetic means (sum from -0.0, divided by the count) over the samples, in order,
   of the loss of the prediction and of the per-sample accuracy. *)
Theorem C12_validate_spec :
  forall (N : Num) (p : pmap_t), pmap_ordered p ->
    forall (n : network N) xs ts tol, length xs = length ts ->
    validate p n xs ts tol =
    (let '(ls, training) := validate_clear (n_layers n) false in
     let n1 := set_layers n ls in
     do rs <- mapM (validate_sample n1 tol) (combine xs ts);
     let n2 := if training then set_all_training true n1 else n1 in
     let len := of_nat (length rs) in
     Ok (n2, (ndiv N (fsum (map fst rs)) len, ndiv N (fsum (map snd rs)) len))).
Proof. exact validate_spec. Qed.
Print Assumptions C12_validate_spec.

(* predict is the final activation of forward. *)
Theorem C12_predict_is_last_activation :
  forall (N : Num) (n : network N) x,
    predict n x = do f <- forward n x; match last_opt (fw_post f) with Some t => Ok t | None => Panic P_unwrap end.
Proof. exact predict_is_last_activation. Qed.
Print Assumptions C12_predict_is_last_activation.
