(* C07 — Activations: defined function, exact derivative; soft-max is a shift-invariant
   probability vector. Real-number statements about the model instantiated at NumR (the same
   generic definitions that, instantiated at binary32, are tied to the Rust code). *)
From NV Require Import Prelude Num NumR Random Tensor Activation.
From NV.Theory Require Import C07.
Require Import Reals.
From Coquelicot Require Import Coquelicot.
Local Open Scope R_scope.

Theorem C07_sigmoid_definition : forall x, sigmoid_f NumR x = 1 / (1 + exp (- x)).
Proof. exact sigmoid_def. Qed.
Print Assumptions C07_sigmoid_definition.
Theorem C07_sigmoid_derivative : forall x, is_derive (sigmoid_f NumR) x (sigmoid_b NumR x).
Proof. exact sigmoid_derive. Qed.
Print Assumptions C07_sigmoid_derivative.
Theorem C07_sigmoid_range : forall x, 0 < sigmoid_f NumR x < 1.
Proof. exact sigmoid_range. Qed.
Print Assumptions C07_sigmoid_range.

Theorem C07_tanh_derivative : forall x, is_derive (tanh_f NumR) x (tanh_b NumR x).
Proof. exact tanh_derive. Qed.
Print Assumptions C07_tanh_derivative.

Theorem C07_relu_definition : forall x, relu_f NumR x = Rmax 0 x.
Proof. exact relu_is_max. Qed.
Print Assumptions C07_relu_definition.
Theorem C07_relu_derivative :
  forall x, x <> 0 -> is_derive (relu_f NumR) x (relu_b NumR x).
Proof.
  intros x Hx. destruct (Rtotal_order x 0) as [H|[H|H]]; [apply relu_derive_neg; exact H|contradiction|apply relu_derive_pos; exact H].
Qed.
Print Assumptions C07_relu_derivative.

Theorem C07_leaky_definition :
  forall x, leaky_f NumR x = if Rlt_dec 0 x then x else (1 / 100) * x.
Proof. exact leaky_def. Qed.
Print Assumptions C07_leaky_definition.
Theorem C07_leaky_derivative :
  forall x, x <> 0 -> is_derive (leaky_f NumR) x (leaky_b NumR x).
Proof.
  intros x Hx. destruct (Rtotal_order x 0) as [H|[H|H]]; [apply leaky_derive_neg; exact H|contradiction|apply leaky_derive_pos; exact H].
Qed.
Print Assumptions C07_leaky_derivative.

(* soft-max: closed form (the subtracted maximum cancels), non-negative, sums to one, invariant
   under adding a constant to all inputs, for every non-empty vector *)
Theorem C07_softmax_closed_form :
  forall x : list R, x <> [] -> softmax_list NumR x = map (fun v => exp v / Rsum (map exp x)) x.
Proof. exact softmax_closed_form. Qed.
Print Assumptions C07_softmax_closed_form.
Theorem C07_softmax_nonneg :
  forall x : list R, x <> [] -> List.Forall (fun p => 0 <= p) (softmax_list NumR x).
Proof. exact softmax_nonneg. Qed.
Print Assumptions C07_softmax_nonneg.
Theorem C07_softmax_sums_to_one : forall x : list R, x <> [] -> Rsum (softmax_list NumR x) = 1.
Proof. exact softmax_sums_to_one. Qed.
Print Assumptions C07_softmax_sums_to_one.
Theorem C07_softmax_shift_invariant :
  forall (x : list R) c, x <> [] -> softmax_list NumR (map (fun v => v + c) x) = softmax_list NumR x.
Proof. exact softmax_shift_invariant. Qed.
Print Assumptions C07_softmax_shift_invariant.
