(* C10 — Feedback blocks keep their repeated layers weight-tied.
   The statements hold for every block layer list, loop count, accumulation, optimizer (the
   proof uses nothing about the optimizer step), gradients and history of updates. *)
From NV Require Import Prelude Num NumF32 Random Tensor Activation Objective Optimizer Layers Network Learn.
From NV.Theory Require Import Monad C10.

(* All unrolled repetitions hold identical parameters when the block is created, and the
   bookkeeping invariant (pairwise disjoint couples of same-kind layers) holds. *)
Theorem C10_create_tied :
  forall (N : Num) layers loops inskips outskips acc (b : feedback N),
    feedback_create layers loops inskips outskips acc = Ok b -> wfb b /\ Tied b.
Proof. exact create_tied. Qed.
Print Assumptions C10_create_tied.

(* One training step re-establishes tying without assuming it beforehand. *)
Theorem C10_update_tied :
  forall (N : Num) (b b' : feedback N) stepnr wgs bgs,
    wfb b -> feedback_update b stepnr wgs bgs = Ok b' -> wfb b' /\ Tied b'.
Proof. exact update_tied. Qed.
Print Assumptions C10_update_tied.

(* After any number of training steps with any gradients the block is tied. *)
Theorem C10_tied_forever :
  forall (N : Num) (b : feedback N) (steps : list (Z * list (tensor N) * list (option (tensor N)))) b',
    wfb b -> Tied b ->
    foldM (fun blk (s : Z * list (tensor N) * list (option (tensor N))) =>
             feedback_update blk (fst (fst s)) (snd (fst s)) (snd s)) steps b = Ok b' ->
    wfb b' /\ Tied b'.
Proof. exact tied_forever. Qed.
Print Assumptions C10_tied_forever.

(* The reported parameter count sums one repetition only (the first |coupled| layers). *)
Theorem C10_parameters_counts_once :
  forall (N : Num) (b : feedback N),
    feedback_parameters b =
    foldM (fun acc idx => do l <- nth_res (f_layers b) idx; do p <- blayer_parameters l; Ok (acc + p))
          (seq 0 (length (f_coupled b))) 0.
Proof. exact parameters_counts_once. Qed.
Print Assumptions C10_parameters_counts_once.

(* Network level: one training step of the whole network (Network::update, any layer mix, any
   gradients) leaves every feedback block of the network tied. *)
Theorem C10_network_update_keeps_blocks_tied :
  forall (N : Num) (n n' : network N) stepnr wgs bgs,
    blocks (@wfb N) (n_layers n) -> update n stepnr wgs bgs = Ok n' ->
    blocks (fun b => wfb b /\ Tied b) (n_layers n').
Proof. exact net_update_tied. Qed.
Print Assumptions C10_network_update_keeps_blocks_tied.

(* ... and so does any history of network training steps *)
Theorem C10_network_blocks_tied_forever :
  forall (N : Num) (n n' : network N) (steps : list (Z * list (grad N) * list (option (bgrad N)))),
    blocks (fun b => wfb b /\ Tied b) (n_layers n) ->
    foldM (fun m (s : Z * list (grad N) * list (option (bgrad N))) =>
             update m (fst (fst s)) (snd (fst s)) (snd s)) steps n = Ok n' ->
    blocks (fun b => wfb b /\ Tied b) (n_layers n').
Proof. exact net_tied_forever. Qed.
Print Assumptions C10_network_blocks_tied_forever.

(* learn itself: for every data set, batch size, epoch budget, optimizer, with or without validation
   data, run to the end or stopped early - if learn returns, every feedback block of the returned
   network is well-formed and tied (blocks made by feedback_create satisfy the premise: C10_create_tied) *)
Theorem C10_learn_keeps_blocks_tied :
  forall (N : Num) p (n n' : network N) xs ts val batch epochs h,
    blocks (fun b => wfb b /\ Tied b) (n_layers n) ->
    learn p n xs ts val batch epochs = Ok (n', h) ->
    blocks (fun b => wfb b /\ Tied b) (n_layers n').
Proof. exact learn_keeps_blocks_tied. Qed.
Print Assumptions C10_learn_keeps_blocks_tied.
