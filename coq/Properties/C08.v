(* C08 — Announced layer shapes equal produced shapes; transitions lose nothing. Generic in the
   number structure unless the statement names NumF32 (binary32). *)
From NV Require Import Prelude Num NumF32 Random Tensor Activation Objective Optimizer Layers Network.
From NV.Theory Require Import Lists Build Conv Forward Shapes ShapesF32.
Require Import ZArith.

Theorem C08_conv_size_formula :
  forall i k s p d o : nat,
         conv_out1 i k s p d = Ok o ->
         0 < k /\ 0 < s /\ (k - 1) * d + 1 <= i + 2 * p /\ o = out_len (i + 2 * p) k s d.
Proof. exact @conv_out1_ok. Qed.
Print Assumptions C08_conv_size_formula.

Theorem C08_deconv_size_formula :
  forall i k s p o : nat,
         deconv_out1 i k s p = Ok o -> 0 < i /\ 2 * p <= (i - 1) * s + k /\ o = (i - 1) * s + k - 2 * p.
Proof. exact @deconv_out1_ok. Qed.
Print Assumptions C08_deconv_size_formula.

Theorem C08_pool_size_formula :
  forall i k s o : nat, pool_out1 i k s = Ok o -> k <= i /\ 0 < s /\ o = (i - k) / s + 1.
Proof. exact @pool_out1_ok. Qed.
Print Assumptions C08_pool_size_formula.

Theorem C08_conv_announced_is_produced :
  forall (N : Num) (seeds : nat -> Z) (inputs : shape) (filters : nat) (a : activation)
           (kernel stride padding dilation : nat * nat) (dropout : option (T N)) (l : conv N) 
           (x : tensor N) (d : list (list (list (T N)))) (pre post : tensor N),
         conv_create N seeds inputs filters a kernel stride padding dilation dropout = Ok l ->
         0 < filters ->
         (exists ic ih iw : nat, c_inputs l = STriple ic ih iw /\ rect3 ic ih iw d /\ 0 < ic /\ 0 < ih) ->
         tdata x = DTriple d -> conv_forward l x = Ok (pre, post) -> tshape pre = c_outputs l.
Proof. exact @conv_announced_is_produced. Qed.
Print Assumptions C08_conv_announced_is_produced.

Theorem C08_deconv_announced_is_produced :
  forall (N : Num) (seeds : nat -> Z) (inputs : shape) (filters : nat) (a : activation)
           (kernel stride padding : nat * nat) (dropout : option (T N)) (l : deconv N) 
           (x : tensor N) (d : list (list (list (T N)))) (pre post : tensor N),
         deconv_create N seeds inputs filters a kernel stride padding dropout = Ok l ->
         0 < filters ->
         0 < fst kernel ->
         (exists ic ih iw : nat, dc_inputs l = STriple ic ih iw /\ rect3 ic ih iw d /\ 0 < ic) ->
         tdata x = DTriple d -> deconv_forward l x = Ok (pre, post) -> tshape pre = dc_outputs l.
Proof. exact @deconv_announced_is_produced. Qed.
Print Assumptions C08_deconv_announced_is_produced.

Theorem C08_maxpool_announced_is_produced :
  forall (N : Num) (inputs : shape) (kernel stride : nat * nat) (l : maxpool N) 
           (x : tensor N) (d : list (list (list (T N)))) (pre post : tensor N) (mx : maxidx),
         maxpool_create N inputs kernel stride = Ok l ->
         (exists c ih iw : nat, m_inputs l = STriple c ih iw /\ rect3 c ih iw d /\ 0 < c /\ 0 < ih) ->
         tdata x = DTriple d -> maxpool_forward l x = Ok (pre, post, mx) -> tshape pre = m_outputs l.
Proof. exact @maxpool_announced_is_produced. Qed.
Print Assumptions C08_maxpool_announced_is_produced.

Theorem C08_dense_announced_is_produced :
  forall (N : Num) (seeds : nat -> Z) (i o : nat) (a : activation) (bias : bool)
           (dropout : option (T N)) (l : dense N) (x pre post : tensor N),
         dense_create N seeds (SSingle i) (SSingle o) a bias dropout = Ok l ->
         dense_forward l x = Ok (pre, post) -> d_outputs l = SSingle o /\ tshape pre = SSingle o.
Proof. exact @dense_announced_is_produced. Qed.
Print Assumptions C08_dense_announced_is_produced.

Theorem C08_conv_layer_follows_previous_output :
  forall (N : Num) (seeds : nat -> Z) (n : network N) (filters : nat)
           (kernel stride padding dilation : nat * nat) (a : activation) (dropout : option (T N))
           (n' : network N),
         add_conv seeds n filters kernel stride padding dilation a dropout = Ok n' ->
         exists (l : conv N) (ic : nat),
           n_layers n' = n_layers n ++ [LConv l] /\
           spatial_inputs N (prev_shape n) = Ok (c_inputs l, ic) /\
           conv_output_size N (c_inputs l) filters kernel stride padding dilation = Ok (c_outputs l).
Proof. exact @add_conv_chains. Qed.
Print Assumptions C08_conv_layer_follows_previous_output.

Theorem C08_deconv_layer_follows_previous_output :
  forall (N : Num) (seeds : nat -> Z) (n : network N) (filters : nat)
           (kernel stride padding : nat * nat) (a : activation) (dropout : option (T N)) 
           (n' : network N),
         add_deconv seeds n filters kernel stride padding a dropout = Ok n' ->
         exists (l : deconv N) (ic : nat),
           n_layers n' = n_layers n ++ [LDeconv l] /\
           spatial_inputs N (prev_shape n) = Ok (dc_inputs l, ic) /\
           deconv_output_size N (dc_inputs l) filters kernel stride padding = Ok (dc_outputs l).
Proof. exact @add_deconv_chains. Qed.
Print Assumptions C08_deconv_layer_follows_previous_output.

Theorem C08_maxpool_layer_follows_previous_output :
  forall (N : Num) (n : network N) (kernel stride : nat * nat) (n' : network N),
         add_maxpool n kernel stride = Ok n' ->
         exists l : maxpool N,
           n_layers n' = n_layers n ++ [LMaxpool l] /\ maxpool_create N (prev_shape n) kernel stride = Ok l.
Proof. exact @add_maxpool_chains. Qed.
Print Assumptions C08_maxpool_layer_follows_previous_output.

Theorem C08_dense_after_spatial_flattens :
  forall (N : Num) (seeds : nat -> Z) (n : network N) (outputs : nat) (a : activation) 
           (bias : bool) (dropout : option (T N)) (n' : network N) (p : conv N) (rest : list (layer N))
           (c h w : nat),
         n_layers n = rest ++ [LConv p] ->
         c_outputs p = STriple c h w ->
         add_dense seeds n outputs a bias dropout = Ok n' ->
         exists l : dense N,
           n_layers n' = rest ++ [LConv (set_c_flatten p); LDense l] /\
           d_inputs l = SSingle (c * h * w) /\ d_outputs l = SSingle outputs.
Proof. exact @add_dense_after_conv_chains. Qed.
Print Assumptions C08_dense_after_spatial_flattens.

Theorem C08_flatten_is_row_major :
  forall (N : Num) (t : tensor N) (d : vec3 (T N)) (r : list (T N)) (ch : list (list (T N)))
           (rest : list (list (list (T N)))),
         tdata t = DTriple d ->
         d = (r :: ch) :: rest ->
         flatten t = Ok {| tshape := SSingle (length (flat3 d)); tdata := DSingle (flat3 d) |}.
Proof. exact @flatten_is_row_major. Qed.
Print Assumptions C08_flatten_is_row_major.

Theorem C08_flat_to_spatial_keeps_elements :
  forall (N : Num) (v : list (T N)) (c h w : nat),
         length v = c * h * w ->
         0 < h -> 0 < w -> exists d : vec3 (T N), chunk_input N v h w = Ok d /\ rect3 c h w d /\ flat3 d = v.
Proof. exact @flat_to_spatial_keeps_elements. Qed.
Print Assumptions C08_flat_to_spatial_keeps_elements.

Theorem C08_flat_accepted_is_square :
  forall (N : Num) (size : nat) (s : shape) (ic : nat),
         spatial_inputs N (SSingle size) = Ok (s, ic) ->
         exists r : nat, s = STriple 1 r r /\ ic = 1 /\ r * r = size.
Proof. exact @flat_accepted_is_square. Qed.
Print Assumptions C08_flat_accepted_is_square.

Theorem C08_flat_non_square_rejected :
  forall (N : Num) (size : nat),
         (forall r : nat, r * r <> size) -> spatial_inputs N (SSingle size) = Panic P_explicit.
Proof. exact @flat_non_square_rejected. Qed.
Print Assumptions C08_flat_non_square_rejected.

Theorem C08_maxpool_flat_non_square_rejected :
  forall (N : Num) (size : nat) (kernel stride : nat * nat),
         (forall r : nat, r * r <> size) -> maxpool_create N (SSingle size) kernel stride = Panic P_explicit.
Proof. exact @maxpool_flat_non_square_rejected. Qed.
Print Assumptions C08_maxpool_flat_non_square_rejected.

Theorem C08_flat_square_accepted_F32 :
  forall (L : Libm) (r : nat),
         (Z.of_nat r <= 8192)%Z -> spatial_inputs (NumF32 L) (SSingle (r * r)) = Ok (STriple 1 r r, 1).
Proof. exact @flat_square_accepted_F32. Qed.
Print Assumptions C08_flat_square_accepted_F32.

Theorem C08_conv_gradient_shapes :
  forall (N : Num) (l : conv N) (g input output ig kg : tensor N) (bg : option (tensor N)),
         conv_backward l g input output = Ok (ig, kg, bg) ->
         exists (ks : list (vec3 (T N))) (kf kc kh kw ih iw : nat) (inp : vec3 (T N)),
           mapM (kernel_data (N:=N)) (c_kernels l) = Ok ks /\
           kdims N ks = Ok (kf, kc, kh, kw) /\
           get_triple input (c_inputs l) = Ok inp /\
           xdims N inp = Ok (ih, iw) /\
           tshape kg = SQuad kf kc kh kw /\ tshape ig = STriple kc ih iw /\ bg = None.
Proof. exact @conv_gradient_shapes. Qed.
Print Assumptions C08_conv_gradient_shapes.

Theorem C08_dense_gradient_shapes :
  forall (N : Num) (l : dense N) (g input output ig wg : tensor N) (bg : option (tensor N))
           (iv : vec1 (T N)),
         dense_backward l g input output = Ok (ig, wg, bg) ->
         tdata input = DSingle iv ->
         exists (delta : tensor N) (dl : vec1 (T N)),
           tdata delta = DSingle dl /\
           dl <> [] /\
           tshape wg = SDouble (length dl) (length iv) /\
           bg = match d_bias l with
                | Some _ => Some delta
                | None => None
                end.
Proof. exact @dense_gradient_shapes. Qed.
Print Assumptions C08_dense_gradient_shapes.

