(* C06, shape part: the gradient has the prediction's shape (any number structure, both ranks,
   with or without clamp). *)
From NV Require Import Prelude Num Random Tensor Objective.
From NV.Theory Require Import Lists C14 C06 C06Shape.

Theorem C06_gradient_has_prediction_shape :
  forall (N : Num) (o : objective) (cl : option (T N * T N)) (prediction target : tensor N) 
           (l : T N) (g : tensor N),
         wf prediction ->
         wf target ->
         tshape prediction = tshape target ->
         pos_shape (tshape prediction) ->
         loss o cl prediction target = Ok (l, g) -> tshape g = tshape prediction /\ wf g.
Proof. exact @gradient_has_prediction_shape. Qed.
Print Assumptions C06_gradient_has_prediction_shape.

