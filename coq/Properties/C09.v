(* C09 — Dropout never leaks into prediction or validation (for the repaired validate, see
   known_findings.json). Generic in the number structure; arbitrary architectures (any number and
   order of dense / convolution / deconvolution / max-pool / feedback layers, loop and skip
   connections included), dropout on any subset of layers. *)
From NV Require Import Prelude Num NumF32 Random Tensor Activation Objective Optimizer Layers Network Learn.
From NV.Theory Require Import Monad Par C09.

(* after training returns - all epochs run or early stopping - every training flag is off *)
Theorem C09_learn_clears_flags :
  forall (N : Num) p (n n' : network N) xs ts val batch epochs h,
    learn p n xs ts val batch epochs = Ok (n', h) -> all_clear (n_layers n').
Proof. exact learn_clears_flags. Qed.
Print Assumptions C09_learn_clears_flags.

(* validate - also when called from inside learn with all flags on - evaluates every sample on a
   network whose flags are all off; if no dense layer was in training mode the flags stay off *)
Theorem C09_validate_runs_dropout_free :
  forall (N : Num) p (n : network N) xs ts tol n' r,
    validate p n xs ts tol = Ok (n', r) ->
    let '(ls, training) := validate_clear (n_layers n) false in
    all_clear ls /\
    validate p n xs ts tol =
      (do rs <- sequence (concat (p _ _ (fun chunk => map (validate_sample (set_layers n ls) tol) chunk)
                                        (zip_chunks xs ts)));
       let n2 := if training then set_all_training true (set_layers n ls) else set_layers n ls in
       let len := of_nat (length rs) in
       Ok (n2, (ndiv N (fsum (map fst rs)) len, ndiv N (fsum (map snd rs)) len))) /\
    (training = false -> all_clear (n_layers n')).
Proof. exact validate_runs_dropout_free. Qed.
Print Assumptions C09_validate_runs_dropout_free.

(* with every flag off, forward (hence predict, validate, predict_batch) is the forward pass of the
   identical network configured without dropout *)
Theorem C09_forward_ignores_dropout_when_clear :
  forall (N : Num) (n : network N) x,
    all_clear (n_layers n) -> forward (strip_net n) x = forward n x.
Proof. exact forward_ignores_dropout_when_clear. Qed.
Print Assumptions C09_forward_ignores_dropout_when_clear.

Theorem C09_predict_dropout_free :
  forall (N : Num) (n : network N) x, all_clear (n_layers n) -> predict (strip_net n) x = predict n x.
Proof. exact predict_dropout_free. Qed.
Print Assumptions C09_predict_dropout_free.

(* hence: after learn, the network predicts exactly like the dropout-free network *)
Theorem C09_after_learn_predicts_dropout_free :
  forall (N : Num) p (n n' : network N) xs ts val batch epochs h x,
    learn p n xs ts val batch epochs = Ok (n', h) -> predict (strip_net n') x = predict n' x.
Proof. intros. apply predict_dropout_free. eapply learn_clears_flags. eassumption. Qed.
Print Assumptions C09_after_learn_predicts_dropout_free.

(* the batch entry point: with every flag off, predict_batch is that of the dropout-free network *)
Theorem C09_predict_batch_dropout_free :
  forall (N : Num) (p : pmap_t), pmap_ordered p ->
    forall (n : network N) (xs : list (tensor N)),
    all_clear (n_layers n) -> predict_batch p (strip_net n) xs = predict_batch p n xs.
Proof. exact @predict_batch_dropout_free. Qed.
Print Assumptions C09_predict_batch_dropout_free.

(* hence after learn (all epochs or early stopping) batches are predicted dropout-free as well *)
Theorem C09_after_learn_predict_batch_dropout_free :
  forall (N : Num) (p q : pmap_t), pmap_ordered q ->
    forall (n n' : network N) xs ts val batch epochs h (zs : list (tensor N)),
    learn p n xs ts val batch epochs = Ok (n', h) ->
    predict_batch q (strip_net n') zs = predict_batch q n' zs.
Proof. exact @after_learn_predict_batch_dropout_free. Qed.
Print Assumptions C09_after_learn_predict_batch_dropout_free.
