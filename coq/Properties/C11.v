(* C11 — A feedback block computes the repeated, optionally skip-combined, layer sequence.
   Generic in the number structure. `reps` (Theory/C11.v) is the specification: repetition r > 1
   receives accumulate(previous output, [block input]) when input skips are on; `run` records the
   plain sequential pass through the layer list (C11_run_is_sequential_application). *)
From NV Require Import Prelude Num Random Tensor Activation Objective Optimizer Layers Network.
From NV.Theory Require Import C11.

Theorem C11_block_is_repeated_skip_combined_sequence :
  forall (N : Num) (layers : list (blayer N)) (loops : nat) (inskips outskips : bool)
           (acc : accumulation) (b : feedback N) (fl : bool) (x : tensor N),
         feedback_create layers loops inskips outskips acc = Ok b ->
         shape_eqb (tshape x) (f_inputs b) = true ->
         feedback_forward (set_f_flatten b fl) x =
         (do trs <- reps layers inskips acc x loops true x;
          let outs := map (rep_out x) trs in
          let last0 := last outs x in
          do last1 <-
          (if outskips && negb (loops - 1 =? 0) then accumulate acc last0 (removelast outs) else Ok last0);
          do last2 <- (if fl then flatten last1 else Ok last1);
          do pre0 <- nth_res (concat (map (pres (N:=N)) trs)) 0;
          Ok
            {|
              fo_pre := pre0;
              fo_post := last2;
              fo_max := concat (map (maxs (N:=N)) trs);
              fo_unactivated := concat (map (pres (N:=N)) trs);
              fo_activated := removelast (x :: concat (map (posts (N:=N)) trs)) ++ [last2]
            |}).
Proof. exact @feedback_forward_spec. Qed.
Print Assumptions C11_block_is_repeated_skip_combined_sequence.

Theorem C11_specification_of_the_repetitions :
  forall (N : Num) (ls : list (blayer N)) (inskips : bool) (acc : accumulation) 
           (input : tensor N) (n : nat) (first : bool) (cur : tensor N),
         reps ls inskips acc input (S n) first cur =
         (do x <- (if inskips && negb first then accumulate acc cur [input] else Ok cur);
          do tr <- run ls x; do rest <- reps ls inskips acc input n false (final x tr); Ok (tr :: rest)) /\
         reps ls inskips acc input 0 first cur = Ok [].
Proof. exact @reps_unfold. Qed.
Print Assumptions C11_specification_of_the_repetitions.


Theorem C11_run_is_sequential_application :
  forall (N : Num) (ls : list (blayer N)) (x : tensor N),
         block_apply ls x = (do tr <- run ls x; Ok (final x tr)).
Proof. exact @run_final. Qed.
Print Assumptions C11_run_is_sequential_application.

Theorem C11_without_skips_is_L_fold_iteration :
  forall (N : Num) (layers : list (blayer N)) (loops : nat) (acc : accumulation) 
           (b : feedback N) (fl : bool) (x : tensor N),
         feedback_create layers loops false false acc = Ok b ->
         shape_eqb (tshape x) (f_inputs b) = true ->
         (do o <- feedback_forward (set_f_flatten b fl) x; Ok (fo_post o)) =
         (do y <- iterM loops (block_apply layers) x; if fl then flatten y else Ok y).
Proof. exact @feedback_noskip_is_iterate. Qed.
Print Assumptions C11_without_skips_is_L_fold_iteration.

Theorem C11_combination_with_one_source :
  forall (N : Num) (acc : accumulation) (x s : tensor N),
         accumulate acc x [s] =
         match acc with
         | AccAdd => add_inplace x s
         | AccSub => sub_inplace x s
         | AccMul => mul_inplace x s
         | AccOverwrite => Ok s
         | AccMean => mean_inplace x [s]
         end.
Proof. exact @accumulate_one. Qed.
Print Assumptions C11_combination_with_one_source.

Theorem C11_combination_with_several_sources :
  forall (N : Num) (acc : accumulation) (x : tensor N) (srcs : list (tensor N)),
         accumulate acc x srcs =
         match acc with
         | AccAdd => foldM (add_inplace (N:=N)) srcs x
         | AccSub => foldM (sub_inplace (N:=N)) srcs x
         | AccMul => foldM (mul_inplace (N:=N)) srcs x
         | AccOverwrite => match last_opt srcs with
                           | Some s => Ok s
                           | None => Panic P_unwrap
                           end
         | AccMean => mean_inplace x srcs
         end.
Proof. exact @accumulate_many. Qed.
Print Assumptions C11_combination_with_several_sources.

Theorem C11_block_layout_and_skip_table :
  forall (N : Num) (layers : list (blayer N)) (loops : nat) (inskips outskips : bool)
           (acc : accumulation) (b : feedback N),
         feedback_create layers loops inskips outskips acc = Ok b ->
         let len := length layers in
         0 < loops /\
         0 < len /\
         f_layers b = concat (repeat layers loops) /\
         f_accumulation b = acc /\
         f_flatten b = false /\
         (exists (first : blayer N) (rest : list (blayer N)),
            layers = first :: rest /\ f_inputs b = blayer_inputs first) /\
         (forall j : nat,
          j < loops -> alist_get (f_connect b) (j * len) = (if inskips && (1 <=? j) then Some [0] else None)) /\
         (forall k : nat, k < loops * len -> k mod len <> 0 -> alist_get (f_connect b) k = None) /\
         alist_get (f_connect b) (loops * len) =
         (if outskips && negb (loops - 1 =? 0)
          then Some (map (fun i : nat => i * len) (seq 1 (loops - 1)))
          else None).
Proof. exact @create_connect. Qed.
Print Assumptions C11_block_layout_and_skip_table.

Theorem C11_flattened_when_dense_follows :
  forall (N : Num) (seeds : nat -> Z) (n : network N) (outputs : nat) (a : activation) 
           (bias : bool) (dropout : option (T N)) (n' : network N) (p : feedback N) 
           (rest : list (layer N)) (c h w : nat),
         n_layers n = rest ++ [LFeedback p] ->
         f_outputs p = STriple c h w ->
         add_dense seeds n outputs a bias dropout = Ok n' ->
         exists l : dense N,
           n_layers n' = rest ++ [LFeedback (set_f_flatten p true); LDense l] /\
           d_inputs l = SSingle (c * h * w).
Proof. exact @add_dense_after_feedback. Qed.
Print Assumptions C11_flattened_when_dense_follows.

