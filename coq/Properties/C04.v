(* C04 — Training is ordered mini-batch gradient-sum descent.
   Generic in the network, optimizer and objective: [grad], [lossf], [gsum], [opt] are arbitrary. *)
From NV Require Import Prelude Num NumF32 Random Tensor Activation Objective Optimizer Layers Network Learn.
From NV.Theory Require Import Monad Chunks Par Training.
From NV.Theory Require C10.

(* Consecutive groups of B partition the samples in order; none is empty, none exceeds B, all but
   the last are full, and there are ceil(N/B) of them: every sample contributes exactly once per
   epoch (B = 1, B not dividing N and B > N included). *)
Theorem C04_batches_partition :
  forall A (B : nat) (l : list A), 0 < B ->
    concat (chunks B l) = l /\
    Forall (fun c => 0 < length c /\ length c <= B) (chunks B l) /\
    (forall i, S i < length (chunks B l) -> length (nth i (chunks B l) []) = B) /\
    length (chunks B l) = (length l + B - 1) / B.
Proof.
  intros A B l HB. split; [exact (chunks_concat l HB)|].
  split; [exact (chunks_bounds l HB)|].
  split; [exact (chunks_fuel_full l HB (Nat.le_refl _))|exact (chunks_count l HB)].
Qed.
Print Assumptions C04_batches_partition.

(* Inputs and targets are chunked separately and zipped: the same as chunking the pairs. *)
Theorem C04_zip_of_chunks :
  forall A B n (a : list A) (b : list B), 0 < n -> length a = length b ->
    map (fun p => combine (fst p) (snd p)) (combine (chunks n a) (chunks n b)) = chunks n (combine a b).
Proof. exact chunks_combine. Qed.
Print Assumptions C04_zip_of_chunks.

(* One epoch of the model's loop = the specification: for each group in order, one optimizer step
   with step number = epoch index on the in-order sum of the per-sample gradients evaluated at the
   weights held before that step; epoch loss = mean over groups of the mean per-sample loss. *)
Theorem C04_epoch_refines_spec :
  forall (N : Num) (S X G : Type) (grad : S -> X -> G) (lossf : S -> X -> T N) (gsum : G -> G -> G)
         (opt : Z -> S -> G -> S),
    (forall s x, nisnan N (lossf s x) = false) ->
    forall (p : pmap_t) e s bs d,
      pmap_ordered p -> Forall (fun g => g <> []) bs ->
      run_epoch N p (sample_t N grad lossf) (gadd_t gsum) (step_t opt) e s bs
      = Ok (spec_epoch N grad lossf gsum opt e s bs d).
Proof. exact run_epoch_spec. Qed.
Print Assumptions C04_epoch_refines_spec.

(* E epochs without validation = E iterations of the epoch specification with step numbers
   e, e+1, ...; one training-loss entry per epoch. *)
Theorem C04_learn_refines_spec :
  forall (N : Num) (S X G : Type) (grad : S -> X -> G) (lossf : S -> X -> T N) (gsum : G -> G -> G)
         (opt : Z -> S -> G -> S),
    (forall s x, nisnan N (lossf s x) = false) ->
    forall (p : pmap_t) valid fuel e s bs d h,
      pmap_ordered p -> Forall (fun g => g <> []) bs ->
      epochs_loop p (sample_t N grad lossf) (gadd_t gsum) (step_t opt) valid fuel e false None bs s h
      = Ok (fst (spec_epochs N grad lossf gsum opt fuel e s bs d (h_train h)),
            {| h_train := snd (spec_epochs N grad lossf gsum opt fuel e s bs d (h_train h));
               h_vloss := h_vloss h; h_vacc := h_vacc h |}).
Proof. exact learn_refines_spec. Qed.
Print Assumptions C04_learn_refines_spec.

(* Exactly one optimizer step per group, in order, each seeing exactly the samples of its group
   in order, with the epoch index as step number (trace instance of the specification). *)
Theorem C04_epoch_trace :
  forall (N : Num) (X : Type) e (s : tr_state X) (bs : list (list X)) (lossf : tr_state X -> X -> T N),
    Forall (fun g => g <> []) bs ->
    fst (spec_epoch N (@tr_grad X) lossf (@app X) (@tr_opt X) e s bs []) = s ++ map (fun g => (e, g)) bs.
Proof. exact epoch_trace. Qed.
Print Assumptions C04_epoch_trace.

(* Non-vacuity: N = 5, B = 2 gives the groups [a;b] [c;d] [e] and the trace of one epoch. *)
Example C04_nonvacuous :
  chunks 2 [1; 2; 3; 4; 5] = [[1; 2]; [3; 4]; [5]] /\ chunks 8 [1; 2; 3] = [[1; 2; 3]] /\
  fst (spec_epoch (NumF32 libm_none) (@tr_grad nat) (fun _ _ => f_of_Z 0) (@app nat) (@tr_opt nat) 7 []
                  (chunks 2 [1; 2; 3; 4; 5]) [])
  = [(7%Z, [1; 2]); (7%Z, [3; 4]); (7%Z, [5])].
Proof. repeat split; vm_compute; reflexivity. Qed.

(* B > N, any amount beyond: a group size at or beyond the number of samples makes the N samples the
   single partial group, and the model's `learn` returns the same for every two such batch sizes
   (usize::MAX, "full batch", included: the driver represents such a request by N + 1). *)
Theorem C04_group_size_beyond_data :
  forall (A : Type) (B : nat) (l : list A),
    0 < B -> length l <= B -> chunks B l = match l with [] => [] | _ => [l] end.
Proof. exact chunks_whole. Qed.
Print Assumptions C04_group_size_beyond_data.

Theorem C04_learn_batch_beyond_data :
  forall (N : Num) (pm : pmap_t) (n : network N) (inputs targets : list (tensor N))
         (validation : option (list (tensor N) * list (tensor N) * Z)) (b1 b2 : nat) (epochs : Z),
    0 < b1 -> 0 < b2 ->
    length inputs <= b1 -> length inputs <= b2 -> length targets <= b1 -> length targets <= b2 ->
    learn pm n inputs targets validation b1 epochs = learn pm n inputs targets validation b2 epochs.
Proof. exact learn_batch_beyond. Qed.
Print Assumptions C04_learn_batch_beyond_data.

(* Nothing but steps: learn changes layers (parameters, flags) and optimizer state only - the
   connection maps, accumulations, input shape and objective of the returned network are those of
   the network it was called on, for every data set, batch size, epoch budget and stopping point. *)
Theorem C04_learn_leaves_the_architecture_unchanged :
  forall (N : Num) p (n n' : network N) xs ts val batch epochs h,
    learn p n xs ts val batch epochs = Ok (n', h) ->
    n_input n' = n_input n /\ n_loopbacks n' = n_loopbacks n /\ n_loopacc n' = n_loopacc n /\
    n_connect n' = n_connect n /\ n_skipacc n' = n_skipacc n /\ n_objective n' = n_objective n.
Proof. exact NV.Theory.C10.learn_same_arch. Qed.
Print Assumptions C04_learn_leaves_the_architecture_unchanged.
