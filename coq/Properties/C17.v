(* C17 — Loop connections compute the accumulated repeated sub-network. Generic in the number
   structure; `loop_vals` (Theory/C17.v) is the sequence y_1..y_k of successive outputs. *)
From NV Require Import Prelude Num Random Tensor Activation Objective Optimizer Layers Network.
From NV.Theory Require Import Forward C16 C17.

Theorem C17_value_passed_on_is_accumulated_repetition :
  forall (N : Num) (n : network N) (x out : tensor N) (a b k : nat) (inskips : bool),
         n_connect n = [] ->
         n_loopbacks n = [(b, (a, k, inskips))] ->
         a <= b ->
         b < length (n_layers n) ->
         predict n x = Ok out ->
         let layers := n_layers n in
         let mid := sub_layers layers a (b + 1) in
         exists (li : layer N) (xa y0 : tensor N) (ys : list (tensor N)) (v : tensor N),
           nth_error layers a = Some li /\
           range_out (firstn a layers) x = Ok xa /\
           range_out mid xa = Ok y0 /\
           loop_vals mid li xa inskips k y0 = Ok ys /\
           loop_combine (n_loopacc n) y0 ys = Ok v /\ range_out (skipn (b + 1) layers) v = Ok out.
Proof. exact @loop_forward_spec. Qed.
Print Assumptions C17_value_passed_on_is_accumulated_repetition.

Theorem C17_overwrite_equals_unrolled_network :
  forall (N : Num) (n : network N) (x out : tensor N) (a b k : nat),
         n_connect n = [] ->
         n_loopbacks n = [(b, (a, k, false))] ->
         n_loopacc n = AccOverwrite ->
         a <= b ->
         b < length (n_layers n) ->
         (forall (li : layer N) (c y : tensor N),
          nth_error (n_layers n) a = Some li ->
          range_out (sub_layers (n_layers n) a (b + 1)) c = Ok y ->
          shape_eqb (layer_inputs li) (tshape y) = true) ->
         predict n x = Ok out ->
         let layers := n_layers n in
         let mid := sub_layers layers a (b + 1) in
         range_out (firstn a layers ++ concat (repeat mid (S k)) ++ skipn (b + 1) layers) x = Ok out.
Proof. exact @loop_overwrite_is_unrolled. Qed.
Print Assumptions C17_overwrite_equals_unrolled_network.

Theorem C17_specification_of_the_iterates :
  forall (N : Num) (mid : list (layer N)) (li : layer N) (xa : tensor N) (inskips : bool) 
           (k : nat) (cur : tensor N),
         loop_vals mid li xa inskips (S k) cur =
         (do c1 <-
          (if shape_eqb (layer_inputs li) (tshape cur) then Ok cur else reshape cur (layer_inputs li));
          do c <- (if inskips then add_inplace c1 xa else Ok c1);
          do y <- range_out mid c; do rest <- loop_vals mid li xa inskips k y; Ok (y :: rest)) /\
         loop_vals mid li xa inskips 0 cur = Ok [].
Proof. exact @loop_vals_unfold. Qed.
Print Assumptions C17_specification_of_the_iterates.

Theorem C17_specification_of_the_accumulation :
  forall (N : Num) (acc : accumulation) (y0 : tensor N) (ys : list (tensor N)),
         loop_combine acc y0 ys =
         match acc with
         | AccAdd => foldM (add_inplace (N:=N)) ys y0
         | AccSub => foldM (sub_inplace (N:=N)) ys y0
         | AccMul => foldM (mul_inplace (N:=N)) ys y0
         | AccOverwrite => match last_opt ys with
                           | Some t => Ok t
                           | None => Ok y0
                           end
         | AccMean => mean_inplace y0 ys
         end.
Proof. exact @loop_combine_cases. Qed.
Print Assumptions C17_specification_of_the_accumulation.

Theorem C17_exactly_the_configured_number_of_iterates :
  forall (N : Num) (n : network N) (x out : tensor N) (a b k : nat) (inskips : bool),
         n_connect n = [] ->
         n_loopbacks n = [(b, (a, k, inskips))] ->
         a <= b ->
         b < length (n_layers n) ->
         predict n x = Ok out ->
         let layers := n_layers n in
         let mid := sub_layers layers a (b + 1) in
         exists (li : layer N) (xa y0 : tensor N) (ys : list (tensor N)) (v : tensor N),
           nth_error layers a = Some li /\
           range_out (firstn a layers) x = Ok xa /\
           range_out mid xa = Ok y0 /\
           loop_vals mid li xa inskips k y0 = Ok ys /\ length ys = k /\
           loop_combine (n_loopacc n) y0 ys = Ok v /\ range_out (skipn (b + 1) layers) v = Ok out.
Proof. exact @loop_forward_iterates_count. Qed.
Print Assumptions C17_exactly_the_configured_number_of_iterates.

Theorem C17_zero_iterations_leave_the_plain_network :
  forall (N : Num) (n : network N) (x out : tensor N) (a b : nat) (inskips : bool),
         n_connect n = [] ->
         n_loopbacks n = [(b, (a, 0, inskips))] ->
         n_loopacc n <> AccMean ->
         a <= b ->
         b < length (n_layers n) ->
         predict n x = Ok out ->
         range_out (n_layers n) x = Ok out.
Proof. exact @loop_zero_iterations_is_plain. Qed.
Print Assumptions C17_zero_iterations_leave_the_plain_network.

