(* C15 — Element-wise tensor arithmetic is exact, rank-generic and shape-checked. *)
From NV Require Import Prelude Num NumF32 Random Tensor.
From NV.Theory Require Import Monad Build C15.
From Flocq Require Import Core BinarySingleNaN.
Require Import Reals.

(* operands whose shapes differ are refused (add, subtract, multiply, scaled Hadamard) *)
Theorem C15_shape_checked :
  forall (N : Num) (f : T N -> T N -> T N) (a b : tensor N),
    shape_eqb (tshape a) (tshape b) = false -> binop_inplace f a b = Panic P_shape.
Proof. exact binop_shape_checked. Qed.
Print Assumptions C15_shape_checked.

(* equal shapes: shape unchanged, data combined element by element, for every supported rank *)
Theorem C15_binop_single :
  forall (N : Num) (f : T N -> T N -> T N) (a b : tensor N) x y,
    shape_eqb (tshape a) (tshape b) = true -> tdata a = DSingle x -> tdata b = DSingle y ->
    binop_inplace f a b = Ok (mkT (tshape a) (DSingle (zipk f x y))).
Proof. exact binop_single. Qed.
Print Assumptions C15_binop_single.
Theorem C15_binop_double :
  forall (N : Num) (f : T N -> T N -> T N) (a b : tensor N) x y,
    shape_eqb (tshape a) (tshape b) = true -> tdata a = DDouble x -> tdata b = DDouble y ->
    binop_inplace f a b = Ok (mkT (tshape a) (DDouble (zipk (zipk f) x y))).
Proof. exact binop_double. Qed.
Print Assumptions C15_binop_double.
Theorem C15_binop_triple :
  forall (N : Num) (f : T N -> T N -> T N) (a b : tensor N) x y,
    shape_eqb (tshape a) (tshape b) = true -> tdata a = DTriple x -> tdata b = DTriple y ->
    binop_inplace f a b = Ok (mkT (tshape a) (DTriple (zipk (zipk (zipk f)) x y))).
Proof. exact binop_triple. Qed.
Print Assumptions C15_binop_triple.
Theorem C15_binop_quad :
  forall (N : Num) (f : T N -> T N -> T N) (a b : tensor N) x y,
    shape_eqb (tshape a) (tshape b) = true -> tdata a = DQuad x -> tdata b = DQuad y ->
    binop_inplace f a b = Ok (mkT (tshape a) (DQuad (zipk (zipk (zipk (zipk f))) x y))).
Proof. exact binop_quad. Qed.
Print Assumptions C15_binop_quad.

(* ... and each element of the result is the operator applied to the two elements at its position *)
Theorem C15_elementwise :
  forall (N : Num) (f : T N -> T N -> T N) (x y : vec4 (T N)) i j k l d,
    i < length x -> i < length y ->
    j < length (nth i x []) -> j < length (nth i y []) ->
    k < length (nth j (nth i x []) []) -> k < length (nth j (nth i y []) []) ->
    l < length (nth k (nth j (nth i x []) []) []) -> l < length (nth k (nth j (nth i y []) []) []) ->
    get4 d (zipk (zipk (zipk (zipk f))) x y) i j k l = f (get4 d x i j k l) (get4 d y i j k l).
Proof. exact zipk4_get. Qed.
Print Assumptions C15_elementwise.

(* the mean over k tensors: refused for k = 0 and for any shape mismatch; otherwise each element
   is (self + (((-0 + o1) + o2) ... + ok)) / (k+1) *)
Theorem C15_mean_refuses_empty :
  forall (N : Num) (a : tensor N), exists c, mean_inplace a [] = Panic c.
Proof. exact mean_refuses_empty. Qed.
Print Assumptions C15_mean_refuses_empty.
Theorem C15_mean_shape_checked :
  forall (N : Num) (a : tensor N) os,
    os <> [] -> forallb (fun o => shape_eqb (tshape a) (tshape o)) os = false ->
    mean_inplace a os = Panic P_shape.
Proof. exact mean_shape_checked. Qed.
Print Assumptions C15_mean_shape_checked.
Theorem C15_mean_single :
  forall (N : Num) (a : tensor N) os x,
    os <> [] -> forallb (fun o => shape_eqb (tshape a) (tshape o)) os = true ->
    tdata a = DSingle x ->
    (forall o, In o os -> exists d, tdata o = DSingle d /\ length x <= length d) ->
    mean_inplace a os =
    Ok (mkT (tshape a) (DSingle (mapi (fun i v =>
          ndiv N (nadd N v (fold_left (nadd N)
                     (map (fun o => match tdata o with DSingle d => nth i d zero | _ => zero end) os)
                     (nnzero N))) (of_nat (length os + 1))) x))).
Proof. exact mean_single. Qed.
Print Assumptions C15_mean_single.

(* outer product, matrix-vector product, transpose obey their definitions *)
Theorem C15_product :
  forall (N : Num) (a b : tensor N) x y,
    tdata a = DSingle x -> tdata b = DSingle y -> x <> [] ->
    product a b = Ok (mkT (SDouble (length x) (length y)) (DDouble (map (fun u => map (fun v => nmul N u v) y) x))).
Proof. exact product_spec. Qed.
Print Assumptions C15_product.
Theorem C15_dot :
  forall (N : Num) (a b : tensor N) m v,
    tdata a = DDouble m -> tdata b = DSingle v ->
    dot a b = Ok (mkT (SSingle (length m))
                      (DSingle (map (fun row => fold_left (nadd N) (map2 (nmul N) row v) (nnzero N)) m))).
Proof. exact dot_spec. Qed.
Print Assumptions C15_dot.
Theorem C15_transpose :
  forall (N : Num) (a : tensor N) m r0 rest,
    tdata a = DDouble m -> m = r0 :: rest -> r0 <> [] -> Forall (fun r => length r = length r0) m ->
    exists t, transpose a = Ok t /\ tshape t = SDouble (length r0) (length m) /\
      exists d, tdata t = DDouble d /\
        forall i j, i < length m -> j < length r0 -> get2 zero d j i = get2 zero m i j.
Proof. exact transpose_spec. Qed.
Print Assumptions C15_transpose.

(* the arithmetic of the binary32 instance IS the correctly rounded IEEE-754 operation *)
Theorem C15_add_ieee :
  forall x y : f32,
    is_finite x = true -> is_finite y = true ->
    Rlt_bool (Rabs (round radix2 (SpecFloat.fexp prec32 emax32) (round_mode mode_NE) (B2R x + B2R y)))
             (bpow radix2 emax32) = true ->
    B2R (f_add x y) = round radix2 (SpecFloat.fexp prec32 emax32) (round_mode mode_NE) (B2R x + B2R y)
    /\ is_finite (f_add x y) = true.
Proof. exact f_add_ieee. Qed.
Print Assumptions C15_add_ieee.
Theorem C15_mul_ieee :
  forall x y : f32,
    Rlt_bool (Rabs (round radix2 (SpecFloat.fexp prec32 emax32) (round_mode mode_NE) (B2R x * B2R y)))
             (bpow radix2 emax32) = true ->
    B2R (f_mul x y) = round radix2 (SpecFloat.fexp prec32 emax32) (round_mode mode_NE) (B2R x * B2R y)
    /\ is_finite (f_mul x y) = andb (is_finite x) (is_finite y).
Proof. exact f_mul_ieee. Qed.
Print Assumptions C15_mul_ieee.
Theorem C15_div_ieee :
  forall x y : f32,
    B2R y <> 0%R ->
    Rlt_bool (Rabs (round radix2 (SpecFloat.fexp prec32 emax32) (round_mode mode_NE) (B2R x / B2R y)))
             (bpow radix2 emax32) = true ->
    B2R (f_div x y) = round radix2 (SpecFloat.fexp prec32 emax32) (round_mode mode_NE) (B2R x / B2R y)
    /\ is_finite (f_div x y) = is_finite x.
Proof. exact f_div_ieee. Qed.
Print Assumptions C15_div_ieee.

(* clamped values lie in the interval *)
Theorem C15_clamp_in_interval :
  forall (L : Libm) (x lo hi : f32),
    is_finite x = true -> is_finite lo = true -> is_finite hi = true ->
    (B2R lo <= B2R hi)%R ->
    (B2R lo <= B2R (clamp (N := NumF32 L) x lo hi) <= B2R hi)%R.
Proof. exact clamp_in_interval. Qed.
Print Assumptions C15_clamp_in_interval.

(* non-vacuity on binary32: 0.1 + 0.2 is the correctly rounded sum, shapes are checked *)
Example C15_nonvacuous :
  let N := NumF32 libm_none in
  let a := mkT (N := N) (SSingle 2) (DSingle (N := N) [ratio (N := N) 1 10; f_of_Z 3]) in
  let b := mkT (N := N) (SSingle 2) (DSingle (N := N) [ratio (N := N) 2 10; f_of_Z (-3)]) in
  let c := mkT (N := N) (SSingle 3) (DSingle (N := N) [f_of_Z 1; f_of_Z 1; f_of_Z 1]) in
  (rmap (fun t : tensor N => match tdata t with DSingle v => map f_to_bits v | _ => [] end) (add_inplace a b),
   match add_inplace a c with Panic _ => true | Ok _ => false end) = (Ok [1050253722; 0]%Z, true).
Proof. vm_compute. reflexivity. Qed.

(* lists with optional entries (the per-layer bias gradients of a feedback block) *)
Theorem C15_optional_lists_add_positionally :
  forall (N : Num) (a b r : list (option (tensor N))),
         add_inplace_nestedopt a b = Ok r ->
         length a = length b /\
         length r = length a /\
         (forall i : nat,
          nth_error r i =
          match nth_error a i with
          | Some (Some x0 as x) =>
              match nth_error b i with
              | Some (Some y) => match add_inplace x0 y with
                                 | Ok z => Some (Some z)
                                 | Panic _ => None
                                 end
              | Some None => Some x
              | None => None
              end
          | Some (None as x) => match nth_error b i with
                                | Some _ => Some x
                                | None => None
                                end
          | None => None
          end).
Proof. exact @nestedopt_add_spec. Qed.
Print Assumptions C15_optional_lists_add_positionally.

Theorem C15_optional_lists_length_mismatch_refused :
  forall (N : Num) (a b : list (option (tensor N))),
         length a <> length b -> exists c : nat, add_inplace_nestedopt a b = Panic c.
Proof. exact @nestedopt_add_refuses_length_mismatch. Qed.
Print Assumptions C15_optional_lists_length_mismatch_refused.

