(* C14 — Reshaping and flattening preserve the row-major element sequence.
   Property theorems only: each is closed by [exact] of a lemma from Theory/C14.v.
   All statements are generic in the number structure, hence hold for the binary32 instance
   (for every libm oracle) that is tied to the Rust code. *)
From NV Require Import Prelude Num NumF32 Random Tensor.
From NV.Theory Require Import Lists C14.

(* Flattening a well-formed c x h x w tensor yields Single(c*h*w) holding the row-major sequence. *)
Theorem C14_flatten_seq :
  forall (N : Num) (t : tensor N) c h w d,
    tshape t = STriple c h w -> tdata t = DTriple d -> rect3 c h w d -> 0 < c -> 0 < h ->
    flatten t = Ok (mkT (SSingle (c * h * w)) (DSingle (flat3 d))).
Proof. exact flatten_seq. Qed.
Print Assumptions C14_flatten_seq.

(* Reading out flat is the row-major sequence. *)
Theorem C14_get_flat_triple :
  forall (N : Num) (t : tensor N) d, tdata t = DTriple d -> get_flat t = Ok (flat3 d).
Proof. exact get_flat_triple. Qed.
Print Assumptions C14_get_flat_triple.

(* Equal element counts: the reshape succeeds, has the requested shape, is well formed (the
   recorded shape matches the data) and holds the same row-major sequence. *)
Theorem C14_reshape_ok :
  forall (N : Num) (t : tensor N) s,
    wf t -> pos_shape (tshape t) -> supported s ->
    shape_numel (tshape t) = shape_numel s ->
    exists t', reshape t s = Ok t' /\ get_flat t' = get_flat t /\ wf t' /\
               (match tshape t, s with SSingle _, SSingle _ => t' = t | _, _ => tshape t' = s end).
Proof. exact reshape_ok. Qed.
Print Assumptions C14_reshape_ok.

(* Unequal element counts: refused (vector->3-D, 3-D->3-D, 3-D->vector). *)
Theorem C14_reshape_refused :
  forall (N : Num) (t : tensor N) s,
    shape_numel (tshape t) <> shape_numel s ->
    (match tshape t, s with SSingle _, SSingle _ => False | _, _ => True end) ->
    exists c, reshape t s = Panic c.
Proof. exact reshape_refused. Qed.
Print Assumptions C14_reshape_refused.

(* There and back is the identity on shape and data. *)
Theorem C14_reshape_roundtrip :
  forall (N : Num) (t : tensor N) s t',
    wf t -> pos_shape (tshape t) -> supported s -> pos_shape s ->
    shape_numel (tshape t) = shape_numel s ->
    (match tshape t, s with SSingle _, SSingle _ => False | _, _ => True end) ->
    reshape t s = Ok t' ->
    exists t'', reshape t' (tshape t) = Ok t'' /\ tshape t'' = tshape t /\ get_flat t'' = get_flat t
                /\ (forall d, tdata t = DTriple d -> tdata t'' = DTriple d)
                /\ (forall v, tdata t = DSingle v -> tdata t'' = DSingle v).
Proof. exact reshape_roundtrip. Qed.
Print Assumptions C14_reshape_roundtrip.

(* A flat vector read as c x h x w: the row-major prefix; refused when too short. *)
Theorem C14_get_triple_single :
  forall (N : Num) (t : tensor N) v c h w,
    tdata t = DSingle v ->
    (c * h * w <= length v ->
       exists d r, get_triple t (STriple c h w) = Ok d /\ v = flat3 d ++ r /\ rect3 c h w d) /\
    (length v < c * h * w -> exists k, get_triple t (STriple c h w) = Panic k).
Proof. exact get_triple_single. Qed.
Print Assumptions C14_get_triple_single.

(* Non-vacuity: a concrete 2x1x3 tensor meets the hypotheses, and the reshape to 3x2x1 computes. *)
Definition ex_t : tensor (NumF32 libm_none) :=
  mkT (N := NumF32 libm_none) (STriple 2 1 3)
      (DTriple (N := NumF32 libm_none) [[[f_of_Z 1%Z; f_of_Z 2%Z; f_of_Z 3%Z]]; [[f_of_Z 4%Z; f_of_Z 5%Z; f_of_Z 6%Z]]]).
Example C14_nonvacuous :
  wf ex_t /\ pos_shape (tshape ex_t) /\
  rmap (fun t : tensor (NumF32 libm_none) => (tshape t, rmap (map f_to_bits) (get_flat t))) (reshape ex_t (STriple 3 2 1))
  = Ok (STriple 3 2 1, Ok (map f_to_bits [f_of_Z 1%Z; f_of_Z 2%Z; f_of_Z 3%Z; f_of_Z 4%Z; f_of_Z 5%Z; f_of_Z 6%Z])).
Proof.
  split; [|split].
  - split; [reflexivity|]. repeat constructor.
  - simpl. lia.
  - vm_compute. reflexivity.
Qed.
