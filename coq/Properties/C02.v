(* C02 — Each layer's forward pass computes its defining operator; flat and spatial inputs agree;
   a connection-free network is the composition of its layers. Generic in the number structure
   unless the statement names NumR (reals) or NumF32 (binary32). *)
From NV Require Import Prelude Num NumR NumF32 Random Tensor Activation Objective Optimizer Layers Network.
From NV.Theory Require Import Lists Build Conv Forward Pool.
Require Import Reals.
From Flocq Require Import Core BinarySingleNaN.

Theorem C02_dense :
  forall (N : Num) (l : dense N) (x : tensor N) (m : vec2 (T N)) (v : vec1 (T N)),
         tdata (d_weights l) = DDouble m ->
         tdata x = DSingle v ->
         match d_bias l with
         | Some b => exists bv : vec1 (T N), tdata b = DSingle bv /\ tshape b = SSingle (length m)
         | None => True
         end ->
         exists bv : vec1 (T N),
           match d_bias l with
           | Some b => tdata b = DSingle bv
           | None => True
           end /\
           (let pre := t_single N (affine N m (option_map (fun _ : tensor N => bv) (d_bias l)) v) in
            dense_forward l x =
            (do post <- act_forward (d_act l) pre; Ok (pre, apply_dropout (d_training l) (d_dropout l) post))).
Proof. exact @dense_forward_spec. Qed.
Print Assumptions C02_dense.

Theorem C02_dense_bias_is_added_elementwise :
  forall (N : Num) (m : list (list (T N))) (bv v : list (T N)),
         length bv = length m ->
         affine N m (Some bv) v = map2 (nadd N) (map (fun row : list (T N) => fsum (map2 (nmul N) row v)) m) bv.
Proof. exact @affine_map2. Qed.
Print Assumptions C02_dense_bias_is_added_elementwise.

Theorem C02_convolution :
  forall (N : Num) (l : conv N) (x : tensor N) (d : vec3 (T N)) (ks : list (vec3 (T N)))
           (ic ih iw kf kh kw : nat),
         c_inputs l = STriple ic ih iw ->
         tdata x = DTriple d ->
         rect3 ic ih iw d ->
         mapM (kernel_data (N:=N)) (c_kernels l) = Ok ks ->
         rect4 kf ic kh kw ks ->
         0 < ic ->
         0 < ih ->
         0 < kf ->
         0 < kh ->
         0 < fst (c_stride l) ->
         0 < snd (c_stride l) ->
         (kh - 1) * fst (c_dilation l) + 1 <= ih + 2 * fst (c_padding l) ->
         (kw - 1) * snd (c_dilation l) + 1 <= iw + 2 * snd (c_padding l) ->
         let oh := out_len (ih + 2 * fst (c_padding l)) kh (fst (c_stride l)) (fst (c_dilation l)) in
         let ow := out_len (iw + 2 * snd (c_padding l)) kw (snd (c_stride l)) (snd (c_dilation l)) in
         conv_forward l x =
         post_process N (c_act l) (c_training l) (c_dropout l) (c_flatten l)
           (build3 kf oh ow
              (corr_cell N (c_stride l) (c_dilation l) (xpad N d ih iw (fst (c_padding l)) (snd (c_padding l)))
                 ks ic kh kw)).
Proof. exact @conv_forward_spec. Qed.
Print Assumptions C02_convolution.

Theorem C02_deconvolution :
  forall (N : Num) (l : deconv N) (x : tensor N) (d : vec3 (T N)) (ks : list (vec3 (T N)))
           (ic ih iw kf kh kw : nat),
         tdata x = DTriple d ->
         rect3 ic ih iw d ->
         mapM (kernel_data (N:=N)) (dc_kernels l) = Ok ks ->
         rect4 kf ic kh kw ks ->
         0 < ic ->
         0 < ih ->
         0 < iw ->
         0 < kf ->
         0 < kh ->
         2 * fst (dc_padding l) <= (ih - 1) * fst (dc_stride l) + kh ->
         2 * snd (dc_padding l) <= (iw - 1) * snd (dc_stride l) + kw ->
         deconv_forward l x =
         post_process N (dc_act l) (dc_training l) (dc_dropout l) (dc_flatten l)
           (build3 kf ((ih - 1) * fst (dc_stride l) + kh - 2 * fst (dc_padding l))
              ((iw - 1) * snd (dc_stride l) + kw - 2 * snd (dc_padding l))
              (deconv_cell N (dc_stride l) (dc_padding l) d ks ic ih iw kh kw)).
Proof. exact @deconv_forward_spec. Qed.
Print Assumptions C02_deconvolution.

Theorem C02_maxpool :
  forall (N : Num) (l : maxpool N) (x : tensor N) (d : vec3 (T N)) (c ih iw : nat),
         tdata x = DTriple d ->
         rect3 c ih iw d ->
         0 < c ->
         0 < ih ->
         0 < fst (m_stride l) ->
         0 < snd (m_stride l) ->
         fst (m_kernel l) <= ih ->
         snd (m_kernel l) <= iw ->
         let oh := (ih - fst (m_kernel l)) / fst (m_stride l) + 1 in
         let ow := (iw - snd (m_kernel l)) / snd (m_stride l) + 1 in
         m_outputs l = STriple c oh ow ->
         let cell :=
           fun k oy ox : nat => pool_cell N d (m_kernel l) k (oy * fst (m_stride l)) (ox * snd (m_stride l)) in
         let pre :=
           {|
             tshape := STriple c oh ow;
             tdata := DTriple (build3 c oh ow (fun k oy ox : nat => fst (cell k oy ox)))
           |} in
         maxpool_forward l x =
         (do post <- (if m_flatten l then flatten pre else Ok pre);
          Ok (pre, post, build3 c oh ow (fun k oy ox : nat => [snd (cell k oy ox)]))).
Proof. exact @maxpool_forward_spec. Qed.
Print Assumptions C02_maxpool.

Theorem C02_maxpool_cell_is_window_maximum_R :
  forall (x : vec3 R) (kh kw c h w : nat),
         let r := pool_cell NumR x (kh, kw) c h w in
         (forall k l : nat, k < kh -> l < kw -> (get3 (@zero NumR) x c (h + k) (w + l) <= fst r)%R) /\
         ((exists k l : nat,
             k < kh /\ l < kw /\ snd r = (h + k, w + l) /\ fst r = get3 (@zero NumR) x c (h + k) (w + l)) \/
          r = (nfmin NumR, (0, 0)) /\
          (forall k l : nat, k < kh -> l < kw -> (get3 (@zero NumR) x c (h + k) (w + l) <= nfmin NumR)%R)).
Proof. exact @pool_cell_is_max_R. Qed.
Print Assumptions C02_maxpool_cell_is_window_maximum_R.

Theorem C02_maxpool_cell_is_window_maximum_F32 :
  forall (L : Libm) (x : vec3 f32) (kh kw c h w : nat),
         (forall k l : nat, k < kh -> l < kw -> finite32 (get3 (@zero (NumF32 L)) x c (h + k) (w + l))) ->
         let r := pool_cell (NumF32 L) x (kh, kw) c h w in
         (forall k l : nat, k < kh -> l < kw -> (B2R (get3 (@zero (NumF32 L)) x c (h + k) (w + l)) <= B2R (fst r))%R) /\
         ((exists k l : nat,
             k < kh /\ l < kw /\ snd r = (h + k, w + l) /\ fst r = get3 (@zero (NumF32 L)) x c (h + k) (w + l)) \/
          r = (f_fmin, (0, 0)) /\
          (forall k l : nat, k < kh -> l < kw -> B2R (get3 (@zero (NumF32 L)) x c (h + k) (w + l)) = B2R f_fmin)).
Proof. exact @pool_cell_is_max_F32. Qed.
Print Assumptions C02_maxpool_cell_is_window_maximum_F32.

Theorem C02_flat_input_rechunked :
  forall (N : Num) (d : vec3 (T N)) (c h w : nat),
         rect3 c h w d -> 0 < h -> 0 < w -> chunk_input N (flat3 d) h w = Ok d.
Proof. exact @chunk_input_flat3. Qed.
Print Assumptions C02_flat_input_rechunked.

Theorem C02_convolution_flat_equals_spatial :
  forall (N : Num) (l : conv N) (d : vec3 (T N)) (c h w : nat) (x x' : tensor N),
         c_inputs l = STriple c h w ->
         rect3 c h w d ->
         0 < c ->
         0 < h ->
         0 < w -> tdata x = DSingle (flat3 d) -> tdata x' = DTriple d -> conv_forward l x = conv_forward l x'.
Proof. exact @conv_forward_flat. Qed.
Print Assumptions C02_convolution_flat_equals_spatial.

Theorem C02_deconvolution_flat_equals_spatial :
  forall (N : Num) (l : deconv N) (d : vec3 (T N)) (c h w : nat) (x x' : tensor N),
         dc_inputs l = STriple c h w ->
         rect3 c h w d ->
         0 < h ->
         0 < w ->
         tdata x = DSingle (flat3 d) -> tdata x' = DTriple d -> deconv_forward l x = deconv_forward l x'.
Proof. exact @deconv_forward_flat. Qed.
Print Assumptions C02_deconvolution_flat_equals_spatial.

Theorem C02_maxpool_flat_equals_spatial :
  forall (N : Num) (l : maxpool N) (d : vec3 (T N)) (c h w : nat) (x x' : tensor N),
         m_inputs l = STriple c h w ->
         rect3 c h w d ->
         0 < c ->
         0 < h ->
         0 < w ->
         tdata x = DSingle (flat3 d) -> tdata x' = DTriple d -> maxpool_forward l x = maxpool_forward l x'.
Proof. exact @maxpool_forward_flat. Qed.
Print Assumptions C02_maxpool_flat_equals_spatial.

Theorem C02_network_is_composition :
  forall (N : Num) (n : network N) (x : tensor N),
         n_connect n = [] ->
         n_loopbacks n = [] ->
         predict n x = foldM (fun (t : tensor N) (l : layer N) => layer_out l t) (n_layers n) x.
Proof. exact @predict_is_composition. Qed.
Print Assumptions C02_network_is_composition.

