(* C01, end to end on the MODEL's own functions: for every dense network (any depth, widths,
   parameter values, bias on/off, activations relu / leaky relu / sigmoid / tanh / linear) under the
   mean-squared error, Learn.sample_grad = Network.forward + Objective.loss + Network.backward,
   instantiated at the reals, returns the derivative of the loss that the same functions compute:
   along every differentiable curve of all parameters (mlp_model_gradient), and entry by entry as
   partial derivatives (mlp_model_partial_derivative). The network is written in canonical form
   (layer k reads its o_k x n_k weights and o_k biases from a parameter vector theta_k);
   differentiability of relu-type activations is required at the pre-activations actually reached.
   The second half replaces the mean-squared error by any objective with a local contract and proves
   the contract for absolute error, mean-squared error, binary cross-entropy and KL divergence. *)
From NV Require Import Prelude Num NumR Random Tensor Activation Objective Optimizer Layers Network Learn.
From NV.Theory Require Import RSum Deriv Chain ChainDense NetDeriv NetDerivObj NetDerivSoftmax.
From NV.Theory Require C06.
Require Import Reals List.
From Coquelicot Require Import Coquelicot.
Import ListNotations.
Local Open Scope list_scope.
Local Open Scope R_scope.

Theorem C01_model_dense_forward_is_the_stage :
  forall (s : lspec) (th : vec) (xl : list (T NR)),
         length xl = ls_n s ->
         ls_act s <> Softmax ->
         dense_forward (mk_dense s th) (t_single NR xl) =
         Ok
           (t_single NR (lof (ls_o s) (preD (ls_o s) (ls_n s) (eff s th) (vof xl))),
            t_single NR (lof (ls_o s) (sfwd (stage_of s) (eff s th) (vof xl)))).
Proof. exact @mk_dense_forward. Qed.
Print Assumptions C01_model_dense_forward_is_the_stage.

Theorem C01_model_dense_backward_is_the_stage :
  forall (s : lspec) (th : vec) (xl gl : list R),
         (0 < ls_o s)%nat ->
         (0 < ls_n s)%nat ->
         length xl = ls_n s ->
         length gl = ls_o s ->
         ls_act s <> Softmax ->
         let b := sbwd (stage_of s) (eff s th) (vof xl) (vof gl) in
         dense_backward (mk_dense s th) (t_single NR gl) (t_single NR xl)
           (t_single NR (lof (ls_o s) (preD (ls_o s) (ls_n s) (eff s th) (vof xl)))) =
         Ok (t_single NR (lof (ls_n s) (fst b)), wg_tensor s (snd b), bg_tensor s (snd b)).
Proof. exact @mk_dense_backward. Qed.
Print Assumptions C01_model_dense_backward_is_the_stage.

Theorem C01_model_forward_records :
  forall (n : network NR) (specs : list (lspec * vec)) (d : nat) (xl : list R),
         n_connect n = [] ->
         n_loopbacks n = [] ->
         n_layers n = map mkL specs ->
         chainedS specs d ->
         length xl = d ->
         forward n (t_single NR xl) =
         Ok
           {|
             fw_pre := map (t_single NR) (presL specs xl);
             fw_post :=
               t_single NR xl
               :: map (t_single NR)
                    (tl (insL specs xl) ++ match specs with
                                           | [] => []
                                           | _ :: _ => (predL specs xl :: nil)
                                           end);
             fw_max := repeat None (length specs);
             fw_fb := []
           |}.
Proof. exact @forward_mlp. Qed.
Print Assumptions C01_model_forward_records.

Theorem C01_model_backward_is_the_reverse_walk :
  forall (n : network NR) (specs : list (lspec * vec)) (d : nat) (xl gl : list R) (f : fwd NR),
         n_connect n = [] ->
         n_layers n = map mkL specs ->
         chainedS specs d ->
         length xl = d ->
         length gl = lastD specs d ->
         fw_pre f = map (t_single NR) (presL specs xl) ->
         (forall t : nat,
          (t < length specs)%nat -> nth_error (fw_post f) t = Some (t_single NR (nth t (insL specs xl) []))) ->
         fw_max f = repeat None (length specs) ->
         let
         '(_, gps, gins) := gradsL specs xl gl in
          backward n (t_single NR gl) f = Ok (ws_of specs gps, bs_of specs gps, t_single NR gl :: gs_of gins).
Proof. exact @backward_mlp. Qed.
Print Assumptions C01_model_backward_is_the_reverse_walk.

Theorem C01_reverse_walk_is_the_derivative :
  forall (cs : curves) (d : nat) (X : R -> list R) (X' : vec) (h0 : R) (m : nat) 
           (Lf : list R -> R) (gL : list R -> list R),
         chainedS (at_t cs h0) d ->
         (forall t : R, length (X t) = d) ->
         dvec d (fun t : R => vof (X t)) h0 X' ->
         curves_ok cs h0 ->
         smoothL (at_t cs h0) (X h0) ->
         m = lastD (at_t cs h0) d ->
         (forall (Y : R -> list R) (Y' : vec),
          (forall t : R, length (Y t) = m) ->
          dvec m (fun t : R => vof (Y t)) h0 Y' ->
          is_derive (fun t : R_AbsRing => Lf (Y t)) h0 (dotp m (vof (gL (Y h0))) Y')) ->
         let
         '(gin, gps, _) := gradsL (at_t cs h0) (X h0) (gL (predL (at_t cs h0) (X h0))) in
          is_derive (fun t : R_AbsRing => Lf (predL (at_t cs t) (X t))) h0
            (pairing cs gps + dotp d (vof gin) X').
Proof. exact @gradsL_derivative. Qed.
Print Assumptions C01_reverse_walk_is_the_derivative.

Theorem C01_model_gradient_is_the_derivative_of_the_model_loss :
  forall (n0 : network NR) (cs : curves) (d : nat) (xl tgl : list R) (h0 : R),
         n_connect n0 = [] ->
         n_loopbacks n0 = [] ->
         n_objective n0 = (MSE, None) ->
         chainedS (at_t cs h0) d ->
         length xl = d ->
         length tgl = lastD (at_t cs h0) d ->
         (0 < length tgl)%nat ->
         curves_ok cs h0 ->
         smoothL (at_t cs h0) xl ->
         exists gps : list vec,
           length gps = length cs /\
           sample_grad (net_at n0 cs h0) (t_single NR xl, t_single NR tgl) =
           Ok
             (ws_of (at_t cs h0) gps, bs_of (at_t cs h0) gps,
              mseR (length tgl) (vof tgl) (vof (predL (at_t cs h0) xl))) /\
           (forall t : R,
            loss_of (sample_grad (net_at n0 cs t) (t_single NR xl, t_single NR tgl)) =
            mseR (length tgl) (vof tgl) (vof (predL (at_t cs t) xl))) /\
           is_derive
             (fun t : R_AbsRing => loss_of (sample_grad (net_at n0 cs t) (t_single NR xl, t_single NR tgl))) h0
             (pairing cs gps).
Proof. exact @mlp_model_gradient. Qed.
Print Assumptions C01_model_gradient_is_the_derivative_of_the_model_loss.

Theorem C01_model_gradient_entry_is_the_partial_derivative :
  forall (n0 : network NR) (specs : list (lspec * vec)) (d : nat) (xl tgl : list R) 
           (k0 j : nat) (s : lspec) (th : vec),
         n_connect n0 = [] ->
         n_loopbacks n0 = [] ->
         n_objective n0 = (MSE, None) ->
         chainedS specs d ->
         length xl = d ->
         length tgl = lastD specs d ->
         (0 < length tgl)%nat ->
         smoothL specs xl ->
         nth_error specs k0 = Some (s, th) ->
         (j < ls_o s * ls_n s + (if ls_bias s then ls_o s else 0))%nat ->
         let cs := one_param_curves specs k0 j in
         exists gps : list vec,
           sample_grad (net_at n0 cs 0) (t_single NR xl, t_single NR tgl) =
           Ok
             (ws_of (at_t cs 0) gps, bs_of (at_t cs 0) gps,
              mseR (length tgl) (vof tgl) (vof (predL (at_t cs 0) xl))) /\
           is_derive
             (fun t : R_AbsRing => loss_of (sample_grad (net_at n0 cs t) (t_single NR xl, t_single NR tgl))) 0
             (nth k0 gps (fun _ : nat => 0) j).
Proof. exact @mlp_model_partial_derivative. Qed.
Print Assumptions C01_model_gradient_entry_is_the_partial_derivative.

Theorem C01_model_gradient_theorem_applies :
  forall (th1 th2 d1 d2 : vec) (x1 x2 y : R),
         let s1 := {| ls_o := 2; ls_n := 2; ls_act := Sigmoid; ls_bias := true |} in
         let s2 := {| ls_o := 1; ls_n := 2; ls_act := Linear; ls_bias := false |} in
         let cs :=
           [(s1, fun (t : R) (i : nat) => th1 i + t * d1 i, d1);
            (s2, fun (t : R) (i : nat) => th2 i + t * d2 i, d2)] in
         exists gps : list vec,
           is_derive
             (fun t : R_AbsRing =>
              loss_of
                (sample_grad (net_at (network_new NR (SSingle 2)) cs t) (t_single NR [x1; x2], t_single NR (y :: nil))))
             0 (pairing cs gps).
Proof. exact @mlp_model_gradient_applies. Qed.
Print Assumptions C01_model_gradient_theorem_applies.


Theorem C01_model_gradient_for_any_objective_with_contract :
  forall (o : objective) (m : nat) (tgl : list R) (Lf : list R -> R) (gL : list R -> list R)
           (n0 : network NR) (cs : curves) (d : nat) (xl : list R) (h0 : R),
         n_connect n0 = [] ->
         n_loopbacks n0 = [] ->
         n_objective n0 = (o, None) ->
         chainedS (at_t cs h0) d ->
         length xl = d ->
         length tgl = m ->
         m = lastD (at_t cs h0) d ->
         curves_ok cs h0 ->
         smoothL (at_t cs h0) xl ->
         loss_is o m tgl Lf gL ->
         contract_at m Lf gL (predL (at_t cs h0) xl) h0 ->
         exists gps : list vec,
           length gps = length cs /\
           sample_grad (net_at n0 cs h0) (t_single NR xl, t_single NR tgl) =
           Ok (ws_of (at_t cs h0) gps, bs_of (at_t cs h0) gps, Lf (predL (at_t cs h0) xl)) /\
           (forall t : R,
            loss_of (sample_grad (net_at n0 cs t) (t_single NR xl, t_single NR tgl)) =
            Lf (predL (at_t cs t) xl)) /\
           is_derive
             (fun t : R_AbsRing => loss_of (sample_grad (net_at n0 cs t) (t_single NR xl, t_single NR tgl))) h0
             (pairing cs gps).
Proof. exact @mlp_model_gradient_obj. Qed.
Print Assumptions C01_model_gradient_for_any_objective_with_contract.

Theorem C01_model_loss_of_separable_objectives :
  forall (o : objective) (yl tgl : list R) (m : nat),
         separable o ->
         (0 < m)%nat ->
         length yl = m ->
         length tgl = m ->
         loss o None (t_single NR yl) (t_single NR tgl) =
         Ok (sepL m tgl (ell_of o (INR m)) yl, t_single NR (sepG m tgl (grad_fun NR o (INR m)) yl)).
Proof. exact @loss_separable. Qed.
Print Assumptions C01_model_loss_of_separable_objectives.

Theorem C01_separable_objective_terms_are_differentiable :
  forall (o : objective) (n a q : R),
         n <> 0 -> ell_smooth_at o a q -> is_derive (ell_of o n a) q (grad_fun NR o n a q).
Proof. exact @ell_derive. Qed.
Print Assumptions C01_separable_objective_terms_are_differentiable.

Theorem C01_model_gradient_is_the_derivative_separable_objectives :
  forall (o : objective) (n0 : network NR) (cs : curves) (d : nat) (xl tgl : list R) (h0 : R),
         separable o ->
         n_connect n0 = [] ->
         n_loopbacks n0 = [] ->
         n_objective n0 = (o, None) ->
         chainedS (at_t cs h0) d ->
         length xl = d ->
         length tgl = lastD (at_t cs h0) d ->
         (0 < length tgl)%nat ->
         curves_ok cs h0 ->
         smoothL (at_t cs h0) xl ->
         (forall i : nat, (i < length tgl)%nat -> ell_smooth_at o (vof tgl i) (vof (predL (at_t cs h0) xl) i)) ->
         let m := length tgl in
         let Lf := sepL m tgl (ell_of o (INR m)) in
         exists gps : list vec,
           length gps = length cs /\
           sample_grad (net_at n0 cs h0) (t_single NR xl, t_single NR tgl) =
           Ok (ws_of (at_t cs h0) gps, bs_of (at_t cs h0) gps, Lf (predL (at_t cs h0) xl)) /\
           (forall t : R,
            loss_of (sample_grad (net_at n0 cs t) (t_single NR xl, t_single NR tgl)) =
            Lf (predL (at_t cs t) xl)) /\
           is_derive
             (fun t : R_AbsRing => loss_of (sample_grad (net_at n0 cs t) (t_single NR xl, t_single NR tgl))) h0
             (pairing cs gps).
Proof. exact @mlp_model_gradient_separable. Qed.
Print Assumptions C01_model_gradient_is_the_derivative_separable_objectives.

Theorem C01_separable_theorem_applies_to_bce :
  forall (th : vec) (x1 x2 y : R),
         let s := {| ls_o := 1; ls_n := 2; ls_act := Sigmoid; ls_bias := true |} in
         let cs := ((s, fun (t : R) (i : nat) => th i + t, fun _ : nat => 1) :: nil) in
         C06.eps_R < vof (predL (at_t cs 0) [x1; x2]) 0%nat < 1 - C06.eps_R ->
         exists gps : list vec,
           is_derive
             (fun t : R_AbsRing =>
              loss_of
                (sample_grad (net_at (set_objective (network_new NR (SSingle 2)) BinaryCrossEntropy None) cs t)
                   (t_single NR [x1; x2], t_single NR (y :: nil)))) 0 (pairing cs gps).
Proof. exact @separable_applies_bce. Qed.
Print Assumptions C01_separable_theorem_applies_to_bce.

(* ---- soft-max output layer under the cross-entropy objective ---- *)
Theorem C01_softmax_layer_backward_is_the_linear_layer_backward :
  forall (n0 : network NR) (front : list (lspec * vec)) (s : lspec) (th : vec) 
           (g : tensor NR) (f : fwd NR),
         ls_act s = Softmax ->
         backward (set_layers n0 (map mkL front ++ (mkL (s, th) :: nil))) g f =
         backward (set_layers n0 (map mkL front ++ (mkL (as_linear s, th) :: nil))) g f.
Proof. exact @backward_softmax_as_linear. Qed.
Print Assumptions C01_softmax_layer_backward_is_the_linear_layer_backward.

Theorem C01_model_forward_with_softmax_output :
  forall (front : list (lspec * vec)) (s : lspec) (th : vec) (n0 : network NR),
         n_connect n0 = [] ->
         n_loopbacks n0 = [] ->
         ls_act s = Softmax ->
         forall (d : nat) (xl : list R),
         length xl = d ->
         chainedS front d ->
         ls_n s = lastD front d ->
         forward (set_layers n0 (map mkL front ++ (mkL (s, th) :: nil))) (t_single NR xl) =
         Ok
           {|
             fw_pre := map (t_single NR) (presL (front ++ ((as_linear s, th) :: nil)) xl);
             fw_post :=
               map (t_single NR)
                 (insL (front ++ ((as_linear s, th) :: nil)) xl ++
                  (softmax_list NR (predL (front ++ ((as_linear s, th) :: nil)) xl) :: nil));
             fw_max := repeat None (length (front ++ ((as_linear s, th) :: nil)));
             fw_fb := []
           |}.
Proof. exact @forward_softmax_net. Qed.
Print Assumptions C01_model_forward_with_softmax_output.

Theorem C01_cross_entropy_of_softmax_contract :
  forall (tgl y0 : list R) (m : nat) (h0 : R),
         (0 < m)%nat ->
         length tgl = m ->
         bsum m (vof tgl) = 1 ->
         (forall i : nat, (i < m)%nat -> C06.eps_R < smR m (vof y0) i < 1 - C06.eps_R) ->
         contract_at m (ce_of_logits tgl) (ce_logit_grad tgl) y0 h0.
Proof. exact @ce_softmax_contract. Qed.
Print Assumptions C01_cross_entropy_of_softmax_contract.

Theorem C01_model_gradient_softmax_cross_entropy :
  forall (cfront : curves) (s : lspec) (Th : R -> vec) (Th' : vec) (n0 : network NR),
         n_connect n0 = [] ->
         n_loopbacks n0 = [] ->
         n_objective n0 = (CrossEntropy, None) ->
         ls_act s = Softmax ->
         forall (d : nat) (xl tgl : list R) (h0 : R),
         length xl = d ->
         chainedS (at_t cfront h0) d ->
         ls_n s = lastD (at_t cfront h0) d ->
         (0 < ls_o s)%nat ->
         (0 < ls_n s)%nat ->
         length tgl = ls_o s ->
         bsum (ls_o s) (vof tgl) = 1 ->
         curves_ok (clin cfront s Th Th') h0 ->
         smoothL (at_t (clin cfront s Th Th') h0) xl ->
         (forall i : nat,
          (i < ls_o s)%nat ->
          C06.eps_R < smR (ls_o s) (vof (predL (at_t (clin cfront s Th Th') h0) xl)) i < 1 - C06.eps_R) ->
         exists gps : list vec,
           length gps = length (clin cfront s Th Th') /\
           sample_grad (sm_net_at cfront s Th n0 h0) (t_single NR xl, t_single NR tgl) =
           Ok
             (ws_of (at_t (clin cfront s Th Th') h0) gps, bs_of (at_t (clin cfront s Th Th') h0) gps,
              ce_of_logits tgl (predL (at_t (clin cfront s Th Th') h0) xl)) /\
           (forall t : R,
            loss_of (sample_grad (sm_net_at cfront s Th n0 t) (t_single NR xl, t_single NR tgl)) =
            ce_of_logits tgl (predL (at_t (clin cfront s Th Th') t) xl)) /\
           is_derive
             (fun t : R_AbsRing =>
              loss_of (sample_grad (sm_net_at cfront s Th n0 t) (t_single NR xl, t_single NR tgl))) h0
             (pairing (clin cfront s Th Th') gps).
Proof. exact @softmax_ce_model_gradient. Qed.
Print Assumptions C01_model_gradient_softmax_cross_entropy.

Theorem C01_softmax_cross_entropy_theorem_applies :
  forall (th0 d0 dl : vec) (x1 x2 : R),
         let s0 := {| ls_o := 2; ls_n := 2; ls_act := Tanh; ls_bias := true |} in
         let s := {| ls_o := 2; ls_n := 2; ls_act := Softmax; ls_bias := true |} in
         let cfront := ((s0, fun (t : R) (i : nat) => th0 i + t * d0 i, d0) :: nil) in
         let n0 := set_objective (network_new NR (SSingle 2)) CrossEntropy None in
         exists gps : list vec,
           is_derive
             (fun t : R_AbsRing =>
              loss_of
                (sample_grad (sm_net_at cfront s (fun (t0 : R) (i : nat) => t0 * dl i) n0 t)
                   (t_single NR [x1; x2], t_single NR [1; 0]))) 0
             (pairing (clin cfront s (fun (t : R) (i : nat) => t * dl i) dl) gps).
Proof. exact @softmax_ce_model_gradient_applies. Qed.
Print Assumptions C01_softmax_cross_entropy_theorem_applies.

