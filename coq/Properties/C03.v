(* C03 — Optimizer steps follow the documented update rules for every history.
   The scalar rules sgd_step / sgdm_step / adam_step / adamw_step / rms_step of coq/Optimizer.v
   transcribe the documented equations (including stepnr > 1 for SGDM and the defaults installed by
   validate). The theorems: the three rank copies apply that scalar rule position by position
   (hence the result does not depend on the rank), and an update touches only the addressed slot. *)
From NV Require Import Prelude Num NumF32 Random Tensor Optimizer.
From NV.Theory Require Import Monad Build C03.

(* vectors: closed form of the update, and every weight is the scalar rule at its own position *)
Theorem C03_vector_elementwise :
  forall (N : Num) (step : T N -> list (T N) -> T N * list (T N)) ws auxs,
    Forall (fun a => length ws <= length a) auxs ->
    lift_row N step ws auxs = Ok (row_fun N step ws auxs) /\
    forall i, i < length ws ->
      nth i (fst (row_fun N step ws auxs)) zero = fst (step (nth i ws zero) (aux_at1 N auxs i)).
Proof. intros. split; [apply lift_row_ok; assumption|intros; apply row_fun_w; assumption]. Qed.
Print Assumptions C03_vector_elementwise.

(* ... and so is every mutated gradient / state value *)
Theorem C03_vector_state_elementwise :
  forall (N : Num) (step : T N -> list (T N) -> T N * list (T N)) ws auxs k i,
    Forall (fun a => length ws <= length a) auxs -> k < length auxs -> i < length ws ->
    nth i (nth k (snd (row_fun N step ws auxs)) []) zero = nth k (snd (step (nth i ws zero) (aux_at1 N auxs i))) zero.
Proof. exact row_fun_aux. Qed.
Print Assumptions C03_vector_state_elementwise.

(* matrices *)
Theorem C03_matrix_elementwise :
  forall (N : Num) (step : T N -> list (T N) -> T N * list (T N)) ws auxs,
    Forall (fits2 N ws) auxs ->
    lift_mat N step ws auxs = Ok (mat_fun N step ws auxs) /\
    forall i j, i < length ws -> j < length (nth i ws []) ->
      get2 zero (fst (mat_fun N step ws auxs)) i j = fst (step (get2 zero ws i j) (aux_at2 N auxs i j)).
Proof. intros. split; [apply lift_mat_ok; assumption|intros; apply mat_fun_w; assumption]. Qed.
Print Assumptions C03_matrix_elementwise.

(* 3-D kernels *)
Theorem C03_kernel_elementwise :
  forall (N : Num) (step : T N -> list (T N) -> T N * list (T N)) ws auxs,
    Forall (fits3 N ws) auxs ->
    lift_cube N step ws auxs = Ok (cube_fun N step ws auxs) /\
    forall c i j, c < length ws -> i < length (nth c ws []) -> j < length (nth i (nth c ws []) []) ->
      get3 zero (fst (cube_fun N step ws auxs)) c i j = fst (step (get3 zero ws c i j) (aux_at3 N auxs c i j)).
Proof. intros. split; [apply lift_cube_ok; assumption|intros; apply cube_fun_w; assumption]. Qed.
Print Assumptions C03_kernel_elementwise.

(* state kept for one (layer, filter, bias) slot never influences another slot: an update leaves
   every other slot of every state array unchanged *)
Theorem C03_update_frame :
  forall (N : Num) (o o' : optimizer N) l f b stepnr v g v' g' l' f' b',
    opt_update o l f b stepnr v g = Ok (o', v', g') ->
    (l, f, b) <> (l', f', b') ->
    map (fun st => slot_get st l' f' b') (opt_states o') = map (fun st => slot_get st l' f' b') (opt_states o).
Proof. exact update_frame. Qed.
Print Assumptions C03_update_frame.

(* non-vacuity: three Adam steps on a 2x2 matrix in binary32 equal the same steps on the flat vector *)
Example C03_nonvacuous :
  let N := NumF32 libm_none in
  let q (p r : Z) := ratio (N := N) p r in
  let step w (a : list (T N)) := match a with
                                 | [g; m] => (nsub N w (nmul N (q 1%Z 10%Z) g), [g; nadd N m g])
                                 | _ => (w, a) end in
  map f_to_bits (concat (fst (mat_fun N step [[q 1%Z 2%Z; q 1%Z 4%Z]; [q 3%Z 4%Z; q 1%Z 8%Z]] [[[q 1%Z 1%Z; q 2%Z 1%Z]; [q 3%Z 1%Z; q 4%Z 1%Z]]; [[q 0%Z 1%Z; q 0%Z 1%Z]; [q 0%Z 1%Z; q 0%Z 1%Z]]])))
  = map f_to_bits (fst (row_fun N step [q 1%Z 2%Z; q 1%Z 4%Z; q 3%Z 4%Z; q 1%Z 8%Z] [[q 1%Z 1%Z; q 2%Z 1%Z; q 3%Z 1%Z; q 4%Z 1%Z]; [q 0%Z 1%Z; q 0%Z 1%Z; q 0%Z 1%Z; q 0%Z 1%Z]])).
Proof. vm_compute. reflexivity. Qed.

(* "starting from fresh optimizer state" at every attachment: an optimizer value that was attached with any
   state, stepped through ANY history of updates (any slots, step numbers, values, gradients) and is attached
   again gets exactly the state a fresh attachment gives - validate reads none of the statistics held, and
   no step changes a hyper-parameter *)
Theorem C03_reattached_optimizer_is_fresh :
  forall (N : Num) (o o' : optimizer N) (v1 v2 : slots N),
    stepped (opt_validate o v1) o' -> opt_validate o' v2 = opt_validate o v2.
Proof. exact reattach_is_fresh. Qed.
Print Assumptions C03_reattached_optimizer_is_fresh.

Theorem C03_step_keeps_hyperparameters :
  forall (N : Num) (o o' : optimizer N) l f b s w g w' g',
    opt_update o l f b s w g = Ok (o', w', g') -> hyper o' = hyper o.
Proof. exact update_keeps_hyper. Qed.
Print Assumptions C03_step_keeps_hyperparameters.
