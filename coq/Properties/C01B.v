(* C01, composition: a dense layer is a stage of Theory/Chain.v, the mean-squared error satisfies the
   objective contract, so for multi-layer perceptrons of any depth and widths the reverse walk is
   the derivative of the objective; the contracts hold everywhere for smooth activations. *)
From NV.Theory Require Import RSum Adjoint Deriv Chain ChainDense.
Require Import Reals List.
From Coquelicot Require Import Coquelicot.
Local Open Scope R_scope.

Theorem C01_dense_layer_is_a_stage :
  forall (o n : nat) (phi phi' : R -> R) (theta0 x0 : vec),
         (forall i : nat,
          (i < o)%nat -> is_derive phi (ChainDense.pre o n theta0 x0 i) (phi' (ChainDense.pre o n theta0 x0 i))) ->
         stage_ok (dense_stage o n phi phi') theta0 x0.
Proof. exact @dense_stage_ok. Qed.
Print Assumptions C01_dense_layer_is_a_stage.

Theorem C01_mean_squared_error_contract :
  forall (m : nat) (tg : vec) (Y : R -> vec) (Y' : vec) (h0 : R),
         (0 < m)%nat ->
         dvec m Y h0 Y' ->
         is_derive (fun t : R_AbsRing => mseR m tg (Y t)) h0 (dotp m (mse_gradR m tg (Y h0)) Y').
Proof. exact @mse_contract. Qed.
Print Assumptions C01_mean_squared_error_contract.

Theorem C01_perceptron_backprop_is_the_derivative :
  forall (ls : list dense_spec) (d : nat) (X : R -> vec) (X' : vec) (h0 : R) (tg : vec),
         chained (mlp ls) d ->
         all_ok (mlp ls) X h0 ->
         dvec d X h0 X' ->
         (0 < last_dim (mlp ls) d)%nat ->
         let
         '(gin, gps) := reverse (mlp ls) X h0 (mse_gradR (last_dim (mlp ls) d) tg) in
          is_derive (fun t : R_AbsRing => mseR (last_dim (mlp ls) d) tg (run (mlp ls) X t)) h0
            (param_pairing (mlp ls) gps + dotp d gin X').
Proof. exact @mlp_backprop_is_derivative. Qed.
Print Assumptions C01_perceptron_backprop_is_the_derivative.

Theorem C01_perceptron_contracts_hold_for_smooth_activations :
  forall (ls : list dense_spec) (h0 : R) (X : R -> vec),
         List.Forall
           (fun l : dense_spec =>
            (forall u : R_AbsRing, is_derive (ds_phi l) u (ds_phi' l u)) /\
            dvec (ds_o l * ds_n l + ds_o l) (ds_th l) h0 (ds_th' l)) ls -> all_ok (mlp ls) X h0.
Proof. exact @mlp_all_ok. Qed.
Print Assumptions C01_perceptron_contracts_hold_for_smooth_activations.

