(* C18 — The random generator stays in range and shuffling is a safe permutation.
   (Stated for the repaired generator: state reduced before the multiplication, value and shuffle
   index clamped; see known_findings.json, fixed entries of C18.) *)
From NV Require Import Prelude Num NumF32 Random Tensor.
From NV.Theory Require Import Monad C18.
From Coq Require Import Permutation.
From Flocq Require Import Core BinarySingleNaN.
Require Import Reals.

(* every state produced by a step lies in [0, m) *)
Theorem C18_state_range : forall cur, (0 <= lcg_next cur < lcg_m)%Z.
Proof. exact next_range. Qed.
Print Assumptions C18_state_range.

(* for every 64-bit seed the u64 product of the step cannot overflow (debug = release build),
   and a seed generates the same sequence as its residue modulo m *)
Theorem C18_no_overflow :
  forall cur, (0 <= cur)%Z -> (0 <= lcg_a * (cur mod lcg_m) < two64)%Z.
Proof. exact next_no_overflow. Qed.
Print Assumptions C18_no_overflow.
Theorem C18_seed_reduction : forall cur, lcg_next (cur mod lcg_m) = lcg_next cur.
Proof. exact next_reduces. Qed.
Print Assumptions C18_seed_reduction.

(* the sequence is a pure function of the seed *)
Theorem C18_sequence_pure :
  forall (N : Num) n seed lo hi,
    fst (generate_n N n seed lo hi) = state_after n seed /\ length (snd (generate_n N n seed lo hi)) = n.
Proof. exact generate_n_states. Qed.
Print Assumptions C18_sequence_pure.

(* for EVERY generator state (indeed every integer) and all finite min <= max, generate(min, max)
   is a finite binary32 value in [min, max] *)
Theorem C18_generate_in_range :
  forall (L : Libm) cur (lo hi : f32),
    is_finite lo = true -> is_finite hi = true -> (B2R lo <= B2R hi)%R ->
    is_finite (lcg_value (NumF32 L) cur lo hi) = true /\
    (B2R lo <= B2R (lcg_value (NumF32 L) cur lo hi) <= B2R hi)%R.
Proof. exact generate_in_range. Qed.
Print Assumptions C18_generate_in_range.

(* shuffle never panics, for every seed and every length ... *)
Theorem C18_shuffle_total :
  forall (N : Num) A wrap seed (l : list A), exists c' l', shuffle N wrap seed l = Ok (c', l').
Proof. exact shuffle_total. Qed.
Print Assumptions C18_shuffle_total.

(* ... and its result is a permutation of its input (same multiset) *)
Theorem C18_shuffle_permutation :
  forall (N : Num) A wrap seed (l : list A) c' l',
    shuffle N wrap seed l = Ok (c', l') -> Permutation l l'.
Proof. exact shuffle_perm. Qed.
Print Assumptions C18_shuffle_permutation.

(* non-vacuity / regression: the state 2^31 - 2 (seed 247665088), on which the unrepaired code
   indexed `len`, now shuffles five elements; a seed above 2^64/48271 works *)
Example C18_nonvacuous :
  rmap snd (shuffle (NumF32 libm_none) false 247665088 [0; 1; 2; 3; 4]) = Ok [2; 3; 1; 0; 4]
  /\ lcg_next 247665088 = (lcg_m - 1)%Z
  /\ rmap snd (shuffle (NumF32 libm_none) false 18446744073709551615 [0; 1; 2]) = Ok [1; 0; 2].
Proof. vm_compute. repeat split; reflexivity. Qed.
