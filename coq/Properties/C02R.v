(* C02, real-number part: over the reals the deconvolution cell of the model is the transposed
   convolution: it is the adjoint, for the standard pairing, of the zero-padded strided
   cross-correlation with the same kernels (indices of filter and channel exchanged), stride and
   padding. *)
From NV Require Import Prelude Num NumR Random Tensor Activation Layers.
From NV.Theory Require Import Lists RSum Adjoint Deriv C01.
Require Import Reals.
Local Open Scope R_scope.

Theorem C02_deconvolution_cell_R :
  forall (stride padding : nat * nat) (x : vec3 R) (ks : vec4 R) (kc ih iw kh kw k oi oj : nat),
         deconv_cell NumR stride padding x ks kc ih iw kh kw k oi oj =
         deconvR (fst stride) (snd stride) (fst padding) (snd padding) kc kh kw ih iw 
           (get4 z0 ks) (get3 z0 x) k oi oj.
Proof. exact @deconv_cell_is_deconvR. Qed.
Print Assumptions C02_deconvolution_cell_R.

Theorem C02_deconvolution_is_transposed_convolution :
  forall (s1 s2 p1 p2 kf kc kh kw ih iw oh ow : nat) (K : nat -> nat -> nat -> nat -> R)
           (X Y : nat -> nat -> nat -> R),
         bsum3 kf oh ow (fun k oi oj : nat => Y k oi oj * deconvR s1 s2 p1 p2 kc kh kw ih iw K X k oi oj) =
         bsum3 kc ih iw (fun c i j : nat => X c i j * convR s1 s2 1 1 p1 p2 kf kh kw oh ow (swapK K) Y c i j).
Proof. exact @deconv_is_transposed_conv. Qed.
Print Assumptions C02_deconvolution_is_transposed_convolution.

Theorem C02_convolution_cell_R :
  forall (stride dilation padding : nat * nat) (d : vec3 R) (ks : vec4 R) (ih iw kc kh kw f oy ox : nat),
         Conv.corr_cell NumR stride dilation (Conv.xpad NumR d ih iw (fst padding) (snd padding)) ks kc kh kw f
           oy ox =
         convR (fst stride) (snd stride) (fst dilation) (snd dilation) (fst padding) 
           (snd padding) kc kh kw ih iw (get4 z0 ks) (get3 z0 d) f oy ox.
Proof. exact @conv_cell_is_convR. Qed.
Print Assumptions C02_convolution_cell_R.

