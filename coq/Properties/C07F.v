(* C07, binary32 and shape part. For every finite single-precision input: ReLU, leaky ReLU and
   the derivatives of both are finite; the sigmoid is finite and in [0,1] for any libm whose expf
   returns +infinity or a finite non-negative number on non-NaN inputs (hypothesis exp_ok, part of
   the statement); element-wise activations and their derivatives keep the shape. *)
From NV Require Import Prelude Num NumF32 Random Tensor Activation.
From NV.Theory Require Import Lists C14 C07F32 C07Shape.
From Flocq Require Import Core BinarySingleNaN.
Require Import Reals.
Local Open Scope R_scope.

Theorem C07_relu_finite_F32 :
  forall (L : Libm) (v : f32), fin v -> fin (relu_f (NumF32 L) v).
Proof. exact @relu_finite. Qed.
Print Assumptions C07_relu_finite_F32.

Theorem C07_relu_derivative_finite_F32 :
  forall (L : Libm) (v : f32), fin (relu_b (NumF32 L) v).
Proof. exact @relu_derivative_finite. Qed.
Print Assumptions C07_relu_derivative_finite_F32.

Theorem C07_leaky_relu_finite_F32 :
  forall (L : Libm) (v : f32), fin v -> fin (leaky_f (NumF32 L) v).
Proof. exact @leaky_finite. Qed.
Print Assumptions C07_leaky_relu_finite_F32.

Theorem C07_leaky_relu_derivative_finite_F32 :
  forall (L : Libm) (v : f32), fin (leaky_b (NumF32 L) v).
Proof. exact @leaky_derivative_finite. Qed.
Print Assumptions C07_leaky_relu_derivative_finite_F32.

Theorem C07_sigmoid_finite_in_unit_interval_F32 :
  forall L : Libm,
         exp_ok L ->
         forall v : f32, fin v -> fin (sigmoid_f (NumF32 L) v) /\ 0 <= B2R (sigmoid_f (NumF32 L) v) <= 1.
Proof. exact @sigmoid_finite_in_unit_interval. Qed.
Print Assumptions C07_sigmoid_finite_in_unit_interval_F32.

Theorem C07_elementwise_activation_keeps_shape :
  forall (N : Num) (f : T N -> T N) (x y : tensor N),
         wf x -> ew_act f x = Ok y -> tshape y = tshape x /\ wf y.
Proof. exact @ew_act_keeps_shape. Qed.
Print Assumptions C07_elementwise_activation_keeps_shape.

Theorem C07_activation_keeps_shape :
  forall (N : Num) (a : activation) (x y : tensor N),
         a <> Softmax -> wf x -> act_forward a x = Ok y -> tshape y = tshape x.
Proof. exact @activation_keeps_shape. Qed.
Print Assumptions C07_activation_keeps_shape.

Theorem C07_activation_derivative_keeps_shape :
  forall (N : Num) (a : activation) (x y : tensor N),
         a <> Softmax -> a <> Linear -> wf x -> act_backward a x = Ok y -> tshape y = tshape x.
Proof. exact @activation_derivative_keeps_shape. Qed.
Print Assumptions C07_activation_derivative_keeps_shape.

Theorem C07_libm_hypothesis_spelled_out :
  forall L : Libm,
         exp_ok L <->
         (forall x : f32,
          is_nan x = false ->
          via (l_exp L) x = B754_infinity false \/
          is_finite (via (l_exp L) x) = true /\ 0 <= B2R (via (l_exp L) x)).
Proof. exact @exp_ok_def. Qed.
Print Assumptions C07_libm_hypothesis_spelled_out.

