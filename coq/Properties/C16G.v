(* C16, gradient clause: additive skip connections keep every gradient the exact derivative.
   In the stage calculus of Theory/Chain.v a skip connection a -> b makes layers a..b-1 a residual
   block; the residual block and sequential composition preserve the local contract (output
   differentiable along every curve, backward pass = transposed Jacobian), so reverse accumulation
   (C01_reverse_layer_walk_composes) applies to every network built from contract-satisfying
   layers by sequencing and additive skips. The backward rule of the residual block - the gradient
   through the block plus the gradient arriving at the target - is the rule of the repaired
   Network::backward; the correspondence of that function with this calculus is checked by the tie
   and the finite-difference falsifier, not proved. *)
From NV.Theory Require Import RSum Chain ChainDense ChainSkip.
Require Import Reals.
From Coquelicot Require Import Coquelicot.
Local Open Scope R_scope.

Theorem C16_residual_block_keeps_the_contract :
  forall (s : stage) (theta0 x0 : vec),
         din s = dout s -> stage_ok s theta0 x0 -> stage_ok (residual s) theta0 x0.
Proof. exact @residual_ok. Qed.
Print Assumptions C16_residual_block_keeps_the_contract.

Theorem C16_sequential_composition_keeps_the_contract :
  forall (s1 s2 : stage) (theta0 x0 : vec),
         dout s1 = din s2 ->
         stage_ok s1 theta0 x0 ->
         stage_ok s2 (vshift (dpar s1) theta0) (sfwd s1 theta0 x0) ->
         (forall th th' x x' : nat -> R,
          (forall i : nat, (i < dpar s1)%nat -> th i = th' i) ->
          (forall i : nat, (i < din s1)%nat -> x i = x' i) ->
          forall i : nat, (i < dout s1)%nat -> sfwd s1 th x i = sfwd s1 th' x' i) ->
         stage_ok (seq_stage s1 s2) theta0 x0.
Proof. exact @seq_ok. Qed.
Print Assumptions C16_sequential_composition_keeps_the_contract.

Theorem C16_residual_perceptron_satisfies_the_contract :
  forall (n m : nat) (phi1 phi1' phi2 phi2' phi3 phi3' : R -> R) (theta0 x0 : vec),
         (forall u : R_AbsRing, is_derive phi1 u (phi1' u)) ->
         (forall u : R_AbsRing, is_derive phi2 u (phi2' u)) ->
         (forall u : R_AbsRing, is_derive phi3 u (phi3' u)) ->
         let s1 := dense_stage n n phi1 phi1' in
         let blk := residual (dense_stage n n phi2 phi2') in
         let s3 := dense_stage m n phi3 phi3' in stage_ok (seq_stage s1 (seq_stage blk s3)) theta0 x0.
Proof. exact @residual_perceptron_ok. Qed.
Print Assumptions C16_residual_perceptron_satisfies_the_contract.

Theorem C16_residual_block_spelled_out :
  forall (s : stage) (th x g : vec),
         sfwd (residual s) th x = vadd (sfwd s th x) x /\
         sbwd (residual s) th x g = (vadd (fst (sbwd s th x g)) g, snd (sbwd s th x g)) /\
         din (residual s) = din s /\ dpar (residual s) = dpar s /\ dout (residual s) = dout s.
Proof. exact @residual_def. Qed.
Print Assumptions C16_residual_block_spelled_out.

Theorem C16_sequential_composition_spelled_out :
  forall (s1 s2 : stage) (th x : vec),
         sfwd (seq_stage s1 s2) th x = sfwd s2 (vshift (dpar s1) th) (sfwd s1 th x) /\
         din (seq_stage s1 s2) = din s1 /\
         dpar (seq_stage s1 s2) = (dpar s1 + dpar s2)%nat /\ dout (seq_stage s1 s2) = dout s2.
Proof. exact @seq_stage_def. Qed.
Print Assumptions C16_sequential_composition_spelled_out.

