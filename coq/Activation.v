(* src/activation.rs *)
From NV Require Import Prelude Num Random Tensor.
Set Implicit Arguments.

Inductive activation := ReLU | LeakyReLU | Sigmoid | Softmax | Tanh | Linear.

Section Activation.
  Variable N : Num.
  Notation T := (T N).
  Notation tensor := (tensor N).

  Definition alpha : T := ratio 1 100.

  (* scalar functions *)
  Definition relu_f (v : T) : T := fmax v zero.
  Definition relu_b (v : T) : T := if gtb v zero then one else zero.
  Definition leaky_f (v : T) : T := if gtb v zero then v else nmul N alpha v.
  Definition leaky_b (v : T) : T := if gtb v zero then one else alpha.
  Definition sigmoid_f (v : T) : T := ndiv N one (nadd N one (nexp N (nneg N v))).
  Definition sigmoid_b (v : T) : T := let y := sigmoid_f v in nmul N y (nsub N one y).
  Definition tanh_f (v : T) : T := ntanh N v.
  Definition tanh_b (v : T) : T := ndiv N one (powi (ncosh N v) 2).

  (* the element-wise activations only accept Single and Triple data *)
  Definition ew_act (f : T -> T) (x : tensor) : res tensor :=
    match tdata x with
    | DSingle d => Ok (mkT (SSingle (length d)) (DSingle (map f d)))
    | DTriple d =>
        match d with
        | (r :: _) :: _ =>
            Ok (mkT (STriple (length d) (hd_len d) (length r)) (DTriple (map (map (map f)) d)))
        | _ => Panic P_index
        end
    | _ => Panic P_explicit
    end.

  Definition softmax_list (x : list T) : list T :=
    let mx := fold_left fmax x (nneginf N) in
    let exps := map (fun v => nexp N (nsub N v mx)) x in
    let sum := fold_left (nadd N) exps zero in
    map (fun e => ndiv N e sum) exps.

  Definition softmax_f (x : tensor) : res tensor :=
    do f <- get_flat x;
    reshape (t_single N (softmax_list f)) (tshape x).

  Definition softmax_b_list (p : list T) : list T :=
    let scalar := fsum (map2 (nmul N) p p) in
    mapi (fun i pi_ =>
      fold_left (fun d jp =>
        if fst jp =? i
        then nadd N d (nsub N (nmul N pi_ (nsub N one pi_)) scalar)
        else nsub N d (nsub N (nmul N pi_ (snd jp)) scalar))
        (combine (seq 0 (length p)) p) zero) p.

  Definition softmax_b (x : tensor) : res tensor :=
    do y <- softmax_f x;
    do p <- get_flat y;
    reshape (t_single N (softmax_b_list p)) (tshape x).

  Definition act_forward (a : activation) (x : tensor) : res tensor :=
    match a with
    | ReLU => ew_act relu_f x
    | LeakyReLU => ew_act leaky_f x
    | Sigmoid => ew_act sigmoid_f x
    | Softmax => softmax_f x
    | Tanh => ew_act tanh_f x
    | Linear => Ok x
    end.

  Definition act_backward (a : activation) (x : tensor) : res tensor :=
    match a with
    | ReLU => ew_act relu_b x
    | LeakyReLU => ew_act leaky_b x
    | Sigmoid => ew_act sigmoid_b x
    | Softmax => softmax_b x
    | Tanh => ew_act tanh_b x
    | Linear => ones N (tshape x)
    end.
End Activation.
