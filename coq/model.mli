
type __ = Obj.t

val xorb : bool -> bool -> bool

val negb : bool -> bool

type nat =
| O
| S of nat

val option_map : ('a1 -> 'a2) -> 'a1 option -> 'a2 option

val fst : ('a1 * 'a2) -> 'a1

val snd : ('a1 * 'a2) -> 'a2

val length : 'a1 list -> nat

val app : 'a1 list -> 'a1 list -> 'a1 list

type comparison =
| Eq
| Lt
| Gt

val compOpp : comparison -> comparison

val add : nat -> nat -> nat

val mul : nat -> nat -> nat

val sub : nat -> nat -> nat

val eqb : bool -> bool -> bool

module Nat :
 sig
  val add : nat -> nat -> nat

  val sub : nat -> nat -> nat

  val eqb : nat -> nat -> bool

  val leb : nat -> nat -> bool

  val ltb : nat -> nat -> bool

  val min : nat -> nat -> nat

  val divmod : nat -> nat -> nat -> nat -> nat * nat

  val div : nat -> nat -> nat

  val modulo : nat -> nat -> nat
 end

val hd : 'a1 -> 'a1 list -> 'a1

val tl : 'a1 list -> 'a1 list

val nth : nat -> 'a1 list -> 'a1 -> 'a1

val nth_error : 'a1 list -> nat -> 'a1 option

val removelast : 'a1 list -> 'a1 list

val rev : 'a1 list -> 'a1 list

val concat : 'a1 list list -> 'a1 list

val map : ('a1 -> 'a2) -> 'a1 list -> 'a2 list

val flat_map : ('a1 -> 'a2 list) -> 'a1 list -> 'a2 list

val fold_left : ('a1 -> 'a2 -> 'a1) -> 'a2 list -> 'a1 -> 'a1

val existsb : ('a1 -> bool) -> 'a1 list -> bool

val forallb : ('a1 -> bool) -> 'a1 list -> bool

val filter : ('a1 -> bool) -> 'a1 list -> 'a1 list

val combine : 'a1 list -> 'a2 list -> ('a1 * 'a2) list

val firstn : nat -> 'a1 list -> 'a1 list

val skipn : nat -> 'a1 list -> 'a1 list

val seq : nat -> nat -> nat list

val repeat : 'a1 -> nat -> 'a1 list

type positive =
| XI of positive
| XO of positive
| XH

type z =
| Z0
| Zpos of positive
| Zneg of positive

module Pos :
 sig
  type mask =
  | IsNul
  | IsPos of positive
  | IsNeg
 end

module Coq_Pos :
 sig
  val succ : positive -> positive

  val add : positive -> positive -> positive

  val add_carry : positive -> positive -> positive

  val pred_double : positive -> positive

  type mask = Pos.mask =
  | IsNul
  | IsPos of positive
  | IsNeg

  val succ_double_mask : mask -> mask

  val double_mask : mask -> mask

  val double_pred_mask : positive -> mask

  val sub_mask : positive -> positive -> mask

  val sub_mask_carry : positive -> positive -> mask

  val mul : positive -> positive -> positive

  val iter : ('a1 -> 'a1) -> 'a1 -> positive -> 'a1

  val div2 : positive -> positive

  val div2_up : positive -> positive

  val compare_cont : comparison -> positive -> positive -> comparison

  val compare : positive -> positive -> comparison

  val eqb : positive -> positive -> bool

  val leb : positive -> positive -> bool

  val sqrtrem_step :
    (positive -> positive) -> (positive -> positive) -> (positive * mask) ->
    positive * mask

  val sqrtrem : positive -> positive * mask

  val iter_op : ('a1 -> 'a1 -> 'a1) -> positive -> 'a1 -> 'a1

  val to_nat : positive -> nat

  val of_succ_nat : nat -> positive
 end

module Z :
 sig
  val double : z -> z

  val succ_double : z -> z

  val pred_double : z -> z

  val pos_sub : positive -> positive -> z

  val add : z -> z -> z

  val opp : z -> z

  val sub : z -> z -> z

  val mul : z -> z -> z

  val pow_pos : z -> positive -> z

  val pow : z -> z -> z

  val compare : z -> z -> comparison

  val leb : z -> z -> bool

  val ltb : z -> z -> bool

  val eqb : z -> z -> bool

  val max : z -> z -> z

  val min : z -> z -> z

  val to_nat : z -> nat

  val of_nat : nat -> z

  val to_pos : z -> positive

  val pos_div_eucl : positive -> z -> z * z

  val div_eucl : z -> z -> z * z

  val div : z -> z -> z

  val modulo : z -> z -> z

  val even : z -> bool

  val div2 : z -> z

  val sqrtrem : z -> z * z

  val shiftl : z -> z -> z
 end

val zeq_bool : z -> z -> bool

val shift_pos : positive -> positive -> positive

type 'a res =
| Ok of 'a
| Panic of nat

val bind : 'a1 res -> ('a1 -> 'a2 res) -> 'a2 res

val rmap : ('a1 -> 'a2) -> 'a1 res -> 'a2 res

val p_shape : nat

val p_index : nat

val p_underflow : nat

val p_divzero : nat

val p_unwrap : nat

val p_explicit : nat

val p_overflow : nat

val p_parse : nat

val csub : nat -> nat -> nat res

val cdiv : nat -> nat -> nat res

val mapM : ('a1 -> 'a2 res) -> 'a1 list -> 'a2 list res

val foldM : ('a2 -> 'a1 -> 'a2 res) -> 'a1 list -> 'a2 -> 'a2 res

val map2 : ('a1 -> 'a2 -> 'a3) -> 'a1 list -> 'a2 list -> 'a3 list

val mapi_from : nat -> (nat -> 'a1 -> 'a2) -> 'a1 list -> 'a2 list

val mapi : (nat -> 'a1 -> 'a2) -> 'a1 list -> 'a2 list

val nth_res : 'a1 list -> nat -> 'a1 res

val set_nth : 'a1 list -> nat -> 'a1 -> 'a1 list

val upd_nth : 'a1 list -> nat -> ('a1 -> 'a1) -> 'a1 list

val chunks_fuel : nat -> nat -> 'a1 list -> 'a1 list list

val chunks : nat -> 'a1 list -> 'a1 list list

val chunks_exact : nat -> 'a1 list -> 'a1 list list

val take_exact : nat -> 'a1 list -> ('a1 list * 'a1 list) res

val take_rows : nat -> nat -> 'a1 list -> ('a1 list list * 'a1 list) res

val take_chans :
  nat -> nat -> nat -> 'a1 list -> ('a1 list list list * 'a1 list) res

val hd_len : 'a1 list list -> nat

val last_opt : 'a1 list -> 'a1 option

val sum_nat : nat list -> nat

val alist_get : (nat * 'a1) list -> nat -> 'a1 option

val alist_mem : (nat * 'a1) list -> nat -> bool

val alist_set : (nat * 'a1) list -> nat -> 'a1 -> (nat * 'a1) list

type num = { nofZ : (z -> __); nnzero : __; nneginf : __; nfmin : __;
             nadd : (__ -> __ -> __); nsub : (__ -> __ -> __);
             nmul : (__ -> __ -> __); ndiv : (__ -> __ -> __);
             nneg : (__ -> __); nabs : (__ -> __); nsqrt : (__ -> __);
             nexp : (__ -> __); nln : (__ -> __); ntanh : (__ -> __);
             ncosh : (__ -> __); npowf2 : (__ -> __);
             nltb : (__ -> __ -> bool); nleb : (__ -> __ -> bool);
             neqb : (__ -> __ -> bool); nisnan : (__ -> bool);
             ntoZ : (__ -> z) }

type t = __

val zero : num -> t

val one : num -> t

val of_nat0 : num -> nat -> t

val ratio : num -> z -> z -> t

val gtb : num -> t -> t -> bool

val fmax : num -> t -> t -> t

val clamp : num -> t -> t -> t -> t

val powi_pos : num -> t -> positive -> t -> t

val powi : num -> t -> z -> t

val fsum : num -> t list -> t

type spec_float =
| S754_zero of bool
| S754_infinity of bool
| S754_nan
| S754_finite of bool * positive * z

val emin : z -> z -> z

val fexp : z -> z -> z -> z

val digits2_pos : positive -> positive

val zdigits2 : z -> z

val iter_pos : ('a1 -> 'a1) -> positive -> 'a1 -> 'a1

type location =
| Loc_Exact
| Loc_Inexact of comparison

type shr_record = { shr_m : z; shr_r : bool; shr_s : bool }

val shr_1 : shr_record -> shr_record

val loc_of_shr_record : shr_record -> location

val shr_record_of_loc : z -> location -> shr_record

val shr : shr_record -> z -> z -> shr_record * z

val shr_fexp : z -> z -> z -> z -> location -> shr_record * z

val shl_align : positive -> z -> z -> positive * z

val sFcompare : spec_float -> spec_float -> comparison option

val sFeqb : spec_float -> spec_float -> bool

val sFltb : spec_float -> spec_float -> bool

val sFleb : spec_float -> spec_float -> bool

val cond_Zopp : bool -> z -> z

val new_location_even : z -> z -> location

val new_location_odd : z -> z -> location

val new_location : z -> z -> location

val sFdiv_core_binary : z -> z -> z -> z -> z -> z -> (z * z) * location

val sFsqrt_core_binary : z -> z -> z -> z -> (z * z) * location

val cond_incr : bool -> z -> z

val round_sign_DN : bool -> location -> bool

val round_sign_UP : bool -> location -> bool

val round_N : bool -> location -> bool

type binary_float =
| B754_zero of bool
| B754_infinity of bool
| B754_nan
| B754_finite of bool * positive * z

val sF2B : z -> z -> spec_float -> binary_float

val b2SF : z -> z -> binary_float -> spec_float

val is_nan : z -> z -> binary_float -> bool

val bopp : z -> z -> binary_float -> binary_float

val babs : z -> z -> binary_float -> binary_float

val beqb : z -> z -> binary_float -> binary_float -> bool

val bltb : z -> z -> binary_float -> binary_float -> bool

val bleb : z -> z -> binary_float -> binary_float -> bool

type mode =
| Mode_NE
| Mode_ZR
| Mode_DN
| Mode_UP
| Mode_NA

val choice_mode : mode -> bool -> z -> location -> z

val overflow_to_inf : mode -> bool -> bool

val binary_overflow : z -> z -> mode -> bool -> spec_float

val binary_fit_aux : z -> z -> mode -> bool -> positive -> z -> spec_float

val binary_round_aux :
  z -> z -> mode -> bool -> z -> z -> location -> spec_float

val bmult : z -> z -> mode -> binary_float -> binary_float -> binary_float

val shl_align_fexp : z -> z -> positive -> z -> positive * z

val binary_round : z -> z -> mode -> bool -> positive -> z -> spec_float

val binary_normalize : z -> z -> mode -> z -> z -> bool -> binary_float

val fplus_naive : bool -> positive -> z -> bool -> positive -> z -> z -> z

val bplus : z -> z -> mode -> binary_float -> binary_float -> binary_float

val bminus : z -> z -> mode -> binary_float -> binary_float -> binary_float

val bdiv : z -> z -> mode -> binary_float -> binary_float -> binary_float

val bsqrt : z -> z -> mode -> binary_float -> binary_float

type full_float =
| F754_zero of bool
| F754_infinity of bool
| F754_nan of bool * positive
| F754_finite of bool * positive * z

type binary_float0 =
| B754_zero0 of bool
| B754_infinity0 of bool
| B754_nan0 of bool * positive
| B754_finite0 of bool * positive * z

val b2BSN : z -> z -> binary_float0 -> binary_float

val fF2B : z -> z -> full_float -> binary_float0

val split_bits : z -> z -> z -> (bool * z) * z

val binary_float_of_bits_aux : z -> z -> z -> full_float

val binary_float_of_bits : z -> z -> z -> binary_float0

type binary32 = binary_float0

val b32_of_bits : z -> binary32

val prec32 : z

val emax32 : z

type f32 = binary_float

val f_add : f32 -> f32 -> f32

val f_sub : f32 -> f32 -> f32

val f_mul : f32 -> f32 -> f32

val f_div : f32 -> f32 -> f32

val f_sqrt : f32 -> f32

val f_neg : f32 -> f32

val f_abs : f32 -> f32

val f_of_Z : z -> f32

val f_ltb : f32 -> f32 -> bool

val f_leb : f32 -> f32 -> bool

val f_eqb : f32 -> f32 -> bool

val f_is_nan : f32 -> bool

val f_of_bits : z -> f32

val canonical_nan_bits : z

val f_to_bits : f32 -> z

val f_to_Z : f32 -> z

type libm = { l_exp : (z -> z); l_ln : (z -> z); l_tanh : (z -> z);
              l_cosh : (z -> z); l_powf2 : (z -> z) }

val via : (z -> z) -> f32 -> f32

val f_fmin : f32

val numF32 : libm -> num

val lcg_m : z

val lcg_a : z

val two64 : z

val lcg_next_checked : z -> z res

val lcg_next_wrap : z -> z

val lcg_value : num -> z -> t -> t -> t

val generate_wrap : num -> z -> t -> t -> z * t

val generate_n : num -> nat -> z -> t -> t -> z * t list

val swap : 'a1 list -> nat -> nat -> 'a1 list res

val shuffle_from :
  num -> bool -> nat -> nat -> z -> 'a1 list -> (z * 'a1 list) res

val shuffle : num -> bool -> z -> 'a1 list -> (z * 'a1 list) res

type shape =
| SSingle of nat
| SDouble of nat * nat
| STriple of nat * nat * nat
| SQuad of nat * nat * nat * nat
| SNested of nat

val shape_eqb : shape -> shape -> bool

type 'a vec1 = 'a list

type 'a vec2 = 'a list list

type 'a vec3 = 'a list list list

type 'a vec4 = 'a list list list list

val zipk : ('a1 -> 'a2 -> 'a1) -> 'a1 list -> 'a2 list -> 'a1 list

val flat3 : 'a1 vec3 -> 'a1 list

val build1 : nat -> (nat -> 'a1) -> 'a1 list

val build2 : nat -> nat -> (nat -> nat -> 'a1) -> 'a1 vec2

val build3 : nat -> nat -> nat -> (nat -> nat -> nat -> 'a1) -> 'a1 vec3

val build4 :
  nat -> nat -> nat -> nat -> (nat -> nat -> nat -> nat -> 'a1) -> 'a1 vec4

val get2 : 'a1 -> 'a1 vec2 -> nat -> nat -> 'a1

val get3 : 'a1 -> 'a1 vec3 -> nat -> nat -> nat -> 'a1

val get4 : 'a1 -> 'a1 vec4 -> nat -> nat -> nat -> nat -> 'a1

val unflat2 : nat -> nat -> 'a1 list -> 'a1 vec2

val unflat3 : nat -> nat -> nat -> 'a1 list -> 'a1 vec3

type data =
| DSingle of t vec1
| DDouble of t vec2
| DTriple of t vec3
| DQuad of t vec4

type tensor = { tshape : shape; tdata : data }

val t_single : num -> t vec1 -> tensor

val t_double : num -> t vec2 -> tensor res

val t_triple : num -> t vec3 -> tensor res

val t_quad : num -> t vec4 -> tensor res

val fill : num -> shape -> t -> tensor res

val ones : num -> shape -> tensor res

val flatten : num -> tensor -> tensor res

val get_flat : num -> tensor -> t list res

val get_triple : num -> tensor -> shape -> t vec3 res

val reshape : num -> tensor -> shape -> tensor res

val argmax_from : num -> t list -> nat -> nat -> t -> nat res

val argmax : num -> tensor -> nat res

val ew2 : num -> (t -> t -> t) -> data -> data -> data res

val binop_inplace : num -> (t -> t -> t) -> tensor -> tensor -> tensor res

val add_inplace : num -> tensor -> tensor -> tensor res

val sub_inplace : num -> tensor -> tensor -> tensor res

val mul_inplace : num -> tensor -> tensor -> tensor res

val hadamard : num -> tensor -> tensor -> t -> tensor res

val map_data : num -> (t -> t) -> data -> data

val div_scalar_inplace : num -> tensor -> t -> tensor

val t_clamp : num -> tensor -> t -> t -> tensor

val add_inplace_nested : num -> tensor list -> tensor list -> tensor list res

val add_inplace_nestedopt :
  num -> tensor option list -> tensor option list -> tensor option list res

val div_scalar_nested : num -> tensor list -> t -> tensor list

val mean_elem : num -> t -> t -> t list -> t

val mean_inplace : num -> tensor -> tensor list -> tensor res

val product : num -> tensor -> tensor -> tensor res

val dot : num -> tensor -> tensor -> tensor res

val transpose : num -> tensor -> tensor res

val drop_list : num -> t -> z -> t list -> z * t list

val drop_list2 : num -> t -> z -> t vec2 -> z * t vec2

val drop_list3 : num -> t -> z -> t vec3 -> z * t vec3

val drop_list4 : num -> t -> z -> t vec4 -> z * t vec4

val dropout : num -> tensor -> t -> tensor

val pad3d : num -> t vec3 -> nat -> nat -> t vec3 res

val hadamard3d : num -> t vec3 -> t vec3 -> t -> t vec3

val random_tensor : num -> z -> shape -> t -> t -> tensor res

type activation =
| ReLU
| LeakyReLU
| Sigmoid
| Softmax
| Tanh
| Linear

val alpha : num -> t

val relu_f : num -> t -> t

val relu_b : num -> t -> t

val leaky_f : num -> t -> t

val leaky_b : num -> t -> t

val sigmoid_f : num -> t -> t

val sigmoid_b : num -> t -> t

val tanh_f : num -> t -> t

val tanh_b : num -> t -> t

val ew_act : num -> (t -> t) -> tensor -> tensor res

val softmax_list : num -> t list -> t list

val softmax_f : num -> tensor -> tensor res

val softmax_b_list : num -> t list -> t list

val softmax_b : num -> tensor -> tensor res

val act_forward : num -> activation -> tensor -> tensor res

val act_backward : num -> activation -> tensor -> tensor res

type objective =
| AE
| MAE
| MSE
| RMSE
| CrossEntropy
| BinaryCrossEntropy
| KLDivergence

val eps : num -> t

val one_m_eps : num -> t

val clamp_p : num -> t -> t

val neg_two : num -> t

val neg_one : num -> t

val sign_grad : num -> t -> t -> t

val mse_grad : num -> t -> t -> t -> t

val rmse_grad : num -> t -> t -> t -> t

val ce_grad : num -> t -> t -> t

val bce_grad : num -> t -> t -> t

val kl_grad : num -> t -> t -> t

val zipf : num -> (t -> t -> t) -> t list -> t list -> t list

val loss_value : num -> objective -> t list -> t list -> t

val grad_fun : num -> objective -> t -> t -> t -> t

val grad_tensor : num -> objective -> t -> tensor -> tensor -> tensor res

val loss :
  num -> objective -> (t * t) option -> tensor -> tensor -> (t * tensor) res

type slots = tensor list list list

type sgd_t = { sgd_lr : t; sgd_decay : t option }

type sgdm_t = { sgdm_lr : t; sgdm_momentum : t; sgdm_dampening : t;
                sgdm_decay : t option; sgdm_velocity : slots }

type adam_t = { adam_lr : t; adam_b1 : t; adam_b2 : t; adam_eps : t;
                adam_decay : t option; adam_velocity : slots;
                adam_momentum : slots }

type adamw_t = { adamw_lr : t; adamw_b1 : t; adamw_b2 : t; adamw_eps : 
                 t; adamw_decay : t; adamw_velocity : slots;
                 adamw_momentum : slots }

type rms_t = { rms_lr : t; rms_alpha : t; rms_eps : t; rms_decay : t option;
               rms_momentum : t option; rms_centered : bool;
               rms_velocity : slots; rms_gradient : slots; rms_buffer : 
               slots }

type optimizer =
| OSGD of sgd_t
| OSGDM of sgdm_t
| OAdam of adam_t
| OAdamW of adamw_t
| ORMS of rms_t

val is0 : num -> t -> bool

val dflt : num -> t -> t -> t

val opt_validate : num -> optimizer -> slots -> optimizer

val decay_g : num -> t option -> t -> t -> t

val sgd_step : num -> sgd_t -> t -> t -> t * t

val sgdm_step : num -> sgdm_t -> z -> t -> t -> t -> (t * t) * t

val adam_core :
  num -> t -> t -> t -> t -> z -> t -> t -> t -> t -> (t * t) * t

val adam_step : num -> adam_t -> z -> t -> t -> t -> t -> ((t * t) * t) * t

val adamw_step : num -> adamw_t -> z -> t -> t -> t -> t -> ((t * t) * t) * t

val rms_step :
  num -> rms_t -> t -> t -> t -> t -> t -> (((t * t) * t) * t) * t

val lift_row :
  num -> (t -> t list -> t * t list) -> t list -> t list list -> (t list * t
  list list) res

val lift_mat :
  num -> (t -> t list -> t * t list) -> t vec2 -> t vec2 list -> (t vec2 * t
  vec2 list) res

val lift_cube :
  num -> (t -> t list -> t * t list) -> t vec3 -> t vec3 list -> (t vec3 * t
  vec3 list) res

val lift_tensor :
  num -> (t -> t list -> t * t list) -> tensor -> tensor list ->
  (tensor * tensor list) res

val slot_get : num -> slots -> nat -> nat -> bool -> tensor res

val slot_set : num -> slots -> nat -> nat -> bool -> tensor -> slots

val two_of : num -> t list -> t * t

val opt_update :
  num -> optimizer -> nat -> nat -> bool -> z -> tensor -> tensor ->
  ((optimizer * tensor) * tensor) res

val scale : num -> t -> t

val neg1 : num -> t

type dense = { d_inputs : shape; d_outputs : shape; d_loops : t;
               d_weights : tensor; d_bias : tensor option;
               d_act : activation; d_dropout : t option; d_training : 
               bool }

val dense_create :
  num -> (nat -> z) -> shape -> shape -> activation -> bool -> t option ->
  dense res

val dense_parameters : num -> dense -> nat res

val apply_dropout : num -> bool -> t option -> tensor -> tensor

val dense_forward : num -> dense -> tensor -> (tensor * tensor) res

val dense_backward :
  num -> dense -> tensor -> tensor -> tensor -> ((tensor * tensor) * tensor
  option) res

val froot : num -> nat -> nat

val spatial_inputs : num -> shape -> (shape * nat) res

val chunk_input : num -> t list -> nat -> nat -> t vec3 res

val kernel_data : num -> tensor -> t vec3 res

val kdims : num -> t vec4 -> (((nat * nat) * nat) * nat) res

val xdims : num -> t vec3 -> (nat * nat) res

val post_process :
  num -> activation -> bool -> t option -> bool -> t vec3 ->
  (tensor * tensor) res

type conv = { c_inputs : shape; c_outputs : shape; c_loops : t;
              c_kernels : tensor list; c_stride : (nat * nat);
              c_padding : (nat * nat); c_dilation : (nat * nat);
              c_act : activation; c_dropout : t option; c_flatten : bool;
              c_training : bool }

val conv_out1 : nat -> nat -> nat -> nat -> nat -> nat res

val conv_output_size :
  num -> shape -> nat -> (nat * nat) -> (nat * nat) -> (nat * nat) ->
  (nat * nat) -> shape res

val conv_create :
  num -> (nat -> z) -> shape -> nat -> activation -> (nat * nat) ->
  (nat * nat) -> (nat * nat) -> (nat * nat) -> t option -> conv res

val kernels_parameters : num -> tensor list -> nat res

val conv_parameters : num -> conv -> nat res

val convolve :
  num -> (nat * nat) -> (nat * nat) -> t vec3 -> t vec4 -> t vec3 res

val convolve_gradients :
  num -> (nat * nat) -> (nat * nat) -> t vec3 -> t vec3 -> (nat * nat) -> t
  vec4 res

val rotate : num -> t vec3 -> t vec3

val rearrange : num -> t vec4 -> t vec4 res

val conv_input : num -> shape -> tensor -> t vec3 res

val conv_forward : num -> conv -> tensor -> (tensor * tensor) res

val kernel_hw : num -> tensor list -> (nat * nat) res

val conv_backward :
  num -> conv -> tensor -> tensor -> tensor -> ((tensor * tensor) * tensor
  option) res

type deconv = { dc_inputs : shape; dc_outputs : shape; dc_loops : t;
                dc_kernels : tensor list; dc_stride : (nat * nat);
                dc_padding : (nat * nat); dc_act : activation;
                dc_dropout : t option; dc_flatten : bool; dc_training : 
                bool }

val deconv_out1 : nat -> nat -> nat -> nat -> nat res

val deconv_output_size :
  num -> shape -> nat -> (nat * nat) -> (nat * nat) -> (nat * nat) -> shape
  res

val deconv_create :
  num -> (nat -> z) -> shape -> nat -> activation -> (nat * nat) ->
  (nat * nat) -> (nat * nat) -> t option -> deconv res

val deconv_parameters : num -> deconv -> nat res

val deconv_fwd_out1 : nat -> nat -> nat -> nat -> nat res

val deconv_cell :
  num -> (nat * nat) -> (nat * nat) -> t vec3 -> t vec4 -> nat -> nat -> nat
  -> nat -> nat -> nat -> nat -> nat -> t

val deconv_forward : num -> deconv -> tensor -> (tensor * tensor) res

val deconv_backward :
  num -> deconv -> tensor -> tensor -> tensor -> ((tensor * tensor) * tensor
  option) res

type maxpool = { m_inputs : shape; m_outputs : shape; m_loops : t;
                 m_kernel : (nat * nat); m_stride : (nat * nat);
                 m_flatten : bool }

type maxidx = (nat * nat) list vec3

val pool_out1 : nat -> nat -> nat -> nat res

val maxpool_create : num -> shape -> (nat * nat) -> (nat * nat) -> maxpool res

val pool_window :
  num -> t vec3 -> nat -> nat -> (nat * nat) -> nat -> nat -> nat ->
  t * (nat * nat)

val maxpool_forward :
  num -> maxpool -> tensor -> ((tensor * tensor) * maxidx) res

val maxpool_backward : num -> maxpool -> tensor -> maxidx -> tensor res

type accumulation =
| AccAdd
| AccSub
| AccMul
| AccOverwrite
| AccMean

type blayer =
| BDense of dense
| BConv of conv
| BDeconv of deconv
| BMaxpool of maxpool

type feedback = { f_inputs : shape; f_outputs : shape;
                  f_optimizer : optimizer; f_flatten : bool;
                  f_layers : blayer list; f_connect : (nat * nat list) list;
                  f_accumulation : accumulation; f_coupled : nat list list }

type layer =
| LDense of dense
| LConv of conv
| LDeconv of deconv
| LMaxpool of maxpool
| LFeedback of feedback

val lift_b : num -> blayer -> layer

val layer_inputs : num -> layer -> shape

val layer_outputs : num -> layer -> shape

type grad =
| GPlain of tensor
| GNested of tensor list

type bgrad =
| BPlain of tensor
| BNestedOpt of tensor option list

type mpval =
| MPIdx of maxidx
| MPNested of maxidx option list

val accumulate : num -> accumulation -> tensor -> tensor list -> tensor res

val blayer_inputs : num -> blayer -> shape

val blayer_outputs : num -> blayer -> shape

val default_sgd : num -> optimizer

val feedback_create :
  num -> blayer list -> nat -> bool -> bool -> accumulation -> feedback res

val blayer_parameters : num -> blayer -> nat res

val feedback_parameters : num -> feedback -> nat res

val blayer_set_training : num -> bool -> blayer -> blayer

val set_f_layers : num -> feedback -> blayer list -> feedback

val set_f_optimizer : num -> feedback -> optimizer -> feedback

val set_f_flatten : num -> feedback -> bool -> feedback

val feedback_training : num -> feedback -> bool -> feedback

val blayer_forward :
  num -> blayer -> tensor -> ((tensor * tensor) * maxidx option) res

val gather_sources : num -> tensor list -> nat list -> tensor list res

type fb_out = { fo_pre : tensor; fo_post : tensor;
                fo_max : maxidx option list; fo_unactivated : tensor list;
                fo_activated : tensor list }

val feedback_forward : num -> feedback -> tensor -> fb_out res

val invert_connect : (nat * nat list) list -> (nat * nat list) list

val blayer_backward :
  num -> blayer -> tensor -> tensor -> tensor -> ((tensor * tensor) * tensor
  option) res

val feedback_backward :
  num -> feedback -> tensor -> tensor list -> tensor list ->
  ((tensor * tensor list) * tensor option list) res

val quad_to_triples : num -> tensor -> tensor list res

val update_kernels :
  num -> optimizer -> nat -> z -> tensor list -> tensor ->
  (optimizer * tensor list) res

val set_d_params : num -> dense -> tensor -> tensor option -> dense

val set_c_kernels : num -> conv -> tensor list -> conv

val set_dc_kernels : num -> deconv -> tensor list -> deconv

val update_dense :
  num -> optimizer -> nat -> z -> dense -> tensor -> tensor option ->
  (optimizer * dense) res

val update_blayer :
  num -> optimizer -> nat -> z -> blayer -> tensor -> tensor option ->
  (optimizer * blayer) res

val couple_acc :
  num -> accumulation -> t -> tensor -> tensor list -> tensor res

val blayer_weights : num -> blayer -> (tensor list * tensor option) option

val blayer_set_weights :
  num -> blayer -> tensor list -> tensor option -> blayer res

val couple_lists :
  num -> bool -> accumulation -> t -> tensor list list -> tensor list res

val couple_one :
  num -> accumulation -> blayer list -> nat list -> blayer list res

val feedback_update :
  num -> feedback -> z -> tensor list -> tensor option list -> feedback res

type network = { n_input : shape; n_layers : layer list;
                 n_loopbacks : (nat * ((nat * nat) * bool)) list;
                 n_loopacc : accumulation; n_connect : (nat * nat) list;
                 n_skipacc : accumulation; n_optimizer : optimizer;
                 n_objective : (objective * (t * t) option) }

val network_new : num -> shape -> network

val set_layers : num -> network -> layer list -> network

val is_triple : shape -> bool

val is_single : shape -> bool

val set_c_flatten : num -> conv -> conv

val set_dc_flatten : num -> deconv -> deconv

val set_m_flatten : num -> maxpool -> maxpool

val flat_shape : shape -> shape res

val add_dense :
  num -> (nat -> z) -> network -> nat -> activation -> bool -> t option ->
  network res

val next_input : num -> network -> bool -> shape res

val add_conv :
  num -> (nat -> z) -> network -> nat -> (nat * nat) -> (nat * nat) ->
  (nat * nat) -> (nat * nat) -> activation -> t option -> network res

val add_deconv :
  num -> (nat -> z) -> network -> nat -> (nat * nat) -> (nat * nat) ->
  (nat * nat) -> activation -> t option -> network res

val add_maxpool : num -> network -> (nat * nat) -> (nat * nat) -> network res

type fspec =
| FDense of nat * activation * bool * t option
| FConv of nat * activation * (nat * nat) * (nat * nat) * (nat * nat)
   * (nat * nat) * t option
| FDeconv of nat * activation * (nat * nat) * (nat * nat) * (nat * nat)
   * t option
| FMaxpool of (nat * nat) * (nat * nat)

val add_feedback :
  num -> (nat -> nat -> z) -> network -> fspec list -> nat -> bool -> bool ->
  accumulation -> network res

val bump_loops : num -> nat -> layer -> layer res

val add_loopback : num -> network -> nat -> nat -> nat -> bool -> network res

val connect_count : num -> layer -> bool -> nat res

val add_connect : num -> network -> nat -> nat -> network res

val set_accumulation :
  num -> network -> accumulation -> accumulation -> network

val set_objective : num -> network -> objective -> (t * t) option -> network

val zero_single : num -> nat -> tensor

val kernel_slot : num -> tensor list -> tensor list list res

val dense_slot : num -> dense -> tensor list list res

val empty_slot : num -> tensor list list

val blayer_slot : num -> blayer -> tensor list list res

val layer_slot : num -> layer -> tensor list list res

val copy_optimizer : num -> feedback -> optimizer -> feedback res

val set_optimizer : num -> network -> optimizer -> network res

val layer_parameters : num -> layer -> nat res

val network_parameters : num -> network -> nat res

type fwd = { fw_pre : tensor list; fw_post : tensor list;
             fw_max : mpval option list;
             fw_fb : (tensor list * tensor list) list }

val forward_range : num -> layer list -> tensor -> fwd res

val sub_layers : num -> layer list -> nat -> nat -> layer list

val extend_idx : maxidx -> maxidx -> maxidx

val upd_res : 'a1 list -> nat -> ('a1 -> 'a1 res) -> 'a1 list res

val loop_combine : num -> accumulation -> tensor -> tensor list -> tensor res

val loop_combine_max :
  accumulation -> mpval option -> mpval option list -> mpval option res

val forward : num -> network -> tensor -> fwd res

val predict : num -> network -> tensor -> tensor res

val invert_net_connect : (nat * nat) list -> (nat * nat) list

val layer_backward :
  num -> layer -> tensor -> tensor -> tensor -> mpval option -> (tensor
  list * tensor list) option -> ((tensor * grad) * bgrad option) res

val backward :
  num -> network -> tensor -> fwd -> ((grad list * bgrad option
  list) * tensor list) res

val update :
  num -> network -> z -> grad list -> bgrad option list -> network res

type pmap_t = __ -> __ -> (__ -> __) -> __ list -> __ list

val seq_pmap : (__ -> __) -> __ list -> __ list

val sequence : 'a1 res list -> 'a1 list res

val run_batch :
  num -> pmap_t -> ('a1 -> 'a2 -> ('a3 * t) res) -> ('a3 -> 'a3 -> 'a3 res)
  -> (z -> 'a1 -> 'a3 -> 'a1 res) -> z -> 'a1 -> 'a2 list -> ('a1 * t) res

val run_epoch :
  num -> pmap_t -> ('a1 -> 'a2 -> ('a3 * t) res) -> ('a3 -> 'a3 -> 'a3 res)
  -> (z -> 'a1 -> 'a3 -> 'a1 res) -> z -> 'a1 -> 'a2 list list -> ('a1 * t)
  res

val window_increasing : num -> nat -> t list -> bool res

val should_stop : num -> z option -> z -> t list -> bool res

type history = { h_train : t list; h_vloss : t list; h_vacc : t list }

val epochs_loop :
  num -> pmap_t -> ('a1 -> 'a2 -> ('a3 * t) res) -> ('a3 -> 'a3 -> 'a3 res)
  -> (z -> 'a1 -> 'a3 -> 'a1 res) -> ('a1 -> ('a1 * (t * t)) res) -> nat -> z
  -> bool -> z option -> 'a2 list list -> 'a1 -> history -> ('a1 * history)
  res

val layer_set_training : num -> bool -> layer -> layer

val set_all_training : num -> bool -> network -> network

val blayer_flag : num -> blayer -> bool option

val layer_flags : num -> layer -> bool option list

val network_flags : num -> network -> bool option list

val validate_clear : num -> layer list -> bool -> layer list * bool

val abs_lt : num -> t -> t -> t -> bool

val accuracy : num -> network -> t -> tensor -> tensor -> t res

val validate_sample : num -> network -> t -> (tensor * tensor) -> (t * t) res

val cHUNKS : nat

val zip_chunks : 'a1 list -> 'a2 list -> ('a1 * 'a2) list list

val validate :
  num -> pmap_t -> network -> tensor list -> tensor list -> t ->
  (network * (t * t)) res

val predict_batch : num -> pmap_t -> network -> tensor list -> tensor list res

type grads = grad list * bgrad option list

val grad_add : num -> grad -> grad -> grad res

val bgrad_add : num -> bgrad option -> bgrad option -> bgrad option res

val zipM : ('a1 -> 'a1 -> 'a1 res) -> 'a1 list -> 'a1 list -> 'a1 list res

val grads_add : num -> grads -> grads -> grads res

val sample_grad : num -> network -> (tensor * tensor) -> (grads * t) res

val net_step : num -> z -> network -> grads -> network res

val tol_1e6 : num -> t

val learn :
  num -> pmap_t -> network -> tensor list -> tensor list -> ((tensor
  list * tensor list) * z) option -> nat -> z -> (network * history) res

type 'a parser0 = z list -> ('a * z list) res

val pret : 'a1 -> 'a1 parser0

val pbind : 'a1 parser0 -> ('a1 -> 'a2 parser0) -> 'a2 parser0

val pfail : 'a1 parser0

val tok : z parser0

val pnat : nat parser0

val pbool : bool parser0

val prep : nat -> 'a1 parser0 -> 'a1 list parser0

val plist : 'a1 parser0 -> 'a1 list parser0

val popt : 'a1 parser0 -> 'a1 option parser0

val ppair : (nat * nat) parser0

val nF : libm -> num

val pfloat : libm -> t parser0

val pshape : shape parser0

val ptensor : libm -> tensor parser0

val pact : activation parser0

val pacc : accumulation parser0

val pobj : objective parser0

val pclamp : libm -> (t * t) option parser0

val poptimizer : libm -> optimizer parser0

val enat : nat -> z

val ebool : bool -> z

val efl : libm -> t -> z

val elist : ('a1 -> z list) -> 'a1 list -> z list

val eshape : shape -> z list

val etensor : libm -> tensor -> z list

val eopt : ('a1 -> z list) -> 'a1 option -> z list

val eres : ('a1 -> z list) -> 'a1 res -> z list

val pdropout : libm -> t option parser0

val pfspec : libm -> fspec parser0

type lspec =
| LSimple of fspec
| LBlock of fspec list * nat * bool * bool * accumulation

val plspec : libm -> lspec parser0

val seeds1 : nat -> z

val add_lspec : libm -> network -> lspec -> network res

type wspec =
| WDense of tensor * tensor option
| WKernels of tensor list
| WNone

val pwspec : libm -> wspec parser0

val set_blayer_w : libm -> blayer -> wspec -> blayer res

type lw =
| LWOne of wspec
| LWBlock of wspec list

val plw : libm -> lw parser0

val set_layer_w : libm -> layer -> lw -> layer res

type netcase = { nc_input : shape; nc_layers : lspec list;
                 nc_connect : (nat * nat) list; nc_skipacc : accumulation;
                 nc_loops : (((nat * nat) * nat) * bool) list;
                 nc_loopacc : accumulation; nc_opt : optimizer;
                 nc_obj : (objective * (t * t) option);
                 nc_weights : lw list option }

val pnetcase : libm -> netcase parser0

val build_net : libm -> netcase -> network res

val eblayer_w : libm -> blayer -> z list

val elayer_w : libm -> layer -> z list

val eweights : libm -> network -> z list

val eflags : libm -> network -> z list

val egrad : libm -> grad -> z list

val ebgrad : libm -> bgrad option -> z list

val ppairs : libm -> (tensor * tensor) list parser0

val ehist : libm -> history -> z list

val run_net_cmd : libm -> network -> z list parser0

val zero_like : libm -> tensor -> tensor

val run_opt_case : libm -> z list parser0

val run_connect_seq : libm -> network -> z list parser0

val ebinop : libm -> z -> tensor -> tensor -> tensor res

val run_op : libm -> z list parser0

val run_case : libm -> z list -> z list
