(* Prelude: result monad with panics, list utilities used by the model. Definitions only. *)
From Coq Require Export List Arith ZArith Bool Lia.
Export ListNotations.

Set Implicit Arguments.

(* Every Rust function that can panic returns [res A]. Panic codes are informative only:
   the correspondence check compares Ok-vs-Panic, never the code. *)
Inductive res (A : Type) : Type :=
| Ok (a : A)
| Panic (code : nat).
Arguments Ok {A} a.
Arguments Panic {A} code.

Definition bind {A B} (r : res A) (f : A -> res B) : res B :=
  match r with Ok a => f a | Panic c => Panic c end.
Definition rmap {A B} (f : A -> B) (r : res A) : res B :=
  match r with Ok a => Ok (f a) | Panic c => Panic c end.

Declare Scope res_scope.
Delimit Scope res_scope with res.
Notation "'do' x <- a ; b" := (bind a (fun x => b))
  (at level 200, x pattern, a at level 100, b at level 200) : res_scope.
Notation "'check' c 'else' n ; b" := (if c then b else Panic n)
  (at level 200, c at level 100, n at level 0, b at level 200) : res_scope.
Open Scope res_scope.

(* panic codes *)
Definition P_shape := 1.      (* shape / rank mismatch assertion *)
Definition P_index := 2.      (* index out of bounds *)
Definition P_underflow := 3.  (* usize subtraction underflow (debug profile) *)
Definition P_divzero := 4.    (* integer division by zero *)
Definition P_unwrap := 5.     (* unwrap on None / iterator exhausted *)
Definition P_explicit := 6.   (* explicit panic!/unimplemented!/assert! *)
Definition P_overflow := 7.   (* arithmetic overflow (debug profile) *)
Definition P_parse := 9.      (* driver: malformed case *)

(* checked usize subtraction *)
Definition csub (a b : nat) : res nat :=
  if b <=? a then Ok (a - b) else Panic P_underflow.
Definition cdiv (a b : nat) : res nat :=
  if b =? 0 then Panic P_divzero else Ok (a / b).

(* map over a list with a function that may panic, left to right *)
Fixpoint mapM {A B} (f : A -> res B) (l : list A) : res (list B) :=
  match l with
  | [] => Ok []
  | x :: xs => do y <- f x; do ys <- mapM f xs; Ok (y :: ys)
  end.

(* collect the results of a list of computations, first panic wins *)
Fixpoint sequence {A} (l : list (res A)) : res (list A) :=
  match l with
  | [] => Ok []
  | Ok x :: r => do xs <- sequence r; Ok (x :: xs)
  | Panic c :: _ => Panic c
  end.

Fixpoint foldM {A S} (f : S -> A -> res S) (l : list A) (s : S) : res S :=
  match l with
  | [] => Ok s
  | x :: xs => do s' <- f s x; foldM f xs s'
  end.

Fixpoint map2 {A B C} (f : A -> B -> C) (l1 : list A) (l2 : list B) : list C :=
  match l1, l2 with
  | x :: xs, y :: ys => f x y :: map2 f xs ys
  | _, _ => []
  end.

Fixpoint mapi_from {A B} (i : nat) (f : nat -> A -> B) (l : list A) : list B :=
  match l with
  | [] => []
  | x :: xs => f i x :: mapi_from (S i) f xs
  end.
Definition mapi {A B} (f : nat -> A -> B) (l : list A) : list B := mapi_from 0 f l.

(* checked indexing: Rust's v[i] *)
Definition nth_res {A} (l : list A) (i : nat) : res A :=
  match nth_error l i with Some x => Ok x | None => Panic P_index end.

(* functional update of position i (no-op when out of range; callers check) *)
Fixpoint set_nth {A} (l : list A) (i : nat) (v : A) : list A :=
  match l, i with
  | [], _ => []
  | _ :: xs, 0 => v :: xs
  | x :: xs, S k => x :: set_nth xs k v
  end.
Definition upd_nth {A} (l : list A) (i : nat) (f : A -> A) : list A :=
  match nth_error l i with Some x => set_nth l i (f x) | None => l end.

(* [chunks n l]: Rust's slice::chunks(n): consecutive groups of n, last may be shorter.
   [n] must be positive (Rust panics on 0). Fuel = length of the list. *)
Fixpoint chunks_fuel {A} (fuel n : nat) (l : list A) : list (list A) :=
  match fuel with
  | 0 => []
  | S k => match l with
           | [] => []
           | _ => firstn n l :: chunks_fuel k n (skipn n l)
           end
  end.
Definition chunks {A} (n : nat) (l : list A) : list (list A) := chunks_fuel (length l) n l.

(* Rust's chunks_exact(n): only the full groups, remainder dropped *)
Definition chunks_exact {A} (n : nat) (l : list A) : list (list A) :=
  filter (fun c => length c =? n) (chunks n l).

(* take exactly n elements from the front of an iterator: (taken, rest) or unwrap-panic *)
Fixpoint take_exact {A} (n : nat) (l : list A) : res (list A * list A) :=
  match n with
  | 0 => Ok ([], l)
  | S k => match l with
           | [] => Panic P_unwrap
           | x :: xs => do p <- take_exact k xs; Ok (x :: fst p, snd p)
           end
  end.

(* take n groups of m elements *)
Fixpoint take_rows {A} (n m : nat) (l : list A) : res (list (list A) * list A) :=
  match n with
  | 0 => Ok ([], l)
  | S k => do r <- take_exact m l;
           do rs <- take_rows k m (snd r);
           Ok (fst r :: fst rs, snd rs)
  end.
Fixpoint take_chans {A} (c h w : nat) (l : list A) : res (list (list (list A)) * list A) :=
  match c with
  | 0 => Ok ([], l)
  | S k => do r <- take_rows h w l;
           do rs <- take_chans k h w (snd r);
           Ok (fst r :: fst rs, snd rs)
  end.

Definition hd_len {A} (l : list (list A)) : nat := length (hd [] l).

Definition last_opt {A} (l : list A) : option A :=
  match rev l with [] => None | x :: _ => Some x end.

Definition sum_nat (l : list nat) : nat := fold_left Nat.add l 0.

(* association list with insert-overwrite: HashMap<usize,_> *)
Fixpoint alist_get {V} (m : list (nat * V)) (k : nat) : option V :=
  match m with
  | [] => None
  | (k', v) :: r => if k' =? k then Some v else alist_get r k
  end.
Definition alist_mem {V} (m : list (nat * V)) (k : nat) : bool :=
  match alist_get m k with Some _ => true | None => false end.
Fixpoint alist_set {V} (m : list (nat * V)) (k : nat) (v : V) : list (nat * V) :=
  match m with
  | [] => [(k, v)]
  | (k', v') :: r => if k' =? k then (k, v) :: r else (k', v') :: alist_set r k v
  end.
