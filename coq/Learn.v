(* Network::learn / validate / predict_batch.
   The training loop is first written over abstract per-sample, accumulate, step and validate
   functions (LearnGen), so that the theorems about batching, ordering and early stopping hold
   for every network, optimizer and objective; it is then instantiated with the model network.
   Every rayon region is a call of the parameter [pmap], the ordered parallel map. *)
From NV Require Import Prelude Num Random Tensor Activation Objective Optimizer Layers Network.
Set Implicit Arguments.

Definition pmap_t := forall (A B : Type), (A -> B) -> list A -> list B.
Definition seq_pmap : pmap_t := fun A B f l => map f l.

Section LearnGen.
  Variable N : Num.
  Notation T := (T N).
  Variable pmap : pmap_t.

  Variables (S X G : Type).
  Variable sample : S -> X -> res (G * T).        (* forward, loss, backward of one sample *)
  Variable gadd : G -> G -> res G.                 (* in-place accumulation of gradients *)
  Variable step : Z -> S -> G -> res S.            (* update(epoch, summed gradients) *)
  Variable valid : S -> res (S * (T * T)).         (* validate(val_inputs, val_targets, 1e-6) *)
  Variable enter : S -> S.                         (* training flags on *)
  Variable leave : S -> S.                         (* training flags off *)

  (* `par_chunks(batch)`: panics on batch size 0 *)
  Definition batches (batch : nat) (samples : list X) : res (list (list X)) :=
    check (negb (batch =? 0)) else P_explicit; Ok (chunks batch samples).

  (* one mini-batch: ordered parallel map, NaN check and in-order accumulation *)
  Definition run_batch (epoch : Z) (s : S) (group : list X) : res (S * T) :=
    do rs <- sequence (pmap (sample s) group);
    check (forallb (fun r => negb (nisnan N (snd r))) rs) else P_explicit;
    match rs with
    | [] => Panic P_index
    | r0 :: rest =>
        do g <- foldM gadd (map fst rest) (fst r0);
        let l := ndiv N (fsum (map snd rs)) (of_nat (length rs)) in
        do s' <- step epoch s g;
        Ok (s', l)
    end.

  Definition run_epoch (epoch : Z) (s : S) (bs : list (list X)) : res (S * T) :=
    do r <- foldM (fun (st : S * T) group =>
              do r <- run_batch epoch (fst st) group;
              Ok (fst r, nadd N (snd st) (snd r))) bs (s, zero);
    Ok (fst r, ndiv N (snd r) (of_nat (length bs))).

  (* the early-stopping test performed after epoch [epoch] *)
  Definition window_increasing (threshold : nat) (val_loss : list T) : res bool :=
    let history := firstn threshold (rev val_loss) in
    do t1 <- csub threshold 1;
    foldM (fun (acc : bool) i =>
             if acc then
               do a <- nth_res history i; do b <- nth_res history (i + 1);
               Ok (negb (nleb N a b))
             else Ok false) (seq 0 t1) true.

  Definition should_stop (threshold : option Z) (epoch : Z) (val_loss : list T) : res bool :=
    match threshold with
    | None => Ok false
    | Some th =>
        if (th <? epoch)%Z then
          (* `threshold as usize` of a negative i32 is astronomically large: indexing panics *)
          check (0 <=? th)%Z else P_index;
          window_increasing (Z.to_nat th) val_loss
        else Ok false
    end.

  Record history := { h_train : list T; h_vloss : list T; h_vacc : list T }.

  Fixpoint epochs_loop (fuel : nat) (epoch : Z) (has_val : bool) (threshold : option Z)
           (bs : list (list X)) (s : S) (h : history) : res (S * history) :=
    match fuel with
    | O => Ok (s, h)
    | Datatypes.S k =>
        do r <- run_epoch epoch s bs;
        let '(s1, l) := r in
        do v <- (if has_val then
                   do v <- valid s1;
                   Ok (fst v, h_vloss h ++ [fst (snd v)], h_vacc h ++ [snd (snd v)])
                 else Ok (s1, h_vloss h, h_vacc h));
        let '(s2, vl, va) := v in
        let h' := {| h_train := h_train h ++ [l]; h_vloss := vl; h_vacc := va |} in
        do stop <- should_stop threshold epoch vl;
        if stop then Ok (s2, h') else epochs_loop k (epoch + 1)%Z has_val threshold bs s2 h'
    end.

  (* learn: validation data is abstracted into [valid]; [threshold] is its third component *)
  Definition learn_gen (s : S) (samples : list X) (has_val : bool) (threshold : Z)
             (batch : nat) (epochs : Z) : res (S * history) :=
    let s0 := enter s in
    do bs <- batches batch samples;
    do r <- epochs_loop (Z.to_nat epochs) 1 has_val (if has_val then Some threshold else None) bs s0
              {| h_train := []; h_vloss := []; h_vacc := [] |};
    Ok (leave (fst r), snd r).
End LearnGen.

Section Learn.
  Variable N : Num.
  Notation T := (T N).
  Notation tensor := (tensor N).
  Notation network := (network N).
  Variable pmap : pmap_t.

  (* ---- training flags ---- *)
  Definition layer_set_training (t : bool) (l : layer N) : layer N :=
    match l with
    | LDense d => lift_b (blayer_set_training t (BDense d))
    | LConv c => lift_b (blayer_set_training t (BConv c))
    | LDeconv c => lift_b (blayer_set_training t (BDeconv c))
    | LMaxpool _ => l
    | LFeedback b => LFeedback (feedback_training b t)
    end.

  Definition set_all_training (t : bool) (n : network) : network :=
    set_layers n (map (layer_set_training t) (n_layers n)).

  Definition blayer_flag (b : blayer N) : option bool :=
    match b with
    | BDense d => Some (d_training d) | BConv c => Some (c_training c)
    | BDeconv c => Some (dc_training c) | BMaxpool _ => None
    end.
  (* the per-layer `training` flags, feedback blocks expanded in place, None for maxpool *)
  Definition layer_flags (l : layer N) : list (option bool) :=
    match l with
    | LDense d => [Some (d_training d)] | LConv c => [Some (c_training c)]
    | LDeconv c => [Some (dc_training c)] | LMaxpool _ => [None]
    | LFeedback b => map blayer_flag (f_layers b)
    end.
  Definition network_flags (n : network) : list (option bool) := flat_map layer_flags (n_layers n).

  (* ---- validate ---- *)
  (* the flag-clearing loop at the top of `validate`: every flag is cleared; `training` records
     whether a dense layer was in training mode *)
  Fixpoint validate_clear (ls : list (layer N)) (training : bool) : list (layer N) * bool :=
    match ls with
    | [] => ([], training)
    | l :: rest =>
        match l with
        | LDense d =>
            let '(rest', t) := validate_clear rest (d_training d || training) in
            (layer_set_training false l :: rest', t)
        | LMaxpool _ => let '(rest', t) := validate_clear rest training in (l :: rest', t)
        | _ => let '(rest', t) := validate_clear rest training in
               (layer_set_training false l :: rest', t)
        end
    end.

  Definition abs_lt (a b tol : T) : bool := nltb N (nabs N (nsub N a b)) tol.

  Definition accuracy (n : network) (tol : T) (prediction target : tensor) : res T :=
    match last_opt (n_layers n) with
    | Some (LDense d) =>
        match d_act d with
        | Softmax =>
            do a <- argmax target; do b <- argmax prediction;
            Ok (if a =? b then one else zero)
        | _ =>
            do t <- get_flat target; do p <- get_flat prediction;
            if length t =? 1 then
              do p0 <- nth_res p 0; do t0 <- nth_res t 0;
              Ok (if abs_lt p0 t0 tol then one else zero)
            else
              Ok (ndiv N (fsum (map2 (fun ti pi_ => if abs_lt ti pi_ tol then one else zero) t p))
                         (of_nat (length t)))
        end
    | _ => Panic P_explicit
    end.

  Definition validate_sample (n : network) (tol : T) (xt : tensor * tensor) : res (T * T) :=
    do p <- predict n (fst xt);
    do lg <- loss (fst (n_objective n)) (snd (n_objective n)) p (snd xt);
    do a <- accuracy n tol p (snd xt);
    Ok (fst lg, a).

  Definition CHUNKS := 64.

  (* `a.par_chunks(64).zip(b.par_chunks(64))` then per chunk `a.iter().zip(b.iter())` *)
  Definition zip_chunks {A B} (a : list A) (b : list B) : list (list (A * B)) :=
    map (fun p => combine (fst p) (snd p)) (combine (chunks CHUNKS a) (chunks CHUNKS b)).

  Definition validate (n : network) (inputs targets : list tensor) (tol : T)
    : res (network * (T * T)) :=
    let '(ls, training) := validate_clear (n_layers n) false in
    let n1 := set_layers n ls in
    do rs <- sequence (concat (pmap (fun chunk => map (validate_sample n1 tol) chunk)
                                    (zip_chunks inputs targets)));
    let n2 := if training then set_all_training true n1 else n1 in
    let len := of_nat (length rs) in
    Ok (n2, (ndiv N (fsum (map fst rs)) len, ndiv N (fsum (map snd rs)) len)).

  Definition predict_batch (n : network) (inputs : list tensor) : res (list tensor) :=
    sequence (concat (pmap (fun chunk => map (predict n) chunk) (chunks CHUNKS inputs))).

  (* ---- learn ---- *)
  Definition grads := (list (grad N) * list (option (bgrad N)))%type.

  Definition grad_add (a b : grad N) : res (grad N) :=
    match a, b with
    | GPlain x, GPlain y => do z <- add_inplace x y; Ok (GPlain z)
    | GNested x, GNested y => do z <- add_inplace_nested x y; Ok (GNested z)
    | _, _ => Panic P_shape
    end.
  Definition bgrad_add (a b : option (bgrad N)) : res (option (bgrad N)) :=
    match a, b with
    | Some (BPlain x), Some (BPlain y) => do z <- add_inplace x y; Ok (Some (BPlain z))
    | Some (BNestedOpt x), Some (BNestedOpt y) => do z <- add_inplace_nestedopt x y; Ok (Some (BNestedOpt z))
    | None, None => Ok None
    | _, _ => Panic P_explicit
    end.

  (* zip-wise accumulation: the accumulator keeps its length *)
  Fixpoint zipM {A} (f : A -> A -> res A) (a b : list A) : res (list A) :=
    match a, b with
    | x :: xs, y :: ys => do z <- f x y; do zs <- zipM f xs ys; Ok (z :: zs)
    | _, _ => Ok a
    end.

  Definition grads_add (a b : grads) : res grads :=
    do w <- zipM grad_add (fst a) (fst b);
    do bb <- zipM bgrad_add (snd a) (snd b);
    Ok (w, bb).

  Definition sample_grad (n : network) (xt : tensor * tensor) : res (grads * T) :=
    do f <- forward n (fst xt);
    do out <- (match last_opt (fw_post f) with Some t => Ok t | None => Panic P_unwrap end);
    do lg <- loss (fst (n_objective n)) (snd (n_objective n)) out (snd xt);
    do r <- backward n (snd lg) f;
    Ok ((fst (fst r), snd (fst r)), fst lg).

  Definition net_step (epoch : Z) (n : network) (g : grads) : res network :=
    update n epoch (fst g) (snd g).

  Definition tol_1e6 : T := ratio 1 1000000.

  (* learn(inputs, targets, validation, batch, epochs): `inputs.par_chunks(batch)` is zipped with
     `targets.par_chunks(batch)` and every batch is the zip of its two slices *)
  Definition learn (n : network) (inputs targets : list tensor)
             (validation : option (list tensor * list tensor * Z)) (batch : nat) (epochs : Z)
    : res (network * history N) :=
    check (negb (batch =? 0)) else P_explicit;
    let bs := map (fun p => combine (fst p) (snd p)) (combine (chunks batch inputs) (chunks batch targets)) in
    let valid := fun s : network =>
      match validation with
      | Some (vi, vt, _) => validate s vi vt tol_1e6
      | None => Panic P_explicit
      end in
    let has_val := match validation with Some _ => true | None => false end in
    let threshold := match validation with Some (_, _, t) => t | None => 0%Z end in
    let s0 := set_all_training true n in
    do r <- epochs_loop pmap sample_grad grads_add net_step valid (Z.to_nat epochs) 1 has_val
              (if has_val then Some threshold else None) bs s0
              {| h_train := []; h_vloss := []; h_vacc := [] |};
    Ok (set_all_training false (fst r), snd r).
End Learn.
