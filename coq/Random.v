(* src/random.rs : the minstd linear congruential generator. State is a u64 modelled in Z. *)
From NV Require Import Prelude Num.
Set Implicit Arguments.
Local Open Scope Z_scope.

Definition lcg_m : Z := 2147483647.        (* 2^31 - 1 *)
Definition lcg_a : Z := 48271.
Definition two64 : Z := 18446744073709551616.

(* `(multiplier * (current % modulus) + increment) % modulus` on u64: the state is reduced first,
   so the product stays below 48271 * 2^31 and cannot overflow in either build profile. *)
Definition lcg_next (cur : Z) : Z := (lcg_a * (cur mod lcg_m)) mod lcg_m.
Definition lcg_next_checked (cur : Z) : res Z := Ok (lcg_next cur).
Definition lcg_next_wrap (cur : Z) : Z := lcg_next cur.

Section Random.
  Variable N : Num.
  Notation T := (T N).

  (* `let value = (self.current as f32 / (self.modulus - 1) as f32) * (max - min) + min;
      value.max(min).min(max)` *)
  Definition lcg_raw (cur : Z) (lo hi : T) : T :=
    nadd N (nmul N (ndiv N (nofZ N cur) (nofZ N (lcg_m - 1))) (nsub N hi lo)) lo.
  Definition lcg_value (cur : Z) (lo hi : T) : T := fminn (fmax (lcg_raw cur lo hi) lo) hi.

  (* generate: returns the new state and the value *)
  Definition generate_checked (cur : Z) (lo hi : T) : res (Z * T) :=
    do c <- lcg_next_checked cur; Ok (c, lcg_value c lo hi).
  Definition generate_wrap (cur : Z) (lo hi : T) : Z * T :=
    let c := lcg_next_wrap cur in (c, lcg_value c lo hi).

  (* n successive values; used by Tensor::random and dropout *)
  Fixpoint generate_n (n : nat) (cur : Z) (lo hi : T) : Z * list T :=
    match n with
    | O => (cur, [])
    | S k => let '(c, v) := generate_wrap cur lo hi in
             let '(c', vs) := generate_n k c lo hi in (c', v :: vs)
    end.

  (* Vec::swap(i, j): panics when an index is out of bounds *)
  Definition swap {A} (l : list A) (i j : nat) : res (list A) :=
    do x <- nth_res l i; do y <- nth_res l j;
    Ok (set_nth (set_nth l i y) j x).

  (* shuffle: for i in 0..len { j = (generate(0, len) as usize).min(len - 1); swap(i, j) } *)
  Fixpoint shuffle_from {A} (wrap : bool) (fuel i : nat) (cur : Z) (l : list A)
    : res (Z * list A) :=
    match fuel with
    | O => Ok (cur, l)
    | S k =>
        do c <- (if wrap then Ok (lcg_next_wrap cur) else lcg_next_checked cur);
        let j := Nat.min (Z.to_nat (ntoZ N (lcg_value c (nofZ N 0) (of_nat (length l))))) (length l - 1) in
        do l' <- swap l i j;
        shuffle_from wrap k (S i) c l'
    end.
  Definition shuffle {A} (wrap : bool) (seed : Z) (l : list A) : res (Z * list A) :=
    shuffle_from wrap (length l) 0 seed l.
End Random.
