(* Network::set_activation: only the activation of the addressed layer changes, and the accuracy rule of
   validate (arg-max agreement for a soft-max output layer, the tolerance band otherwise) follows the
   activation the output layer has NOW - it is read from the layer at every call. *)
From NV Require Import Prelude Num Random Tensor Activation Objective Optimizer Layers Network Learn.
From NV.Theory Require Import Monad Lists Build C18 C17 Chunks Par Training.
Set Implicit Arguments.

Section SetAct.
  Variable N : Num.
  Notation network := (network N).
  Notation layer := (layer N).

  (* the layer with its activation replaced (max-pool layers and blocks have none) *)
  Definition with_act (l : layer) (a : activation) : option layer :=
    match l with
    | LDense d => Some (LDense {| d_inputs := d_inputs d; d_outputs := d_outputs d; d_loops := d_loops d;
                                  d_weights := d_weights d; d_bias := d_bias d; d_act := a;
                                  d_dropout := d_dropout d; d_training := d_training d |})
    | LConv c => Some (LConv {| c_inputs := c_inputs c; c_outputs := c_outputs c; c_loops := c_loops c;
                                c_kernels := c_kernels c; c_stride := c_stride c; c_padding := c_padding c;
                                c_dilation := c_dilation c; c_act := a; c_dropout := c_dropout c;
                                c_flatten := c_flatten c; c_training := c_training c |})
    | LDeconv c => Some (LDeconv {| dc_inputs := dc_inputs c; dc_outputs := dc_outputs c; dc_loops := dc_loops c;
                                    dc_kernels := dc_kernels c; dc_stride := dc_stride c;
                                    dc_padding := dc_padding c; dc_act := a; dc_dropout := dc_dropout c;
                                    dc_flatten := dc_flatten c; dc_training := dc_training c |})
    | _ => None
    end.

  Lemma set_activation_spec (n n' : network) i a :
    set_activation n i a = Ok n' ->
    exists l l', nth_error (n_layers n) i = Some l /\ with_act l a = Some l' /\
                 n_layers n' = set_nth (n_layers n) i l' /\
                 n_loopbacks n' = n_loopbacks n /\ n_connect n' = n_connect n /\
                 n_optimizer n' = n_optimizer n /\ n_objective n' = n_objective n /\
                 n_skipacc n' = n_skipacc n /\ n_loopacc n' = n_loopacc n /\ n_input n' = n_input n.
  Proof.
    unfold set_activation. destruct (nth_error (n_layers n) i) as [l|] eqn:El; [|discriminate].
    cbn [bind]. intros H. exists l.
    destruct l as [d|c|c|m|b]; cbn [bind] in H; try discriminate; injection H as <-;
      eexists; (split; [reflexivity|]); (split; [reflexivity|]); repeat split.
  Qed.

  (* refused: index out of bounds, max-pool layers, feedback blocks *)
  Lemma set_activation_refused (n : network) i a :
    (nth_error (n_layers n) i = None \/
     (exists l, nth_error (n_layers n) i = Some l /\ with_act l a = None)) ->
    exists c, set_activation n i a = Panic c.
  Proof.
    unfold set_activation. intros [H|(l & H & Hw)]; rewrite H; cbn [bind]; [eexists; reflexivity|].
    destruct l; try discriminate; cbn [bind]; eexists; reflexivity.
  Qed.

  (* the accuracy rule after the OUTPUT layer's activation was replaced *)
  Lemma set_activation_accuracy (n n' : network) i a d tol (p t : tensor N) :
    set_activation n i a = Ok n' -> length (n_layers n) = S i ->
    nth_error (n_layers n) i = Some (LDense d) ->
    accuracy n' tol p t =
    match a with
    | Softmax => do x <- argmax t; do y <- argmax p; Ok (if x =? y then one else zero)
    | _ => do tf <- get_flat t; do pf <- get_flat p;
           if length tf =? 1 then
             do p0 <- nth_res pf 0; do t0 <- nth_res tf 0; Ok (if abs_lt N p0 t0 tol then one else zero)
           else Ok (ndiv N (fsum (map2 (fun ti pi_ => if abs_lt N ti pi_ tol then one else zero) tf pf))
                          (of_nat (length tf)))
    end.
  Proof.
    intros H Hlen Hd. destruct (set_activation_spec _ _ _ H) as (l & l' & Hl & Hw & Hls & _).
    rewrite Hd in Hl. injection Hl as <-. cbn [with_act] in Hw. injection Hw as <-.
    unfold accuracy. rewrite Hls.
    match goal with |- context [set_nth (n_layers n) i ?L] =>
      rewrite (@last_opt_of_nth _ (set_nth (n_layers n) i L) i L);
        [|rewrite set_nth_length; exact Hlen|apply nth_error_set_nth_eq; lia] end.
    cbn [d_act]. destruct a; reflexivity.
  Qed.
End SetAct.

(* predict_batch, position by position: as many results as inputs, and the i-th result is the
   prediction of the i-th input (any ordered parallel map, any number of inputs) *)
Lemma mapM_nth A B (f : A -> res B) : forall l r i x,
  mapM f l = Ok r -> nth_error l i = Some x -> exists y, nth_error r i = Some y /\ f x = Ok y.
Proof.
  induction l as [|h l IH]; intros r i x H Hi.
  - destruct i; discriminate.
  - cbn [mapM] in H. destruct (f h) as [y|] eqn:Eh; [|discriminate]. cbn [bind] in H.
    destruct (mapM f l) as [ys|] eqn:El; [|discriminate]. cbn [bind] in H. injection H as <-.
    destruct i as [|i]; cbn [nth_error] in *.
    + injection Hi as <-. exists y. split; [reflexivity|exact Eh].
    + exact (IH ys i x eq_refl Hi).
Qed.

Theorem predict_batch_positional (N : Num) (p : pmap_t) (Hp : pmap_ordered p) (n : network N) xs ys :
  predict_batch p n xs = Ok ys ->
  length ys = length xs /\
  forall i x, nth_error xs i = Some x -> exists y, nth_error ys i = Some y /\ predict n x = Ok y.
Proof.
  rewrite (predict_batch_spec Hp). intros H. split.
  - exact (mapM_length _ _ H).
  - intros i x Hi. exact (mapM_nth _ _ _ H Hi).
Qed.

(* and it succeeds whenever every single prediction does *)
Lemma mapM_all_ok A B (f : A -> res B) : forall l,
  (forall x, In x l -> exists y, f x = Ok y) -> exists r, mapM f l = Ok r.
Proof.
  induction l as [|h l IH]; intros H.
  - exists []. reflexivity.
  - destruct (H h (or_introl eq_refl)) as [y Hy].
    destruct (IH (fun x Hx => H x (or_intror Hx))) as [r Hr].
    exists (y :: r). cbn [mapM]. rewrite Hy. cbn [bind]. rewrite Hr. reflexivity.
Qed.

Theorem predict_batch_succeeds_when_each_predict_does (N : Num) (p : pmap_t) (Hp : pmap_ordered p)
        (n : network N) xs :
  (forall x, In x xs -> exists y, predict n x = Ok y) -> exists ys, predict_batch p n xs = Ok ys.
Proof. rewrite (predict_batch_spec Hp). apply mapM_all_ok. Qed.
