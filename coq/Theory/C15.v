(* C15: element-wise tensor arithmetic is exact, rank-generic and shape-checked. *)
From NV Require Import Prelude Num NumF32 Random Tensor.
From NV.Theory Require Import Monad Build.
From Flocq Require Import Core BinarySingleNaN.
Require Import Reals Lra Lia.
Import ListNotations.
Set Implicit Arguments.

Section C15.
  Variable N : Num.
  Notation T := (T N).
  Notation tensor := (tensor N).

  (* operands whose shapes differ are refused *)
  Theorem binop_shape_checked (f : T -> T -> T) (a b : tensor) :
    shape_eqb (tshape a) (tshape b) = false -> binop_inplace f a b = Panic P_shape.
  Proof. intros H. unfold binop_inplace. rewrite H. reflexivity. Qed.

  (* equal shapes: the recorded shape is unchanged and the data is combined element by element,
     for each rank the operation supports *)
  Theorem binop_single (f : T -> T -> T) (a b : tensor) x y :
    shape_eqb (tshape a) (tshape b) = true -> tdata a = DSingle x -> tdata b = DSingle y ->
    binop_inplace f a b = Ok (mkT (tshape a) (DSingle (zipk f x y))).
  Proof. intros Hs Ha Hb. unfold binop_inplace. rewrite Hs, Ha, Hb. reflexivity. Qed.

  Theorem binop_double (f : T -> T -> T) (a b : tensor) x y :
    shape_eqb (tshape a) (tshape b) = true -> tdata a = DDouble x -> tdata b = DDouble y ->
    binop_inplace f a b = Ok (mkT (tshape a) (DDouble (zipk (zipk f) x y))).
  Proof. intros Hs Ha Hb. unfold binop_inplace. rewrite Hs, Ha, Hb. reflexivity. Qed.

  Theorem binop_triple (f : T -> T -> T) (a b : tensor) x y :
    shape_eqb (tshape a) (tshape b) = true -> tdata a = DTriple x -> tdata b = DTriple y ->
    binop_inplace f a b = Ok (mkT (tshape a) (DTriple (zipk (zipk (zipk f)) x y))).
  Proof. intros Hs Ha Hb. unfold binop_inplace. rewrite Hs, Ha, Hb. reflexivity. Qed.

  Theorem binop_quad (f : T -> T -> T) (a b : tensor) x y :
    shape_eqb (tshape a) (tshape b) = true -> tdata a = DQuad x -> tdata b = DQuad y ->
    binop_inplace f a b = Ok (mkT (tshape a) (DQuad (zipk (zipk (zipk (zipk f))) x y))).
  Proof. intros Hs Ha Hb. unfold binop_inplace. rewrite Hs, Ha, Hb. reflexivity. Qed.

  (* every element of the result is the operator applied to the two elements at that position
     (stated for the 4-D case, which contains the others) *)
  Theorem zipk4_get (f : T -> T -> T) (x y : vec4 T) i j k l d :
    i < length x -> i < length y ->
    j < length (nth i x []) -> j < length (nth i y []) ->
    k < length (nth j (nth i x []) []) -> k < length (nth j (nth i y []) []) ->
    l < length (nth k (nth j (nth i x []) []) []) -> l < length (nth k (nth j (nth i y []) []) []) ->
    get4 d (zipk (zipk (zipk (zipk f))) x y) i j k l = f (get4 d x i j k l) (get4 d y i j k l).
  Proof.
    intros. unfold get4.
    rewrite (zipk_nth (zipk (zipk (zipk f))) x y [] []) by assumption.
    rewrite (zipk_nth (zipk (zipk f)) _ _ [] []) by assumption.
    rewrite (zipk_nth (zipk f) _ _ [] []) by assumption.
    rewrite (zipk_nth f _ _ d d) by assumption. reflexivity.
  Qed.

  (* scaled Hadamard product: (a * b) * s, two operations in that order *)
  Theorem hadamard_elem (a b : tensor) s x y :
    shape_eqb (tshape a) (tshape b) = true -> tdata a = DSingle x -> tdata b = DSingle y ->
    hadamard a b s = Ok (mkT (tshape a) (DSingle (zipk (fun u v => nmul N (nmul N u v) s) x y))).
  Proof. intros. unfold hadamard. apply binop_single; assumption. Qed.

  Theorem div_scalar_spec (a : tensor) s :
    div_scalar_inplace a s = mkT (tshape a) (map_data (fun x => ndiv N x s) (tdata a)).
  Proof. reflexivity. Qed.

  (* the mean over self and k others: (self + (((-0 + o1) + o2) ... + ok)) / (k+1) *)
  Theorem mean_elem_spec n v os :
    mean_elem N n v os = ndiv N (nadd N v (fold_left (nadd N) os (nnzero N))) n.
  Proof. reflexivity. Qed.

  Theorem mean_refuses_empty (a : tensor) : exists c, mean_inplace a [] = Panic c.
  Proof. unfold mean_inplace. simpl. eexists; reflexivity. Qed.

  Theorem mean_shape_checked (a : tensor) os :
    os <> [] -> forallb (fun o => shape_eqb (tshape a) (tshape o)) os = false ->
    mean_inplace a os = Panic P_shape.
  Proof.
    intros Hne H. unfold mean_inplace. destruct os as [|o os]; [contradiction|].
    cbn [length Nat.eqb negb]. rewrite H. reflexivity.
  Qed.

  Theorem mean_single (a : tensor) os x :
    os <> [] -> forallb (fun o => shape_eqb (tshape a) (tshape o)) os = true ->
    tdata a = DSingle x ->
    (forall o, In o os -> exists d, tdata o = DSingle d /\ length x <= length d) ->
    mean_inplace a os =
    Ok (mkT (tshape a) (DSingle (mapi (fun i v =>
          mean_elem N (of_nat (length os + 1)) v
                    (map (fun o => match tdata o with DSingle d => nth i d zero | _ => zero end) os)) x))).
  Proof.
    intros Hne Hs Ha Hos. unfold mean_inplace. destruct os as [|o0 os0] eqn:Eos; [contradiction|].
    rewrite <- Eos in *. replace (negb (length os =? 0)) with true by (rewrite Eos; reflexivity).
    rewrite Hs, Ha.
    assert (Hgen : forall k l,
      (forall o, In o os -> exists d, tdata o = DSingle d /\ k + length l <= length d) ->
      mapM (fun iv : nat * T =>
              do os' <- mapM (fun o => match tdata o with DSingle d => nth_res d (fst iv) | _ => Panic P_explicit end) os;
              Ok (mean_elem N (of_nat (length os + 1)) (snd iv) os')) (combine (seq k (length l)) l)
      = Ok (mapi_from k (fun i v => mean_elem N (of_nat (length os + 1)) v
                    (map (fun o => match tdata o with DSingle d => nth i d zero | _ => zero end) os)) l)).
    { intros k l; revert k; induction l as [|v l IH]; intros k Hk; [reflexivity|].
      cbn [length seq combine mapM mapi_from fst snd].
      replace (mapM (fun o => match tdata o with DSingle d => nth_res d k | _ => Panic P_explicit end) os)
        with (Ok (map (fun o => match tdata o with DSingle d => nth k d zero | _ => zero end) os)).
      2:{ symmetry. rewrite <- mapM_total. apply mapM_ext. intros o Ho.
          destruct (Hk o Ho) as (d & -> & Hd). apply nth_res_nth. cbn [length] in Hd. lia. }
      cbn [bind]. rewrite IH; [reflexivity|].
      intros o Ho. destruct (Hk o Ho) as (d & Hd & Hl). exists d. split; [exact Hd|cbn [length] in Hl; lia]. }
    rewrite (Hgen 0 x); [reflexivity|]. intros o Ho. destruct (Hos o Ho) as (d & Hd & Hl). exists d. split; [exact Hd|lia].
  Qed.

  (* outer product, matrix-vector product, transpose *)
  Theorem product_spec (a b : tensor) x y :
    tdata a = DSingle x -> tdata b = DSingle y -> x <> [] ->
    product a b = Ok (mkT (SDouble (length x) (length y)) (DDouble (map (fun u => map (fun v => nmul N u v) y) x))).
  Proof.
    intros Ha Hb Hx. unfold product. rewrite Ha, Hb. destruct x as [|u x]; [contradiction|].
    unfold t_double. cbn [map length]. rewrite !map_length. reflexivity.
  Qed.

  Theorem dot_spec (a b : tensor) m v :
    tdata a = DDouble m -> tdata b = DSingle v ->
    dot a b = Ok (mkT (SSingle (length m)) (DSingle (map (fun row => fold_left (nadd N) (map2 (nmul N) row v) (nnzero N)) m))).
  Proof. intros Ha Hb. unfold dot. rewrite Ha, Hb. unfold t_single. rewrite map_length. reflexivity. Qed.

  Theorem transpose_spec (a : tensor) m r0 rest :
    tdata a = DDouble m -> m = r0 :: rest -> r0 <> [] -> Forall (fun r => length r = length r0) m ->
    exists t, transpose a = Ok t /\ tshape t = SDouble (length r0) (length m) /\
      exists d, tdata t = DDouble d /\
        forall i j, i < length m -> j < length r0 -> get2 zero d j i = get2 zero m i j.
  Proof.
    intros Ha Hm Hr0 Hrect. unfold transpose. rewrite Ha, Hm. rewrite <- Hm.
    replace (forallb (fun r => length r <=? length r0) m) with true.
    2:{ symmetry. apply forallb_forall. intros r Hr. apply Nat.leb_le.
        rewrite (proj1 (Forall_forall _ _) Hrect r Hr). apply Nat.le_refl. }
    replace (negb (length r0 =? 0)) with true.
    2:{ destruct r0; [contradiction|reflexivity]. }
    eexists. split; [reflexivity|]. split; [reflexivity|]. eexists. split; [reflexivity|].
    intros i j Hi Hj. apply (get2_build2 (fun j0 i0 => get2 zero m i0 j0) zero Hj Hi).
  Qed.

  Theorem clamp_spec (a : tensor) lo hi :
    t_clamp a lo hi = mkT (tshape a) (map_data (fun x => clamp x lo hi) (tdata a)).
  Proof. reflexivity. Qed.

  (* lists with optional entries (per-layer bias gradients): addition is positional; lists of
     different lengths are refused; where either side has no entry the left entry is kept *)
  Theorem nestedopt_add_spec (a b r : list (option tensor)) :
    add_inplace_nestedopt a b = Ok r ->
    length a = length b /\ length r = length a /\
    forall i, nth_error r i =
              match nth_error a i, nth_error b i with
              | Some (Some x), Some (Some y) => match add_inplace x y with Ok z => Some (Some z) | Panic _ => None end
              | Some x, Some _ => Some x
              | _, _ => None
              end.
  Proof.
    unfold add_inplace_nestedopt. destruct (length a =? length b) eqn:El; [|discriminate]. cbn [bind].
    apply Nat.eqb_eq in El. revert b r El. induction a as [|x a IH]; intros [|y b] r El H; cbn [length] in El; try discriminate.
    - cbn in H. injection H as <-. split; [reflexivity|]. split; [reflexivity|]. intros [|i]; reflexivity.
    - cbn [combine mapM] in H.
      destruct x as [x|], y as [y|].
      + destruct (add_inplace x y) as [z|] eqn:Ez; [|discriminate]. cbn [bind] in H.
        destruct (mapM _ (combine a b)) as [r'|] eqn:Er; [|discriminate]. cbn [bind] in H. injection H as <-.
        destruct (IH b r' ltac:(lia) Er) as (_ & Hl & Hn).
        split; [cbn [length]; lia|]. split; [cbn [length]; lia|].
        intros [|i]; cbn [nth_error]; [rewrite Ez; reflexivity|apply Hn].
      + cbn [bind] in H. destruct (mapM _ (combine a b)) as [r'|] eqn:Er; [|discriminate]. cbn [bind] in H. injection H as <-.
        destruct (IH b r' ltac:(lia) Er) as (_ & Hl & Hn).
        split; [cbn [length]; lia|]. split; [cbn [length]; lia|]. intros [|i]; cbn [nth_error]; [reflexivity|apply Hn].
      + cbn [bind] in H. destruct (mapM _ (combine a b)) as [r'|] eqn:Er; [|discriminate]. cbn [bind] in H. injection H as <-.
        destruct (IH b r' ltac:(lia) Er) as (_ & Hl & Hn).
        split; [cbn [length]; lia|]. split; [cbn [length]; lia|]. intros [|i]; cbn [nth_error]; [reflexivity|apply Hn].
      + cbn [bind] in H. destruct (mapM _ (combine a b)) as [r'|] eqn:Er; [|discriminate]. cbn [bind] in H. injection H as <-.
        destruct (IH b r' ltac:(lia) Er) as (_ & Hl & Hn).
        split; [cbn [length]; lia|]. split; [cbn [length]; lia|]. intros [|i]; cbn [nth_error]; [reflexivity|apply Hn].
  Qed.

  Theorem nestedopt_add_refuses_length_mismatch (a b : list (option tensor)) :
    length a <> length b -> exists c, add_inplace_nestedopt a b = Panic c.
  Proof.
    intros H. unfold add_inplace_nestedopt. replace (length a =? length b) with false by (symmetry; apply Nat.eqb_neq; exact H).
    eexists. reflexivity.
  Qed.
End C15.

(* ---- binary32 facts: the arithmetic IS the IEEE-754 single precision operation ---- *)
Local Notation fexp32 := (SpecFloat.fexp prec32 emax32).
Local Notation rnd := (round radix2 fexp32 (round_mode mode_NE)).

Theorem f_add_ieee (x y : f32) :
  is_finite x = true -> is_finite y = true ->
  Rlt_bool (Rabs (rnd (B2R x + B2R y))) (bpow radix2 emax32) = true ->
  B2R (f_add x y) = rnd (B2R x + B2R y) /\ is_finite (f_add x y) = true.
Proof.
  intros Hx Hy Hb. pose proof (Bplus_correct prec32 emax32 prec32_gt_0 prec32_lt_emax mode_NE x y Hx Hy) as H.
  rewrite Hb in H. destruct H as (H1 & H2 & _). split; assumption.
Qed.

Theorem f_sub_ieee (x y : f32) :
  is_finite x = true -> is_finite y = true ->
  Rlt_bool (Rabs (rnd (B2R x - B2R y))) (bpow radix2 emax32) = true ->
  B2R (f_sub x y) = rnd (B2R x - B2R y) /\ is_finite (f_sub x y) = true.
Proof.
  intros Hx Hy Hb. pose proof (Bminus_correct prec32 emax32 prec32_gt_0 prec32_lt_emax mode_NE x y Hx Hy) as H.
  rewrite Hb in H. destruct H as (H1 & H2 & _). split; assumption.
Qed.

Theorem f_mul_ieee (x y : f32) :
  Rlt_bool (Rabs (rnd (B2R x * B2R y))) (bpow radix2 emax32) = true ->
  B2R (f_mul x y) = rnd (B2R x * B2R y) /\ is_finite (f_mul x y) = andb (is_finite x) (is_finite y).
Proof.
  intros Hb. pose proof (Bmult_correct prec32 emax32 prec32_gt_0 prec32_lt_emax mode_NE x y) as H.
  rewrite Hb in H. destruct H as (H1 & H2 & _). split; assumption.
Qed.

Theorem f_div_ieee (x y : f32) :
  B2R y <> 0%R ->
  Rlt_bool (Rabs (rnd (B2R x / B2R y))) (bpow radix2 emax32) = true ->
  B2R (f_div x y) = rnd (B2R x / B2R y) /\ is_finite (f_div x y) = is_finite x.
Proof.
  intros Hy Hb. pose proof (Bdiv_correct prec32 emax32 prec32_gt_0 prec32_lt_emax mode_NE x y Hy) as H.
  rewrite Hb in H. destruct H as (H1 & H2 & _). split; assumption.
Qed.

(* clamped values lie in the interval *)
Theorem clamp_in_interval (L : Libm) (x lo hi : f32) :
  is_finite x = true -> is_finite lo = true -> is_finite hi = true ->
  (B2R lo <= B2R hi)%R ->
  (B2R lo <= B2R (clamp (N := NumF32 L) x lo hi) <= B2R hi)%R.
Proof.
  intros Hx Hlo Hhi Hle. unfold clamp. cbn [nltb NumF32]. unfold f_ltb.
  rewrite (Bltb_correct prec32 emax32 x lo Hx Hlo).
  destruct (Rlt_bool_spec (B2R x) (B2R lo)) as [H1|H1].
  - rewrite (Bltb_correct prec32 emax32 hi lo Hhi Hlo).
    destruct (Rlt_bool_spec (B2R hi) (B2R lo)) as [H2|H2]; lra.
  - rewrite (Bltb_correct prec32 emax32 hi x Hhi Hx).
    destruct (Rlt_bool_spec (B2R hi) (B2R x)) as [H2|H2]; lra.
Qed.
