(* Lemmas on the result monad: mapM, foldM, sequence. *)
From NV Require Import Prelude.
Set Implicit Arguments.

Lemma mapM_ext A B (f g : A -> res B) l : (forall x, In x l -> f x = g x) -> mapM f l = mapM g l.
Proof.
  induction l as [|x l IH]; intros H; simpl; [reflexivity|].
  rewrite (H x (or_introl eq_refl)), IH; [reflexivity|]. intros y Hy. apply H. right. exact Hy.
Qed.

Lemma foldM_ext A S (f g : S -> A -> res S) l s :
  (forall s x, In x l -> f s x = g s x) -> foldM f l s = foldM g l s.
Proof.
  revert s; induction l as [|x l IH]; intros s H; simpl; [reflexivity|].
  rewrite (H s x (or_introl eq_refl)). destruct (g s x) as [s'|c]; simpl; [|reflexivity].
  apply IH. intros s0 y Hy. apply H. right. exact Hy.
Qed.

Lemma mapM_total A B (f : A -> B) l : mapM (fun x => Ok (f x)) l = Ok (map f l).
Proof. induction l as [|x l IH]; simpl; [reflexivity|]. rewrite IH. reflexivity. Qed.

Lemma mapM_length A B (f : A -> res B) l r : mapM f l = Ok r -> length r = length l.
Proof.
  revert r; induction l as [|x l IH]; intros r H; simpl in H.
  - injection H as <-. reflexivity.
  - destruct (f x) as [y|]; simpl in H; [|discriminate].
    destruct (mapM f l) as [ys|]; simpl in H; [|discriminate]. injection H as <-.
    simpl. rewrite (IH ys eq_refl). reflexivity.
Qed.

Lemma mapM_app A B (f : A -> res B) l1 l2 :
  mapM f (l1 ++ l2) = do a <- mapM f l1; do b <- mapM f l2; Ok (a ++ b).
Proof.
  induction l1 as [|x l1 IH]; simpl.
  - destruct (mapM f l2); reflexivity.
  - destruct (f x) as [y|]; simpl; [|reflexivity]. rewrite IH.
    destruct (mapM f l1) as [ys|]; simpl; [|reflexivity].
    destruct (mapM f l2) as [zs|]; simpl; reflexivity.
Qed.

Lemma sequence_map A B (f : A -> res B) l : sequence (map f l) = mapM f l.
Proof.
  induction l as [|x l IH]; simpl; [reflexivity|]. rewrite IH.
  destruct (f x); reflexivity.
Qed.

Lemma foldM_app A S (f : S -> A -> res S) l1 l2 s :
  foldM f (l1 ++ l2) s = do s' <- foldM f l1 s; foldM f l2 s'.
Proof.
  revert s; induction l1 as [|x l1 IH]; intros s; simpl; [reflexivity|].
  destruct (f s x) as [s'|]; simpl; [apply IH|reflexivity].
Qed.

Lemma foldM_total A S (f : S -> A -> S) l s :
  foldM (fun s x => Ok (f s x)) l s = Ok (fold_left f l s).
Proof. revert s; induction l as [|x l IH]; intros s; simpl; [reflexivity|apply IH]. Qed.

Lemma nth_res_nth A (l : list A) i d : i < length l -> nth_res l i = Ok (nth i l d).
Proof.
  intros H. unfold nth_res. destruct (nth_error l i) as [a|] eqn:E.
  - rewrite (nth_error_nth _ _ d E). reflexivity.
  - apply nth_error_None in E. lia.
Qed.

Lemma nth_res_oob A (l : list A) i : length l <= i -> nth_res l i = Panic P_index.
Proof. intros H. unfold nth_res. rewrite (proj2 (nth_error_None l i) H). reflexivity. Qed.

Lemma nth_error_eq_ext A (l1 l2 : list A) : (forall i, nth_error l1 i = nth_error l2 i) -> l1 = l2.
Proof.
  revert l2; induction l1 as [|x l1 IH]; intros l2 H.
  - destruct l2 as [|y l2]; [reflexivity|]. specialize (H 0). discriminate.
  - destruct l2 as [|y l2]; [specialize (H 0); discriminate|].
    pose proof (H 0) as H0. simpl in H0. injection H0 as ->. f_equal. apply IH. intros i. exact (H (S i)).
Qed.
