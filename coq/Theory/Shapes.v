(* Shapes (C08): the announced output shape of every layer is the shape its forward pass produces,
   gradient tensors have the shape of their parameters, flat <-> spatial transitions keep every
   element, flat sizes are accepted exactly when they are r*r. Generic in the number structure. *)
From NV Require Import Prelude Num Random Tensor Activation Objective Optimizer Layers Network.
From NV.Theory Require Import Monad Lists Build Chunks Conv Forward C18.
Set Implicit Arguments.

Section Shapes.
  Variable N : Num.
  Notation T := (T N).
  Notation tensor := (tensor N).

  (* ---- size formulas: a successful computation is the standard formula under its guard ---- *)
  Lemma conv_out1_ok i k s p d o :
    conv_out1 i k s p d = Ok o ->
    0 < k /\ 0 < s /\ (k - 1) * d + 1 <= i + 2 * p /\ o = out_len (i + 2 * p) k s d.
  Proof.
    unfold conv_out1, csub, cdiv, out_len.
    destruct (1 <=? k) eqn:E1; [|discriminate]. cbn [bind].
    destruct (d * (k - 1) <=? i + 2 * p) eqn:E2; [|discriminate]. cbn [bind].
    destruct (1 <=? i + 2 * p - d * (k - 1)) eqn:E3; [|discriminate]. cbn [bind].
    destruct (s =? 0) eqn:E4; [discriminate|]. cbn [bind]. intros H. injection H as <-.
    apply Nat.leb_le in E1, E2, E3. apply Nat.eqb_neq in E4.
    rewrite (Nat.mul_comm d (k - 1)) in *. repeat split; try lia.
  Qed.

  Lemma deconv_out1_ok i k s p o :
    deconv_out1 i k s p = Ok o -> 0 < i /\ 2 * p <= (i - 1) * s + k /\ o = (i - 1) * s + k - 2 * p.
  Proof.
    unfold deconv_out1, csub.
    destruct (1 <=? i) eqn:E1; [|discriminate]. cbn [bind].
    destruct (2 * p <=? (i - 1) * s + k) eqn:E2; [|discriminate]. intros H. injection H as <-.
    apply Nat.leb_le in E1, E2. repeat split; lia.
  Qed.

  Lemma pool_out1_ok i k s o :
    pool_out1 i k s = Ok o -> k <= i /\ 0 < s /\ o = (i - k) / s + 1.
  Proof.
    unfold pool_out1, csub, cdiv.
    destruct (k <=? i) eqn:E1; [|discriminate]. cbn [bind].
    destruct (s =? 0) eqn:E2; [discriminate|]. cbn [bind]. intros H. injection H as <-.
    apply Nat.leb_le in E1. apply Nat.eqb_neq in E2. repeat split; lia.
  Qed.

  (* ---- freshly drawn kernels have the requested dimensions ---- *)
  Lemma skipn_skipn_add A a b (v : list A) : skipn a (skipn b v) = skipn (b + a) v.
  Proof.
    revert v; induction b as [|b IH]; intros v; [reflexivity|].
    destruct v as [|x v]; [destruct a; reflexivity|]. cbn [skipn Nat.add]. apply IH.
  Qed.

  (* the one-pass un-flattening is the positional one: row i is firstn c (skipn (i * c) v) *)
  Lemma unflat2_spec A r c (v : list A) :
    unflat2 r c v = build1 r (fun i => firstn c (skipn (i * c) v)).
  Proof.
    unfold build1. revert v. induction r as [|k IH]; intros v; [reflexivity|].
    cbn [unflat2 seq map]. f_equal. rewrite IH, <- seq_shift, map_map.
    apply map_ext. intros i. rewrite skipn_skipn_add. f_equal.
  Qed.
  Lemma length_unflat2 A r c (v : list A) : length (unflat2 r c v) = r.
  Proof. rewrite unflat2_spec. apply length_build1. Qed.

  Lemma unflat2_rect2 A h w (v : list A) : h * w <= length v -> rect2 h w (unflat2 h w v).
  Proof.
    intros Hl. rewrite unflat2_spec. split; [apply length_build1|].
    apply Forall_forall. intros r Hr. unfold build1 in Hr. apply in_map_iff in Hr.
    destruct Hr as (i & <- & Hi). apply in_seq in Hi.
    rewrite firstn_length, skipn_length. nia.
  Qed.

  Lemma unflat3_rect3 A c h w (v : list A) : c * h * w <= length v -> rect3 c h w (unflat3 c h w v).
  Proof.
    intros Hl. unfold unflat3. split; [apply length_build1|].
    apply Forall_forall. intros ch Hch. unfold build1 in Hch. apply in_map_iff in Hch.
    destruct Hch as (k & <- & Hk). apply in_seq in Hk. apply unflat2_rect2.
    rewrite skipn_length. nia.
  Qed.

  Lemma random_kernels_rect4 (seeds : nat -> Z) ic kh kw lo hi filters ts :
    mapM (fun f => random_tensor N (seeds f) (STriple ic kh kw) lo hi) (seq 0 filters) = Ok ts ->
    exists ks, mapM (@kernel_data N) ts = Ok ks /\ rect4 filters ic kh kw ks /\
               Forall (fun t => tshape t = STriple ic kh kw) ts.
  Proof.
    assert (G : forall l ts, mapM (fun f => random_tensor N (seeds f) (STriple ic kh kw) lo hi) l = Ok ts ->
                exists ks, mapM (@kernel_data N) ts = Ok ks /\ length ks = length l /\
                           Forall (rect3 ic kh kw) ks /\ Forall (fun t => tshape t = STriple ic kh kw) ts).
    { induction l as [|f l IH]; intros ts0 H; cbn [mapM] in H.
      - injection H as <-. exists []. repeat split; constructor.
      - cbn [random_tensor bind] in H.
        destruct (mapM _ l) as [ts1|] eqn:E; [|discriminate]. cbn [bind] in H. injection H as <-.
        destruct (IH ts1 eq_refl) as (ks & Hks & Hlen & Hrect & Hsh).
        eexists. cbn [mapM kernel_data tdata bind]. rewrite Hks. cbn [bind]. split; [reflexivity|].
        split; [cbn [length]; f_equal; exact Hlen|]. split.
        + constructor; [|exact Hrect]. apply unflat3_rect3.
          rewrite (proj2 (generate_n_states N (ic * kh * kw) (seeds f) lo hi)). apply Nat.le_refl.
        + constructor; [reflexivity|exact Hsh]. }
    intros H. destruct (G _ _ H) as (ks & Hks & Hlen & Hrect & Hsh).
    exists ks. split; [exact Hks|]. split; [|exact Hsh]. split; [exact (eq_trans Hlen (seq_length _ _))|exact Hrect].
  Qed.

  (* ---- convolution: announced = produced ---- *)
  Theorem conv_announced_is_produced (seeds : nat -> Z) inputs filters a kernel stride padding dilation dropout
          (l : conv N) (x : tensor) d pre post :
    conv_create N seeds inputs filters a kernel stride padding dilation dropout = Ok l ->
    0 < filters ->
    (exists ic ih iw, c_inputs l = STriple ic ih iw /\ rect3 ic ih iw d /\ 0 < ic /\ 0 < ih) ->
    tdata x = DTriple d ->
    conv_forward l x = Ok (pre, post) ->
    tshape pre = c_outputs l.
  Proof.
    intros Hc Hf (ic & ih & iw & Hin & Hr & Hic & Hih) Hx Hfw.
    unfold conv_create in Hc.
    destruct (spatial_inputs N inputs) as [[inputs' ic']|] eqn:Es; [|discriminate]. cbn [bind] in Hc.
    destruct (conv_output_size N inputs' filters kernel stride padding dilation) as [outs|] eqn:Eo; [|discriminate].
    cbn [bind] in Hc.
    destruct (mapM _ (seq 0 filters)) as [ts|] eqn:Ek; [|discriminate]. cbn [bind] in Hc.
    injection Hc as <-. cbn [c_inputs c_outputs] in *. subst inputs'.
    assert (ic' = ic).
    { unfold spatial_inputs in Es. destruct inputs as [sz| | | |]; try discriminate.
      - destruct (_ =? sz); [|discriminate]. cbn [bind] in Es. congruence.
      - congruence. }
    subst ic'.
    destruct (random_kernels_rect4 _ _ _ _ _ _ _ Ek) as (ks & Hks & Hrect & _).
    unfold conv_output_size in Eo. cbn [bind fst snd] in Eo.
    destruct (conv_out1 ih (fst kernel) (fst stride) (fst padding) (fst dilation)) as [oh|] eqn:E1; [|discriminate].
    cbn [bind] in Eo.
    destruct (conv_out1 iw (snd kernel) (snd stride) (snd padding) (snd dilation)) as [ow|] eqn:E2; [|discriminate].
    cbn [bind] in Eo. injection Eo as <-.
    apply conv_out1_ok in E1. destruct E1 as (Hk1 & Hs1 & Hfit1 & ->).
    apply conv_out1_ok in E2. destruct E2 as (Hk2 & Hs2 & Hfit2 & ->).
    match type of Hfw with conv_forward ?l0 x = _ =>
      apply (@conv_forward_shape N l0 x d ks ic ih iw filters (fst kernel) (snd kernel) pre post)
    end; cbn [c_inputs c_kernels c_stride c_dilation c_padding]; auto.
  Qed.

  (* ---- helpers: the recorded shape of a built tensor ---- *)
  Lemma t_triple_build3_shape kf oh ow (f : nat -> nat -> nat -> T) t :
    t_triple N (build3 kf oh ow f) = Ok t -> tshape t = STriple kf oh ow.
  Proof.
    destruct kf as [|kf']; [discriminate|]. destruct oh as [|oh']; [discriminate|].
    rewrite t_triple_build3 by lia. intros H. injection H as <-. reflexivity.
  Qed.

  Lemma post_process_pre a tr dr fl (y : vec3 T) pre post :
    post_process N a tr dr fl y = Ok (pre, post) -> t_triple N y = Ok pre.
  Proof.
    unfold post_process. destruct (t_triple N y) as [p|]; [|discriminate]. cbn [bind].
    destruct (act_forward a p) as [q|]; [|discriminate]. cbn [bind].
    match goal with |- (do p <- ?X; _) = _ -> _ => destruct X as [r|]; [|discriminate] end.
    cbn [bind]. intros H. injection H as <- _. reflexivity.
  Qed.

  Lemma spatial_inputs_triple inputs ic ih iw ic' :
    spatial_inputs N inputs = Ok (STriple ic ih iw, ic') -> ic' = ic.
  Proof.
    unfold spatial_inputs. destruct inputs as [sz| | | |]; try discriminate.
    - destruct (_ =? sz); [|discriminate]. cbn [bind]. congruence.
    - congruence.
  Qed.

  (* ---- deconvolution: announced = produced ---- *)
  Theorem deconv_announced_is_produced (seeds : nat -> Z) inputs filters a kernel stride padding dropout
          (l : deconv N) (x : tensor) d pre post :
    deconv_create N seeds inputs filters a kernel stride padding dropout = Ok l ->
    0 < filters -> 0 < fst kernel ->
    (exists ic ih iw, dc_inputs l = STriple ic ih iw /\ rect3 ic ih iw d /\ 0 < ic) ->
    tdata x = DTriple d ->
    deconv_forward l x = Ok (pre, post) ->
    tshape pre = dc_outputs l.
  Proof.
    intros Hc Hf Hkh (ic & ih & iw & Hin & Hr & Hic) Hx Hfw.
    unfold deconv_create in Hc.
    destruct (spatial_inputs N inputs) as [[inputs' ic']|] eqn:Es; [|discriminate]. cbn [bind] in Hc.
    destruct (deconv_output_size N inputs' filters kernel stride padding) as [outs|] eqn:Eo; [|discriminate].
    cbn [bind] in Hc.
    destruct (mapM _ (seq 0 filters)) as [ts|] eqn:Ek; [|discriminate]. cbn [bind] in Hc.
    injection Hc as <-. cbn [dc_inputs dc_outputs] in *. subst inputs'.
    apply spatial_inputs_triple in Es. subst ic'.
    destruct (random_kernels_rect4 _ _ _ _ _ _ _ Ek) as (ks & Hks & Hrect & _).
    unfold deconv_output_size in Eo. cbn [bind fst snd] in Eo.
    destruct (deconv_out1 ih (fst kernel) (fst stride) (fst padding)) as [oh|] eqn:E1; [|discriminate].
    cbn [bind] in Eo.
    destruct (deconv_out1 iw (snd kernel) (snd stride) (snd padding)) as [ow|] eqn:E2; [|discriminate].
    cbn [bind] in Eo. injection Eo as <-.
    apply deconv_out1_ok in E1. destruct E1 as (Hih & Hp1 & ->).
    apply deconv_out1_ok in E2. destruct E2 as (Hiw & Hp2 & ->).
    match type of Hfw with deconv_forward ?l0 x = _ =>
      rewrite (@deconv_forward_spec N l0 x d ks ic ih iw filters (fst kernel) (snd kernel)) in Hfw
    end; cbn [dc_kernels dc_stride dc_padding]; auto.
    cbn [dc_kernels dc_stride dc_padding dc_act dc_training dc_dropout dc_flatten] in Hfw.
    apply post_process_pre in Hfw. apply t_triple_build3_shape in Hfw. exact Hfw.
  Qed.

  (* ---- max-pool: announced = produced ---- *)
  Theorem maxpool_announced_is_produced inputs kernel stride (l : maxpool N) (x : tensor) d pre post mx :
    maxpool_create N inputs kernel stride = Ok l ->
    (exists c ih iw, m_inputs l = STriple c ih iw /\ rect3 c ih iw d /\ 0 < c /\ 0 < ih) ->
    tdata x = DTriple d ->
    maxpool_forward l x = Ok (pre, post, mx) ->
    tshape pre = m_outputs l.
  Proof.
    intros Hc (c & ih & iw & Hin & Hr & Hcp & Hih) Hx Hfw.
    unfold maxpool_create in Hc.
    match type of Hc with (do i <- ?X; _) = _ => destruct X as [inputs'|] eqn:Es; [|discriminate] end.
    cbn [bind] in Hc. destruct inputs' as [| |c0 h0 w0| |]; try discriminate.
    destruct (pool_out1 h0 (fst kernel) (fst stride)) as [oh|] eqn:E1; [|discriminate]. cbn [bind] in Hc.
    destruct (pool_out1 w0 (snd kernel) (snd stride)) as [ow|] eqn:E2; [|discriminate]. cbn [bind] in Hc.
    injection Hc as <-. cbn [m_inputs m_outputs] in *. injection Hin as -> -> ->.
    apply pool_out1_ok in E1. destruct E1 as (Hk1 & Hs1 & ->).
    apply pool_out1_ok in E2. destruct E2 as (Hk2 & Hs2 & ->).
    match type of Hfw with maxpool_forward ?l0 x = _ =>
      rewrite (@maxpool_forward_spec N l0 x d c ih iw Hx Hr Hcp Hih) in Hfw
    end; cbn [m_stride m_kernel m_outputs]; auto.
    cbn [m_flatten bind] in Hfw. injection Hfw as <- _ _. reflexivity.
  Qed.

  (* ---- dense: announced = produced ---- *)
  Theorem dense_announced_is_produced (seeds : nat -> Z) i o a bias dropout (l : dense N) (x : tensor) pre post :
    dense_create N seeds (SSingle i) (SSingle o) a bias dropout = Ok l ->
    dense_forward l x = Ok (pre, post) ->
    d_outputs l = SSingle o /\ tshape pre = SSingle o.
  Proof.
    intros Hc Hfw. unfold dense_create in Hc. cbn [random_tensor bind] in Hc.
    destruct bias; cbn [bind] in Hc; injection Hc as <-; (split; [reflexivity|]);
      unfold dense_forward, dot in Hfw; cbn [d_weights tdata d_bias d_act] in Hfw.
    - destruct (tdata x) as [v| | |]; try discriminate. cbn [bind] in Hfw.
      unfold add_inplace, binop_inplace, t_single in Hfw. cbn [tshape tdata] in Hfw.
      rewrite map_length in Hfw. rewrite length_unflat2 in Hfw.
      destruct (shape_eqb _ _); [|discriminate]. cbn [bind ew2] in Hfw.
      destruct (act_forward a _) as [q|]; [|discriminate]. cbn [bind] in Hfw. injection Hfw as <- _. reflexivity.
    - destruct (tdata x) as [v| | |]; try discriminate. cbn [bind] in Hfw.
      destruct (act_forward a _) as [q|]; [|discriminate]. cbn [bind] in Hfw. injection Hfw as <- _.
      unfold t_single. cbn [tshape]. rewrite map_length. rewrite length_unflat2. reflexivity.
  Qed.

  (* ---- flat sizes: accepted exactly as 1 x r x r with r*r = size ---- *)
  Theorem flat_accepted_is_square size s ic :
    spatial_inputs N (SSingle size) = Ok (s, ic) ->
    exists r, s = STriple 1 r r /\ ic = 1 /\ r * r = size.
  Proof.
    unfold spatial_inputs. destruct (froot N size * froot N size =? size) eqn:E; [|discriminate].
    cbn [bind]. intros H. injection H as <- <-. apply Nat.eqb_eq in E. eauto.
  Qed.

  Theorem flat_non_square_rejected size :
    (forall r, r * r <> size) -> spatial_inputs N (SSingle size) = Panic P_explicit.
  Proof.
    intros H. unfold spatial_inputs.
    destruct (froot N size * froot N size =? size) eqn:E; [|reflexivity].
    apply Nat.eqb_eq in E. exfalso. exact (H _ E).
  Qed.

  Theorem maxpool_flat_non_square_rejected size kernel stride :
    (forall r, r * r <> size) -> maxpool_create N (SSingle size) kernel stride = Panic P_explicit.
  Proof.
    intros H. unfold maxpool_create.
    destruct (froot N size * froot N size =? size) eqn:E; [|reflexivity].
    apply Nat.eqb_eq in E. exfalso. exact (H _ E).
  Qed.

  (* ---- a flat vector of c*h*w elements is read in row-major order, nothing lost ---- *)
  Theorem flat_to_spatial_keeps_elements (v : list T) c h w :
    length v = c * h * w -> 0 < h -> 0 < w ->
    exists d, chunk_input N v h w = Ok d /\ rect3 c h w d /\ flat3 d = v.
  Proof.
    intros Hl Hh Hw.
    destruct (@take_chans_enough _ c h w v) as (d & r & Ht); [lia|].
    destruct (take_chans_ok _ _ _ _ Ht) as (Hv & Hr).
    assert (r = []).
    { apply (f_equal (@length _)) in Hv. rewrite app_length, (length_flat3_rect3 Hr) in Hv.
      destruct r; [reflexivity|cbn [length] in Hv; lia]. }
    subst r. rewrite app_nil_r in Hv. exists d. subst v.
    split; [apply (chunk_input_flat3 N Hr Hh Hw)|]. split; [exact Hr|reflexivity].
  Qed.

  (* ---- gradients have the shape of the parameters they belong to ---- *)
  Theorem conv_gradient_shapes (l : conv N) g input output ig kg bg :
    conv_backward l g input output = Ok (ig, kg, bg) ->
    exists ks kf kc kh kw ih iw inp,
      mapM (@kernel_data N) (c_kernels l) = Ok ks /\ kdims N ks = Ok (kf, kc, kh, kw) /\
      get_triple input (c_inputs l) = Ok inp /\ xdims N inp = Ok (ih, iw) /\
      tshape kg = SQuad kf kc kh kw /\ tshape ig = STriple kc ih iw /\ bg = None.
  Proof.
    unfold conv_backward. intros H.
    destruct (get_triple g (c_outputs l)) as [gg|]; [|discriminate]. cbn [bind] in H.
    destruct (act_backward (c_act l) output) as [der0|]; [|discriminate]. cbn [bind] in H.
    destruct (get_triple der0 (c_outputs l)) as [der|]; [|discriminate]. cbn [bind] in H.
    destruct (get_triple input (c_inputs l)) as [inp|] eqn:Egi; [|discriminate]. cbn [bind] in H.
    destruct (xdims N inp) as [[ih iw]|] eqn:Exd; [|discriminate]. cbn [bind] in H.
    destruct (xdims N (hadamard3d N gg der _)) as [[oh ow]|]; [|discriminate]. cbn [bind] in H.
    destruct (mapM (@kernel_data N) (c_kernels l)) as [ks|] eqn:Eks; [|discriminate]. cbn [bind] in H.
    destruct (kdims N ks) as [[[[kf kc] kh] kw]|] eqn:Ekd; [|discriminate]. cbn [bind] in H.
    destruct (c_stride l) as [sh sw]. destruct (c_dilation l) as [dh dw]. destruct (c_padding l) as [ph pw].
    destruct (kf <=? _); [|discriminate]. cbn [bind] in H.
    destruct (kc <=? _); [|discriminate]. cbn [bind] in H.
    match type of H with (do igt <- ?X; _) = _ => destruct X as [igt|] eqn:Ei; [|discriminate] end.
    cbn [bind] in H.
    match type of H with (do kgt <- ?X; _) = _ => destruct X as [kgt|] eqn:Ek; [|discriminate] end.
    cbn [bind] in H. injection H as <- <- <-.
    exists ks, kf, kc, kh, kw, ih, iw, inp.
    split; [reflexivity|]. split; [exact Ekd|]. split; [reflexivity|]. split; [exact Exd|].
    split; [|split; [|reflexivity]].
    - (* kernel gradient *)
      assert (Hpos : 0 < kf /\ 0 < kc /\ 0 < kh).
      { unfold kdims in Ekd. destruct ks as [|[|[|r ch0] k0] rest]; try discriminate.
        injection Ekd as <- <- <- _. cbn [length hd_len hd]. lia. }
      destruct Hpos as (Hkf & Hkc & Hkh).
      destruct kf as [|kf']; [lia|]. destruct kc as [|kc']; [lia|]. destruct kh as [|kh']; [lia|].
      unfold t_quad, build4, build3, build2, build1 in Ek. cbn [seq map length hd_len hd] in Ek.
      injection Ek as <-. cbn [tshape]. rewrite !map_length, !seq_length. reflexivity.
    - apply t_triple_build3_shape in Ei. exact Ei.
  Qed.

  Theorem dense_gradient_shapes (l : dense N) g input output ig wg bg iv :
    dense_backward l g input output = Ok (ig, wg, bg) ->
    tdata input = DSingle iv ->
    exists delta dl,
      tdata delta = DSingle dl /\ dl <> [] /\
      tshape wg = SDouble (length dl) (length iv) /\
      (bg = match d_bias l with Some _ => Some delta | None => None end).
  Proof.
    unfold dense_backward. intros H Hin.
    match type of H with bind ?X _ = _ => destruct X as [g0|]; [|discriminate] end. cbn [bind] in H.
    match type of H with bind ?X _ = _ => destruct X as [der|]; [|discriminate] end. cbn [bind] in H.
    destruct (hadamard der g0 _) as [delta|]; [|discriminate]. cbn [bind] in H.
    destruct (product delta input) as [wg0|] eqn:Ep; [|discriminate]. cbn [bind] in H.
    destruct (transpose (d_weights l)) as [wt|]; [|discriminate]. cbn [bind] in H.
    destruct (dot wt delta) as [ig0|]; [|discriminate]. cbn [bind] in H. injection H as <- <- <-.
    unfold product in Ep. rewrite Hin in Ep. destruct (tdata delta) as [dl| | |] eqn:Ed; try discriminate.
    exists delta, dl. split; [exact Ed|].
    unfold t_double in Ep. destruct dl as [|u dl']; [discriminate|]. cbn [map] in Ep. injection Ep as <-.
    split; [discriminate|]. cbn [tshape length]. rewrite !map_length. split; reflexivity.
  Qed.

  (* ---- builder chaining: the new layer's input shape is the previous layer's output shape ---- *)
  Definition prev_shape (n : network N) : shape :=
    match last_opt (n_layers n) with Some prev => layer_outputs prev | None => n_input n end.

  Lemma next_input_prev n b s : next_input n b = Ok s -> s = prev_shape n.
  Proof.
    unfold next_input, prev_shape. destruct (last_opt (n_layers n)); [congruence|].
    destruct (negb b || is_triple (n_input n)); [|discriminate]. cbn [bind]. congruence.
  Qed.

  Theorem add_conv_chains seeds n filters kernel stride padding dilation a dropout n' :
    add_conv seeds n filters kernel stride padding dilation a dropout = Ok n' ->
    exists l ic, n_layers n' = n_layers n ++ [LConv l] /\
                 spatial_inputs N (prev_shape n) = Ok (c_inputs l, ic) /\
                 conv_output_size N (c_inputs l) filters kernel stride padding dilation = Ok (c_outputs l).
  Proof.
    unfold add_conv. destruct (next_input n true) as [inp|] eqn:Ei; [|discriminate]. cbn [bind].
    apply next_input_prev in Ei. subst inp.
    destruct (conv_create N seeds (prev_shape n) filters a kernel stride padding dilation dropout) as [l|] eqn:Ec; [|discriminate].
    cbn [bind]. intros H. injection H as <-. unfold conv_create in Ec.
    destruct (spatial_inputs N (prev_shape n)) as [[inputs' ic]|] eqn:Es; [|discriminate]. cbn [bind] in Ec.
    destruct (conv_output_size N inputs' filters kernel stride padding dilation) as [outs|] eqn:Eo; [|discriminate].
    cbn [bind] in Ec. destruct (mapM _ _) as [ks|]; [|discriminate]. cbn [bind] in Ec. injection Ec as <-.
    eexists; exists ic. cbn [set_layers n_layers c_inputs c_outputs]. repeat split; assumption || reflexivity.
  Qed.

  Theorem add_deconv_chains seeds n filters kernel stride padding a dropout n' :
    add_deconv seeds n filters kernel stride padding a dropout = Ok n' ->
    exists l ic, n_layers n' = n_layers n ++ [LDeconv l] /\
                 spatial_inputs N (prev_shape n) = Ok (dc_inputs l, ic) /\
                 deconv_output_size N (dc_inputs l) filters kernel stride padding = Ok (dc_outputs l).
  Proof.
    unfold add_deconv. destruct (next_input n true) as [inp|] eqn:Ei; [|discriminate]. cbn [bind].
    apply next_input_prev in Ei. subst inp.
    destruct (deconv_create N seeds (prev_shape n) filters a kernel stride padding dropout) as [l|] eqn:Ec; [|discriminate].
    cbn [bind]. intros H. injection H as <-. unfold deconv_create in Ec.
    destruct (spatial_inputs N (prev_shape n)) as [[inputs' ic]|] eqn:Es; [|discriminate]. cbn [bind] in Ec.
    destruct (deconv_output_size N inputs' filters kernel stride padding) as [outs|] eqn:Eo; [|discriminate].
    cbn [bind] in Ec. destruct (mapM _ _) as [ks|]; [|discriminate]. cbn [bind] in Ec. injection Ec as <-.
    eexists; exists ic. cbn [set_layers n_layers dc_inputs dc_outputs]. repeat split; assumption || reflexivity.
  Qed.

  Theorem add_maxpool_chains n kernel stride n' :
    add_maxpool n kernel stride = Ok n' ->
    exists l, n_layers n' = n_layers n ++ [LMaxpool l] /\
              maxpool_create N (prev_shape n) kernel stride = Ok l.
  Proof.
    unfold add_maxpool. destruct (next_input n true) as [inp|] eqn:Ei; [|discriminate]. cbn [bind].
    apply next_input_prev in Ei. subst inp.
    destruct (maxpool_create N (prev_shape n) kernel stride) as [l|] eqn:Ec; [|discriminate].
    cbn [bind]. intros H. injection H as <-. exists l. split; reflexivity.
  Qed.

  (* a dense layer after a spatial layer: the spatial layer is told to flatten, and the dense layer
     expects exactly c*h*w inputs *)
  Theorem add_dense_after_conv_chains seeds n outputs a bias dropout n' p rest c h w :
    n_layers n = rest ++ [LConv p] -> c_outputs p = STriple c h w ->
    add_dense seeds n outputs a bias dropout = Ok n' ->
    exists l : dense N, n_layers n' = rest ++ [LConv (set_c_flatten p); LDense l] /\
              d_inputs l = SSingle (c * h * w) /\ d_outputs l = SSingle outputs.
  Proof.
    intros Hl Ho. unfold add_dense. rewrite Hl. rewrite last_opt_app. cbn [bind]. rewrite Ho. cbn [flat_shape bind fst snd].
    destruct (dense_create N seeds (SSingle (c * h * w)) (SSingle outputs) a bias dropout) as [l|] eqn:Ec; [|discriminate].
    cbn [bind]. intros H. injection H as <-. exists l. cbn [set_layers n_layers].
    rewrite removelast_last. split; [reflexivity|].
    unfold dense_create in Ec. cbn [random_tensor bind] in Ec.
    destruct bias; cbn [bind] in Ec; injection Ec as <-; split; reflexivity.
  Qed.

  (* the flattened output a dense layer receives is the row-major sequence of the spatial output *)
  Theorem flatten_is_row_major (t : tensor) d r ch rest :
    tdata t = DTriple d -> d = (r :: ch) :: rest ->
    flatten t = Ok (mkT (SSingle (length (flat3 d))) (DSingle (flat3 d))).
  Proof. intros Hd ->. unfold flatten. rewrite Hd. reflexivity. Qed.
End Shapes.
