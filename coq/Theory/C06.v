(* C06 over the reals: the losses are the documented formulas and, for AE, MSE,
   binary cross-entropy and KL-divergence, the per-element gradient is the partial derivative of
   the reported loss. *)
From NV Require Import Prelude Num NumR Random Tensor Objective.
Require Import Reals Lra.
From Coquelicot Require Import Coquelicot.
Local Open Scope R_scope.
Set Implicit Arguments.

Notation NR := NumR.

Lemma of_nat_R n : @of_nat NR n = INR n.
Proof. unfold of_nat. cbn [nofZ NumR]. symmetry. apply INR_IZR_INZ. Qed.

Lemma map2_ext A B C (f g : A -> B -> C) l1 l2 : (forall a b, f a b = g a b) -> map2 f l1 l2 = map2 g l1 l2.
Proof. intros H. revert l2; induction l1 as [|a l1 IH]; intros [|b l2]; simpl; try reflexivity. rewrite H, IH. reflexivity. Qed.

Lemma map2_app A B C (f : A -> B -> C) a1 a2 b1 b2 :
  length a1 = length b1 -> map2 f (a1 ++ a2) (b1 ++ b2) = map2 f a1 b1 ++ map2 f a2 b2.
Proof.
  revert b1; induction a1 as [|x a1 IH]; intros [|y b1] H; simpl in *; try discriminate; [reflexivity|].
  rewrite IH by congruence. reflexivity.
Qed.

Lemma Rsum_app l1 l2 : Rsum (l1 ++ l2) = Rsum l1 + Rsum l2.
Proof. induction l1 as [|x l1 IH]; simpl; [ring|rewrite IH; ring]. Qed.

(* ---- the documented formulas ---- *)
Theorem loss_formula_AE t p : loss_value NR AE t p = Rsum (map2 (fun a q => Rabs (a - q)) t p).
Proof. unfold loss_value. rewrite fsum_Rsum. reflexivity. Qed.
Theorem loss_formula_MAE t p :
  loss_value NR MAE t p = Rsum (map2 (fun a q => Rabs (a - q)) t p) / INR (length t).
Proof. unfold loss_value. rewrite fsum_Rsum, of_nat_R. reflexivity. Qed.
Theorem loss_formula_MSE t p :
  loss_value NR MSE t p = Rsum (map2 (fun a q => (a - q) * (a - q) / INR (length t)) t p).
Proof.
  unfold loss_value. rewrite fsum_Rsum, of_nat_R. unfold zipf. f_equal. apply map2_ext.
  intros a q. cbn. unfold Rdiv. ring.
Qed.
Theorem loss_formula_RMSE t p :
  loss_value NR RMSE t p = sqrt (Rsum (map2 (fun a q => (a - q) * (a - q)) t p) / INR (length t)).
Proof.
  unfold loss_value. rewrite fsum_Rsum, of_nat_R. unfold zipf. cbn [nsqrt ndiv NumR]. do 3 f_equal. apply map2_ext.
  intros a q. cbn. ring.
Qed.

Definition eps_R : R := 1 / 1000000.
Definition clampR (q : R) : R := clamp (N := NR) q eps_R (1 - eps_R).
Lemma clamp_p_R q : clamp_p NR q = clampR q. Proof. reflexivity. Qed.

Theorem loss_formula_CE t p :
  loss_value NR CrossEntropy t p = - Rsum (map2 (fun a q => a * ln (clampR q)) t p).
Proof. unfold loss_value. rewrite fsum_Rsum. reflexivity. Qed.
Theorem loss_formula_BCE t p :
  loss_value NR BinaryCrossEntropy t p
  = - Rsum (map2 (fun a q => a * ln (clampR q) + (1 - a) * ln (1 - clampR q)) t p).
Proof. unfold loss_value. rewrite fsum_Rsum. reflexivity. Qed.
Theorem loss_formula_KL t p :
  loss_value NR KLDivergence t p
  = Rsum (map2 (fun a q => if Reqb a 0 then 0 else a * ln (a / clampR q)) t p).
Proof. unfold loss_value. rewrite fsum_Rsum. reflexivity. Qed.

(* inside the clamp interval the clamp is the identity, locally *)
Lemma clampR_id q : eps_R < q < 1 - eps_R -> clampR q = q.
Proof.
  intros [H1 H2]. unfold clampR, clamp. cbn [nltb NumR]. unfold Rltb.
  destruct (Rlt_dec q eps_R); [lra|]. destruct (Rlt_dec (1 - eps_R) q); [lra|reflexivity].
Qed.

Lemma clampR_locally q : eps_R < q < 1 - eps_R -> locally q (fun h => clampR h = h).
Proof.
  intros [H1 H2].
  assert (Hp : 0 < Rmin (q - eps_R) (1 - eps_R - q)) by (apply Rmin_pos; lra).
  exists (mkposreal _ Hp). intros h Hh.
  unfold ball in Hh; simpl in Hh; unfold AbsRing_ball, abs, minus, plus, opp in Hh; simpl in Hh.
  apply Rabs_def2 in Hh.
  pose proof (Rmin_l (q - eps_R) (1 - eps_R - q)). pose proof (Rmin_r (q - eps_R) (1 - eps_R - q)).
  apply clampR_id. lra.
Qed.

(* ---- one component of the prediction varies: the loss is a constant plus one term ---- *)
Section Partial.
  Variables (t1 t2 p1 p2 : list R) (ti : R).
  Hypothesis Hlen : length t1 = length p1.

  Lemma sum_split (f : R -> R -> R) h :
    Rsum (map2 f (t1 ++ ti :: t2) (p1 ++ h :: p2)) = Rsum (map2 f t1 p1) + f ti h + Rsum (map2 f t2 p2).
  Proof. rewrite (map2_app f _ _ _ _ Hlen), Rsum_app. simpl. ring. Qed.

  Let n := INR (length (t1 ++ ti :: t2)).

  (* AE: derivative -1 / +1 away from the kink *)
  Theorem grad_is_derivative_AE q : q <> ti ->
    is_derive (fun h => loss_value NR AE (t1 ++ ti :: t2) (p1 ++ h :: p2)) q (grad_fun NR AE n ti q).
  Proof.
    intros Hq.
    apply (is_derive_ext (fun h => Rsum (map2 (fun a q => Rabs (a - q)) t1 p1) + Rabs (ti - h)
                                     + Rsum (map2 (fun a q => Rabs (a - q)) t2 p2))).
    { intros h. rewrite loss_formula_AE, sum_split. reflexivity. }
    cbn [grad_fun]. unfold sign_grad, gtb. cbn [neqb nltb NumR]. unfold Reqb, Rltb.
    destruct (Req_EM_T ti q) as [E|E]; [congruence|].
    destruct (Rlt_dec q ti) as [L|L].
    - (* ti > q : |ti - h| = ti - h near q *)
      assert (Hp : 0 < ti - q) by lra.
      apply (is_derive_ext_loc (fun h => Rsum (map2 (fun a q => Rabs (a - q)) t1 p1) + (ti - h)
                                         + Rsum (map2 (fun a q => Rabs (a - q)) t2 p2))).
      + exists (mkposreal _ Hp). intros h Hh.
        unfold ball in Hh; simpl in Hh; unfold AbsRing_ball, abs, minus, plus, opp in Hh; simpl in Hh.
        apply Rabs_def2 in Hh. rewrite (Rabs_pos_eq (ti - h)) by lra. reflexivity.
      + auto_derive; [exact I|]. unfold neg_one. cbn [nofZ NumR]. ring.
    - assert (Hp : 0 < q - ti) by lra.
      apply (is_derive_ext_loc (fun h => Rsum (map2 (fun a q => Rabs (a - q)) t1 p1) + (h - ti)
                                         + Rsum (map2 (fun a q => Rabs (a - q)) t2 p2))).
      + exists (mkposreal _ Hp). intros h Hh.
        unfold ball in Hh; simpl in Hh; unfold AbsRing_ball, abs, minus, plus, opp in Hh; simpl in Hh.
        apply Rabs_def2 in Hh. rewrite (Rabs_left (ti - h)) by lra. f_equal. f_equal. ring.
      + auto_derive; [exact I|]. unfold Num.one. cbn [nofZ NumR]. ring.
  Qed.

  (* MSE *)
  Theorem grad_is_derivative_MSE q : n <> 0 ->
    is_derive (fun h => loss_value NR MSE (t1 ++ ti :: t2) (p1 ++ h :: p2)) q (grad_fun NR MSE n ti q).
  Proof.
    intros Hn.
    apply (is_derive_ext (fun h => Rsum (map2 (fun a q => (a - q) * (a - q) / n) t1 p1) + (ti - h) * (ti - h) / n
                                     + Rsum (map2 (fun a q => (a - q) * (a - q) / n) t2 p2))).
    { intros h. rewrite loss_formula_MSE, sum_split. reflexivity. }
    cbn [grad_fun]. unfold mse_grad. cbn [ndiv nmul nsub NumR]. unfold neg_two. cbn [nofZ NumR].
    auto_derive; [exact I|]. field. exact Hn.
  Qed.

  (* binary cross-entropy, inside the clamp interval *)
  Theorem grad_is_derivative_BCE q : eps_R < q < 1 - eps_R ->
    is_derive (fun h => loss_value NR BinaryCrossEntropy (t1 ++ ti :: t2) (p1 ++ h :: p2)) q
              (grad_fun NR BinaryCrossEntropy n ti q).
  Proof.
    intros Hq.
    set (f := fun a q => a * ln (clampR q) + (1 - a) * ln (1 - clampR q)).
    apply (is_derive_ext (fun h => - (Rsum (map2 f t1 p1) + f ti h + Rsum (map2 f t2 p2)))).
    { intros h. rewrite loss_formula_BCE, sum_split. reflexivity. }
    cbn [grad_fun]. unfold bce_grad. rewrite clamp_p_R, (clampR_id Hq). cbn [ndiv nmul nsub NumR].
    change (@Num.one NR) with 1.
    apply (is_derive_ext_loc (fun h => - (Rsum (map2 f t1 p1) + (ti * ln h + (1 - ti) * ln (1 - h)) + Rsum (map2 f t2 p2)))).
    - generalize (clampR_locally Hq). apply filter_imp. intros h Hh. unfold f. rewrite Hh. reflexivity.
    - unfold eps_R in Hq. auto_derive; [split; [lra|split; [lra|exact I]]|]. field. lra.
  Qed.

  (* KL divergence, inside the clamp interval (a zero target component contributes 0) *)
  Theorem grad_is_derivative_KL q : eps_R < q < 1 - eps_R -> 0 <= ti ->
    is_derive (fun h => loss_value NR KLDivergence (t1 ++ ti :: t2) (p1 ++ h :: p2)) q
              (grad_fun NR KLDivergence n ti q).
  Proof.
    intros Hq Hti.
    set (f := fun a q => if Reqb a 0 then 0 else a * ln (a / clampR q)).
    apply (is_derive_ext (fun h => Rsum (map2 f t1 p1) + f ti h + Rsum (map2 f t2 p2))).
    { intros h. rewrite loss_formula_KL, sum_split. reflexivity. }
    cbn [grad_fun]. unfold kl_grad. rewrite clamp_p_R, (clampR_id Hq). cbn [ndiv nneg NumR].
    unfold f, Reqb. destruct (Req_EM_T ti 0) as [E|E].
    - rewrite E. evar_last; [auto_derive; [exact I|reflexivity]|]. unfold Rdiv. ring.
    - apply (is_derive_ext_loc (fun h => Rsum (map2 f t1 p1) + ti * ln (ti / h) + Rsum (map2 f t2 p2))).
      + generalize (clampR_locally Hq). apply filter_imp. intros h Hh. rewrite Hh. reflexivity.
      + unfold eps_R in Hq. auto_derive.
        * split; [lra|]. split; [apply Rdiv_lt_0_compat; lra|exact I].
        * field. split; lra.
  Qed.
End Partial.

(* ---- the 3-D arm computes the same numbers as the flat arm, in row-major order ---- *)
Section Rank.
  Variable N : Num.
  Variable g : T N -> T N -> T N.

  Lemma map2_length A B C (f : A -> B -> C) l1 l2 : length l1 = length l2 -> length (map2 f l1 l2) = length l1.
  Proof. revert l2; induction l1 as [|a l1 IH]; intros [|b l2] H; simpl in *; try discriminate; [reflexivity|]. rewrite IH by congruence. reflexivity. Qed.

  Lemma concat_map2_rows (t p : list (list (T N))) :
    True -> Forall2 (fun r1 r2 => length r1 = length r2) t p ->
    concat (map2 (map2 g) t p) = map2 g (concat t) (concat p).
  Proof.
    intros _ H. induction H as [|r1 r2 t p Hr _ IH]; [reflexivity|].
    cbn [map2 concat]. rewrite IH, (map2_app g _ _ _ _ Hr). reflexivity.
  Qed.

  Theorem grad_rank_independent (t p : vec3 (T N)) :
    Forall2 (fun c1 c2 => Forall2 (fun r1 r2 => length r1 = length r2) c1 c2) t p ->
    flat3 (map2 (map2 (map2 g)) t p) = map2 g (flat3 t) (flat3 p).
  Proof.
    unfold flat3. intros H. induction H as [|c1 c2 t p Hc _ IH]; [reflexivity|].
    cbn [map2 map concat]. rewrite IH.
    rewrite (concat_map2_rows I Hc).
    rewrite map2_app; [reflexivity|].
    clear -Hc. induction Hc as [|r1 r2 c1 c2 Hr _ IHc]; [reflexivity|]. cbn [concat]. rewrite !app_length. congruence.
  Qed.
End Rank.

(* with a clamp configured every gradient component is the unclamped one limited to the interval *)
Theorem clamp_spec (N : Num) o cl (prediction target : tensor N) l g :
  loss o cl prediction target = Ok (l, g) ->
  exists g0, loss o None prediction target = Ok (l, g0) /\
             match cl with Some (lo, hi) => g = t_clamp g0 lo hi | None => g = g0 end.
Proof.
  unfold loss. destruct (get_flat target) as [t|]; [|discriminate]. cbn [bind].
  destruct (get_flat prediction) as [p|]; [|discriminate]. cbn [bind].
  destruct (grad_tensor _ _ _ _) as [g0|]; [|discriminate]. cbn [bind].
  destruct cl as [[lo hi]|].
  - destruct (nleb N lo hi); [|discriminate]. intros H; injection H as <- <-. exists g0. split; reflexivity.
  - intros H; injection H as <- <-. exists g0. split; reflexivity.
Qed.

