(* C17: loop connections. For a network whose only connection is one loop feeding the output of
   layer b back into layer a for k iterations, the value passed on after layer b is the configured
   accumulation of the k+1 successive outputs of layers a..b; with overwrite accumulation (no input
   skips, no representation change) the network equals the plain network with a..b repeated k+1
   times. Generic in the number structure. *)
From NV Require Import Prelude Num Random Tensor Activation Objective Optimizer Layers Network.
From NV.Theory Require Import Monad Alist Lists Build Forward C18.
Set Implicit Arguments.

Section C17.
  Variable N : Num.
  Notation tensor := (tensor N).
  Notation layer := (layer N).
  Notation fwd := (fwd N).

  Definition range_out (ls : list layer) (x : tensor) : res tensor :=
    foldM (fun t l => layer_out l t) ls x.

  (* ---- forward_range: lengths and last output ---- *)
  Lemma forward_range_facts (ls : list layer) (x : tensor) f :
    forward_range ls x = Ok f ->
    length (fw_post f) = length ls /\ length (fw_pre f) = length ls /\
    (ls <> [] -> exists y, last_opt (fw_post f) = Some y /\ range_out ls x = Ok y).
  Proof.
    unfold forward_range.
    set (fs := fun (st : fwd) (l : layer) => _).
    assert (G : forall ls st st' x0,
               foldM fs ls st = Ok st' -> last_opt (fw_post st) = Some x0 ->
               length (fw_post st') = length (fw_post st) + length ls /\
               length (fw_pre st') = length (fw_pre st) + length ls /\
               exists y, last_opt (fw_post st') = Some y /\ range_out ls x0 = Ok y).
    { clear ls x f. induction ls as [|l ls IH]; intros st st' x0 H Hlast; cbn [foldM] in H.
      - injection H as <-. cbn [length]. rewrite !Nat.add_0_r. repeat split. exists x0. split; [exact Hlast|reflexivity].
      - destruct (fs st l) as [st1|] eqn:E1; [|discriminate]. cbn [bind] in H.
        unfold fs in E1. rewrite Hlast in E1. cbn [bind] in E1.
        assert (Hst1 : exists y, layer_out l x0 = Ok y /\ fw_post st1 = fw_post st ++ [y] /\
                                 length (fw_pre st1) = length (fw_pre st) + 1).
        { destruct l as [dl|cl|dcl|ml|bl]; cbn [layer_out].
          - destruct (dense_forward dl x0) as [r|]; [|discriminate]. cbn [bind] in E1. injection E1 as <-.
            cbn [fw_post fw_pre]. eexists. rewrite app_length. repeat split; reflexivity.
          - destruct (conv_forward cl x0) as [r|]; [|discriminate]. cbn [bind] in E1. injection E1 as <-.
            cbn [fw_post fw_pre]. eexists. rewrite app_length. repeat split; reflexivity.
          - destruct (deconv_forward dcl x0) as [r|]; [|discriminate]. cbn [bind] in E1. injection E1 as <-.
            cbn [fw_post fw_pre]. eexists. rewrite app_length. repeat split; reflexivity.
          - destruct (maxpool_forward ml x0) as [r|]; [|discriminate]. cbn [bind] in E1. injection E1 as <-.
            cbn [fw_post fw_pre]. eexists. rewrite app_length. repeat split; reflexivity.
          - destruct (feedback_forward bl x0) as [r|]; [|discriminate]. cbn [bind] in E1. injection E1 as <-.
            cbn [fw_post fw_pre]. eexists. rewrite app_length. repeat split; reflexivity. }
        destruct Hst1 as (y & Hy & Hp & Hpre).
        destruct (IH st1 st' y H) as (Hl1 & Hl2 & z & Hz & Hr); [rewrite Hp; apply last_opt_app|].
        rewrite Hp, app_length in Hl1. cbn [length] in *. split; [lia|]. split; [lia|].
        exists z. split; [exact Hz|]. unfold range_out. cbn [foldM]. rewrite Hy. exact Hr. }
    intros H.
    destruct (foldM fs ls _) as [st|] eqn:E; [|discriminate]. cbn [bind] in H. injection H as <-.
    destruct (G _ _ _ x E eq_refl) as (Hl1 & Hl2 & y & Hy & Hr). cbn [fw_post fw_pre length] in *.
    split; [destruct (fw_post st); cbn [tl length] in *; lia|]. split; [lia|].
    intros Hne. exists y. split; [|exact Hr].
    destruct (fw_post st) as [|p0 ps] eqn:Eps; [cbn [length] in Hl1; lia|]. cbn [tl].
    destruct ps as [|p1 ps']; [cbn [length] in Hl1; destruct ls; [contradiction|cbn [length] in Hl1; lia]|].
    unfold last_opt in *. cbn [rev] in Hy |- *.
    destruct (rev ps' ++ [p1]) eqn:Er; [destruct (rev ps'); discriminate|]. cbn [app] in Hy. exact Hy.
  Qed.

  (* ---- the step of Network::forward, named ---- *)
  Definition loop_iter (layers : list layer) (li : layer) (st1 : fwd) (into i : nat) (inskips : bool)
             (acc : tensor * list fwd) (_ : nat) : res (tensor * list fwd) :=
    let cur0 := fst acc in
    do cur1 <- (if shape_eqb (layer_inputs li) (tshape cur0) then Ok cur0
                else reshape cur0 (layer_inputs li));
    do cur <- (if inskips then do a <- nth_res (fw_post st1) into; add_inplace cur1 a
               else Ok cur1);
    do f <- forward_range (sub_layers layers into (i + 1)) cur;
    do lst <- (match last_opt (fw_post f) with Some t => Ok t | None => Panic P_unwrap end);
    Ok (lst, snd acc ++ [f]).

  Definition loop_acc (n : network N) (fs : list fwd) (st2 : fwd) (ij : nat * nat) : res fwd :=
    let '(idx, j) := ij in
    do fpre <- mapM (fun f => nth_res (fw_pre f) idx) fs;
    do fpost <- mapM (fun f => nth_res (fw_post f) idx) fs;
    do fmax <- mapM (fun f => nth_res (fw_max f) idx) fs;
    do pre' <- upd_res (fw_pre st2) j (fun t => loop_combine (n_loopacc n) t fpre);
    do post' <- upd_res (fw_post st2) (j + 1) (fun t => loop_combine (n_loopacc n) t fpost);
    do max' <- (match nth_error (fw_max st2) j with
                | Some m => do m' <- loop_combine_max (n_loopacc n) m fmax;
                            Ok (set_nth (fw_max st2) j m')
                | None => Ok (fw_max st2)
                end);
    Ok {| fw_pre := pre'; fw_post := post'; fw_max := max'; fw_fb := fw_fb st2 |}.

  Definition loop_part (n : network N) (i : nat) (st1 : fwd) : res fwd :=
    let layers := n_layers n in
    match alist_get (n_loopbacks n) i with
    | None => Ok st1
    | Some (into, iterations, inskips) =>
        do li <- nth_res layers into;
        do lo <- nth_res layers i;
        do first <- (match last_opt (fw_post st1) with Some t => Ok t | None => Panic P_unwrap end);
        do its <- foldM (loop_iter layers li st1 into i inskips) (seq 0 iterations) (first, []);
        foldM (loop_acc n (snd its)) (combine (seq 0 (i + 1 - into)) (seq into (i + 1 - into))) st1
    end.

  Definition fw_step (n : network N) (st : fwd) (i : nat) : res fwd :=
    let layers := n_layers n in
    do x0 <- (match last_opt (fw_post st) with Some t => Ok t | None => Panic P_unwrap end);
    do x <- (match alist_get (n_connect n) i with
             | Some src =>
                 do s0 <- nth_res (fw_post st) src;
                 do s <- (if shape_eqb (tshape s0) (tshape x0) then Ok s0 else reshape s0 (tshape x0));
                 match n_skipacc n with
                 | AccAdd => add_inplace x0 s
                 | AccSub => sub_inplace x0 s
                 | AccMul => mul_inplace x0 s
                 | AccOverwrite => Ok s
                 | AccMean => mean_inplace x0 [s]
                 end
             | None => Ok x0
             end);
    do r <- forward_range (sub_layers layers i (i + 1)) x;
    loop_part n i {| fw_pre := fw_pre st ++ fw_pre r; fw_post := fw_post st ++ fw_post r;
                     fw_max := fw_max st ++ fw_max r; fw_fb := fw_fb st ++ fw_fb r |}.

  Lemma forward_unfold (n : network N) (x : tensor) :
    forward n x = foldM (fw_step n) (seq 0 (length (n_layers n)))
                        {| fw_pre := []; fw_post := [x]; fw_max := []; fw_fb := [] |}.
  Proof. reflexivity. Qed.

  (* successive outputs of a list of layers *)
  Fixpoint outs (ls : list layer) (x : tensor) : res (list tensor) :=
    match ls with
    | [] => Ok []
    | l :: r => do y <- layer_out l x; do ys <- outs r y; Ok (y :: ys)
    end.

  Lemma last_cons_def A (x : A) l d : last (x :: l) d = last l x.
  Proof. revert x; induction l as [|y l IH]; intros x; [reflexivity|]. cbn [last] in *. destruct l; [reflexivity|apply IH]. Qed.

  Lemma outs_range ls : forall x ys, outs ls x = Ok ys ->
    length ys = length ls /\ range_out ls x = Ok (last ys x).
  Proof.
    induction ls as [|l ls IH]; intros x ys H; cbn [outs] in H.
    - injection H as <-. split; reflexivity.
    - destruct (layer_out l x) as [y|] eqn:Ey; [|discriminate]. cbn [bind] in H.
      destruct (outs ls y) as [ys'|] eqn:E; [|discriminate]. cbn [bind] in H. injection H as <-.
      destruct (IH _ _ E) as [Hl Hr]. split; [cbn [length]; lia|].
      unfold range_out. cbn [foldM]. rewrite Ey. cbn [bind]. fold (range_out ls y). rewrite Hr.
      f_equal. symmetry. apply last_cons_def.
  Qed.

  Lemma outs_app ls1 ls2 x ys1 ys2 :
    outs ls1 x = Ok ys1 -> outs ls2 (last ys1 x) = Ok ys2 -> outs (ls1 ++ ls2) x = Ok (ys1 ++ ys2).
  Proof.
    revert x ys1. induction ls1 as [|l ls1 IH]; intros x ys1 H1 H2; cbn [outs] in H1.
    - injection H1 as <-. exact H2.
    - destruct (layer_out l x) as [y|] eqn:Ey; [|discriminate]. cbn [bind] in H1.
      destruct (outs ls1 y) as [ys'|] eqn:E; [|discriminate]. cbn [bind] in H1. injection H1 as <-.
      cbn [app outs]. rewrite Ey. cbn [bind]. rewrite (IH y ys' E); [reflexivity|].
      rewrite last_cons_def in H2. exact H2.
  Qed.

  Lemma sub_layers_nth (layers : list layer) i l :
    nth_error layers i = Some l -> sub_layers layers i (i + 1) = [l].
  Proof.
    intros H. apply nth_error_split in H. destruct H as (l1 & l2 & -> & <-). apply sub_layers_one.
  Qed.

  (* a step without skip or loop entry appends the layer's output *)
  Lemma fw_step_plain (n : network N) st st' i l x0 :
    alist_get (n_connect n) i = None -> alist_get (n_loopbacks n) i = None ->
    nth_error (n_layers n) i = Some l -> last_opt (fw_post st) = Some x0 ->
    fw_step n st i = Ok st' ->
    exists y, layer_out l x0 = Ok y /\ fw_post st' = fw_post st ++ [y] /\
              length (fw_pre st') = length (fw_pre st) + 1.
  Proof.
    intros Hc Hl Hnth Hlast H. unfold fw_step in H. rewrite Hlast, Hc in H. cbn [bind] in H.
    rewrite (sub_layers_nth _ _ Hnth) in H.
    pose proof (forward_range_single_cases l x0) as Hcase.
    destruct (forward_range [l] x0) as [r|] eqn:Er; [|discriminate]. cbn [bind] in H.
    destruct Hcase as (y & Hp & Hy). unfold loop_part in H. rewrite Hl in H. injection H as <-.
    cbn [fw_post fw_pre]. exists y. rewrite Hp. split; [exact Hy|]. split; [reflexivity|].
    rewrite app_length. destruct (forward_range_facts _ _ Er) as (_ & Hpre & _). rewrite Hpre. reflexivity.
  Qed.

  (* a run of plain steps *)
  Lemma fw_plain_run (n : network N) : forall m k st st' x0,
    (forall i, k <= i < k + m -> alist_get (n_connect n) i = None /\ alist_get (n_loopbacks n) i = None) ->
    k + m <= length (n_layers n) ->
    last_opt (fw_post st) = Some x0 ->
    foldM (fw_step n) (seq k m) st = Ok st' ->
    exists ys, outs (firstn m (skipn k (n_layers n))) x0 = Ok ys /\ fw_post st' = fw_post st ++ ys /\
               length (fw_pre st') = length (fw_pre st) + m.
  Proof.
    induction m as [|m IH]; intros k st st' x0 Hplain Hlen Hlast H; cbn [seq foldM] in H.
    - injection H as <-. exists []. rewrite app_nil_r. repeat split. lia.
    - destruct (fw_step n st k) as [st1|] eqn:E1; [|discriminate]. cbn [bind] in H.
      destruct (nth_error (n_layers n) k) as [l|] eqn:El; [|apply nth_error_None in El; lia].
      destruct (Hplain k ltac:(lia)) as [Hc Hl].
      destruct (@fw_step_plain n st st1 k l x0 Hc Hl El Hlast E1) as (y & Hy & Hp & Hpre).
      destruct (IH (S k) st1 st' y) as (ys & Hys & Hp' & Hpre'); [intros i Hi; apply Hplain; lia|lia| |exact H|].
      { rewrite Hp. apply last_opt_app. }
      exists (y :: ys). split; [|split].
      + apply nth_error_split in El. destruct El as (l1 & l2 & E & Hl1).
        rewrite E in *. rewrite <- Hl1 in *. rewrite skipn_app, Nat.sub_diag, skipn_all. cbn [skipn app firstn outs].
        rewrite Hy. cbn [bind].
        replace (skipn (S (length l1)) (l1 ++ l :: l2)) with l2 in Hys.
        2:{ clear. induction l1 as [|a l1 IHl]; [reflexivity|exact IHl]. }
        rewrite Hys. reflexivity.
      + rewrite Hp', Hp, <- app_assoc. reflexivity.
      + lia.
  Qed.

  (* ---- the loop iterations ---- *)
  Section Loop.
    Variables (mid : list layer) (li : layer) (xa : tensor) (inskips : bool).
    Hypothesis Hmid : mid <> [].

    (* y_{t+1} = layers a..b applied to y_t (re-read in the representation layer a expects, plus the
       original input of layer a when input skips are on) *)
    Fixpoint loop_vals (k : nat) (cur : tensor) : res (list tensor) :=
      match k with
      | 0 => Ok []
      | S k' =>
          do c1 <- (if shape_eqb (layer_inputs li) (tshape cur) then Ok cur
                    else reshape cur (layer_inputs li));
          do c <- (if inskips then add_inplace c1 xa else Ok c1);
          do y <- range_out mid c;
          do rest <- loop_vals k' y;
          Ok (y :: rest)
      end.

    Definition iter_ok (f : fwd) (y : tensor) : Prop :=
      last_opt (fw_post f) = Some y /\ length (fw_post f) = length mid /\ length (fw_pre f) = length mid.

    Lemma loop_iters (layers : list layer) (st1 : fwd) into i :
      sub_layers layers into (i + 1) = mid -> nth_error (fw_post st1) into = Some xa ->
      forall k s cur fs0 cur' fs,
        foldM (loop_iter layers li st1 into i inskips) (seq s k) (cur, fs0) = Ok (cur', fs) ->
        exists ys fnew, loop_vals k cur = Ok ys /\ fs = fs0 ++ fnew /\ Forall2 iter_ok fnew ys /\
                        cur' = last ys cur.
    Proof.
      intros Hsub Hxa. induction k as [|k IH]; intros s cur fs0 cur' fs H; cbn [seq foldM] in H.
      - injection H as <- <-. exists [], []. rewrite app_nil_r. repeat split. constructor.
      - unfold loop_iter at 1 in H. cbn [fst snd] in H. cbn [loop_vals].
        destruct (if shape_eqb (layer_inputs li) (tshape cur) then Ok cur else reshape cur (layer_inputs li))
          as [c1|]; [|discriminate]. cbn [bind] in H |- *.
        unfold nth_res in H. rewrite Hxa in H. cbn [bind] in H.
        destruct (if inskips then add_inplace c1 xa else Ok c1) as [c|]; [|discriminate]. cbn [bind] in H |- *.
        rewrite Hsub in H. destruct (forward_range mid c) as [f|] eqn:Ef; [|discriminate]. cbn [bind] in H.
        destruct (forward_range_facts _ _ Ef) as (Hl1 & Hl2 & Hlast). destruct (Hlast Hmid) as (y & Hy & Hr).
        rewrite Hy in H. cbn [bind] in H. rewrite Hr. cbn [bind].
        destruct (IH _ _ _ _ _ H) as (ys & fnew & Hys & Hfs & Hall & Hcur).
        rewrite Hys. cbn [bind]. exists (y :: ys), (f :: fnew). split; [reflexivity|].
        split; [rewrite Hfs, <- app_assoc; reflexivity|]. split.
        + constructor; [|exact Hall]. split; [exact Hy|split; assumption].
        + rewrite Hcur. symmetry. apply last_cons_def.
    Qed.
  End Loop.

  (* ---- the accumulation into the stored tensors ---- *)
  Lemma upd_res_post A (l l' : list A) j (f : A -> res A) :
    upd_res l j f = Ok l' ->
    length l' = length l /\ (forall p, p <> j -> nth_error l' p = nth_error l p) /\
    exists t v, nth_error l j = Some t /\ f t = Ok v /\ nth_error l' j = Some v.
  Proof.
    unfold upd_res, nth_res. destruct (nth_error l j) as [t|] eqn:Et; [|discriminate]. cbn [bind].
    destruct (f t) as [v|] eqn:Ev; [|discriminate]. cbn [bind]. intros H. injection H as <-.
    split; [apply set_nth_length|]. split.
    - intros p Hp. apply nth_error_set_nth_neq. congruence.
    - exists t, v. repeat split; [exact Ev|]. apply nth_error_set_nth_eq.
      apply nth_error_Some. congruence.
  Qed.

  Lemma loop_acc_front (n : network N) fs : forall q s j0 st st' p,
    foldM (loop_acc n fs) (combine (seq s q) (seq j0 q)) st = Ok st' ->
    j0 + q < p ->
    length (fw_post st') = length (fw_post st) /\ nth_error (fw_post st') p = nth_error (fw_post st) p.
  Proof.
    induction q as [|q IH]; intros s j0 st st' p H Hp; cbn [seq combine foldM] in H.
    - injection H as <-. split; reflexivity.
    - destruct (loop_acc n fs st (s, j0)) as [st1|] eqn:E1; [|discriminate]. cbn [bind] in H.
      destruct (IH (S s) (S j0) st1 st' p H ltac:(lia)) as [Hl Hn]. rewrite Hl, Hn.
      unfold loop_acc in E1.
      destruct (mapM _ fs) as [fpre|]; [|discriminate]. cbn [bind] in E1.
      destruct (mapM _ fs) as [fpost|]; [|discriminate]. cbn [bind] in E1.
      destruct (mapM _ fs) as [fmax|]; [|discriminate]. cbn [bind] in E1.
      destruct (upd_res (fw_pre st) j0 _) as [pre'|]; [|discriminate]. cbn [bind] in E1.
      destruct (upd_res (fw_post st) (j0 + 1) _) as [post'|] eqn:Ep; [|discriminate]. cbn [bind] in E1.
      match type of E1 with bind ?X _ = _ => destruct X as [max'|]; [|discriminate] end. cbn [bind] in E1.
      injection E1 as <-. cbn [fw_post].
      destruct (upd_res_post _ _ _ Ep) as (Hlen & Hother & _). split; [exact Hlen|apply Hother; lia].
  Qed.

  Lemma mapM_last_post (fs : list fwd) ys m' :
    Forall2 (fun f y => last_opt (fw_post f) = Some y /\ length (fw_post f) = S m') fs ys ->
    mapM (fun f => nth_res (fw_post f) m') fs = Ok ys.
  Proof.
    intros H. induction H as [|f y fs ys [Hy Hl] _ IH]; [reflexivity|].
    cbn [mapM]. rewrite IH. unfold nth_res.
    assert (E : nth_error (fw_post f) m' = Some y).
    { unfold last_opt in Hy. destruct (fw_post f) as [|p ps] using rev_ind; [cbn [length] in Hl; lia|].
      rewrite rev_app_distr in Hy. cbn [rev app] in Hy. injection Hy as ->.
      rewrite app_length in Hl. cbn [length] in Hl. rewrite nth_error_app2 by lia.
      replace (m' - length ps) with 0 by lia. reflexivity. }
    rewrite E. reflexivity.
  Qed.

  Lemma loop_acc_last (n : network N) fs ys st1 st2 a m' y0 :
    Forall2 (fun f y => last_opt (fw_post f) = Some y /\ length (fw_post f) = S m') fs ys ->
    nth_error (fw_post st1) (a + m' + 1) = Some y0 ->
    foldM (loop_acc n fs) (combine (seq 0 (S m')) (seq a (S m'))) st1 = Ok st2 ->
    length (fw_post st2) = length (fw_post st1) /\
    exists v, loop_combine (n_loopacc n) y0 ys = Ok v /\ nth_error (fw_post st2) (a + m' + 1) = Some v.
  Proof.
    intros Hfs Hy0 H. rewrite !seq_S in H. rewrite combine_app_eq in H by (rewrite !seq_length; reflexivity).
    rewrite foldM_app in H.
    destruct (foldM (loop_acc n fs) (combine (seq 0 m') (seq a m')) st1) as [st'|] eqn:Ef; [|discriminate].
    cbn [bind combine foldM Nat.add] in H.
    destruct (@loop_acc_front n fs m' 0 a st1 st' (a + m' + 1) Ef ltac:(lia)) as [Hl Hn].
    destruct (loop_acc n fs st' (m', a + m')) as [st3|] eqn:E3; [|discriminate]. cbn [bind] in H.
    injection H as <-. unfold loop_acc in E3.
    destruct (mapM (fun f => nth_res (fw_pre f) m') fs) as [fpre|]; [|discriminate]. cbn [bind] in E3.
    rewrite (mapM_last_post Hfs) in E3. cbn [bind] in E3.
    destruct (mapM _ fs) as [fmax|]; [|discriminate]. cbn [bind] in E3.
    destruct (upd_res (fw_pre st') (a + m') _) as [pre'|]; [|discriminate]. cbn [bind] in E3.
    destruct (upd_res (fw_post st') (a + m' + 1) _) as [post'|] eqn:Ep; [|discriminate]. cbn [bind] in E3.
    match type of E3 with bind ?X _ = _ => destruct X as [max'|]; [|discriminate] end. cbn [bind] in E3.
    injection E3 as <-. cbn [fw_post].
    destruct (upd_res_post _ _ _ Ep) as (Hlen & _ & t & v & Ht & Hv & Hnv).
    split; [lia|]. exists v. rewrite Hn, Hy0 in Ht. injection Ht as <-. split; assumption.
  Qed.

  (* ---- assembling: prefix, the looped step, suffix ---- *)
  Lemma outs_nth_range ls : forall x ys a, outs ls x = Ok ys -> a <= length ls ->
    range_out (firstn a ls) x = Ok (nth a (x :: ys) x) /\
    range_out (skipn a ls) (nth a (x :: ys) x) = Ok (last ys x).
  Proof.
    induction ls as [|l ls IH]; intros x ys a H Ha; cbn [outs] in H.
    - injection H as <-. cbn [length] in Ha. assert (a = 0) by lia. subst a. split; reflexivity.
    - destruct (layer_out l x) as [y|] eqn:Ey; [|discriminate]. cbn [bind] in H.
      destruct (outs ls y) as [ys'|] eqn:E; [|discriminate]. cbn [bind] in H. injection H as <-.
      destruct a as [|a].
      + cbn [firstn skipn nth]. split; [reflexivity|].
        unfold range_out. cbn [foldM]. rewrite Ey. cbn [bind].
        destruct (outs_range _ _ E) as [_ Hr]. fold (range_out ls y). rewrite Hr. f_equal.
        symmetry. apply last_cons_def.
      + cbn [length] in Ha. destruct (IH y ys' a E ltac:(lia)) as [H1 H2].
        cbn [firstn skipn]. change (nth (S a) (x :: y :: ys') x) with (nth a (y :: ys') x). split.
        * unfold range_out. cbn [foldM]. rewrite Ey. cbn [bind]. fold (range_out (firstn a ls) y).
          rewrite H1. f_equal. apply nth_indep. cbn [length]. destruct (outs_range _ _ E) as [Hl _]. lia.
        * replace (nth a (y :: ys') x) with (nth a (y :: ys') y).
          2:{ apply nth_indep. cbn [length]. destruct (outs_range _ _ E) as [Hl _]. lia. }
          rewrite H2. f_equal. symmetry. apply last_cons_def.
  Qed.

  Lemma last_opt_of_nth A (l : list A) p v : length l = S p -> nth_error l p = Some v -> last_opt l = Some v.
  Proof.
    intros Hl Hn. destruct l as [|x l] using rev_ind; [discriminate|].
    rewrite app_length in Hl. cbn [length] in Hl. rewrite nth_error_app2 in Hn by lia.
    replace (p - length l) with 0 in Hn by lia. cbn [nth_error] in Hn. injection Hn as ->.
    apply last_opt_app.
  Qed.

  Lemma last_opt_app_last A (l ys : list A) v : last_opt l = Some v -> last_opt (l ++ ys) = Some (last ys v).
  Proof.
    intros H. destruct ys as [|y ys] using rev_ind; [rewrite app_nil_r; exact H|].
    rewrite app_assoc, last_opt_app, last_last. reflexivity.
  Qed.

  Theorem loop_forward_spec (n : network N) (x out : tensor) a b k inskips :
    n_connect n = [] -> n_loopbacks n = [(b, (a, k, inskips))] ->
    a <= b -> b < length (n_layers n) ->
    predict n x = Ok out ->
    let layers := n_layers n in
    let mid := sub_layers layers a (b + 1) in
    exists li xa y0 ys v,
      nth_error layers a = Some li /\
      range_out (firstn a layers) x = Ok xa /\
      range_out mid xa = Ok y0 /\
      loop_vals mid li xa inskips k y0 = Ok ys /\
      loop_combine (n_loopacc n) y0 ys = Ok v /\
      range_out (skipn (b + 1) layers) v = Ok out.
  Proof.
    intros Hc Hlb Hab Hb Hp layers mid. unfold predict in Hp. rewrite forward_unfold in Hp.
    fold layers in Hp, Hb.
    assert (Hlook : forall i, alist_get (n_loopbacks n) i = if b =? i then Some (a, k, inskips) else None).
    { intros i. rewrite Hlb. cbn [alist_get]. destruct (b =? i); reflexivity. }
    assert (Hcon : forall i, alist_get (n_connect n) i = None) by (intros i; rewrite Hc; reflexivity).
    replace (length layers) with (b + S (length layers - b - 1)) in Hp by lia.
    rewrite seq_app, foldM_app in Hp. cbn [Nat.add seq foldM] in Hp.
    destruct (foldM (fw_step n) (seq 0 b) _) as [stb|] eqn:Epre; [|discriminate]. cbn [bind] in Hp.
    destruct (fw_step n stb b) as [st2|] eqn:Eb; [|discriminate]. cbn [bind] in Hp.
    destruct (foldM (fw_step n) (seq (S b) (length layers - b - 1)) st2) as [stf|] eqn:Esuf; [|discriminate].
    cbn [bind] in Hp.
    (* prefix *)
    destruct (@fw_plain_run n b 0 {| fw_pre := []; fw_post := [x]; fw_max := []; fw_fb := [] |} stb x) as (ys0 & Hys0 & Hpost0 & Hpre0);
      [intros i Hi; split; [apply Hcon|rewrite Hlook; replace (b =? i) with false by (symmetry; apply Nat.eqb_neq; lia); reflexivity]
      |fold layers; lia|reflexivity|exact Epre|].
    cbn [skipn fw_post fw_pre app length] in Hys0, Hpost0, Hpre0. fold layers in Hys0.
    destruct (outs_range _ _ Hys0) as [Hlen0 _]. rewrite firstn_length in Hlen0.
    replace (Nat.min b (length layers)) with b in Hlen0 by lia.
    (* the looped step *)
    destruct (nth_error layers b) as [lb|] eqn:Elb; [|apply nth_error_None in Elb; lia].
    destruct (nth_error layers a) as [li|] eqn:Eli; [|apply nth_error_None in Eli; lia].
    assert (Hlastb : last_opt (fw_post stb) = Some (last ys0 x)).
    { rewrite Hpost0. change (x :: ys0) with ([x] ++ ys0). apply last_opt_app_last. reflexivity. }
    unfold fw_step in Eb. rewrite Hlastb, Hcon in Eb. cbn [bind] in Eb.
    fold layers in Eb. rewrite (sub_layers_nth _ _ Elb) in Eb.
    pose proof (forward_range_single_cases lb (last ys0 x)) as Hcase.
    destruct (forward_range [lb] (last ys0 x)) as [r|] eqn:Er; [|discriminate]. cbn [bind] in Eb.
    destruct Hcase as (y0 & Hr & Hy0).
    unfold loop_part in Eb. rewrite Hlook, Nat.eqb_refl in Eb. fold layers in Eb.
    unfold nth_res at 1 2 in Eb. rewrite Eli, Elb in Eb. cbn [bind fw_post] in Eb.
    rewrite Hr, Hpost0 in Eb.
    assert (Hlast1 : last_opt ((x :: ys0) ++ [y0]) = Some y0) by apply last_opt_app.
    rewrite Hlast1 in Eb. cbn [bind] in Eb.
    match type of Eb with bind (foldM ?F _ _) _ = _ => destruct (foldM F (seq 0 k) (y0, [])) as [[cur' fs]|] eqn:Eit; [|discriminate] end.
    cbn [bind snd] in Eb.
    (* facts about the range a..b *)
    destruct (@outs_nth_range (firstn b layers) x ys0 a Hys0) as [Hxa Hmidr]; [rewrite firstn_length; lia|].
    rewrite firstn_firstn in Hxa. replace (Nat.min a b) with a in Hxa by lia.
    set (xa := nth a (x :: ys0) x) in *.
    assert (Hmid : mid = skipn a (firstn b layers) ++ [lb]).
    { unfold mid, sub_layers. apply nth_error_split in Elb. destruct Elb as (l1 & l2 & E & Hl1).
      rewrite E.
      assert (Hf : firstn b (l1 ++ lb :: l2) = l1).
      { rewrite firstn_app, firstn_all2 by lia. replace (b - length l1) with 0 by lia. cbn [firstn]. apply app_nil_r. }
      rewrite Hf.
      assert (Hs : skipn a (l1 ++ lb :: l2) = skipn a l1 ++ lb :: l2).
      { rewrite skipn_app. replace (a - length l1) with 0 by lia. reflexivity. }
      rewrite Hs. rewrite firstn_app, skipn_length, Hl1. replace (b + 1 - a - (b - a)) with 1 by lia.
      cbn [firstn]. rewrite firstn_all2 by (rewrite skipn_length; lia). reflexivity. }
    assert (Hmid_ne : mid <> []) by (rewrite Hmid; intros E; apply app_eq_nil in E; destruct E; discriminate).
    assert (Hy0mid : range_out mid xa = Ok y0).
    { rewrite Hmid. unfold range_out. rewrite foldM_app. fold (range_out (skipn a (firstn b layers)) xa).
      rewrite Hmidr. cbn [bind foldM]. rewrite Hy0. reflexivity. }
    assert (Hxa1 : nth_error ((x :: ys0) ++ [y0]) a = Some xa).
    { rewrite nth_error_app1 by (cbn [length]; lia). unfold xa. apply nth_error_nth'. cbn [length]. lia. }
    destruct (@loop_iters mid li xa inskips Hmid_ne layers
                {| fw_pre := fw_pre stb ++ fw_pre r; fw_post := (x :: ys0) ++ [y0];
                   fw_max := fw_max stb ++ fw_max r; fw_fb := fw_fb stb ++ fw_fb r |} a b eq_refl Hxa1
                k 0 y0 [] cur' fs Eit) as (ys & fnew & Hys & Hfs & Hall & _).
    cbn [app] in Hfs. subst fnew.
    (* accumulation *)
    assert (Hlenmid : length mid = S (b - a)).
    { rewrite Hmid, app_length, skipn_length, firstn_length. cbn [length]. lia. }
    replace (b + 1 - a) with (S (b - a)) in Eb by lia.
    match type of Eb with foldM _ _ ?S1 = _ => set (st1 := S1) in * end.
    assert (HF : Forall2 (fun f y => last_opt (fw_post f) = Some y /\ length (fw_post f) = S (b - a)) fs ys).
    { clear -Hall Hlenmid. induction Hall as [|f y fs ys (H1 & H2 & _) _ IH]; constructor; [|exact IH].
      split; [exact H1|congruence]. }
    assert (HY : nth_error (fw_post st1) (a + (b - a) + 1) = Some y0).
    { unfold st1. cbn [fw_post]. replace (a + (b - a) + 1) with (S b) by lia.
      rewrite nth_error_app2 by (cbn [length]; lia). cbn [length]. rewrite Hlen0, Nat.sub_diag. reflexivity. }
    destruct (@loop_acc_last n fs ys st1 st2 a (b - a) y0 HF HY Eb) as (Hl2 & v & Hv & Hnv).
    unfold st1 in Hl2.
    cbn [fw_post] in Hl2, Hnv. replace (a + (b - a) + 1) with (S b) in Hnv by lia.
    assert (Hlast2 : last_opt (fw_post st2) = Some v).
    { apply last_opt_of_nth with (p := S b); [|exact Hnv]. rewrite Hl2, app_length. cbn [length]. lia. }
    (* suffix *)
    destruct (@fw_plain_run n (length layers - b - 1) (S b) st2 stf v) as (ys2 & Hys2 & Hpost2 & _);
      [intros i Hi; split; [apply Hcon|rewrite Hlook; replace (b =? i) with false by (symmetry; apply Nat.eqb_neq; lia); reflexivity]
      |fold layers; lia|exact Hlast2|exact Esuf|].
    fold layers in Hys2. rewrite firstn_all2 in Hys2 by (rewrite skipn_length; lia).
    rewrite Hpost2, (@last_opt_app_last _ (fw_post st2) ys2 v Hlast2) in Hp. injection Hp as <-.
    destruct (@outs_range _ _ _ Hys2) as [_ Hsuf].
    exists li, xa, y0, ys, v. replace (b + 1) with (S b) by lia. repeat split; assumption.
  Qed.

  (* the specification spelled out *)
  Lemma loop_vals_unfold (mid : list layer) (li : layer) (xa : tensor) inskips k cur :
    loop_vals mid li xa inskips (S k) cur =
    (do c1 <- (if shape_eqb (layer_inputs li) (tshape cur) then Ok cur else reshape cur (layer_inputs li));
     do c <- (if inskips then add_inplace c1 xa else Ok c1);
     do y <- range_out mid c;
     do rest <- loop_vals mid li xa inskips k y;
     Ok (y :: rest)) /\
    loop_vals mid li xa inskips 0 cur = Ok [].
  Proof. split; reflexivity. Qed.

  Lemma loop_combine_cases acc (y0 : tensor) ys :
    loop_combine acc y0 ys =
    match acc with
    | AccAdd => foldM (@add_inplace N) ys y0
    | AccSub => foldM (@sub_inplace N) ys y0
    | AccMul => foldM (@mul_inplace N) ys y0
    | AccOverwrite => match last_opt ys with Some t => Ok t | None => Ok y0 end
    | AccMean => mean_inplace y0 ys
    end.
  Proof. reflexivity. Qed.

  (* ---- overwrite accumulation: the plain network with layers a..b repeated k+1 times ---- *)
  Lemma loop_vals_unrolled (mid : list layer) (li : layer) (xa : tensor) :
    (forall c y, range_out mid c = Ok y -> shape_eqb (layer_inputs li) (tshape y) = true) ->
    forall k cur ys,
      shape_eqb (layer_inputs li) (tshape cur) = true ->
      loop_vals mid li xa false k cur = Ok ys ->
      range_out (concat (repeat mid k)) cur = Ok (last ys cur).
  Proof.
    intros Hsh. induction k as [|k IH]; intros cur ys Hcur H; cbn [loop_vals] in H.
    - injection H as <-. reflexivity.
    - rewrite Hcur in H. cbn [bind] in H.
      destruct (range_out mid cur) as [y|] eqn:Ey; [|discriminate]. cbn [bind] in H.
      destruct (loop_vals mid li xa false k y) as [rest|] eqn:Er; [|discriminate]. cbn [bind] in H.
      injection H as <-. cbn [repeat concat]. unfold range_out. rewrite foldM_app.
      fold (range_out mid cur). rewrite Ey. cbn [bind]. fold (range_out (concat (repeat mid k)) y).
      rewrite (IH y rest (Hsh _ _ Ey) Er). f_equal. symmetry. apply last_cons_def.
  Qed.

  Theorem loop_overwrite_is_unrolled (n : network N) (x out : tensor) a b k :
    n_connect n = [] -> n_loopbacks n = [(b, (a, k, false))] -> n_loopacc n = AccOverwrite ->
    a <= b -> b < length (n_layers n) ->
    (forall li c y, nth_error (n_layers n) a = Some li ->
                    range_out (sub_layers (n_layers n) a (b + 1)) c = Ok y ->
                    shape_eqb (layer_inputs li) (tshape y) = true) ->
    predict n x = Ok out ->
    let layers := n_layers n in
    let mid := sub_layers layers a (b + 1) in
    range_out (firstn a layers ++ concat (repeat mid (S k)) ++ skipn (b + 1) layers) x = Ok out.
  Proof.
    intros Hc Hlb Hacc Hab Hb Hsh Hp layers mid.
    destruct (loop_forward_spec _ _ Hc Hlb Hab Hb Hp) as (li & xa & y0 & ys & v & Hli & Hxa & Hy0 & Hys & Hv & Hout).
    fold layers in Hli, Hxa, Hy0, Hys, Hout. fold mid in Hy0, Hys.
    rewrite Hacc in Hv. cbn [loop_combine] in Hv.
    assert (Hv' : v = last ys y0).
    { unfold last_opt in Hv. destruct ys as [|y ys'] using rev_ind.
      - cbn [rev] in Hv. injection Hv as <-. reflexivity.
      - rewrite rev_app_distr in Hv. cbn [rev app] in Hv. injection Hv as <-. rewrite last_last. reflexivity. }
    subst v.
    pose proof (@loop_vals_unrolled mid li xa (fun c y => Hsh li c y Hli) k y0 ys (Hsh li _ _ Hli Hy0) Hys) as Hun.
    unfold range_out in *. rewrite foldM_app, Hxa. cbn [bind]. rewrite foldM_app.
    cbn [repeat concat]. rewrite foldM_app, Hy0. cbn [bind]. rewrite Hun. cbn [bind]. exact Hout.
  Qed.

  (* ---- exactly k further iterates ---- *)
  Lemma loop_vals_length (mid : list layer) (li : layer) (xa : tensor) inskips :
    forall k cur ys, loop_vals mid li xa inskips k cur = Ok ys -> length ys = k.
  Proof.
    induction k as [|k IH]; intros cur ys H; cbn [loop_vals] in H.
    - injection H as <-. reflexivity.
    - destruct (if shape_eqb (layer_inputs li) (tshape cur) then Ok cur else reshape cur (layer_inputs li))
        as [c1|]; [|discriminate]. cbn [bind] in H.
      destruct (if inskips then add_inplace c1 xa else Ok c1) as [c|]; [|discriminate]. cbn [bind] in H.
      destruct (range_out mid c) as [y|]; [|discriminate]. cbn [bind] in H.
      destruct (loop_vals mid li xa inskips k y) as [rest|] eqn:Er; [|discriminate]. cbn [bind] in H.
      injection H as <-. cbn [length]. f_equal. exact (IH _ _ Er).
  Qed.

  (* the number of iterates in the value passed on is the configured count, whatever the accumulation *)
  Theorem loop_forward_iterates_count (n : network N) (x out : tensor) a b k inskips :
    n_connect n = [] -> n_loopbacks n = [(b, (a, k, inskips))] -> a <= b -> b < length (n_layers n) ->
    predict n x = Ok out ->
    let layers := n_layers n in
    let mid := sub_layers layers a (b + 1) in
    exists li xa y0 ys v,
      nth_error layers a = Some li /\
      range_out (firstn a layers) x = Ok xa /\
      range_out mid xa = Ok y0 /\
      loop_vals mid li xa inskips k y0 = Ok ys /\ length ys = k /\
      loop_combine (n_loopacc n) y0 ys = Ok v /\
      range_out (skipn (b + 1) layers) v = Ok out.
  Proof.
    intros Hc Hlb Hab Hb Hp layers mid.
    destruct (loop_forward_spec _ _ Hc Hlb Hab Hb Hp) as (li & xa & y0 & ys & v & Hli & Hxa & Hy0 & Hys & Hv & Hout).
    exists li, xa, y0, ys, v. repeat split; try assumption. exact (loop_vals_length _ _ _ _ _ _ Hys).
  Qed.

  Lemma skipn_skipn_add A (l : list A) : forall a m, skipn m (skipn a l) = skipn (a + m) l.
  Proof.
    induction l as [|h l IH]; intros a m.
    - rewrite !skipn_nil. reflexivity.
    - destruct a as [|a]; [reflexivity|]. cbn [skipn Nat.add]. apply IH.
  Qed.

  Lemma layers_split3 (layers : list layer) a b :
    a <= b -> firstn a layers ++ sub_layers layers a (b + 1) ++ skipn (b + 1) layers = layers.
  Proof.
    intros Hab. unfold sub_layers.
    replace (skipn (b + 1) layers) with (skipn (b + 1 - a) (skipn a layers)).
    - rewrite firstn_skipn. apply firstn_skipn.
    - rewrite skipn_skipn_add. f_equal. lia.
  Qed.

  (* a loop of zero iterations leaves the plain network (for every accumulation whose neutral case is
     the first output itself: add, subtract, multiply, overwrite) *)
  Theorem loop_zero_iterations_is_plain (n : network N) (x out : tensor) a b inskips :
    n_connect n = [] -> n_loopbacks n = [(b, (a, 0, inskips))] -> n_loopacc n <> AccMean ->
    a <= b -> b < length (n_layers n) ->
    predict n x = Ok out ->
    range_out (n_layers n) x = Ok out.
  Proof.
    intros Hc Hlb Hacc Hab Hb Hp.
    destruct (loop_forward_spec _ _ Hc Hlb Hab Hb Hp) as (li & xa & y0 & ys & v & Hli & Hxa & Hy0 & Hys & Hv & Hout).
    cbn [loop_vals] in Hys. injection Hys as <-.
    assert (Hv' : v = y0).
    { destruct (n_loopacc n); cbn [loop_combine foldM last_opt rev] in Hv;
        try (injection Hv as <-; reflexivity). exfalso. apply Hacc. reflexivity. }
    subst v. rewrite <- (layers_split3 (n_layers n) Hab) at 1.
    unfold range_out in *. rewrite foldM_app, Hxa. cbn [bind]. rewrite foldM_app, Hy0. cbn [bind]. exact Hout.
  Qed.
End C17.
