(* C01, end to end for the other objectives: Theory/NetDeriv.v with the mean-squared error replaced by
   any objective whose model implementation satisfies a local contract at the prediction reached
   (the loss is differentiable there and the gradient tensor the model returns is its gradient).
   The contract is proved for the objectives that are sums of per-component terms and whose
   documented gradient is the derivative of the documented loss: absolute error (away from
   prediction = target), mean-squared error, binary cross-entropy and Kullback-Leibler divergence
   (predictions inside the clamp interval). Not included: the mean absolute error and the root
   mean-squared error, whose documented gradients (the sign; the sign divided by n) are by the
   library's definition not the derivative of the reported loss, and cross-entropy, which the
   library pairs with a soft-max output layer (Theory/Deriv.v: softmax_ce_gradient). *)
From NV Require Import Prelude Num NumR Random Tensor Activation Objective Optimizer Layers Network Learn.
From NV.Theory Require Import Monad Lists Build RSum Adjoint Deriv Chain ChainDense C07 C01 Forward NetDeriv.
From NV.Theory Require C06.
Require Import Reals Lra Lia List.
From Coquelicot Require Import Coquelicot.
Import ListNotations.
Local Open Scope list_scope.
Local Open Scope R_scope.
Set Implicit Arguments.

(* ---- reverse accumulation with an objective that is differentiable at the prediction reached ---- *)
Theorem gradsL_derivative_at (cs : curves) : forall d (X : R -> list R) (X' : vec) h0
    (m : nat) (Lf : list R -> R) (gL : list R -> list R),
  chainedS (at_t cs h0) d -> (forall t, length (X t) = d) -> dvec d (fun t => vof (X t)) h0 X' ->
  curves_ok cs h0 -> smoothL (at_t cs h0) (X h0) -> m = lastD (at_t cs h0) d ->
  (forall (Y : R -> list R) Y', (forall t, length (Y t) = m) -> Y h0 = predL (at_t cs h0) (X h0) ->
        dvec m (fun t => vof (Y t)) h0 Y' ->
        is_derive (fun t => Lf (Y t)) h0 (dotp m (vof (gL (Y h0))) Y')) ->
  let '(gin, gps, _) := gradsL (at_t cs h0) (X h0) (gL (predL (at_t cs h0) (X h0))) in
  is_derive (fun t => Lf (predL (at_t cs t) (X t))) h0 (pairing cs gps + dotp d (vof gin) X').
Proof.
  induction cs as [|[[s Th] Th'] rest IH]; intros d X X' h0 m Lf gL Hch HXl HX Hcu Hsm Hm HL.
  - cbn [at_t map gradsL predL pairing lastD] in *. rewrite Rplus_0_l. subst m. apply HL; [assumption|reflexivity|assumption].
  - cbn [at_t map fst snd] in *. fold (at_t rest h0) in *. cbn [chainedS curves_ok smoothL lastD] in Hch, Hcu, Hsm, Hm.
    destruct Hch as (Hn & Ho & Hn0 & Ha & Hch). destruct Hcu as [HTh Hcu]. destruct Hsm as [Hsm0 Hsm].
    cbn [gradsL predL]. cbn [predL] in HL.
    pose proof (@dense_stage_ok (ls_o s) (ls_n s) (phi_of (ls_act s)) (dphi_of (ls_act s))
                  (eff s (Th h0)) (vof (X h0))
                  (fun i Hi => @phi_derive (ls_act s) _ (Hsm0 i Hi))) as Hst.
    destruct (Hst (fun t => eff s (Th t)) (fun t => vof (X t)) (eff s Th') X' h0
                  (fun _ _ => eq_refl) (fun _ _ => eq_refl) (@dvec_eff s Th Th' h0 HTh)
                  ltac:(cbn [dense_stage din]; rewrite Hn; exact HX)) as (Y' & HY & Hadj).
    cbn [dense_stage din dpar dout] in HY, Hadj.
    set (Y := fun t => outL (s, Th t) (X t)).
    assert (HYl : forall t, length (Y t) = ls_o s) by (intros t; apply length_outL).
    assert (HYd : dvec (ls_o s) (fun t => vof (Y t)) h0 Y').
    { intros i Hi. apply (is_derive_ext (fun t => sfwd (stage_of s) (eff s (Th t)) (vof (X t)) i)); [|apply HY; exact Hi].
      intros t. unfold Y, outL. cbn [fst snd]. rewrite vof_lof by exact Hi. reflexivity. }
    specialize (IH (ls_o s) Y Y' h0 m Lf gL Hch HYl HYd Hcu Hsm Hm HL).
    change (outL (s, Th h0) (X h0)) with (Y h0).
    destruct (gradsL (at_t rest h0) (Y h0) (gL (predL (at_t rest h0) (Y h0)))) as [[gmid gps] gins].
    specialize (Hadj (vof gmid)).
    fold (stage_of s) in Hadj.
    set (b := sbwd (stage_of s) (eff s (Th h0)) (vof (X h0)) (vof gmid)) in *.
    cbn [pairing].
    replace (dotp (ls_o s * ls_n s + ls_o s) (snd b) (eff s Th') + pairing rest gps + dotp d (vof (lof (ls_n s) (fst b))) X')
      with (pairing rest gps + dotp (ls_o s) (vof gmid) Y').
    + apply (is_derive_ext (fun t => Lf (predL (at_t rest t) (Y t)))); [intros t; reflexivity|exact IH].
    + rewrite Hadj. rewrite <- Hn.
      assert (E : dotp (ls_n s) (vof (lof (ls_n s) (fst b))) X' = dotp (ls_n s) (fst b) X').
      { unfold dotp. apply bsum_ext. intros i Hi. rewrite vof_lof by exact Hi. reflexivity. }
      rewrite E. ring.
Qed.

(* ---- what an objective has to provide ---- *)
Section Generic.
  Variables (o : objective) (m : nat) (tgl : list R).
  Variables (Lf : list R -> R) (gL : list R -> list R).

  (* the model's Objective.loss on flat tensors of m components *)
  Definition loss_is : Prop :=
    forall yl : list R, length yl = m ->
      loss (N := NR) o None (t_single NR yl) (t_single NR tgl) = Ok (Lf yl, t_single NR (gL yl)) /\ length (gL yl) = m.

  (* the returned gradient is the gradient of the returned loss, at the prediction y0 *)
  Definition contract_at (y0 : list R) (h0 : R) : Prop :=
    forall (Y : R -> list R) Y', (forall t, length (Y t) = m) -> Y h0 = y0 -> dvec m (fun t => vof (Y t)) h0 Y' ->
      is_derive (fun t => Lf (Y t)) h0 (dotp m (vof (gL (Y h0))) Y').

  Theorem mlp_model_gradient_obj (n0 : network NR) (cs : curves) d (xl : list R) h0 :
    n_connect n0 = [] -> n_loopbacks n0 = [] -> n_objective n0 = (o, None) ->
    chainedS (at_t cs h0) d -> length xl = d -> length tgl = m -> m = lastD (at_t cs h0) d ->
    curves_ok cs h0 -> smoothL (at_t cs h0) xl ->
    loss_is -> contract_at (predL (at_t cs h0) xl) h0 ->
    exists gps : list vec,
      length gps = length cs /\
      sample_grad (net_at n0 cs h0) (t_single NR xl, t_single NR tgl)
        = Ok ((ws_of (at_t cs h0) gps, bs_of (at_t cs h0) gps), Lf (predL (at_t cs h0) xl)) /\
      (forall t, loss_of (sample_grad (net_at n0 cs t) (t_single NR xl, t_single NR tgl))
                 = Lf (predL (at_t cs t) xl)) /\
      is_derive (fun t => loss_of (sample_grad (net_at n0 cs t) (t_single NR xl, t_single NR tgl))) h0
                (pairing cs gps).
  Proof.
    intros Hc Hl Hobj Hch Hxl Htl Hm Hcu Hsm Hloss Hcon.
    assert (SG : forall t,
               let specs := at_t cs t in
               let yl := predL specs xl in
               let '(gin, gps, gins) := gradsL specs xl (gL yl) in
               sample_grad (net_at n0 cs t) (t_single NR xl, t_single NR tgl)
               = Ok ((ws_of specs gps, bs_of specs gps), Lf yl)).
    { intros t specs yl.
      assert (Hch_t : chainedS specs d) by (apply (@chainedS_at_t cs h0 t d); exact Hch).
      assert (Hyl : length yl = m).
      { unfold yl. rewrite (@length_predL specs d xl Hch_t Hxl). unfold specs. rewrite (lastD_at_t cs t h0 d). symmetry. exact Hm. }
      destruct (Hloss yl Hyl) as [Hlo Hgl].
      pose proof (@forward_mlp (net_at n0 cs t) specs d xl Hc Hl eq_refl Hch_t Hxl) as Hf.
      set (f := {| fw_pre := map (t_single NR) (presL specs xl);
                   fw_post := t_single NR xl :: map (t_single NR) (List.tl (insL specs xl) ++ match specs with [] => [] | _ => predL specs xl :: nil end);
                   fw_max := repeat None (length specs); fw_fb := [] |}) in *.
      assert (Hpost : fw_post f = map (t_single NR) (insL specs xl ++ predL specs xl :: nil)).
      { unfold f. cbn [fw_post]. destruct specs as [|p r]; reflexivity. }
      pose proof (@backward_mlp (net_at n0 cs t) specs d xl (gL yl) f
                    Hc eq_refl Hch_t Hxl
                    ltac:(rewrite Hgl; unfold specs; rewrite (lastD_at_t cs t h0 d); exact Hm)
                    eq_refl (@posts_lookup f specs xl _ Hpost) eq_refl) as Hb.
      destruct (gradsL specs xl (gL yl)) as [[gin gps] gins].
      unfold sample_grad. cbn [fst snd]. rewrite Hf. cbn [bind].
      assert (Elast : last_opt (fw_post f) = Some (t_single NR yl)).
      { rewrite Hpost, map_app. cbn [map]. apply last_opt_app. }
      rewrite Elast. cbn [bind]. cbn [net_at set_layers n_objective]. rewrite Hobj. cbn [fst snd].
      rewrite Hlo. cbn [bind fst snd].
      change (set_layers n0 (map mkL specs)) with (net_at n0 cs t).
      rewrite Hb. reflexivity. }
    pose proof (SG h0) as SG0. cbv zeta in SG0.
    destruct (gradsL (at_t cs h0) xl (gL (predL (at_t cs h0) xl))) as [[gin gps] gins] eqn:Eg.
    exists gps. split.
    { pose proof (gradsL_lengths (at_t cs h0) xl (gL (predL (at_t cs h0) xl))) as [Hl1 _].
      rewrite Eg in Hl1. cbn [fst snd] in Hl1. rewrite Hl1. unfold at_t. apply map_length. }
    split; [exact SG0|].
    assert (LV : forall t, loss_of (sample_grad (net_at n0 cs t) (t_single NR xl, t_single NR tgl))
                           = Lf (predL (at_t cs t) xl)).
    { intros t. pose proof (SG t) as SGt. cbv zeta in SGt.
      destruct (gradsL (at_t cs t) xl _) as [[gin' gps'] gins']. rewrite SGt. reflexivity. }
    split; [exact LV|].
    apply (is_derive_ext (fun t => Lf (predL (at_t cs t) xl))); [intros t; symmetry; apply LV|].
    pose proof (@gradsL_derivative_at cs d (fun _ => xl) (fun _ => 0) h0 m Lf gL
                  Hch (fun _ => Hxl) (fun i Hi => @is_derive_const _ _ (vof xl i) h0) Hcu Hsm Hm) as D.
    cbv beta in D. rewrite Eg in D.
    replace (pairing cs gps) with (pairing cs gps + dotp d (vof gin) (fun _ => 0)).
    - apply D. exact Hcon.
    - unfold dotp. rewrite (@bsum_ext d _ (fun _ => 0)) by (intros; ring). rewrite bsum_zero. ring.
  Qed.
End Generic.

(* ---- objectives that are sums of per-component terms ---- *)
Section Separable.
  Variables (m : nat) (tgl : list R).
  Hypothesis Htl : length tgl = m.
  (* per-component term and its derivative in the prediction component *)
  Variables (ell dell : R -> R -> R).

  Definition sepL (yl : list R) : R := bsum m (fun i => ell (vof tgl i) (vof yl i)).
  Definition sepG (yl : list R) : list R := lof m (fun i => dell (vof tgl i) (vof yl i)).

  Lemma separable_contract (y0 : list R) h0 :
    (forall i, (i < m)%nat -> is_derive (ell (vof tgl i)) (vof y0 i) (dell (vof tgl i) (vof y0 i))) ->
    contract_at m sepL sepG y0 h0.
  Proof.
    intros Hd Y Y' HYl HY0 HYd. unfold sepL, sepG, dotp.
    apply is_derive_bsum. intros i Hi. rewrite vof_lof by exact Hi.
    replace (dell (vof tgl i) (vof (Y h0) i) * Y' i) with (scal (Y' i) (dell (vof tgl i) (vof (Y h0) i)))
      by (unfold scal; cbn; unfold mult; cbn; ring).
    apply (is_derive_comp (ell (vof tgl i)) (fun t => vof (Y t) i)); [|apply HYd; exact Hi].
    rewrite HY0. apply Hd. exact Hi.
  Qed.
End Separable.

(* the model's loss for the four separable objectives *)
Definition ell_of (o : objective) (n : R) (a q : R) : R :=
  match o with
  | AE => Rabs (a - q)
  | MSE => (a - q) * (a - q) / n
  | BinaryCrossEntropy => - (a * ln (C06.clampR q) + (1 - a) * ln (1 - C06.clampR q))
  | KLDivergence => if Reqb a 0 then 0 else a * ln (a / C06.clampR q)
  | _ => 0
  end.

Definition separable (o : objective) : Prop :=
  match o with AE | MSE | BinaryCrossEntropy | KLDivergence => True | _ => False end.

Lemma Rsum_map2_bsum (g : R -> R -> R) (a b : list R) m : length a = m -> length b = m ->
  Rsum (map2 g a b) = bsum m (fun i => g (vof a i) (vof b i)).
Proof. intros Ha Hb. rewrite (map2_lof g a b Ha Hb). reflexivity. Qed.

Lemma loss_separable (o : objective) (yl tgl : list R) m : separable o -> (0 < m)%nat ->
  length yl = m -> length tgl = m ->
  loss (N := NR) o None (t_single NR yl) (t_single NR tgl)
  = Ok (sepL m tgl (ell_of o (INR m)) yl, t_single NR (sepG m tgl (grad_fun NR o (INR m)) yl)).
Proof.
  intros Hs Hm Hy Ht. unfold loss, get_flat, grad_tensor. cbn [t_single tdata bind].
  rewrite C06.of_nat_R. cbn [T NumR]. rewrite Ht.
  rewrite (map2_lof (grad_fun NR o (INR m)) tgl yl Ht Hy). unfold sepG. do 3 f_equal.
  unfold sepL.
  assert (Hn : INR m <> 0) by (apply not_0_INR; lia).
  destruct o; try contradiction.
  - rewrite C06.loss_formula_AE. apply Rsum_map2_bsum; assumption.
  - rewrite C06.loss_formula_MSE. cbn [T NumR]. rewrite Ht. apply Rsum_map2_bsum; assumption.
  - rewrite C06.loss_formula_BCE, (Rsum_map2_bsum _ tgl yl Ht Hy). cbn [ell_of].
    match goal with |- - bsum m ?F = _ => replace (- bsum m F) with (-1 * bsum m F) by ring end.
    rewrite <- bsum_scal_l. apply bsum_ext. intros i Hi. ring.
  - rewrite C06.loss_formula_KL. apply Rsum_map2_bsum; assumption.
Qed.

(* where each per-component term is differentiable *)
Definition ell_smooth_at (o : objective) (a q : R) : Prop :=
  match o with
  | AE => q <> a
  | MSE => True
  | BinaryCrossEntropy => C06.eps_R < q < 1 - C06.eps_R
  | KLDivergence => C06.eps_R < q < 1 - C06.eps_R /\ 0 <= a
  | _ => False
  end.

Lemma ell_derive (o : objective) (n a q : R) : n <> 0 -> ell_smooth_at o a q ->
  is_derive (ell_of o n a) q (grad_fun NR o n a q).
Proof.
  intros Hn Hs. destruct o; cbn [ell_smooth_at] in Hs; try contradiction; cbn [ell_of grad_fun].
  - (* AE *)
    unfold sign_grad, gtb. cbn [neqb nltb NumR]. unfold Reqb, Rltb.
    destruct (Req_EM_T a q) as [E|E]; [congruence|].
    destruct (Rlt_dec q a) as [L|L].
    + assert (Hp : 0 < a - q) by lra.
      apply (is_derive_ext_loc (fun h => a - h)).
      * exists (mkposreal _ Hp). intros h Hh.
        unfold ball in Hh; simpl in Hh; unfold AbsRing_ball, abs, minus, plus, opp in Hh; simpl in Hh.
        apply Rabs_def2 in Hh. cbn [ell_of]. cbv beta. rewrite (Rabs_pos_eq (a - h)) by lra. reflexivity.
      * auto_derive; [exact I|]. unfold neg_one. cbn [nofZ NumR]. ring.
    + assert (Hp : 0 < q - a) by lra.
      apply (is_derive_ext_loc (fun h => h - a)).
      * exists (mkposreal _ Hp). intros h Hh.
        unfold ball in Hh; simpl in Hh; unfold AbsRing_ball, abs, minus, plus, opp in Hh; simpl in Hh.
        apply Rabs_def2 in Hh. cbn [ell_of]. cbv beta. rewrite (Rabs_left (a - h)) by lra. lra.
      * auto_derive; [exact I|]. unfold Num.one. cbn [nofZ NumR]. ring.
  - (* MSE *)
    unfold mse_grad. cbn [ndiv nmul nsub NumR]. unfold neg_two. cbn [nofZ NumR].
    apply (is_derive_ext (fun h => (a - h) * (a - h) / n)); [intros h; reflexivity|].
    auto_derive; [exact I|]. field. exact Hn.
  - (* BCE *)
    unfold bce_grad. rewrite C06.clamp_p_R, (C06.clampR_id Hs). cbn [ndiv nmul nsub NumR].
    change (@Num.one NR) with 1.
    apply (is_derive_ext_loc (fun h => - (a * ln h + (1 - a) * ln (1 - h)))).
    + generalize (C06.clampR_locally Hs). apply filter_imp. intros h Hh. cbn [ell_of]. rewrite Hh. reflexivity.
    + unfold C06.eps_R in Hs. auto_derive; [split; [lra|split; [lra|exact I]]|]. field. lra.
  - (* KL *)
    destruct Hs as [Hq Ha]. unfold kl_grad. rewrite C06.clamp_p_R, (C06.clampR_id Hq). cbn [ndiv nneg NumR].
    unfold Reqb. destruct (Req_EM_T a 0) as [E|E].
    + rewrite E. apply (is_derive_ext (fun _ => 0)).
      { intros h. cbn [ell_of]. unfold Reqb. destruct (Req_EM_T 0 0); [reflexivity|contradiction]. }
      evar_last; [apply @is_derive_const|]. unfold Rdiv. cbn. rewrite Ropp_0, Rmult_0_l. reflexivity.
    + apply (is_derive_ext_loc (fun h => a * ln (a / h))).
      * generalize (C06.clampR_locally Hq). apply filter_imp. intros h Hh. cbn [ell_of]. unfold Reqb. destruct (Req_EM_T a 0); [contradiction|]. rewrite Hh. reflexivity.
      * unfold C06.eps_R in Hq. auto_derive.
        -- split; [lra|]. split; [apply Rdiv_lt_0_compat; lra|exact I].
        -- field. split; lra.
Qed.

(* ---- end to end for the separable objectives ---- *)
Theorem mlp_model_gradient_separable (o : objective) (n0 : network NR) (cs : curves) d (xl tgl : list R) h0 :
  separable o ->
  n_connect n0 = [] -> n_loopbacks n0 = [] -> n_objective n0 = (o, None) ->
  chainedS (at_t cs h0) d -> length xl = d -> length tgl = lastD (at_t cs h0) d -> (0 < length tgl)%nat ->
  curves_ok cs h0 -> smoothL (at_t cs h0) xl ->
  (* the objective is differentiable at the prediction reached, component by component *)
  (forall i, (i < length tgl)%nat -> ell_smooth_at o (vof tgl i) (vof (predL (at_t cs h0) xl) i)) ->
  let m := length tgl in
  let Lf := sepL m tgl (ell_of o (INR m)) in
  exists gps : list vec,
    length gps = length cs /\
    sample_grad (net_at n0 cs h0) (t_single NR xl, t_single NR tgl)
      = Ok ((ws_of (at_t cs h0) gps, bs_of (at_t cs h0) gps), Lf (predL (at_t cs h0) xl)) /\
    (forall t, loss_of (sample_grad (net_at n0 cs t) (t_single NR xl, t_single NR tgl))
               = Lf (predL (at_t cs t) xl)) /\
    is_derive (fun t => loss_of (sample_grad (net_at n0 cs t) (t_single NR xl, t_single NR tgl))) h0
              (pairing cs gps).
Proof.
  intros Hsep Hc Hl Hobj Hch Hxl Htl Hpos Hcu Hsm Hdiff m Lf.
  assert (Hn : INR m <> 0) by (apply not_0_INR; unfold m; lia).
  apply (@mlp_model_gradient_obj o m tgl Lf (sepG m tgl (grad_fun NR o (INR m))) n0 cs d xl h0
           Hc Hl Hobj Hch Hxl eq_refl Htl Hcu Hsm).
  - intros yl Hyl. split.
    + apply (@loss_separable o yl tgl m Hsep Hpos Hyl eq_refl).
    + unfold sepG. apply length_lof.
  - apply separable_contract. intros i Hi. apply ell_derive; [exact Hn|]. apply Hdiff. exact Hi.
Qed.

(* the mean-squared-error theorem of Theory/NetDeriv.v is the instance o = MSE *)
Corollary mlp_model_gradient_mse_again (n0 : network NR) (cs : curves) d (xl tgl : list R) h0 :
  n_connect n0 = [] -> n_loopbacks n0 = [] -> n_objective n0 = (MSE, None) ->
  chainedS (at_t cs h0) d -> length xl = d -> length tgl = lastD (at_t cs h0) d -> (0 < length tgl)%nat ->
  curves_ok cs h0 -> smoothL (at_t cs h0) xl ->
  exists gps : list vec,
    is_derive (fun t => loss_of (sample_grad (net_at n0 cs t) (t_single NR xl, t_single NR tgl))) h0
              (pairing cs gps).
Proof.
  intros Hc Hl Hobj Hch Hxl Htl Hpos Hcu Hsm.
  destruct (@mlp_model_gradient_separable MSE n0 cs d xl tgl h0 I Hc Hl Hobj Hch Hxl Htl Hpos Hcu Hsm
              (fun _ _ => I)) as (gps & _ & _ & _ & D).
  exists gps. exact D.
Qed.

(* non-vacuity: binary cross-entropy behind a sigmoid output (predictions strictly inside (0,1)) is
   covered whenever the prediction reached lies inside the clamp interval *)
Example separable_applies_bce (th : vec) (x1 x2 y : R) :
  let s := {| ls_o := 1; ls_n := 2; ls_act := Sigmoid; ls_bias := true |} in
  let cs : curves := (s, (fun t i => th i + t), (fun _ => 1)) :: nil in
  C06.eps_R < vof (predL (at_t cs 0) (x1 :: x2 :: nil)) 0%nat < 1 - C06.eps_R ->
  exists gps : list vec,
    is_derive (fun t => loss_of (sample_grad (net_at (set_objective (network_new NR (SSingle 2)) BinaryCrossEntropy None) cs t)
                                              (t_single NR (x1 :: x2 :: nil), t_single NR (y :: nil)))) 0
              (pairing cs gps).
Proof.
  intros s cs Hin.
  destruct (@mlp_model_gradient_separable BinaryCrossEntropy
              (set_objective (network_new NR (SSingle 2)) BinaryCrossEntropy None) cs 2 (x1 :: x2 :: nil) (y :: nil) 0
              I eq_refl eq_refl eq_refl) as (gps & _ & _ & _ & D).
  - cbn. repeat split; try lia; discriminate.
  - reflexivity.
  - reflexivity.
  - cbn. lia.
  - cbn [curves_ok cs]. split; [|exact I]. intros k Hk. cbv beta. auto_derive; [exact I|ring].
  - cbn. split; [intros; exact I|exact I].
  - intros i Hi. cbn [length] in Hi. assert (i = 0%nat) by lia. subst i. exact Hin.
  - exists gps. exact D.
Qed.
