(* C01, end to end for multi-layer perceptrons: the MODEL's own functions (Network.forward,
   Objective.loss, Network.backward, combined in Learn.sample_grad), instantiated at the reals,
   return for a dense network under the mean-squared error exactly the quantities of the stage
   calculus of Theory/Chain.v; hence, by mlp_backprop_is_derivative, the gradients returned by the
   model's backward pass ARE the derivative of the model's loss along every differentiable change
   of all weights and biases, for every depth, every widths and every parameter values.

   The network is given in canonical form: layer k has o_k x n_k weights and (optionally) o_k
   biases read from a parameter vector theta_k (row-major weights, then biases). *)
From NV Require Import Prelude Num NumR Random Tensor Activation Objective Optimizer Layers Network Learn.
From NV.Theory Require Import Monad Lists Build RSum Adjoint Deriv Chain ChainDense C07 C01 Forward.
From NV.Theory Require C06.
Require Import Reals Lra Lia List.
From Coquelicot Require Import Coquelicot.
Import ListNotations.
Local Open Scope list_scope.
Local Open Scope R_scope.
Set Implicit Arguments.

Notation NR := NumR.
Notation preD := ChainDense.pre.

(* ---- vectors as functions, lists as vectors ---- *)
Definition vof (l : list R) : vec := fun i => nth i l 0.
Definition lof (n : nat) (v : vec) : list R := build1 n v.

Lemma vof_lof n v i : (i < n)%nat -> vof (lof n v) i = v i.
Proof. intros H. unfold vof, lof. apply nth_build1. exact H. Qed.
Lemma length_lof n v : length (lof n v) = n.
Proof. apply length_build1. Qed.
Lemma lof_ext n u v : (forall i, (i < n)%nat -> u i = v i) -> lof n u = lof n v.
Proof. intros H. unfold lof, build1. apply map_ext_in. intros i Hi. apply in_seq in Hi. apply H. lia. Qed.
Lemma lof_vof l : lof (length l) (vof l) = l.
Proof.
  unfold lof, vof, build1. apply nth_ext with (d := 0) (d' := 0).
  - rewrite map_length, seq_length. reflexivity.
  - intros i Hi. rewrite map_length, seq_length in Hi.
    rewrite (@nth_map_lt _ _ _ _ i 0 0%nat) by (rewrite seq_length; exact Hi). rewrite seq_nth by exact Hi. reflexivity.
Qed.

(* ---- the scalar activation functions of the model over the reals ---- *)
Definition phi_of (a : activation) : R -> R :=
  match a with
  | ReLU => relu_f NR | LeakyReLU => leaky_f NR | Sigmoid => sigmoid_f NR | Tanh => tanh_f NR
  | Linear => fun u => u | Softmax => fun u => u
  end.
Definition dphi_of (a : activation) : R -> R :=
  match a with
  | ReLU => relu_b NR | LeakyReLU => leaky_b NR | Sigmoid => sigmoid_b NR | Tanh => tanh_b NR
  | Linear => fun _ => 1 | Softmax => fun _ => 1
  end.
(* where the activation is differentiable *)
Definition smooth_at (a : activation) (u : R) : Prop :=
  match a with ReLU | LeakyReLU => u <> 0 | Softmax => False | _ => True end.

Lemma act_forward_single a (v : list R) : a <> Softmax ->
  act_forward (N := NR) a (t_single NR v) = Ok (t_single NR (map (phi_of a) v)).
Proof.
  intros Ha. destruct a; try congruence; cbn [act_forward phi_of]; unfold ew_act, t_single; cbn [tdata];
    rewrite ?map_length; try reflexivity.
  rewrite map_id. reflexivity.
Qed.

Lemma ones_single n : ones NR (SSingle n) = Ok (t_single NR (repeat 1 n)).
Proof. unfold ones, fill, t_single. rewrite repeat_length. reflexivity. Qed.

Lemma phi_derive a u : smooth_at a u -> is_derive (phi_of a) u (dphi_of a u).
Proof.
  destruct a; cbn [smooth_at phi_of dphi_of]; intros H.
  - destruct (Rtotal_order u 0) as [Hn|[->|Hp]]; [apply relu_derive_neg; exact Hn|contradiction|apply relu_derive_pos; lra].
  - destruct (Rtotal_order u 0) as [Hn|[->|Hp]]; [apply leaky_derive_neg; exact Hn|contradiction|apply leaky_derive_pos; lra].
  - apply sigmoid_derive.
  - contradiction.
  - apply tanh_derive.
  - evar_last; [apply (is_derive_id u)|reflexivity].
Qed.

(* ---- list helpers ---- *)
Lemma zipk_build1 (f : R -> R -> R) n (a b : nat -> R) :
  zipk f (build1 n a) (build1 n b) = build1 n (fun i => f (a i) (b i)).
Proof.
  unfold build1. generalize (seq 0 n). intros l. induction l as [|i l IH]; [reflexivity|].
  cbn [map zipk]. rewrite IH. reflexivity.
Qed.

Lemma map_build1 A B (g : A -> B) n (a : nat -> A) : map g (build1 n a) = build1 n (fun i => g (a i)).
Proof. unfold build1. rewrite map_map. reflexivity. Qed.

Lemma build1_ext A n (a b : nat -> A) : (forall i, (i < n)%nat -> a i = b i) -> build1 n a = build1 n b.
Proof. intros H. unfold build1. apply map_ext_in. intros i Hi. apply in_seq in Hi. apply H. lia. Qed.

Lemma mkT_single (l : list R) n : length l = n -> @mkT NR (SSingle n) (@DSingle NR l) = t_single NR l.
Proof. intros <-. reflexivity. Qed.

(* ---- a dense layer in canonical form ---- *)
Record lspec := { ls_o : nat; ls_n : nat; ls_act : activation; ls_bias : bool }.

Definition Wl (s : lspec) (th : vec) : vec2 R := build2 (ls_o s) (ls_n s) (Wof (ls_n s) th).
Definition Bl (s : lspec) (th : vec) : list R := lof (ls_o s) (Bof (ls_o s) (ls_n s) th).

Definition mk_dense (s : lspec) (th : vec) : dense NR :=
  {| d_inputs := SSingle (ls_n s); d_outputs := SSingle (ls_o s); d_loops := (1 : T NR);
     d_weights := @mkT NR (SDouble (ls_o s) (ls_n s)) (@DDouble NR (Wl s th));
     d_bias := if ls_bias s then Some (t_single NR (Bl s th)) else None;
     d_act := ls_act s; d_dropout := None; d_training := false |}.

(* the parameter vector the stage sees: a layer without bias has bias 0 *)
Definition eff (s : lspec) (th : vec) : vec :=
  fun k => if ls_bias s then th k else if (k <? ls_o s * ls_n s)%nat then th k else 0.

Definition stage_of (s : lspec) : stage :=
  dense_stage (ls_o s) (ls_n s) (phi_of (ls_act s)) (dphi_of (ls_act s)).

Lemma Wof_eff s th i j : (i < ls_o s)%nat -> (j < ls_n s)%nat -> Wof (ls_n s) (eff s th) i j = Wof (ls_n s) th i j.
Proof.
  intros Hi Hj. unfold Wof, eff. destruct (ls_bias s); [reflexivity|].
  replace (i * ls_n s + j <? ls_o s * ls_n s)%nat with true by (symmetry; apply Nat.ltb_lt; nia). reflexivity.
Qed.
Lemma Bof_eff s th i : Bof (ls_o s) (ls_n s) (eff s th) i = if ls_bias s then Bof (ls_o s) (ls_n s) th i else 0.
Proof.
  unfold Bof, eff. destruct (ls_bias s); [reflexivity|].
  replace (ls_o s * ls_n s + i <? ls_o s * ls_n s)%nat with false by (symmetry; apply Nat.ltb_ge; lia). reflexivity.
Qed.

Lemma rows_dot s th xl : length xl = ls_n s ->
  map (fun row => fsum (N := NR) (map2 Rmult row xl)) (Wl s th)
  = lof (ls_o s) (fun i => bsum (ls_n s) (fun j => Wof (ls_n s) th i j * vof xl j)).
Proof.
  intros Hl. unfold Wl, build2, lof. rewrite map_build1. apply build1_ext. intros i Hi.
  apply fsum_map2_build1_R. exact Hl.
Qed.

Lemma dot_W s th (xl : list R) : length xl = ls_n s ->
  dot (d_weights (mk_dense s th)) (t_single NR xl)
  = Ok (t_single NR (lof (ls_o s) (fun i => bsum (ls_n s) (fun j => Wof (ls_n s) th i j * vof xl j)))).
Proof.
  intros Hl. rewrite <- (rows_dot s th xl Hl). reflexivity.
Qed.

Lemma add_single (a b : list R) : length a = length b ->
  add_inplace (t_single NR a) (t_single NR b) = Ok (t_single NR (zipk Rplus a b)).
Proof.
  intros Hl. unfold add_inplace, binop_inplace, t_single. cbn [tshape tdata shape_eqb]. cbn [T NumR].
  replace (length a =? length b)%nat with true by (symmetry; apply Nat.eqb_eq; exact Hl).
  cbn [bind ew2]. rewrite zipk_length. reflexivity.
Qed.

Lemma mk_dense_forward s th xl :
  length xl = ls_n s -> ls_act s <> Softmax ->
  dense_forward (mk_dense s th) (t_single NR xl) =
  Ok (t_single NR (lof (ls_o s) (preD (ls_o s) (ls_n s) (eff s th) (vof xl))),
      t_single NR (lof (ls_o s) (sfwd (stage_of s) (eff s th) (vof xl)))).
Proof.
  intros Hl Ha. unfold dense_forward. rewrite (dot_W s th xl Hl). cbn [bind].
  cbn [mk_dense d_bias d_act d_training d_dropout].
  assert (Elof : lof (ls_o s) (sfwd (stage_of s) (eff s th) (vof xl))
                 = map (phi_of (ls_act s)) (lof (ls_o s) (preD (ls_o s) (ls_n s) (eff s th) (vof xl)))).
  { unfold lof. rewrite map_build1. reflexivity. }
  destruct (ls_bias s) eqn:Eb.
  - rewrite add_single by (unfold Bl; rewrite !length_lof; reflexivity). cbn [bind].
    assert (E : zipk Rplus (lof (ls_o s) (fun i => bsum (ls_n s) (fun j => Wof (ls_n s) th i j * vof xl j))) (Bl s th)
                = lof (ls_o s) (preD (ls_o s) (ls_n s) (eff s th) (vof xl))).
    { unfold Bl, lof. rewrite zipk_build1. apply build1_ext. intros i Hi. unfold ChainDense.pre, affR. rewrite Bof_eff, Eb. f_equal.
      apply bsum_ext. intros j Hj. rewrite Wof_eff by assumption. reflexivity. }
    rewrite E. rewrite act_forward_single by exact Ha. cbn [bind]. unfold apply_dropout. rewrite Elof. reflexivity.
  - assert (E : lof (ls_o s) (fun i => bsum (ls_n s) (fun j => Wof (ls_n s) th i j * vof xl j))
                = lof (ls_o s) (preD (ls_o s) (ls_n s) (eff s th) (vof xl))).
    { apply lof_ext. intros i Hi. unfold ChainDense.pre, affR. rewrite Bof_eff, Eb, Rplus_0_r.
      apply bsum_ext. intros j Hj. rewrite Wof_eff by assumption. reflexivity. }
    rewrite E. cbn [bind]. rewrite act_forward_single by exact Ha. cbn [bind]. unfold apply_dropout. rewrite Elof. reflexivity.
Qed.


Lemma t_double_build2 o n (F : nat -> nat -> R) : (0 < o)%nat ->
  t_double NR (build2 o n F) = Ok (@mkT NR (SDouble o n) (@DDouble NR (build2 o n F))).
Proof.
  intros Ho. destruct o as [|o]; [lia|]. unfold t_double.
  assert (E : build2 (S o) n F = build1 n (F 0%nat) :: tl (build2 (S o) n F)) by reflexivity.
  generalize (tl (build2 (S o) n F)) E. intros rest E'. rewrite E'.
  cbn [length]. rewrite length_build1.
  assert (El : length rest = o).
  { apply (f_equal (@length _)) in E'. unfold build2 in E'. rewrite length_build1 in E'. cbn [length] in E'. lia. }
  cbn [T NumR]. rewrite El. reflexivity.
Qed.

(* ---- the backward pass of the canonical layer is the stage's backward pass ---- *)
Definition deltaL (s : lspec) (th : vec) (xl gl : list R) : list R :=
  lof (ls_o s) (fun i => vof gl i * dphi_of (ls_act s) (preD (ls_o s) (ls_n s) (eff s th) (vof xl) i)).

Lemma act_backward_single a (v : list R) : a <> Softmax ->
  act_backward (N := NR) a (t_single NR v) = Ok (t_single NR (map (dphi_of a) v)).
Proof.
  intros Ha. destruct a; try congruence; cbn [act_backward dphi_of]; unfold ew_act, t_single; cbn [tdata tshape];
    rewrite ?map_length; try reflexivity.
  unfold ones, fill. do 3 f_equal.
  induction v as [|x v IH]; [reflexivity|]. cbn [length repeat map]. rewrite IH. reflexivity.
Qed.

Definition wg_tensor (s : lspec) (gp : vec) : tensor NR :=
  @mkT NR (SDouble (ls_o s) (ls_n s)) (@DDouble NR (build2 (ls_o s) (ls_n s) (fun i j => gp (i * ls_n s + j)%nat))).
Definition bg_tensor (s : lspec) (gp : vec) : option (tensor NR) :=
  if ls_bias s then Some (t_single NR (lof (ls_o s) (fun i => gp (ls_o s * ls_n s + i)%nat))) else None.

Lemma mk_dense_backward s th xl gl :
  (0 < ls_o s)%nat -> (0 < ls_n s)%nat ->
  length xl = ls_n s -> length gl = ls_o s -> ls_act s <> Softmax ->
  let b := sbwd (stage_of s) (eff s th) (vof xl) (vof gl) in
  dense_backward (mk_dense s th) (t_single NR gl) (t_single NR xl)
                 (t_single NR (lof (ls_o s) (preD (ls_o s) (ls_n s) (eff s th) (vof xl))))
  = Ok (t_single NR (lof (ls_n s) (fst b)), wg_tensor s (snd b), bg_tensor s (snd b)).
Proof.
  intros Ho Hn Hxl Hgl Ha b.
  set (prel := lof (ls_o s) (preD (ls_o s) (ls_n s) (eff s th) (vof xl))).
  assert (Hm : Wl s th = nth 0 (Wl s th) [] :: tl (Wl s th)).
  { unfold Wl, build2, build1. destruct (ls_o s) as [|o']; [lia|]. reflexivity. }
  assert (Hr0len : length (nth 0 (Wl s th) []) = ls_n s).
  { unfold Wl, build2. rewrite nth_build1 by exact Ho. apply length_build1. }
  assert (Hr0 : nth 0 (Wl s th) [] <> []).
  { intros E. rewrite E in Hr0len. cbn in Hr0len. lia. }
  assert (Hrows : List.Forall (fun r => length r = length (nth 0 (Wl s th) [])) (Wl s th)).
  { apply Forall_forall. intros r Hr. rewrite Hr0len. unfold Wl, build2, build1 in Hr.
    apply in_map_iff in Hr. destruct Hr as (i & <- & _). apply length_build1. }
  pose proof (@dense_backward_spec NR (mk_dense s th) (t_single NR gl) (t_single NR xl) (t_single NR prel)
                (t_single NR (map (dphi_of (ls_act s)) prel)) (ls_o s) gl (map (dphi_of (ls_act s)) prel) xl
                (Wl s th) (nth 0 (Wl s th) [])) as H.
  cbn [mk_dense d_act d_weights d_bias d_loops tshape tdata t_single] in H. cbn [T NumR] in H.
  specialize (H ltac:(f_equal; exact Hgl) eq_refl).
  assert (Hder : match ls_act s with
                 | Softmax => ones NR (SSingle (length prel))
                 | a => act_backward (N := NR) a (t_single NR prel)
                 end = Ok (t_single NR (map (dphi_of (ls_act s)) prel))).
  { pose proof (@act_backward_single (ls_act s) prel Ha) as Q. destruct (ls_act s); try congruence; exact Q. }
  specialize (H Hder).
  specialize (H ltac:(unfold prel; rewrite map_length, length_lof; reflexivity) eq_refl eq_refl eq_refl Hm Hr0 Hrows).
  cbv zeta in H. unfold t_single in H at 1 2 3. unfold t_single at 1 2 3.
  cbn [mk_dense]. rewrite H. clear H. cbn [T NumR nmul].
  (* the delta vector *)
  set (delta := zipk _ (map (dphi_of (ls_act s)) prel) gl).
  assert (Hdl : length delta = ls_o s).
  { unfold delta. rewrite zipk_length, map_length. unfold prel. apply length_lof. }
  assert (Hd : forall i, (i < ls_o s)%nat ->
             nth i delta 0 = vof gl i * dphi_of (ls_act s) (preD (ls_o s) (ls_n s) (eff s th) (vof xl) i)).
  { intros i Hi. unfold delta.
    rewrite (zipk_nth _ _ _ 0 0) by (rewrite ?map_length; unfold prel; rewrite ?length_lof; lia).
    rewrite (@nth_map_lt _ _ _ _ i 0 0) by (unfold prel; rewrite length_lof; exact Hi).
    unfold prel, lof. rewrite nth_build1 by exact Hi. unfold scale, vof. cbn [nmul ndiv NumR Num.one nofZ]. field. }
  (* weight gradient *)
  assert (Hwg : t_double NR (map (fun u : R => map (fun v : R => u * v) xl) delta) = Ok (wg_tensor s (snd b))).
  { unfold t_double, wg_tensor.
    assert (Ewg : map (fun u : R => map (fun v : R => u * v) xl) delta
                  = build2 (ls_o s) (ls_n s) (fun i j => snd b (i * ls_n s + j)%nat)).
    { apply nth_ext with (d := []) (d' := []).
      - rewrite map_length, Hdl. unfold build2. rewrite length_build1. reflexivity.
      - intros i Hi. rewrite map_length, Hdl in Hi.
        rewrite (@nth_map_lt _ _ _ _ i [] 0) by (rewrite Hdl; exact Hi).
        unfold build2. rewrite nth_build1 by exact Hi.
        apply nth_ext with (d := 0) (d' := 0).
        + rewrite map_length, length_build1. exact Hxl.
        + intros j Hj. rewrite map_length, Hxl in Hj.
          rewrite (@nth_map_lt _ _ _ _ j 0 0) by (rewrite Hxl; exact Hj).
          rewrite nth_build1 by exact Hj. rewrite Hd by exact Hi.
          unfold b. cbn [stage_of dense_stage sbwd snd].
          replace (i * ls_n s + j <? ls_o s * ls_n s)%nat with true by (symmetry; apply Nat.ltb_lt; nia).
          replace ((i * ls_n s + j) / ls_n s)%nat with i by (apply Nat.div_unique with j; lia).
          replace ((i * ls_n s + j) mod ls_n s)%nat with j by (apply Nat.mod_unique with i; lia).
          unfold vof. reflexivity. }
    rewrite Ewg. apply t_double_build2. exact Ho. }
  rewrite Hwg. cbn [bind]. f_equal. f_equal; [f_equal|].
  - (* input gradient *)
    rewrite Hr0len. 
    assert (Eig : map (fun row => fsum (N := NR) (map2 Rmult row delta))
                      (build2 (ls_n s) (length (Wl s th)) (fun j i => get2 (@Num.zero NR) (Wl s th) i j))
                  = lof (ls_n s) (fst b)).
    { assert (Hlen : length (Wl s th) = ls_o s) by (unfold Wl, build2; apply length_build1).
      rewrite Hlen.
      apply nth_ext with (d := 0) (d' := 0).
      - rewrite map_length. unfold build2. rewrite length_build1, length_lof. reflexivity.
      - intros j Hj. rewrite map_length in Hj. unfold build2 in Hj. rewrite length_build1 in Hj.
        rewrite (dense_ig_entry_R (Wl s th) delta Hdl Hj).
        unfold lof. rewrite nth_build1 by exact Hj.
        unfold b. cbn [stage_of dense_stage sbwd fst]. apply bsum_ext. intros i Hi.
        rewrite Hd by exact Hi. unfold Wl. rewrite get2_build2 by assumption.
        rewrite Wof_eff by assumption. reflexivity. }
    f_equal. exact Eig.
  - (* bias gradient *)
    unfold bg_tensor. destruct (ls_bias s); [|reflexivity]. f_equal. unfold t_single. rewrite length_lof.
    do 2 f_equal.
    apply nth_ext with (d := 0) (d' := 0); [rewrite Hdl, length_lof; reflexivity|].
    intros i Hi. rewrite Hdl in Hi. rewrite Hd by exact Hi.
    unfold lof. rewrite nth_build1 by exact Hi.
    unfold b. cbn [stage_of dense_stage sbwd snd].
    replace (ls_o s * ls_n s + i <? ls_o s * ls_n s)%nat with false by (symmetry; apply Nat.ltb_ge; lia).
    replace (ls_o s * ls_n s + i - ls_o s * ls_n s)%nat with i by lia. unfold vof. reflexivity.
Qed.

(* ================= the network level ================= *)
Definition mkL (p : lspec * vec) : layer NR := LDense (mk_dense (fst p) (snd p)).

(* widths chain: layer k reads what layer k-1 (or the input) produces *)
Fixpoint chainedS (specs : list (lspec * vec)) (d : nat) : Prop :=
  match specs with
  | [] => True
  | (s, _) :: rest => ls_n s = d /\ (0 < ls_o s)%nat /\ (0 < ls_n s)%nat /\ ls_act s <> Softmax /\ chainedS rest (ls_o s)
  end.
Fixpoint lastD (specs : list (lspec * vec)) (d : nat) : nat :=
  match specs with [] => d | (s, _) :: rest => lastD rest (ls_o s) end.

(* per-layer inputs, pre-activations and the prediction, as lists *)
Definition outL (p : lspec * vec) (xl : list R) : list R :=
  lof (ls_o (fst p)) (sfwd (stage_of (fst p)) (eff (fst p) (snd p)) (vof xl)).
Definition preL (p : lspec * vec) (xl : list R) : list R :=
  lof (ls_o (fst p)) (preD (ls_o (fst p)) (ls_n (fst p)) (eff (fst p) (snd p)) (vof xl)).
Fixpoint insL (specs : list (lspec * vec)) (xl : list R) : list (list R) :=
  match specs with [] => [] | p :: rest => xl :: insL rest (outL p xl) end.
Fixpoint presL (specs : list (lspec * vec)) (xl : list R) : list (list R) :=
  match specs with [] => [] | p :: rest => preL p xl :: presL rest (outL p xl) end.
Fixpoint predL (specs : list (lspec * vec)) (xl : list R) : list R :=
  match specs with [] => xl | p :: rest => predL rest (outL p xl) end.

Lemma length_insL specs xl : length (insL specs xl) = length specs.
Proof. revert xl; induction specs as [|p r IH]; intros xl; cbn [insL length]; [reflexivity|rewrite IH; reflexivity]. Qed.
Lemma length_presL specs xl : length (presL specs xl) = length specs.
Proof. revert xl; induction specs as [|p r IH]; intros xl; cbn [presL length]; [reflexivity|rewrite IH; reflexivity]. Qed.
Lemma length_outL p xl : length (outL p xl) = ls_o (fst p).
Proof. apply length_lof. Qed.
Lemma length_predL specs : forall d xl, chainedS specs d -> length xl = d -> length (predL specs xl) = lastD specs d.
Proof.
  induction specs as [|[s th] r IH]; intros d xl Hc Hl; cbn [predL lastD]; [exact Hl|].
  cbn [chainedS] in Hc. destruct Hc as (_ & _ & _ & _ & Hc). apply (IH (ls_o s)); [exact Hc|apply length_outL].
Qed.

Lemma forward_range_dense (p : lspec * vec) (xl : list R) :
  length xl = ls_n (fst p) -> ls_act (fst p) <> Softmax ->
  forward_range (mkL p :: nil) (t_single NR xl)
  = Ok {| fw_pre := t_single NR (preL p xl) :: nil; fw_post := t_single NR (outL p xl) :: nil;
          fw_max := None :: nil; fw_fb := [] |}.
Proof.
  intros Hl Ha. unfold forward_range, mkL. cbn [foldM fw_post last_opt rev app bind].
  rewrite (mk_dense_forward (fst p) (snd p) xl Hl Ha). reflexivity.
Qed.

(* the forward pass of a plain dense network records exactly these lists *)
Theorem forward_mlp (n : network NR) (specs : list (lspec * vec)) d (xl : list R) :
  n_connect n = [] -> n_loopbacks n = [] -> n_layers n = map mkL specs ->
  chainedS specs d -> length xl = d ->
  forward n (t_single NR xl)
  = Ok {| fw_pre := map (t_single NR) (presL specs xl);
          fw_post := t_single NR xl :: map (t_single NR) (tl (insL specs xl) ++ match specs with [] => [] | _ => predL specs xl :: nil end);
          fw_max := repeat None (length specs); fw_fb := [] |}.
Proof.
  intros Hc Hl Hlay Hch Hxl. unfold forward. rewrite Hc, Hl.
  set (layers := n_layers n).
  set (step := fun (st : fwd NR) (i : nat) => _).
  assert (G : forall rest done st d (xl : list R),
             layers = map mkL (done ++ rest) -> last_opt (fw_post st) = Some (t_single NR xl) ->
             chainedS rest d -> length xl = d ->
             foldM step (seq (length done) (length rest)) st
             = Ok {| fw_pre := fw_pre st ++ map (t_single NR) (presL rest xl);
                     fw_post := fw_post st ++ map (t_single NR) (tl (insL rest xl) ++ match rest with [] => [] | _ => predL rest xl :: nil end);
                     fw_max := fw_max st ++ repeat None (length rest); fw_fb := fw_fb st |}).
  { clear Hch Hxl d xl. induction rest as [|p rest IH]; intros done st d xl Hlayers Hlast Hch Hxl.
    - cbn [length seq foldM presL insL tl map app repeat]. rewrite !app_nil_r. destruct st; reflexivity.
    - cbn [length seq foldM]. unfold step at 1. rewrite Hlast. cbn [bind alist_get].
      destruct p as [s th]. cbn [chainedS] in Hch. destruct Hch as (Hn & Ho & Hn0 & Ha & Hch).
      assert (Esub : sub_layers layers (length done) (length done + 1) = mkL (s, th) :: nil).
      { rewrite Hlayers, map_app. cbn [map].
        replace (length done) with (length (map mkL done)) by apply map_length. apply sub_layers_one. }
      rewrite Esub.
      rewrite (@forward_range_dense (s, th) xl ltac:(cbn [fst]; rewrite Hxl, Hn; reflexivity) Ha).
      cbn [bind alist_get fw_pre fw_post fw_max fw_fb].
      specialize (IH (done ++ (s, th) :: nil)
                     {| fw_pre := fw_pre st ++ t_single NR (preL (s, th) xl) :: nil;
                        fw_post := fw_post st ++ t_single NR (outL (s, th) xl) :: nil;
                        fw_max := fw_max st ++ None :: nil; fw_fb := fw_fb st ++ [] |}
                     (ls_o s) (outL (s, th) xl)).
      rewrite app_length in IH. cbn [length] in IH. rewrite Nat.add_1_r in IH.
      rewrite IH.
      + cbn [fw_pre fw_post fw_max fw_fb presL insL tl map]. rewrite <- !app_assoc. cbn [app]. rewrite app_nil_r.
        assert (E1 : insL rest (outL (s, th) xl) ++ predL ((s, th) :: rest) xl :: nil
                     = outL (s, th) xl :: (tl (insL rest (outL (s, th) xl)) ++
                          match rest with [] => [] | _ => predL rest (outL (s, th) xl) :: nil end))
          by (destruct rest; reflexivity).
        rewrite E1. reflexivity.
      + rewrite <- app_assoc. cbn [app]. exact Hlayers.
      + cbn [fw_post]. apply last_opt_app.
      + exact Hch.
      + apply length_outL. }
  specialize (G specs [] {| fw_pre := []; fw_post := t_single NR xl :: nil; fw_max := []; fw_fb := [] |} d xl).
  cbn [length app] in G. unfold layers in G |- *. rewrite Hlay, map_length.
  rewrite Hlay in G. rewrite G; [reflexivity|reflexivity|reflexivity|exact Hch|exact Hxl].
Qed.

(* ---- the backward walk ---- *)
(* gradient with respect to the input, parameter gradients and input gradients of every layer
   (all in layer order), by recursion from the first layer: the tail is processed first *)
Fixpoint gradsL (specs : list (lspec * vec)) (xl gfin : list R) : list R * list vec * list (list R) :=
  match specs with
  | [] => (gfin, [], [])
  | (s, th) :: rest =>
      let '(gmid, gps, gins) := gradsL rest (outL (s, th) xl) gfin in
      let b := sbwd (stage_of s) (eff s th) (vof xl) (vof gmid) in
      let gin := lof (ls_n s) (fst b) in
      (gin, snd b :: gps, gin :: gins)
  end.

Definition ws_of (specs : list (lspec * vec)) (gps : list vec) : list (grad NR) :=
  rev (map (fun q => GPlain (wg_tensor (fst (fst q)) (snd q))) (combine specs gps)).
Definition bs_of (specs : list (lspec * vec)) (gps : list vec) : list (option (bgrad NR)) :=
  rev (map (fun q => option_map (@BPlain NR) (bg_tensor (fst (fst q)) (snd q))) (combine specs gps)).
Definition gs_of (gins : list (list R)) : list (tensor NR) := rev (map (t_single NR) gins).

Lemma gradsL_lengths specs : forall xl gfin,
  length (snd (fst (gradsL specs xl gfin))) = length specs /\ length (snd (gradsL specs xl gfin)) = length specs.
Proof.
  induction specs as [|[s th] rest IH]; intros xl gfin; cbn [gradsL]; [split; reflexivity|].
  specialize (IH (outL (s, th) xl) gfin). destruct (gradsL rest (outL (s, th) xl) gfin) as [[gmid gps] gins].
  cbn [fst snd length] in *. destruct IH as [-> ->]. split; reflexivity.
Qed.

Lemma gradsL_gin_length specs : forall d xl gfin, chainedS specs d -> length gfin = lastD specs d ->
  length (fst (fst (gradsL specs xl gfin))) = d.
Proof.
  induction specs as [|[s th] rest IH]; intros d xl gfin Hc Hg; cbn [gradsL chainedS lastD] in *; [exact Hg|].
  destruct Hc as (Hn & _). destruct (gradsL rest (outL (s, th) xl) gfin) as [[gmid gps] gins].
  cbn [fst]. rewrite length_lof. exact Hn.
Qed.

Lemma combine_snoc A B (l1 : list A) (l2 : list B) a b :
  length l1 = length l2 -> combine (l1 ++ a :: nil) (l2 ++ b :: nil) = combine l1 l2 ++ (a, b) :: nil.
Proof.
  revert l2; induction l1 as [|x l1 IH]; intros [|y l2] H; cbn in H; try discriminate; [reflexivity|].
  cbn [app combine]. rewrite IH by lia. reflexivity.
Qed.

Lemma posts_lookup (f : fwd NR) (specs : list (lspec * vec)) (xl y : list R) :
  fw_post f = map (t_single NR) (insL specs xl ++ y :: nil) ->
  forall t, (t < length specs)%nat -> nth_error (fw_post f) t = Some (t_single NR (nth t (insL specs xl) [])).
Proof.
  intros H t Ht. rewrite H. apply map_nth_error. rewrite nth_error_app1 by (rewrite length_insL; exact Ht).
  apply nth_error_nth'. rewrite length_insL. exact Ht.
Qed.

Theorem backward_mlp (n : network NR) (specs : list (lspec * vec)) d (xl gl : list R) (f : fwd NR) :
  n_connect n = [] -> n_layers n = map mkL specs ->
  chainedS specs d -> length xl = d -> length gl = lastD specs d ->
  fw_pre f = map (t_single NR) (presL specs xl) ->
  (* only the stored layer INPUTS are read, never the prediction *)
  (forall t, (t < length specs)%nat -> nth_error (fw_post f) t = Some (t_single NR (nth t (insL specs xl) []))) ->
  fw_max f = repeat None (length specs) ->
  let '(gin, gps, gins) := gradsL specs xl gl in
  backward n (t_single NR gl) f = Ok (ws_of specs gps, bs_of specs gps, t_single NR gl :: gs_of gins).
Proof.
  intros Hc Hlay Hch Hxl Hgl Hpre Hpost Hmax.
  unfold backward. rewrite Hc. cbn [invert_net_connect sort_by_key fold_right fold_left].
  rewrite Hlay, map_length.
  set (len := length specs).
  set (step := fun (st : list (tensor NR) * list (grad NR) * list (option (bgrad NR)) *
                         list (list (tensor NR) * list (tensor NR) * list (option maxidx)) * list (tensor NR))
                   (il : nat * layer NR) => _).
  assert (G : forall rest done (xl gfin : list R) d gs0 ws0 bs0 fbs0 ps0,
             specs = done ++ rest -> chainedS rest d -> length xl = d -> length gfin = lastD rest d ->
             (forall t, (t < length rest)%nat ->
                nth_error (fw_post f) (length done + t) = Some (t_single NR (nth t (insL rest xl) []))) ->
             (forall t, (t < length rest)%nat ->
                nth_error (fw_pre f) (length done + t) = Some (t_single NR (nth t (presL rest xl) []))) ->
             last_opt gs0 = Some (t_single NR gfin) ->
             let '(gin, gps, gins) := gradsL rest xl gfin in
             foldM step (combine (seq 0 (length rest)) (rev (map mkL rest))) (gs0, ws0, bs0, fbs0, ps0)
             = Ok (gs0 ++ gs_of gins, ws0 ++ ws_of rest gps, bs0 ++ bs_of rest gps, fbs0, ps0 ++ gs_of gins)).
  { induction rest as [|[s th] rest IH]; intros done xl0 gfin d0 gs0 ws0 bs0 fbs0 ps0 Hsp Hch0 Hxl0 Hg0 Hpo Hpr Hlast.
    - cbn [gradsL length seq map rev combine foldM gs_of ws_of bs_of]. rewrite !app_nil_r. reflexivity.
    - cbn [gradsL]. cbn [chainedS lastD] in Hch0, Hg0. destruct Hch0 as (Hn & Ho & Hn0 & Ha & Hch0).
      specialize (IH (done ++ (s, th) :: nil) (outL (s, th) xl0) gfin (ls_o s) gs0 ws0 bs0 fbs0 ps0).
      pose proof (gradsL_gin_length rest (ls_o s) (outL (s, th) xl0) gfin Hch0 Hg0) as Hglen.
      destruct (gradsL rest (outL (s, th) xl0) gfin) as [[gmid gps] gins] eqn:Eg. cbn [fst] in Hglen.
      cbn [length map rev]. rewrite seq_S. cbn [Nat.add].
      rewrite combine_snoc by (rewrite seq_length, rev_length, map_length; reflexivity).
      rewrite foldM_app. rewrite IH.
      + cbn [bind foldM]. unfold step at 1.
        assert (Hlen : len = (length done + S (length rest))%nat).
        { unfold len. rewrite Hsp, app_length. reflexivity. }
        replace (len - length rest - 1)%nat with (length done) by lia.
        cbn [alist_get].
        pose proof (Hpo 0%nat ltac:(cbn [length]; lia)) as Hp0. rewrite Nat.add_0_r in Hp0. cbn [insL nth] in Hp0.
        pose proof (Hpr 0%nat ltac:(cbn [length]; lia)) as Hr0. rewrite Nat.add_0_r in Hr0. cbn [presL nth] in Hr0.
        unfold nth_res. rewrite Hp0, Hr0. cbn [bind].
        assert (Elast : last_opt (gs0 ++ gs_of gins) = Some (t_single NR gmid)).
        { (* the gradient handed down by the layers behind *)
          destruct rest as [|[s' th'] rest'].
          - cbn [gradsL] in Eg. injection Eg as <- _ <-. cbn [gs_of map rev]. rewrite app_nil_r. exact Hlast.
          - cbn [gradsL] in Eg. destruct (gradsL rest' _ gfin) as [[gm' gp'] gi']. injection Eg as <- _ <-.
            unfold gs_of. cbn [map rev]. rewrite app_assoc. apply last_opt_app. }
        rewrite Elast. cbn [bind].
        assert (Emax : nth_error (fw_max f) (length done) = Some None).
        { rewrite Hmax. apply nth_error_repeat. fold len. lia. }
        rewrite Emax. cbn [bind mkL fst snd layer_backward].
        pose proof (@mk_dense_backward s th xl0 gmid Ho Hn0 ltac:(congruence) Hglen Ha) as Hb. cbv zeta in Hb.
        unfold preL. cbn [fst snd].
        rewrite Hb. cbn [bind fst snd]. unfold gs_of, ws_of, bs_of. cbn [combine map rev]. rewrite !app_assoc. reflexivity.
      + rewrite <- app_assoc. exact Hsp.
      + exact Hch0.
      + apply length_outL.
      + exact Hg0.
      + intros t Ht. specialize (Hpo (S t) ltac:(cbn [length]; lia)). cbn [insL nth] in Hpo.
        rewrite app_length. cbn [length]. rewrite <- Hpo. f_equal. lia.
      + intros t Ht. specialize (Hpr (S t) ltac:(cbn [length]; lia)). cbn [presL nth] in Hpr.
        rewrite app_length. cbn [length]. rewrite <- Hpr. f_equal. lia.
      + exact Hlast. }
  specialize (G specs [] xl gl d (t_single NR gl :: nil) [] [] (fw_fb f) (t_single NR gl :: nil) eq_refl Hch Hxl Hgl).
  destruct (gradsL specs xl gl) as [[gin gps] gins].
  change (seq 0 len) with (seq 0 (length specs)). rewrite G.
  - reflexivity.
  - intros t Ht. cbn [length Nat.add]. apply Hpost. exact Ht.
  - intros t Ht. cbn [length Nat.add]. rewrite Hpre. apply map_nth_error. apply nth_error_nth'.
    rewrite length_presL. exact Ht.
  - reflexivity.
Qed.

(* ================= the gradients are the derivative ================= *)
(* layers with parameter curves: (spec, curve, tangent at h0) *)
Definition curves := list (lspec * (R -> vec) * vec).
Definition at_t (cs : curves) (t : R) : list (lspec * vec) :=
  map (fun c => (fst (fst c), snd (fst c) t)) cs.

Fixpoint smoothL (specs : list (lspec * vec)) (xl : list R) : Prop :=
  match specs with
  | [] => True
  | (s, th) :: rest =>
      (forall i, (i < ls_o s)%nat -> smooth_at (ls_act s) (preD (ls_o s) (ls_n s) (eff s th) (vof xl) i)) /\
      smoothL rest (outL (s, th) xl)
  end.

Fixpoint curves_ok (cs : curves) (h0 : R) : Prop :=
  match cs with
  | [] => True
  | (s, Th, Th') :: rest => dvec (ls_o s * ls_n s + ls_o s) Th h0 Th' /\ curves_ok rest h0
  end.

(* <parameter gradients, parameter tangents>; a layer without bias has no bias tangent *)
Fixpoint pairing (cs : curves) (gps : list vec) : R :=
  match cs, gps with
  | (s, _, Th') :: rest, gp :: gps' => dotp (ls_o s * ls_n s + ls_o s) gp (eff s Th') + pairing rest gps'
  | _, _ => 0
  end.

Lemma chainedS_at_t cs t t' d : chainedS (at_t cs t) d -> chainedS (at_t cs t') d.
Proof.
  revert d; induction cs as [|[[s Th] Th'] rest IH]; intros d H; [exact I|].
  cbn [at_t map chainedS fst snd] in *. destruct H as (H1 & H2 & H3 & H4 & H5).
  repeat split; try assumption. apply IH. exact H5.
Qed.
Lemma lastD_at_t cs t t' d : lastD (at_t cs t) d = lastD (at_t cs t') d.
Proof.
  revert d; induction cs as [|[[s Th] Th'] rest IH]; intros d; [reflexivity|].
  cbn [at_t map lastD fst snd]. apply IH.
Qed.

Lemma dvec_eff s (Th : R -> vec) Th' h0 :
  dvec (ls_o s * ls_n s + ls_o s) Th h0 Th' ->
  dvec (ls_o s * ls_n s + ls_o s) (fun t => eff s (Th t)) h0 (eff s Th').
Proof.
  intros H i Hi. unfold eff. destruct (ls_bias s); [apply H; exact Hi|].
  destruct (i <? ls_o s * ls_n s)%nat; [apply H; exact Hi|apply @is_derive_const].
Qed.

Theorem gradsL_derivative (cs : curves) : forall d (X : R -> list R) (X' : vec) h0
    (m : nat) (Lf : list R -> R) (gL : list R -> list R),
  chainedS (at_t cs h0) d -> (forall t, length (X t) = d) -> dvec d (fun t => vof (X t)) h0 X' ->
  curves_ok cs h0 -> smoothL (at_t cs h0) (X h0) -> m = lastD (at_t cs h0) d ->
  (forall (Y : R -> list R) Y', (forall t, length (Y t) = m) -> dvec m (fun t => vof (Y t)) h0 Y' ->
        is_derive (fun t => Lf (Y t)) h0 (dotp m (vof (gL (Y h0))) Y')) ->
  let '(gin, gps, _) := gradsL (at_t cs h0) (X h0) (gL (predL (at_t cs h0) (X h0))) in
  is_derive (fun t => Lf (predL (at_t cs t) (X t))) h0 (pairing cs gps + dotp d (vof gin) X').
Proof.
  induction cs as [|[[s Th] Th'] rest IH]; intros d X X' h0 m Lf gL Hch HXl HX Hcu Hsm Hm HL.
  - cbn [at_t map gradsL predL pairing lastD] in *. rewrite Rplus_0_l. subst m. apply HL; assumption.
  - cbn [at_t map fst snd] in *. fold (at_t rest h0) in *. cbn [chainedS curves_ok smoothL lastD] in Hch, Hcu, Hsm, Hm.
    destruct Hch as (Hn & Ho & Hn0 & Ha & Hch). destruct Hcu as [HTh Hcu]. destruct Hsm as [Hsm0 Hsm].
    cbn [gradsL predL].
    (* the first layer as a stage *)
    pose proof (@dense_stage_ok (ls_o s) (ls_n s) (phi_of (ls_act s)) (dphi_of (ls_act s))
                  (eff s (Th h0)) (vof (X h0))
                  (fun i Hi => @phi_derive (ls_act s) _ (Hsm0 i Hi))) as Hst.
    destruct (Hst (fun t => eff s (Th t)) (fun t => vof (X t)) (eff s Th') X' h0
                  (fun _ _ => eq_refl) (fun _ _ => eq_refl) (@dvec_eff s Th Th' h0 HTh)
                  ltac:(cbn [dense_stage din]; rewrite Hn; exact HX)) as (Y' & HY & Hadj).
    cbn [dense_stage din dpar dout] in HY, Hadj.
    set (Y := fun t => outL (s, Th t) (X t)).
    assert (HYl : forall t, length (Y t) = ls_o s) by (intros t; apply length_outL).
    assert (HYd : dvec (ls_o s) (fun t => vof (Y t)) h0 Y').
    { intros i Hi. apply (is_derive_ext (fun t => sfwd (stage_of s) (eff s (Th t)) (vof (X t)) i)); [|apply HY; exact Hi].
      intros t. unfold Y, outL. cbn [fst snd]. rewrite vof_lof by exact Hi. reflexivity. }
    specialize (IH (ls_o s) Y Y' h0 m Lf gL Hch HYl HYd Hcu Hsm Hm HL).
    change (outL (s, Th h0) (X h0)) with (Y h0).
    destruct (gradsL (at_t rest h0) (Y h0) (gL (predL (at_t rest h0) (Y h0)))) as [[gmid gps] gins].
    specialize (Hadj (vof gmid)).
    fold (stage_of s) in Hadj.
    set (b := sbwd (stage_of s) (eff s (Th h0)) (vof (X h0)) (vof gmid)) in *.
    cbn [pairing].
    replace (dotp (ls_o s * ls_n s + ls_o s) (snd b) (eff s Th') + pairing rest gps + dotp d (vof (lof (ls_n s) (fst b))) X')
      with (pairing rest gps + dotp (ls_o s) (vof gmid) Y').
    + apply (is_derive_ext (fun t => Lf (predL (at_t rest t) (Y t)))); [intros t; reflexivity|exact IH].
    + rewrite Hadj. rewrite <- Hn.
      assert (E : dotp (ls_n s) (vof (lof (ls_n s) (fst b))) X' = dotp (ls_n s) (fst b) X').
      { unfold dotp. apply bsum_ext. intros i Hi. rewrite vof_lof by exact Hi. reflexivity. }
      rewrite E. ring.
Qed.

(* ================= the objective ================= *)
Lemma map2_lof (g : R -> R -> R) (a b : list R) m : length a = m -> length b = m ->
  map2 g a b = lof m (fun i => g (vof a i) (vof b i)).
Proof.
  revert a b; induction m as [|m IH]; intros [|x a] [|y b] Ha Hb; cbn [length] in *; try discriminate; [reflexivity|].
  cbn [map2]. unfold lof, build1. cbn [seq map]. f_equal. rewrite <- seq_shift, map_map.
  rewrite (IH a b) by lia. reflexivity.
Qed.

Lemma Rsum_lof m (v : vec) : Rsum (lof m v) = bsum m v.
Proof. reflexivity. Qed.

Lemma loss_mse_single (yl tgl : list R) m : length yl = m -> length tgl = m ->
  loss (N := NR) MSE None (t_single NR yl) (t_single NR tgl)
  = Ok (mseR m (vof tgl) (vof yl), t_single NR (lof m (mse_gradR m (vof tgl) (vof yl)))).
Proof.
  intros Hy Ht. unfold loss, get_flat, grad_tensor. cbn [t_single tdata bind grad_fun].
  rewrite C06.loss_formula_MSE. cbn [T NumR]. rewrite Ht.
  rewrite (map2_lof (fun a q => (a - q) * (a - q) / INR m) tgl yl Ht Hy), Rsum_lof.
  rewrite (map2_lof (mse_grad NR (of_nat m)) tgl yl Ht Hy). do 3 f_equal.
  apply lof_ext. intros i Hi. unfold mse_grad, mse_gradR, neg_two. rewrite C06.of_nat_R.
  cbn [ndiv nmul nsub nofZ NumR]. reflexivity.
Qed.

(* ================= end to end ================= *)
(* the model network whose dense layers hold the parameters theta_k(t) *)
Definition net_at (n0 : network NR) (cs : curves) (t : R) : network NR :=
  set_layers n0 (map mkL (at_t cs t)).

Definition loss_of (r : res (grads NR * R)) : R := match r with Ok (_, l) => l | Panic _ => 0 end.

Theorem mlp_model_gradient (n0 : network NR) (cs : curves) d (xl tgl : list R) h0 :
  n_connect n0 = [] -> n_loopbacks n0 = [] -> n_objective n0 = (MSE, None) ->
  chainedS (at_t cs h0) d -> length xl = d -> length tgl = lastD (at_t cs h0) d -> (0 < length tgl)%nat ->
  curves_ok cs h0 -> smoothL (at_t cs h0) xl ->
  exists gps : list vec,
    length gps = length cs /\
    (* what the model's forward / objective / backward return at the parameters theta(h0) ... *)
    sample_grad (net_at n0 cs h0) (t_single NR xl, t_single NR tgl)
      = Ok ((ws_of (at_t cs h0) gps, bs_of (at_t cs h0) gps),
            mseR (length tgl) (vof tgl) (vof (predL (at_t cs h0) xl))) /\
    (* ... the loss the model computes at every theta(t) ... *)
    (forall t, loss_of (sample_grad (net_at n0 cs t) (t_single NR xl, t_single NR tgl))
               = mseR (length tgl) (vof tgl) (vof (predL (at_t cs t) xl))) /\
    (* ... and its derivative along the curve is <returned gradients, tangent> *)
    is_derive (fun t => loss_of (sample_grad (net_at n0 cs t) (t_single NR xl, t_single NR tgl))) h0
              (pairing cs gps).
Proof.
  intros Hc Hl Hobj Hch Hxl Htl Hpos Hcu Hsm.
  set (m := length tgl) in *.
  (* the model's sample_grad at an arbitrary t *)
  assert (SG : forall t,
             let specs := at_t cs t in
             let yl := predL specs xl in
             let '(gin, gps, gins) := gradsL specs xl (lof m (mse_gradR m (vof tgl) (vof yl))) in
             sample_grad (net_at n0 cs t) (t_single NR xl, t_single NR tgl)
             = Ok ((ws_of specs gps, bs_of specs gps), mseR m (vof tgl) (vof yl))).
  { intros t specs yl.
    assert (Hch_t : chainedS specs d) by (apply (@chainedS_at_t cs h0 t d); exact Hch).
    assert (Hyl : length yl = m).
    { unfold yl. rewrite (@length_predL specs d xl Hch_t Hxl). unfold specs. rewrite (lastD_at_t cs t h0 d). symmetry. exact Htl. }
    pose proof (@forward_mlp (net_at n0 cs t) specs d xl Hc Hl eq_refl Hch_t Hxl) as Hf.
    set (f := {| fw_pre := map (t_single NR) (presL specs xl);
                 fw_post := t_single NR xl :: map (t_single NR) (tl (insL specs xl) ++ match specs with [] => [] | _ => predL specs xl :: nil end);
                 fw_max := repeat None (length specs); fw_fb := [] |}) in *.
    assert (Hpost : fw_post f = map (t_single NR) (insL specs xl ++ predL specs xl :: nil)).
    { unfold f. cbn [fw_post]. destruct specs as [|p r]; reflexivity. }
    pose proof (@backward_mlp (net_at n0 cs t) specs d xl (lof m (mse_gradR m (vof tgl) (vof yl))) f
                  Hc eq_refl Hch_t Hxl
                  ltac:(rewrite length_lof; unfold specs; rewrite (lastD_at_t cs t h0 d); exact Htl)
                  eq_refl (@posts_lookup f specs xl _ Hpost) eq_refl) as Hb.
    destruct (gradsL specs xl (lof m (mse_gradR m (vof tgl) (vof yl)))) as [[gin gps] gins].
    unfold sample_grad. cbn [fst snd]. rewrite Hf. cbn [bind].
    assert (Elast : last_opt (fw_post f) = Some (t_single NR yl)).
    { rewrite Hpost, map_app. cbn [map]. apply last_opt_app. }
    rewrite Elast. cbn [bind]. cbn [net_at set_layers n_objective]. rewrite Hobj. cbn [fst snd].
    rewrite (@loss_mse_single yl tgl m Hyl eq_refl). cbn [bind fst snd].
    change (set_layers n0 (map mkL specs)) with (net_at n0 cs t).
    rewrite Hb. reflexivity. }
  pose proof (SG h0) as SG0. cbv zeta in SG0.
  destruct (gradsL (at_t cs h0) xl (lof m (mse_gradR m (vof tgl) (vof (predL (at_t cs h0) xl))))) as [[gin gps] gins] eqn:Eg.
  exists gps. split.
  { pose proof (gradsL_lengths (at_t cs h0) xl (lof m (mse_gradR m (vof tgl) (vof (predL (at_t cs h0) xl))))) as [Hl1 _].
    rewrite Eg in Hl1. cbn [fst snd] in Hl1. rewrite Hl1. unfold at_t. apply map_length. }
  split; [exact SG0|].
  assert (LV : forall t, loss_of (sample_grad (net_at n0 cs t) (t_single NR xl, t_single NR tgl))
                         = mseR m (vof tgl) (vof (predL (at_t cs t) xl))).
  { intros t. pose proof (SG t) as SGt. cbv zeta in SGt.
    destruct (gradsL (at_t cs t) xl _) as [[gin' gps'] gins']. rewrite SGt. reflexivity. }
  split; [exact LV|].
  apply (is_derive_ext (fun t => mseR m (vof tgl) (vof (predL (at_t cs t) xl)))); [intros t; symmetry; apply LV|].
  pose proof (@gradsL_derivative cs d (fun _ => xl) (fun _ => 0) h0 m
                (fun yl => mseR m (vof tgl) (vof yl))
                (fun yl => lof m (mse_gradR m (vof tgl) (vof yl)))
                Hch (fun _ => Hxl) (fun i Hi => @is_derive_const _ _ (vof xl i) h0) Hcu Hsm Htl) as D.
  cbv beta in D. rewrite Eg in D.
  replace (pairing cs gps) with (pairing cs gps + dotp d (vof gin) (fun _ => 0)).
  - apply D. intros Y Y' HYl HYd.
    replace (dotp m (vof (lof m (mse_gradR m (vof tgl) (vof (Y h0))))) Y') with (dotp m (mse_gradR m (vof tgl) (vof (Y h0))) Y').
    + apply (@mse_contract m (vof tgl) (fun t => vof (Y t)) Y' h0 Hpos HYd).
    + unfold dotp. apply bsum_ext. intros i Hi. rewrite vof_lof by exact Hi. reflexivity.
  - unfold dotp. rewrite (@bsum_ext d _ (fun _ => 0)) by (intros; ring). rewrite bsum_zero. ring.
Qed.

(* ---- the hypotheses are satisfiable: a 2-2-1 network (sigmoid with bias, then linear without bias),
        every parameter moving along an arbitrary line ---- *)
Example mlp_model_gradient_applies (th1 th2 d1 d2 : vec) (x1 x2 y : R) :
  let s1 := {| ls_o := 2; ls_n := 2; ls_act := Sigmoid; ls_bias := true |} in
  let s2 := {| ls_o := 1; ls_n := 2; ls_act := Linear; ls_bias := false |} in
  let cs : curves := (s1, (fun t i => th1 i + t * d1 i), d1) :: (s2, (fun t i => th2 i + t * d2 i), d2) :: nil in
  exists gps : list vec,
    is_derive (fun t => loss_of (sample_grad (net_at (network_new NR (SSingle 2)) cs t)
                                              (t_single NR (x1 :: x2 :: nil), t_single NR (y :: nil)))) 0
              (pairing cs gps).
Proof.
  intros s1 s2 cs.
  destruct (@mlp_model_gradient (network_new NR (SSingle 2)) cs 2 (x1 :: x2 :: nil) (y :: nil) 0
              eq_refl eq_refl eq_refl) as (gps & _ & _ & _ & D).
  - cbn. repeat split; try lia; discriminate.
  - reflexivity.
  - reflexivity.
  - cbn. lia.
  - cbn [curves_ok cs]. split; [|split; [|exact I]]; intros k Hk; cbv beta; auto_derive; try exact I; ring.
  - cbn. repeat split; intros; exact I.
  - exists gps. exact D.
Qed.

(* ================= one parameter at a time ================= *)
(* coordinate j of layer k0 moves with unit speed through its value, everything else is constant:
   the derivative of the model's loss is then entry j of the gradient the model returns for layer k0 *)
Definition line (th : vec) (j : nat) : R -> vec := fun t i => if (i =? j)%nat then th i + t else th i.
Definition unit_vec (j : nat) : vec := fun i => if (i =? j)%nat then 1 else 0.
Definition frozen (p : lspec * vec) : lspec * (R -> vec) * vec := (fst p, fun _ => snd p, fun _ => 0).

Fixpoint one_param_curves (specs : list (lspec * vec)) (k0 j : nat) : curves :=
  match specs with
  | [] => []
  | (s, th) :: rest =>
      match k0 with
      | O => (s, line th j, unit_vec j) :: map frozen rest
      | S k' => frozen (s, th) :: one_param_curves rest k' j
      end
  end.

(* two parameter lists that agree point-wise describe the same computation *)
Fixpoint same_params (a b : list (lspec * vec)) : Prop :=
  match a, b with
  | [], [] => True
  | (s, th) :: a', (s', th') :: b' => s = s' /\ (forall i, th i = th' i) /\ same_params a' b'
  | _, _ => False
  end.

Lemma eff_ext s th th' : (forall i, th i = th' i) -> forall i, eff s th i = eff s th' i.
Proof. intros H i. unfold eff. rewrite H. reflexivity. Qed.

Lemma preD_ext o n th th' x i : (forall k, th k = th' k) -> preD o n th x i = preD o n th' x i.
Proof.
  intros H. unfold ChainDense.pre, affR, Wof, Bof. rewrite H. f_equal. apply bsum_ext. intros j _. rewrite H. reflexivity.
Qed.

Lemma outL_ext s (th th' : vec) xl : (forall i, th i = th' i) -> outL (s, th) xl = outL (s, th') xl.
Proof.
  intros H. unfold outL. cbn [fst snd]. apply lof_ext. intros i Hi. cbn [stage_of dense_stage sfwd]. f_equal.
  apply preD_ext. apply eff_ext. exact H.
Qed.

Lemma chainedS_same a : forall b d, same_params a b -> chainedS a d -> chainedS b d.
Proof.
  induction a as [|[s th] a IH]; intros [|[s' th'] b] d Hs Hc; cbn [same_params] in Hs; try contradiction; [exact I|].
  destruct Hs as (<- & _ & Hs). cbn [chainedS] in *. destruct Hc as (H1 & H2 & H3 & H4 & H5).
  repeat split; try assumption. apply (IH b); assumption.
Qed.
Lemma lastD_same a : forall b d, same_params a b -> lastD a d = lastD b d.
Proof.
  induction a as [|[s th] a IH]; intros [|[s' th'] b] d Hs; cbn [same_params] in Hs; try contradiction; [reflexivity|].
  destruct Hs as (<- & _ & Hs). cbn [lastD]. apply IH. exact Hs.
Qed.
Lemma smoothL_same a : forall b xl, same_params a b -> smoothL a xl -> smoothL b xl.
Proof.
  induction a as [|[s th] a IH]; intros [|[s' th'] b] xl Hs Hm; cbn [same_params] in Hs; try contradiction; [exact I|].
  destruct Hs as (<- & Hth & Hs). cbn [smoothL] in *. destruct Hm as [H1 H2]. split.
  - intros i Hi. rewrite <- (@preD_ext (ls_o s) (ls_n s) (eff s th) (eff s th') (vof xl) i (@eff_ext s th th' Hth)). apply H1. exact Hi.
  - rewrite <- (@outL_ext s th th' xl Hth). apply (IH b); assumption.
Qed.

Lemma same_params_frozen rest t : same_params rest (at_t (map frozen rest) t).
Proof.
  induction rest as [|[s th] rest IH]; [exact I|]. cbn [map frozen at_t fst snd same_params].
  split; [reflexivity|]. split; [reflexivity|]. exact IH.
Qed.

Lemma same_params_one specs : forall k0 j, same_params specs (at_t (one_param_curves specs k0 j) 0).
Proof.
  induction specs as [|[s th] rest IH]; intros k0 j; [exact I|]. destruct k0 as [|k'].
  - cbn [one_param_curves at_t map fst snd same_params]. split; [reflexivity|]. split.
    + intros i. unfold line. destruct (i =? j)%nat; ring.
    + apply same_params_frozen.
  - cbn [one_param_curves frozen at_t map fst snd same_params]. split; [reflexivity|]. split; [reflexivity|]. apply IH.
Qed.

Lemma curves_ok_frozen rest h0 : curves_ok (map frozen rest) h0.
Proof.
  induction rest as [|[s th] rest IH]; [exact I|]. cbn [map frozen curves_ok fst snd]. split; [|exact IH].
  intros i Hi. apply @is_derive_const.
Qed.

Lemma curves_ok_one specs : forall k0 j, curves_ok (one_param_curves specs k0 j) 0.
Proof.
  induction specs as [|[s th] rest IH]; intros k0 j; [exact I|]. destruct k0 as [|k'].
  - cbn [one_param_curves curves_ok]. split; [|apply curves_ok_frozen].
    intros i Hi. unfold line, unit_vec. destruct (i =? j)%nat; auto_derive; try exact I; ring.
  - cbn [one_param_curves frozen curves_ok fst snd]. split; [|apply IH]. intros i Hi. apply @is_derive_const.
Qed.

Lemma pairing_frozen rest gps : pairing (map frozen rest) gps = 0.
Proof.
  revert gps; induction rest as [|[s th] rest IH]; intros [|gp gps]; cbn [map frozen pairing fst snd]; try reflexivity.
  rewrite IH. unfold dotp.
  rewrite (@bsum_ext _ _ (fun _ => 0)); [rewrite bsum_zero; ring|].
  intros i _. unfold eff. destruct (ls_bias s); [ring|]. destruct (i <? ls_o s * ls_n s)%nat; ring.
Qed.

Lemma pairing_one specs : forall k0 j gps s th,
  nth_error specs k0 = Some (s, th) ->
  (j < ls_o s * ls_n s + (if ls_bias s then ls_o s else 0))%nat ->
  length gps = length specs ->
  pairing (one_param_curves specs k0 j) gps = nth k0 gps (fun _ => 0) j.
Proof.
  induction specs as [|[s0 th0] rest IH]; intros k0 j gps s th Hn Hj Hl; [destruct k0; discriminate|].
  destruct gps as [|gp gps]; [discriminate|]. destruct k0 as [|k'].
  - cbn [nth_error] in Hn. injection Hn as -> ->. cbn [one_param_curves pairing nth]. rewrite pairing_frozen, Rplus_0_r.
    unfold dotp.
    rewrite (@bsum_ext _ _ (fun i => if (i =? j)%nat then gp i else 0)).
    + rewrite bsum_pick. replace (j <? ls_o s * ls_n s + ls_o s)%nat with true; [reflexivity|].
      symmetry. apply Nat.ltb_lt. destruct (ls_bias s); lia.
    + intros i Hi. unfold eff, unit_vec. destruct (Nat.eqb_spec i j) as [->|Hne].
      * destruct (ls_bias s); [ring|]. replace (j <? ls_o s * ls_n s)%nat with true by (symmetry; apply Nat.ltb_lt; lia). ring.
      * destruct (ls_bias s); [ring|]. destruct (i <? ls_o s * ls_n s)%nat; ring.
  - cbn [nth_error] in Hn. cbn [one_param_curves frozen pairing nth fst snd].
    rewrite (@IH k' j gps s th Hn Hj ltac:(cbn [length] in Hl; lia)).
    unfold dotp. rewrite (@bsum_ext _ _ (fun _ => 0)); [rewrite bsum_zero; ring|].
    intros i _. unfold eff. destruct (ls_bias s0); [ring|]. destruct (i <? ls_o s0 * ls_n s0)%nat; ring.
Qed.

Theorem mlp_model_partial_derivative (n0 : network NR) (specs : list (lspec * vec)) d (xl tgl : list R)
        (k0 j : nat) (s : lspec) (th : vec) :
  n_connect n0 = [] -> n_loopbacks n0 = [] -> n_objective n0 = (MSE, None) ->
  chainedS specs d -> length xl = d -> length tgl = lastD specs d -> (0 < length tgl)%nat ->
  smoothL specs xl ->
  nth_error specs k0 = Some (s, th) ->
  (j < ls_o s * ls_n s + (if ls_bias s then ls_o s else 0))%nat ->
  let cs := one_param_curves specs k0 j in
  exists gps : list vec,
    sample_grad (net_at n0 cs 0) (t_single NR xl, t_single NR tgl)
      = Ok ((ws_of (at_t cs 0) gps, bs_of (at_t cs 0) gps),
            mseR (length tgl) (vof tgl) (vof (predL (at_t cs 0) xl))) /\
    is_derive (fun t => loss_of (sample_grad (net_at n0 cs t) (t_single NR xl, t_single NR tgl))) 0
              (nth k0 gps (fun _ => 0) j).
Proof.
  intros Hc Hl Hobj Hch Hxl Htl Hpos Hsm Hn Hj cs.
  pose proof (same_params_one specs k0 j) as Hsame. fold cs in Hsame.
  destruct (@mlp_model_gradient n0 cs d xl tgl 0 Hc Hl Hobj
              (@chainedS_same specs (at_t cs 0) d Hsame Hch) Hxl
              ltac:(rewrite <- (@lastD_same specs (at_t cs 0) d Hsame); exact Htl) Hpos
              (curves_ok_one specs k0 j) (@smoothL_same specs (at_t cs 0) xl Hsame Hsm)) as (gps & Hgl & SG & _ & D).
  exists gps. split; [exact SG|].
  assert (Hlen : length gps = length specs).
  { rewrite Hgl. unfold cs. clear. revert k0. induction specs as [|[s0 th0] rest IH]; intros [|k']; cbn [one_param_curves length map frozen]; try reflexivity.
    - rewrite map_length. reflexivity.
    - rewrite IH. reflexivity. }
  rewrite <- (@pairing_one specs k0 j gps s th Hn Hj Hlen). exact D.
Qed.
