(* build1..build4 / get1..get4: comprehension and indexing lemmas. *)
From NV Require Import Prelude Num Random Tensor.
Set Implicit Arguments.

Lemma length_build1 A n (f : nat -> A) : length (build1 n f) = n.
Proof. unfold build1. rewrite map_length, seq_length. reflexivity. Qed.

Lemma nth_build1 A n (f : nat -> A) i d : i < n -> nth i (build1 n f) d = f i.
Proof.
  intros H. unfold build1. rewrite (nth_indep _ d (f 0)) by (rewrite map_length, seq_length; exact H).
  rewrite (map_nth f (seq 0 n) 0 i), seq_nth by exact H. reflexivity.
Qed.

Lemma nth_build1_oob A n (f : nat -> A) i d : n <= i -> nth i (build1 n f) d = d.
Proof. intros H. apply nth_overflow. rewrite length_build1. exact H. Qed.

Lemma get2_build2 A h w (f : nat -> nat -> A) i j d :
  i < h -> j < w -> get2 d (build2 h w f) i j = f i j.
Proof. intros Hi Hj. unfold get2, build2. rewrite nth_build1 by exact Hi. apply nth_build1. exact Hj. Qed.

Lemma get3_build3 A c h w (f : nat -> nat -> nat -> A) k i j d :
  k < c -> i < h -> j < w -> get3 d (build3 c h w f) k i j = f k i j.
Proof.
  intros Hk Hi Hj. unfold get3, build3. rewrite nth_build1 by exact Hk.
  apply (get2_build2 (f k) d Hi Hj).
Qed.

Lemma get4_build4 A a c h w (f : nat -> nat -> nat -> nat -> A) q k i j d :
  q < a -> k < c -> i < h -> j < w -> get4 d (build4 a c h w f) q k i j = f q k i j.
Proof.
  intros Hq Hk Hi Hj. unfold get4, build4. rewrite nth_build1 by exact Hq.
  apply (get3_build3 (f q) d Hk Hi Hj).
Qed.

Lemma build1_ext A n (f g : nat -> A) : (forall i, i < n -> f i = g i) -> build1 n f = build1 n g.
Proof.
  intros H. unfold build1. apply map_ext_in. intros i Hi. apply in_seq in Hi. apply H. lia.
Qed.

Lemma build3_ext A c h w (f g : nat -> nat -> nat -> A) :
  (forall k i j, k < c -> i < h -> j < w -> f k i j = g k i j) -> build3 c h w f = build3 c h w g.
Proof.
  intros H. unfold build3, build2. apply build1_ext. intros k Hk. apply build1_ext. intros i Hi.
  apply build1_ext. intros j Hj. apply H; assumption.
Qed.

(* shape of a comprehension *)
Lemma rect_build3 A c h w (f : nat -> nat -> nat -> A) :
  length (build3 c h w f) = c /\
  Forall (fun ch => length ch = h /\ Forall (fun r => length r = w) ch) (build3 c h w f).
Proof.
  split; [apply length_build1|]. unfold build3, build2, build1.
  apply Forall_forall. intros ch Hch. apply in_map_iff in Hch. destruct Hch as (k & <- & _).
  split; [rewrite map_length, seq_length; reflexivity|].
  apply Forall_forall. intros r Hr. apply in_map_iff in Hr. destruct Hr as (i & <- & _).
  rewrite map_length, seq_length. reflexivity.
Qed.

(* zipk: in-place zip keeping the unmatched tail of the first list *)
Lemma zipk_map2 A B (f : A -> B -> A) l1 l2 :
  length l1 <= length l2 -> zipk f l1 l2 = map2 f l1 l2.
Proof.
  revert l2; induction l1 as [|x l1 IH]; intros l2 H; [destruct l2; reflexivity|].
  destruct l2 as [|y l2]; [simpl in H; lia|]. simpl. rewrite IH; [reflexivity|simpl in H; lia].
Qed.

Lemma zipk_length A B (f : A -> B -> A) l1 l2 : length (zipk f l1 l2) = length l1.
Proof.
  revert l2; induction l1 as [|x l1 IH]; intros l2; [destruct l2; reflexivity|].
  destruct l2; simpl; [reflexivity|rewrite IH; reflexivity].
Qed.

Lemma zipk_nth A B (f : A -> B -> A) l1 l2 i da db :
  i < length l1 -> i < length l2 -> nth i (zipk f l1 l2) da = f (nth i l1 da) (nth i l2 db).
Proof.
  revert l2 i; induction l1 as [|x l1 IH]; intros l2 i H1 H2; [simpl in H1; lia|].
  destruct l2 as [|y l2]; [simpl in H2; lia|]. destruct i as [|i]; simpl; [reflexivity|].
  apply IH; simpl in *; lia.
Qed.


Lemma nth_map_lt A B (f : A -> B) l k d d' : k < length l -> nth k (map f l) d = f (nth k l d').
Proof. intros H. rewrite (nth_indep _ d (f d')) by (rewrite map_length; exact H). apply map_nth. Qed.
