(* Association lists with insert-overwrite (the model of HashMap<usize, _>). *)
From NV Require Import Prelude.
Set Implicit Arguments.

Lemma alist_get_set_same V (m : list (nat * V)) k v : alist_get (alist_set m k v) k = Some v.
Proof.
  induction m as [|[k' v'] m IH]; cbn [alist_set alist_get]; [rewrite Nat.eqb_refl; reflexivity|].
  destruct (k' =? k) eqn:E; cbn [alist_get]; [rewrite Nat.eqb_refl; reflexivity|rewrite E; exact IH].
Qed.

Lemma alist_get_set_other V (m : list (nat * V)) k k' v :
  k <> k' -> alist_get (alist_set m k v) k' = alist_get m k'.
Proof.
  intros Hne. induction m as [|[k0 v0] m IH]; cbn [alist_set alist_get].
  - replace (k =? k') with false by (symmetry; apply Nat.eqb_neq; exact Hne). reflexivity.
  - destruct (k0 =? k) eqn:E; cbn [alist_get].
    + apply Nat.eqb_eq in E. subst k0.
      replace (k =? k') with false by (symmetry; apply Nat.eqb_neq; exact Hne). reflexivity.
    + destruct (k0 =? k'); [reflexivity|exact IH].
Qed.

Definition set_all {V} (kvs : list (nat * V)) (m : list (nat * V)) : list (nat * V) :=
  fold_left (fun m kv => alist_set m (fst kv) (snd kv)) kvs m.

Lemma set_all_other V (kvs : list (nat * V)) m k :
  ~ In k (map fst kvs) -> alist_get (set_all kvs m) k = alist_get m k.
Proof.
  revert m; induction kvs as [|[k0 v0] kvs IH]; intros m Hn; [reflexivity|].
  cbn [set_all fold_left fst snd]. fold (set_all kvs (alist_set m k0 v0)). rewrite IH.
  - apply alist_get_set_other. intros ->. apply Hn. left. reflexivity.
  - intros Hin. apply Hn. right. exact Hin.
Qed.

Lemma set_all_in V (kvs : list (nat * V)) m k v :
  NoDup (map fst kvs) -> In (k, v) kvs -> alist_get (set_all kvs m) k = Some v.
Proof.
  revert m; induction kvs as [|[k0 v0] kvs IH]; intros m Hnd Hin; [contradiction|].
  cbn [set_all fold_left fst snd]. fold (set_all kvs (alist_set m k0 v0)).
  cbn [map fst] in Hnd. inversion Hnd as [|? ? Hnot Hnd']; subst.
  destruct Hin as [E|Hin].
  - injection E as -> ->. rewrite set_all_other by exact Hnot. apply alist_get_set_same.
  - apply IH; assumption.
Qed.

Lemma NoDup_app_lemma A (l1 l2 : list A) :
  NoDup l1 -> NoDup l2 -> (forall x, In x l1 -> In x l2 -> False) -> NoDup (l1 ++ l2).
Proof.
  intros H1 H2 Hd. induction H1 as [|x l1 Hx _ IH]; [exact H2|]. cbn [app]. constructor.
  - intros Hin. apply in_app_or in Hin. destruct Hin as [Hin|Hin]; [exact (Hx Hin)|].
    exact (Hd x (or_introl eq_refl) Hin).
  - apply IH. intros y Hy1 Hy2. exact (Hd y (or_intror Hy1) Hy2).
Qed.

Lemma combine_app_eq A B (a1 a2 : list A) (b1 b2 : list B) :
  length a1 = length b1 -> combine (a1 ++ a2) (b1 ++ b2) = combine a1 b1 ++ combine a2 b2.
Proof.
  revert b1; induction a1 as [|x a1 IH]; intros [|y b1] H; cbn [length] in H; try discriminate; [reflexivity|].
  cbn [app combine]. f_equal. apply IH. lia.
Qed.
