(* C16 / C01: additive skip connections in the setting of Theory/Chain.v. A skip connection from
   layer a to layer b with additive accumulation makes layers a..b-1 a residual block: the input
   of layer b is G(x) + x where G is the composition of layers a..b-1 and x the input of layer a.
   Two stage combinators - sequential composition and the residual block - preserve the local
   contract (differentiable output, backward pass = transposed Jacobian), so every network built
   from contract-satisfying layers by sequencing and additive skips satisfies it too, and
   reverse_accumulation applies: the gradients remain the exact derivatives. The backward pass of
   the residual block is what the repaired Network::backward computes: the gradient handed to the
   layer before the source is the gradient through the block PLUS the gradient arriving at the
   target. *)
From NV.Theory Require Import RSum Chain.
Require Import Reals Lra Lia List.
From Coquelicot Require Import Coquelicot.
Import ListNotations.
Local Open Scope list_scope.
Local Open Scope R_scope.
Set Implicit Arguments.

(* ---- vectors ---- *)
Definition vadd (u v : vec) : vec := fun i => u i + v i.
Definition vshift (k : nat) (u : vec) : vec := fun i => u (k + i)%nat.

Lemma dotp_vadd_l n u v w : dotp n (vadd u v) w = dotp n u w + dotp n v w.
Proof. unfold dotp, vadd. rewrite <- bsum_plus. apply bsum_ext. intros; ring. Qed.

Lemma dotp_split m k u v :
  dotp (m + k) u v = dotp m u v + dotp k (vshift m u) (vshift m v).
Proof. unfold dotp, vshift. apply bsum_split. Qed.

Lemma dotp_ext n u u' v v' :
  (forall i, (i < n)%nat -> u i = u' i) -> (forall i, (i < n)%nat -> v i = v' i) -> dotp n u v = dotp n u' v'.
Proof. intros Hu Hv. unfold dotp. apply bsum_ext. intros i Hi. rewrite Hu, Hv by exact Hi. reflexivity. Qed.

(* ---- the residual block around a stage: output = inner(x) + x ---- *)
Definition residual (s : stage) : stage := {|
  din := din s; dpar := dpar s; dout := dout s;
  sfwd := fun th x => vadd (sfwd s th x) x;
  sbwd := fun th x g => let '(gin, gp) := sbwd s th x g in (vadd gin g, gp) |}.

Lemma residual_ok (s : stage) (theta0 x0 : vec) :
  din s = dout s -> stage_ok s theta0 x0 -> stage_ok (residual s) theta0 x0.
Proof.
  intros Hd Hs Th X Th' X' h0 HT0 HX0 HT HX. cbn [residual din dpar dout sfwd sbwd] in *.
  destruct (Hs Th X Th' X' h0 HT0 HX0 HT HX) as (Y' & HY & Hadj).
  exists (vadd Y' X'). split.
  - intros i Hi. unfold vadd. apply @is_derive_plus; [apply HY; exact Hi|apply HX; rewrite Hd; exact Hi].
  - intros g. specialize (Hadj g). destruct (sbwd s (Th h0) (X h0) g) as [gin gp]. cbn [fst snd] in *.
    rewrite dotp_vadd_l.
    assert (E : dotp (dout s) g (vadd Y' X') = dotp (dout s) g Y' + dotp (dout s) g X').
    { unfold dotp, vadd. rewrite <- bsum_plus. apply bsum_ext. intros; ring. }
    rewrite E, Hadj, Hd. ring.
Qed.

(* ---- sequential composition: parameters of the first stage, then those of the second ---- *)
Definition seq_stage (s1 s2 : stage) : stage := {|
  din := din s1; dpar := dpar s1 + dpar s2; dout := dout s2;
  sfwd := fun th x => sfwd s2 (vshift (dpar s1) th) (sfwd s1 th x);
  sbwd := fun th x g =>
    let mid := sfwd s1 th x in
    let '(gmid, gp2) := sbwd s2 (vshift (dpar s1) th) mid g in
    let '(gin, gp1) := sbwd s1 th x gmid in
    (gin, fun i => if (i <? dpar s1)%nat then gp1 i else gp2 (i - dpar s1)%nat) |}.

Lemma seq_ok (s1 s2 : stage) (theta0 x0 : vec) :
  dout s1 = din s2 ->
  stage_ok s1 theta0 x0 ->
  stage_ok s2 (vshift (dpar s1) theta0) (sfwd s1 theta0 x0) ->
  (* the first stage's output depends on its own parameters and input only *)
  (forall th th' x x', (forall i, (i < dpar s1)%nat -> th i = th' i) -> (forall i, (i < din s1)%nat -> x i = x' i) ->
                       forall i, (i < dout s1)%nat -> sfwd s1 th x i = sfwd s1 th' x' i) ->
  stage_ok (seq_stage s1 s2) theta0 x0.
Proof.
  intros Hd H1 H2 Hloc Th X Th' X' h0 HT0 HX0 HT HX. cbn [seq_stage din dpar dout sfwd sbwd] in *.
  assert (HT1 : dvec (dpar s1) Th h0 Th') by (intros i Hi; apply HT; lia).
  assert (HT2 : dvec (dpar s2) (fun t => vshift (dpar s1) (Th t)) h0 (vshift (dpar s1) Th')).
  { intros i Hi. unfold vshift. apply HT. lia. }
  destruct (H1 Th X Th' X' h0 (fun i Hi => HT0 i ltac:(lia)) HX0 HT1 HX) as (M' & HM & Hadj1).
  destruct (H2 (fun t => vshift (dpar s1) (Th t)) (fun t => sfwd s1 (Th t) (X t)) (vshift (dpar s1) Th') M' h0) as (Y' & HY & Hadj2).
  - intros i Hi. unfold vshift. apply HT0. lia.
  - intros i Hi. apply Hloc; [intros j Hj; apply HT0; lia|exact HX0|rewrite Hd; exact Hi].
  - exact HT2.
  - rewrite <- Hd. exact HM.
  - exists Y'. split; [exact HY|]. intros g. specialize (Hadj2 g).
    destruct (sbwd s2 (vshift (dpar s1) (Th h0)) (sfwd s1 (Th h0) (X h0)) g) as [gmid gp2]. cbn [fst snd] in *.
    specialize (Hadj1 gmid). destruct (sbwd s1 (Th h0) (X h0) gmid) as [gin gp1]. cbn [fst snd] in *.
    rewrite Hadj2, <- Hd, Hadj1. rewrite dotp_split.
    assert (E1 : dotp (dpar s1) (fun i => if (i <? dpar s1)%nat then gp1 i else gp2 (i - dpar s1)%nat) Th' = dotp (dpar s1) gp1 Th').
    { apply dotp_ext; [|reflexivity]. intros i Hi. replace (i <? dpar s1)%nat with true by (symmetry; apply Nat.ltb_lt; exact Hi). reflexivity. }
    assert (E2 : dotp (dpar s2) (vshift (dpar s1) (fun i => if (i <? dpar s1)%nat then gp1 i else gp2 (i - dpar s1)%nat)) (vshift (dpar s1) Th')
                 = dotp (dpar s2) gp2 (vshift (dpar s1) Th')).
    { apply dotp_ext; [|reflexivity]. intros i Hi. unfold vshift.
      replace (dpar s1 + i <? dpar s1)%nat with false by (symmetry; apply Nat.ltb_ge; lia).
      replace (dpar s1 + i - dpar s1)%nat with i by lia. reflexivity. }
    rewrite E1, E2. ring.
Qed.

(* ---- example: a residual dense block between two dense layers (smooth activations) ---- *)
From NV.Theory Require Import ChainDense.

Theorem residual_perceptron_ok (n m : nat) (phi1 phi1' phi2 phi2' phi3 phi3' : R -> R) (theta0 x0 : vec) :
  (forall u, is_derive phi1 u (phi1' u)) -> (forall u, is_derive phi2 u (phi2' u)) -> (forall u, is_derive phi3 u (phi3' u)) ->
  let s1 := dense_stage n n phi1 phi1' in            (* layer a-1 *)
  let blk := residual (dense_stage n n phi2 phi2') in (* layers a..b-1 with the skip a -> b *)
  let s3 := dense_stage m n phi3 phi3' in            (* layer b *)
  stage_ok (seq_stage s1 (seq_stage blk s3)) theta0 x0.
Proof.
  intros H1 H2 H3 s1 blk s3.
  apply seq_ok; [reflexivity| | |].
  - apply dense_stage_ok. intros i _. apply H1.
  - apply seq_ok; [reflexivity| | |].
    + apply residual_ok; [reflexivity|]. apply dense_stage_ok. intros i _. apply H2.
    + apply dense_stage_ok. intros i _. apply H3.
    + intros th th' x x' Ht Hx i Hi. cbn [blk residual sfwd dout din dpar dense_stage] in *. unfold vadd.
      rewrite (Hx i Hi). f_equal.
      apply (dense_stage_local phi2 phi2' (o := n) (n := n)); assumption.
  - intros th th' x x' Ht Hx i Hi. apply (dense_stage_local phi1 phi1' (o := n) (n := n)); assumption.
Qed.

(* the combinators spelled out *)
Lemma residual_def (s : stage) th x g :
  sfwd (residual s) th x = vadd (sfwd s th x) x /\
  sbwd (residual s) th x g = (vadd (fst (sbwd s th x g)) g, snd (sbwd s th x g)) /\
  din (residual s) = din s /\ dpar (residual s) = dpar s /\ dout (residual s) = dout s.
Proof. cbn [residual sfwd sbwd din dpar dout]. destruct (sbwd s th x g). repeat split. Qed.

Lemma seq_stage_def (s1 s2 : stage) th x :
  sfwd (seq_stage s1 s2) th x = sfwd s2 (vshift (dpar s1) th) (sfwd s1 th x) /\
  din (seq_stage s1 s2) = din s1 /\ dpar (seq_stage s1 s2) = (dpar s1 + dpar s2)%nat /\ dout (seq_stage s1 s2) = dout s2.
Proof. repeat split. Qed.
