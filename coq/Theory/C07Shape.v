(* C07: the element-wise activations keep the shape (any number structure, both ranks). *)
From NV Require Import Prelude Num Random Tensor Activation.
From NV.Theory Require Import Lists C14.
Require Import Lia List.
Import ListNotations.
Set Implicit Arguments.

Section C07Shape.
  Variable N : Num.

  Theorem ew_act_keeps_shape (f : T N -> T N) (x y : tensor N) :
    C14.wf x -> ew_act f x = Ok y -> tshape y = tshape x /\ C14.wf y.
  Proof.
    unfold C14.wf, ew_act. destruct (tshape x) as [n| |c h w| |] eqn:Es; try contradiction.
    - destruct (tdata x) as [d| | |]; try contradiction. intros Hl H. injection H as <-.
      cbn [tshape tdata]. rewrite map_length, Hl. split; reflexivity.
    - destruct (tdata x) as [|?|d|]; try contradiction. intros Hr H.
      destruct d as [|[|r ch] rest]; try discriminate. injection H as <-. cbn [tshape tdata].
      destruct Hr as [Hl Hf]. pose proof (Forall_inv Hf) as [Hch Hrows]. pose proof (Forall_inv Hrows) as Hrw.
      cbv beta in Hrw. cbn [hd_len hd].
      assert (K : forall a b c', a = c -> b = h -> c' = w ->
                STriple a b c' = STriple c h w /\
                rect3 a b c' (map (map (map f)) ((r :: ch) :: rest))).
      { intros a b c' -> -> ->. split; [reflexivity|]. split; [rewrite map_length; exact Hl|].
        apply Forall_forall. intros ch' Hin. apply in_map_iff in Hin. destruct Hin as (ch0 & <- & Hin).
        destruct (proj1 (Forall_forall _ _) Hf _ Hin) as [Hl2 Hf2]. split; [rewrite map_length; exact Hl2|].
        apply Forall_forall. intros r' Hr'. apply in_map_iff in Hr'. destruct Hr' as (r0 & <- & Hin2).
        rewrite map_length. exact (proj1 (Forall_forall _ _) Hf2 _ Hin2). }
      apply K; assumption.
  Qed.

  Theorem activation_keeps_shape (a : activation) (x y : tensor N) :
    a <> Softmax -> C14.wf x -> act_forward a x = Ok y -> tshape y = tshape x.
  Proof.
    intros Ha Hw H. destruct a; try congruence; cbn [act_forward] in H;
      try exact (proj1 (@ew_act_keeps_shape _ _ _ Hw H)).
    injection H as <-. reflexivity.
  Qed.

  Theorem activation_derivative_keeps_shape (a : activation) (x y : tensor N) :
    a <> Softmax -> a <> Linear -> C14.wf x -> act_backward a x = Ok y -> tshape y = tshape x.
  Proof.
    intros Ha Hl Hw H. destruct a; try congruence; cbn [act_backward] in H;
      exact (proj1 (@ew_act_keeps_shape _ _ _ Hw H)).
  Qed.
End C07Shape.
