(* C07, binary32 part: for every finite single-precision input the ReLU family returns finite
   values, and the sigmoid is finite and lies in [0,1] for ANY libm whose expf returns, on a
   non-NaN input, either +infinity or a finite non-negative number (a section hypothesis about
   the platform's libm, visible in the theorem statements). *)
From NV Require Import Prelude Num NumF32 Random Tensor Activation.
From Flocq Require Import Core BinarySingleNaN.
Require Import Reals Lra Lia.
Local Open Scope R_scope.

Local Notation fexp32 := (SpecFloat.fexp prec32 emax32).
Local Notation rnd := (round radix2 fexp32 (round_mode mode_NE)).

Definition fin (x : f32) : Prop := is_finite x = true.

Lemma fin_not_nan (x : f32) : fin x -> is_nan x = false.
Proof. destruct x; cbn; unfold fin; cbn; congruence. Qed.

#[local] Instance valid_exp32 : Valid_exp fexp32 := fexp_correct prec32 emax32 prec32_gt_0.
#[local] Instance valid_rnd32 : Valid_rnd (round_mode mode_NE) := valid_rnd_round_mode mode_NE.

Lemma leb_R (a b : f32) : fin a -> fin b -> Bleb a b = true -> B2R a <= B2R b.
Proof.
  intros Ha Hb H. rewrite (Bleb_correct prec32 emax32 a b Ha Hb) in H.
  destruct (Rle_bool_spec (B2R a) (B2R b)); [assumption|discriminate].
Qed.

Section F32.
  Variable L : Libm.
  Notation N32 := (NumF32 L).

  Definition c_one : f32 := f_of_Z 1.
  Definition c_zero : f32 := f_of_Z 0.
  Definition c_alpha : f32 := f_div (f_of_Z 1) (f_of_Z 100).

  Lemma one_is : @one N32 = c_one. Proof. reflexivity. Qed.
  Lemma zero_is : @zero N32 = c_zero. Proof. reflexivity. Qed.
  Lemma alpha_is : alpha N32 = c_alpha. Proof. reflexivity. Qed.

  Lemma c_one_fin : fin c_one. Proof. vm_compute. reflexivity. Qed.
  Lemma c_zero_fin : fin c_zero. Proof. vm_compute. reflexivity. Qed.
  Lemma c_alpha_fin : fin c_alpha. Proof. vm_compute. reflexivity. Qed.

  Lemma c_one_val : B2R c_one = 1.
  Proof.
    pose (f := c_one). assert (E : c_one = f) by reflexivity. vm_compute in f. rewrite E. subst f.
    unfold B2R, F2R. cbn [Fnum Fexp cond_Zopp]. unfold bpow.
    change (Z.pow_pos radix2 23) with 8388608%Z. field.
  Qed.
  Lemma c_zero_val : B2R c_zero = 0.
  Proof. vm_compute. reflexivity. Qed.
  Lemma c_alpha_range : 0 <= B2R c_alpha <= 1.
  Proof.
    split.
    - rewrite <- c_zero_val.
      apply (leb_R c_zero c_alpha c_zero_fin c_alpha_fin). vm_compute. reflexivity.
    - rewrite <- c_one_val.
      apply (leb_R c_alpha c_one c_alpha_fin c_one_fin). vm_compute. reflexivity.
  Qed.

  (* ---- ReLU, leaky ReLU and their derivatives ---- *)
  Theorem relu_finite (v : f32) : fin v -> fin (relu_f N32 v).
  Proof.
    intros Hv. unfold relu_f, fmax. rewrite zero_is. cbn [nisnan nltb NumF32]. unfold f_is_nan.
    rewrite (fin_not_nan v Hv), (fin_not_nan c_zero c_zero_fin).
    destruct (f_ltb v c_zero); [exact c_zero_fin|exact Hv].
  Qed.

  Theorem relu_derivative_finite (v : f32) : fin (relu_b N32 v).
  Proof. unfold relu_b. rewrite one_is, zero_is. destruct (gtb _ _); [exact c_one_fin|exact c_zero_fin]. Qed.

  Theorem leaky_derivative_finite (v : f32) : fin (leaky_b N32 v).
  Proof. unfold leaky_b. rewrite one_is, alpha_is, zero_is. destruct (gtb _ _); [exact c_one_fin|exact c_alpha_fin]. Qed.

  Theorem leaky_finite (v : f32) : fin v -> fin (leaky_f N32 v).
  Proof.
    intros Hv. unfold leaky_f. rewrite alpha_is, zero_is. destruct (gtb _ _); [exact Hv|].
    cbn [nmul NumF32].
    pose proof (Bmult_correct prec32 emax32 prec32_gt_0 prec32_lt_emax mode_NE c_alpha v) as H.
    assert (Hb : Rabs (rnd (B2R c_alpha * B2R v)) < bpow radix2 emax32).
    { apply Rle_lt_trans with (Rabs (B2R v)); [|apply abs_B2R_lt_emax].
      apply abs_round_le_generic; [exact valid_exp32|exact valid_rnd32| |].
      - apply generic_format_abs. apply generic_format_B2R.
      - rewrite Rabs_mult. pose proof c_alpha_range as [H0 H1].
        rewrite (Rabs_pos_eq _ H0). pose proof (Rabs_pos (B2R v)). nra. }
    rewrite (Rlt_bool_true _ _ Hb) in H. destruct H as (_ & Hf & _).
    unfold fin, f_mul. rewrite Hf. rewrite c_alpha_fin, Hv. reflexivity.
  Qed.

  (* ---- sigmoid ---- *)
  Definition exp_ok : Prop :=
    forall x : f32, is_nan x = false ->
      let e := via (l_exp L) x in
      e = B754_infinity false \/ (fin e /\ 0 <= B2R e).
  Hypothesis Hexp : exp_ok.

  Lemma one_plus (e : f32) : fin e -> 0 <= B2R e ->
    let s := f_add c_one e in s = B754_infinity false \/ (fin s /\ 1 <= B2R s).
  Proof.
    intros He Hpos s.
    pose proof (Bplus_correct prec32 emax32 prec32_gt_0 prec32_lt_emax mode_NE c_one e c_one_fin He) as H.
    fold (f_add c_one e) in H. fold s in H.
    destruct (Rlt_bool (Rabs (rnd (B2R c_one + B2R e))) (bpow radix2 emax32)).
    - destruct H as (Hv & Hf & _). right. split; [exact Hf|]. rewrite Hv, c_one_val.
      rewrite <- (round_generic radix2 fexp32 (round_mode mode_NE) 1) at 1.
      + apply round_le; [exact valid_exp32|exact valid_rnd32|lra].
      + rewrite <- c_one_val. apply generic_format_B2R.
    - destruct H as [H _]. left.
      assert (Es : Bsign c_one = false) by (vm_compute; reflexivity).
      rewrite Es in H. cbn [binary_overflow overflow_to_inf] in H.
      destruct s as [sz|si| |sf mf ef Hf]; cbn [B2SF] in H; try discriminate.
      injection H as ->. reflexivity.
  Qed.

  Lemma one_over (s : f32) : fin s -> 1 <= B2R s ->
    let q := f_div c_one s in fin q /\ 0 <= B2R q <= 1.
  Proof.
    intros Hs Hge q.
    assert (Hnz : B2R s <> 0) by lra.
    pose proof (Bdiv_correct prec32 emax32 prec32_gt_0 prec32_lt_emax mode_NE c_one s Hnz) as H.
    fold (f_div c_one s) in H. fold q in H. rewrite c_one_val in H.
    assert (Hq : 0 <= 1 / B2R s <= 1).
    { split; [apply Rlt_le, Rdiv_lt_0_compat; lra|].
      apply (Rmult_le_reg_r (B2R s)); [lra|]. unfold Rdiv. rewrite Rmult_assoc, Rinv_l by exact Hnz. lra. }
    assert (Hr : 0 <= rnd (1 / B2R s) <= 1).
    { split.
      - rewrite <- (round_0 radix2 fexp32 (round_mode mode_NE)).
        apply round_le; [exact valid_exp32|exact valid_rnd32|lra].
      - rewrite <- (round_generic radix2 fexp32 (round_mode mode_NE) 1) at 2.
        + apply round_le; [exact valid_exp32|exact valid_rnd32|lra].
        + rewrite <- c_one_val. apply generic_format_B2R. }
    assert (Hb : Rabs (rnd (1 / B2R s)) < bpow radix2 emax32).
    { rewrite Rabs_pos_eq by lra. apply Rle_lt_trans with 1; [lra|].
      change 1 with (bpow radix2 0). apply bpow_lt. reflexivity. }
    rewrite (Rlt_bool_true _ _ Hb) in H. destruct H as (Hv & Hf & _).
    split; [unfold fin; rewrite Hf; exact c_one_fin|]. rewrite Hv. exact Hr.
  Qed.

  Theorem sigmoid_finite_in_unit_interval (v : f32) :
    fin v -> fin (sigmoid_f N32 v) /\ 0 <= B2R (sigmoid_f N32 v) <= 1.
  Proof.
    intros Hv. unfold sigmoid_f. rewrite one_is. cbn [ndiv nadd nexp nneg NumF32].
    assert (Hn : is_nan (f_neg v) = false).
    { unfold f_neg. destruct v; cbn in *; unfold fin in Hv; cbn in Hv; congruence. }
    destruct (Hexp (f_neg v) Hn) as [Einf | [He Hpos]].
    - rewrite Einf.
      assert (E : f_div c_one (f_add c_one (B754_infinity false)) = B754_zero false) by (vm_compute; reflexivity).
      rewrite E. split; [reflexivity|]. cbn [B2R]. lra.
    - destruct (one_plus _ He Hpos) as [Einf | [Hs Hge]].
      + rewrite Einf.
        assert (E : f_div c_one (B754_infinity false) = B754_zero false) by (vm_compute; reflexivity).
        rewrite E. split; [reflexivity|]. cbn [B2R]. lra.
      + exact (one_over _ Hs Hge).
  Qed.
End F32.

Lemma exp_ok_def (L : Libm) :
  exp_ok L <-> (forall x : f32, is_nan x = false ->
                  via (l_exp L) x = B754_infinity false \/
                  (is_finite (via (l_exp L) x) = true /\ 0 <= B2R (via (l_exp L) x))).
Proof. reflexivity. Qed.
