(* C10: feedback blocks keep their repeated layers weight-tied. *)
From NV Require Import Prelude Num Random Tensor Activation Objective Optimizer Layers Network Learn.
From NV.Theory Require Import Monad.
Set Implicit Arguments.

Section C10.
  Variable N : Num.
  Notation tensor := (tensor N).
  Notation blayer := (blayer N).
  Notation feedback := (feedback N).

  (* the kind of a block layer: what decides how coupled parameters are written back *)
  Inductive bkind := KDense (bias : bool) | KConv | KDeconv | KPool.
  Definition kind (b : blayer) : bkind :=
    match b with
    | BDense l => KDense (match d_bias l with Some _ => true | None => false end)
    | BConv _ => KConv | BDeconv _ => KDeconv | BMaxpool _ => KPool
    end.

  (* the parameters of a layer after the combined set (w, bias) has been written to it *)
  Definition written (k : bkind) (w : list tensor) (bias : option tensor)
    : option (list tensor * option tensor) :=
    match k with
    | KDense true => match nth_error w 0, bias with Some w0, Some b => Some ([w0], Some b) | _, _ => None end
    | KDense false => match nth_error w 0 with Some w0 => Some ([w0], None) | None => None end
    | KConv | KDeconv => Some (w, None)
    | KPool => None
    end.

  Lemma set_weights_spec (b b' : blayer) w bias :
    blayer_set_weights b w bias = Ok b' ->
    kind b' = kind b /\ blayer_weights b' = written (kind b) w bias.
  Proof.
    destruct b as [l|l|l|l]; cbn [blayer_set_weights].
    - unfold nth_res. destruct (nth_error w 0) as [w0|] eqn:E0; [|discriminate]. cbn [bind].
      destruct (d_bias l) as [b0|] eqn:Eb.
      + destruct bias as [b1|]; [|discriminate]. intros H; injection H as <-.
        cbn [kind blayer_weights set_d_params d_bias d_weights written]. rewrite Eb, E0. split; reflexivity.
      + intros H; injection H as <-.
        cbn [kind blayer_weights set_d_params d_bias d_weights written]. rewrite Eb, E0. split; reflexivity.
    - intros H; injection H as <-. split; reflexivity.
    - intros H; injection H as <-. split; reflexivity.
    - intros H; injection H as <-. split; reflexivity.
  Qed.

  Definition kinds (ls : list blayer) : list bkind := map kind ls.

  (* all copies of one couple hold the same parameters *)
  Definition tied_couple (ls : list blayer) (c : list nat) : Prop :=
    forall i j, In i c -> In j c -> option_map (@blayer_weights N) (nth_error ls i) = option_map (@blayer_weights N) (nth_error ls j).
  Definition homogeneous (ls : list blayer) (c : list nat) : Prop :=
    forall i j, In i c -> In j c -> option_map kind (nth_error ls i) = option_map kind (nth_error ls j).
  Definition disjoint (c1 c2 : list nat) : Prop := forall i, In i c1 -> ~ In i c2.

  Lemma nth_error_set_nth_same A (l : list A) i v : i < length l -> nth_error (set_nth l i v) i = Some v.
  Proof. revert i; induction l as [|x l IH]; intros [|i] H; simpl in *; try lia; [reflexivity|apply IH; lia]. Qed.
  Lemma nth_error_set_nth_other A (l : list A) i j v : i <> j -> nth_error (set_nth l i v) j = nth_error l j.
  Proof.
    revert i j; induction l as [|x l IH]; intros [|i] [|j] H; simpl; try reflexivity; try contradiction.
    apply IH. lia.
  Qed.
  Lemma set_nth_len A (l : list A) i v : length (set_nth l i v) = length l.
  Proof. revert i; induction l as [|x l IH]; intros [|i]; simpl; try reflexivity. rewrite IH. reflexivity. Qed.

  (* the write-back loop of the coupling step *)
  Definition write_back (w : list tensor) (bias : option tensor) (couple : list nat) (ls : list blayer)
    : res (list blayer) :=
    foldM (fun ls i => do l <- nth_res ls i; do l' <- blayer_set_weights l w bias; Ok (set_nth ls i l')) couple ls.

  Lemma write_back_spec w bias couple ls ls' :
    write_back w bias couple ls = Ok ls' ->
    kinds ls' = kinds ls /\
    (forall j, ~ In j couple -> nth_error ls' j = nth_error ls j) /\
    (forall i, In i couple -> exists l', nth_error ls' i = Some l' /\
                                         blayer_weights l' = written (kind l') w bias).
  Proof.
    unfold write_back. revert ls; induction couple as [|i c IH]; intros ls H; cbn [foldM] in H.
    - injection H as <-. split; [reflexivity|]. split; [reflexivity|]. intros i [].
    - unfold nth_res in H. destruct (nth_error ls i) as [l|] eqn:El; [|discriminate]. cbn [bind] in H.
      destruct (blayer_set_weights l w bias) as [l'|] eqn:Es; [|discriminate]. cbn [bind] in H.
      destruct (set_weights_spec _ _ _ Es) as [Hk Hw].
      assert (Hi : i < length ls) by (apply nth_error_Some; congruence).
      destruct (IH _ H) as (K & U & W).
      assert (Kset : kinds (set_nth ls i l') = kinds ls).
      { unfold kinds. apply nth_error_eq_ext.
        intros j. rewrite !nth_error_map. destruct (Nat.eq_dec i j) as [<-|Hne].
        - rewrite nth_error_set_nth_same by exact Hi. rewrite El. cbn [option_map]. congruence.
        - rewrite nth_error_set_nth_other by exact Hne. reflexivity. }
      split; [congruence|]. split.
      + intros j Hj. rewrite U by (intros Hc; apply Hj; right; exact Hc).
        apply nth_error_set_nth_other. intros ->. apply Hj. left. reflexivity.
      + intros j [<-|Hj]; [|apply W; exact Hj].
        destruct (in_dec Nat.eq_dec i c) as [Hin|Hnin]; [apply W; exact Hin|].
        rewrite (U i Hnin), nth_error_set_nth_same by exact Hi.
        exists l'. split; [reflexivity|]. rewrite Hk. exact Hw.
  Qed.

  Lemma kinds_nth ls ls' i : kinds ls' = kinds ls -> option_map kind (nth_error ls' i) = option_map kind (nth_error ls i).
  Proof. intros H. unfold kinds in H. rewrite <- !nth_error_map, H. reflexivity. Qed.

  Lemma mapM_in A B (f : A -> res B) l r x :
    mapM f l = Ok r -> In x l -> exists y, f x = Ok y /\ In y r.
  Proof.
    revert r; induction l as [|a l IH]; intros r H Hx; [destruct Hx|]. cbn [mapM] in H.
    destruct (f a) as [y|] eqn:Ea; [|discriminate]. cbn [bind] in H.
    destruct (mapM f l) as [ys|]; [|discriminate]. cbn [bind] in H. injection H as <-.
    destruct Hx as [<-|Hx].
    - exists y. split; [exact Ea|left; reflexivity].
    - destruct (IH ys eq_refl Hx) as (z & Ez & Hz). exists z. split; [exact Ez|right; exact Hz].
  Qed.

  Lemma no_params_members (members : list blayer) b :
    length (flat_map (fun b => match blayer_weights b with Some p => [p] | None => [] end) members) = 0 ->
    In b members -> blayer_weights b = None.
  Proof.
    induction members as [|m ms IH]; intros H Hb; [destruct Hb|]. cbn [flat_map] in H.
    rewrite app_length in H. destruct Hb as [<-|Hb].
    - destruct (blayer_weights m); [cbn [length] in H; lia|reflexivity].
    - apply IH; [lia|exact Hb].
  Qed.

  Lemma couple_one_spec acc ls c ls' :
    couple_one acc ls c = Ok ls' ->
    kinds ls' = kinds ls /\
    (forall j, ~ In j c -> nth_error ls' j = nth_error ls j) /\
    (homogeneous ls c -> tied_couple ls' c).
  Proof.
    unfold couple_one. intros H.
    destruct (mapM (nth_res ls) c) as [members|] eqn:Em; [|discriminate]. cbn [bind] in H.
    match type of H with (if ?c then _ else _) = _ => destruct c eqn:Eps end.
    { (* a couple of parameter-free layers: nothing is written, the copies hold no parameters *)
      injection H as <-. split; [reflexivity|]. split; [reflexivity|]. intros _ i j Hi Hj.
      apply Nat.eqb_eq in Eps.
      destruct (mapM_in _ _ i Em Hi) as (li & Eli & Hli). destruct (mapM_in _ _ j Em Hj) as (lj & Elj & Hlj).
      unfold nth_res in Eli, Elj.
      destruct (nth_error ls i) as [li'|]; [|discriminate]. destruct (nth_error ls j) as [lj'|]; [|discriminate].
      injection Eli as ->. injection Elj as ->. cbn [option_map].
      rewrite (no_params_members _ _ Eps Hli), (no_params_members _ _ Eps Hlj). reflexivity. }
    destruct (couple_lists _ _ _ _) as [w|]; [|discriminate]. cbn [bind] in H.
    match type of H with (do bias <- ?B; _) = _ => destruct B as [bias|]; [|discriminate] end.
    cbn [bind] in H.
    destruct (write_back_spec w bias c ls H) as (K & U & W).
    split; [exact K|]. split; [exact U|].
    intros Hh i j Hi Hj.
    destruct (W i Hi) as (li & Eli & Wi). destruct (W j Hj) as (lj & Elj & Wj).
    rewrite Eli, Elj. cbn [option_map]. rewrite Wi, Wj. do 2 f_equal.
    pose proof (@kinds_nth ls ls' i K) as Ki. pose proof (@kinds_nth ls ls' j K) as Kj.
    rewrite Eli in Ki. rewrite Elj in Kj. cbn [option_map] in Ki, Kj.
    specialize (Hh i j Hi Hj). rewrite <- Ki, <- Kj in Hh. injection Hh as Hh. rewrite Hh. reflexivity.
  Qed.

  Lemma homogeneous_kinds ls ls' c : kinds ls' = kinds ls -> homogeneous ls c -> homogeneous ls' c.
  Proof. intros K H i j Hi Hj. rewrite (@kinds_nth ls ls' i K), (@kinds_nth ls ls' j K). apply H; assumption. Qed.

  Lemma tied_unchanged ls ls' c :
    (forall j, In j c -> nth_error ls' j = nth_error ls j) -> tied_couple ls c -> tied_couple ls' c.
  Proof. intros U H i j Hi Hj. rewrite (U i Hi), (U j Hj). apply H; assumption. Qed.

  (* the coupling loop over all couples *)
  Lemma couple_all_spec acc cs : forall ls ls',
    ForallOrdPairs disjoint cs ->
    Forall (homogeneous ls) cs ->
    foldM (fun ls c => couple_one acc ls c) cs ls = Ok ls' ->
    kinds ls' = kinds ls /\ Forall (tied_couple ls') cs /\
    (forall j, (forall c, In c cs -> ~ In j c) -> nth_error ls' j = nth_error ls j).
  Proof.
    induction cs as [|c cs IH]; intros ls ls' Hd Hh H; cbn [foldM] in H.
    - injection H as <-. repeat split; constructor.
    - destruct (couple_one acc ls c) as [ls1|] eqn:E1; [|discriminate]. cbn [bind] in H.
      destruct (@couple_one_spec acc ls c ls1 E1) as (K1 & U1 & T1).
      inversion Hd as [|? ? Hc Hrest]; subst. inversion Hh as [|? ? Hhc Hhrest]; subst.
      assert (Hh1 : Forall (homogeneous ls1) cs).
      { eapply Forall_impl; [|exact Hhrest]. intros c' Hc'. exact (@homogeneous_kinds ls ls1 c' K1 Hc'). }
      destruct (IH ls1 ls' Hrest Hh1 H) as (K & T & U).
      split; [congruence|]. split.
      + constructor; [|exact T].
        (* the first couple was tied by its own step and is untouched by the later ones *)
        apply (@tied_unchanged ls1 ls' c); [|exact (T1 Hhc)].
        intros j Hj. apply U. intros c' Hc' Hjc'.
        exact (proj1 (Forall_forall _ _) Hc c' Hc' j Hj Hjc').
      + intros j Hj. rewrite U by (intros c' Hc'; apply Hj; right; exact Hc').
        apply U1. apply Hj. left. reflexivity.
  Qed.
  (* ---- the optimizer phase of Feedback::update keeps every layer's kind and position ---- *)
  Lemma update_dense_kind o i st (l l' : dense N) wg bg o' :
    update_dense o i st l wg bg = Ok (o', l') -> kind (BDense l') = kind (BDense l).
  Proof.
    unfold update_dense. destruct (opt_update o i 0 false st (d_weights l) wg) as [[[o1 w1] g1]|]; [|discriminate].
    cbn [bind]. destruct (d_bias l) as [b0|] eqn:Eb.
    - destruct bg as [g|]; [|discriminate]. cbn [bind].
      destruct (opt_update o1 i 0 true st b0 g) as [[[o2 b1] g2]|]; [|discriminate]. cbn [bind].
      intros H; injection H as _ <-. cbn [kind set_d_params d_bias]. rewrite Eb. reflexivity.
    - intros H; injection H as _ <-. cbn [kind set_d_params d_bias]. rewrite Eb. reflexivity.
  Qed.

  Lemma update_blayer_kind o i st (b b' : blayer) wg bg o' :
    update_blayer o i st b wg bg = Ok (o', b') -> kind b' = kind b.
  Proof.
    destruct b as [l|l|l|l]; cbn [update_blayer].
    - destruct (update_dense o i st l wg bg) as [[o1 l1]|] eqn:E; [|discriminate]. cbn [bind].
      intros H; injection H as _ <-. exact (update_dense_kind _ _ _ _ _ _ E).
    - destruct (update_kernels _ _ _ _ _) as [[o1 k1]|]; [|discriminate]. cbn [bind].
      intros H; injection H as _ <-. reflexivity.
    - destruct (update_kernels _ _ _ _ _) as [[o1 k1]|]; [|discriminate]. cbn [bind].
      intros H; injection H as _ <-. reflexivity.
    - intros H; injection H as _ <-. reflexivity.
  Qed.

  Definition opt_phase (stepnr : Z) (wgs : list tensor) (bgs : list (option tensor))
             (st : optimizer N * list blayer) (il : nat * blayer) : res (optimizer N * list blayer) :=
    let '(i, lyr) := il in
    match lyr with
    | BMaxpool _ => Ok (fst st, lyr :: snd st)
    | _ => do wg <- nth_res wgs i; do bg <- nth_res bgs i;
           do r <- update_blayer (fst st) i stepnr lyr wg bg; Ok (fst r, snd r :: snd st)
    end.

  Lemma opt_phase_kinds stepnr wgs bgs L : forall a o acc o' out,
    foldM (opt_phase stepnr wgs bgs) (combine (seq a (length L)) L) (o, acc) = Ok (o', out) ->
    kinds out = rev (kinds L) ++ kinds acc.
  Proof.
    induction L as [|x L IH]; intros a o acc o' out H; cbn [length seq combine foldM] in H.
    - injection H as _ <-. reflexivity.
    - destruct (opt_phase stepnr wgs bgs (o, acc) (a, x)) as [[o1 acc1]|] eqn:E; [|discriminate].
      cbn [bind] in H. rewrite (IH _ _ _ _ _ H).
      assert (K : kinds acc1 = kind x :: kinds acc).
      { unfold opt_phase in E. cbn [fst snd] in E. destruct x as [l|l|l|l].
        1-3: (destruct (nth_res wgs a) as [wg|]; [|discriminate]; cbn [bind] in E;
              destruct (nth_res bgs a) as [bg|]; [|discriminate]; cbn [bind] in E;
              match type of E with (do r <- ?U; _) = _ => destruct U as [[o2 b2]|] eqn:Eu; [|discriminate] end;
              cbn [bind fst snd] in E; injection E as _ <-; cbn [kinds map];
              rewrite (update_blayer_kind _ _ _ _ _ _ Eu); reflexivity).
        injection E as _ <-. reflexivity. }
      rewrite K. cbn [kinds map rev]. rewrite <- app_assoc. reflexivity.
  Qed.

  (* ---- the invariant and the main theorems ---- *)
  Definition wfb (b : feedback) : Prop :=
    ForallOrdPairs disjoint (f_coupled b) /\ Forall (homogeneous (f_layers b)) (f_coupled b).
  Definition Tied (b : feedback) : Prop := Forall (tied_couple (f_layers b)) (f_coupled b).

  Lemma homogeneous_of_kinds ls ls' cs :
    kinds ls' = kinds ls -> Forall (homogeneous ls) cs -> Forall (homogeneous ls') cs.
  Proof. intros K H. eapply Forall_impl; [|exact H]. intros c Hc. exact (@homogeneous_kinds ls ls' c K Hc). Qed.

  Theorem update_tied (b b' : feedback) stepnr wgs bgs :
    wfb b -> feedback_update b stepnr wgs bgs = Ok b' -> wfb b' /\ Tied b'.
  Proof.
    intros [Hd Hh] H. unfold feedback_update in H.
    match type of H with (do st <- ?F; _) = _ => destruct F as [[o layers]|] eqn:E1; [|discriminate] end.
    cbn [bind] in H.
    match type of H with (do l <- ?F; _) = _ => destruct F as [layers'|] eqn:E2; [|discriminate] end.
    cbn [bind] in H. injection H as <-.
    assert (K1 : kinds layers = kinds (f_layers b)).
    { assert (E1' : foldM (opt_phase stepnr wgs bgs)
                          (combine (seq 0 (length (rev (f_layers b)))) (rev (f_layers b))) (f_optimizer b, [])
                    = Ok (o, layers)).
      { rewrite <- E1, rev_length. apply foldM_ext. intros st [i lyr] _. destruct lyr; reflexivity. }
      rewrite (@opt_phase_kinds stepnr wgs bgs (rev (f_layers b)) 0 (f_optimizer b) [] o layers E1').
      cbn [kinds map]. rewrite app_nil_r.
      unfold kinds. rewrite map_rev, rev_involutive. reflexivity. }
    destruct (@couple_all_spec (f_accumulation b) (f_coupled b) layers layers' Hd
                (@homogeneous_of_kinds (f_layers b) layers (f_coupled b) K1 Hh) E2) as (K2 & T & _).
    split; [split|].
    - exact Hd.
    - cbn [f_layers f_coupled set_f_optimizer set_f_layers]. apply (@homogeneous_of_kinds (f_layers b) layers' (f_coupled b)); [congruence|exact Hh].
    - exact T.
  Qed.

  (* any number of updates keeps the block tied *)
  Theorem tied_forever (b : feedback) (steps : list (Z * list tensor * list (option tensor))) b' :
    wfb b -> Tied b ->
    foldM (fun blk (s : Z * list tensor * list (option tensor)) => feedback_update blk (fst (fst s)) (snd (fst s)) (snd s)) steps b = Ok b' ->
    wfb b' /\ Tied b'.
  Proof.
    revert b; induction steps as [|s steps IH]; intros b Hw Ht H; cbn [foldM] in H.
    - injection H as <-. split; assumption.
    - destruct (feedback_update b (fst (fst s)) (snd (fst s)) (snd s)) as [b1|] eqn:E; [|discriminate].
      cbn [bind] in H. destruct (update_tied _ _ _ Hw E) as [Hw1 Ht1]. exact (IH b1 Hw1 Ht1 H).
  Qed.

  (* ---- creation ---- *)
  Lemma nth_error_concat_repeat A (L : list A) loops l i :
    l < length L -> i < loops -> nth_error (concat (repeat L loops)) (l + i * length L) = nth_error L l.
  Proof.
    revert i; induction loops as [|n IH]; intros i Hl Hi; [lia|].
    cbn [repeat concat]. destruct i as [|i].
    - rewrite Nat.mul_0_l, Nat.add_0_r. apply nth_error_app1. exact Hl.
    - replace (l + S i * length L) with (length L + (l + i * length L)) by lia.
      rewrite nth_error_app2 by lia. replace (length L + (l + i * length L) - length L) with (l + i * length L) by lia.
      apply IH; lia.
  Qed.

  Theorem create_tied layers loops inskips outskips acc (b : feedback) :
    feedback_create layers loops inskips outskips acc = Ok b -> wfb b /\ Tied b.
  Proof.
    unfold feedback_create. intros H.
    destruct (0 <? loops) eqn:El; [|discriminate].
    destruct layers as [|first rest] eqn:EL; [discriminate|]. rewrite <- EL in *.
    destruct (last_opt layers) as [lst|]; [|discriminate].
    destruct (shape_eqb _ _); [|discriminate]. injection H as <-.
    unfold wfb, Tied. cbn [f_coupled f_layers].
    set (len := length layers).
    assert (Hlen : 0 < len) by (subst len; rewrite EL; simpl; lia).
    assert (Hmem : forall l c, In c [map (fun i => l + i * len) (seq 0 loops)] -> True) by auto.
    assert (Hval : forall l j, l < len -> In j (map (fun i => l + i * len) (seq 0 loops)) ->
                   nth_error (concat (repeat layers loops)) j = nth_error layers l).
    { intros l j Hl Hj. apply in_map_iff in Hj. destruct Hj as (i & <- & Hi). apply in_seq in Hi.
      apply nth_error_concat_repeat; [exact Hl|lia]. }
    split; [split|].
    - (* couples are pairwise disjoint: every member of couple l is congruent to l modulo len *)
      assert (Hmod : forall l j, l < len -> In j (map (fun i => l + i * len) (seq 0 loops)) -> j mod len = l).
      { intros l j Hl Hj. apply in_map_iff in Hj. destruct Hj as (i & <- & _).
        rewrite Nat.mod_add by lia. apply Nat.mod_small. exact Hl. }
      assert (G : forall ls, NoDup ls -> (forall l, In l ls -> l < len) ->
                  ForallOrdPairs disjoint (map (fun l => map (fun i => l + i * len) (seq 0 loops)) ls)).
      { induction ls as [|l ls IHls]; intros Hnd Hlt; [constructor|].
        cbn [map]. inversion Hnd as [|? ? Hnin Hnd']; subst. constructor.
        - apply Forall_forall. intros c Hc. apply in_map_iff in Hc. destruct Hc as (l' & <- & Hl').
          intros j Hj1 Hj2.
          pose proof (Hmod l j (Hlt l (or_introl eq_refl)) Hj1) as M1.
          pose proof (Hmod l' j (Hlt l' (or_intror Hl')) Hj2) as M2.
          apply Hnin. rewrite <- M1, M2. exact Hl'.
        - apply IHls; [exact Hnd'|]. intros l' Hl'. apply Hlt. right. exact Hl'. }
      apply G; [apply seq_NoDup|]. intros l Hl. apply in_seq in Hl. lia.
    - apply Forall_forall. intros c Hc. apply in_map_iff in Hc. destruct Hc as (l & <- & Hl). apply in_seq in Hl.
      intros i j Hi Hj. rewrite (Hval l i), (Hval l j) by (lia || assumption). reflexivity.
    - apply Forall_forall. intros c Hc. apply in_map_iff in Hc. destruct Hc as (l & <- & Hl). apply in_seq in Hl.
      intros i j Hi Hj. rewrite (Hval l i), (Hval l j) by (lia || assumption). reflexivity.
  Qed.

  (* the reported parameter count counts one repetition: the first |coupled| layers *)
  Theorem parameters_counts_once (b : feedback) :
    feedback_parameters b =
    foldM (fun acc idx => do l <- nth_res (f_layers b) idx; do p <- blayer_parameters l; Ok (acc + p))
          (seq 0 (length (f_coupled b))) 0.
  Proof. reflexivity. Qed.

  (* ---- the network's update: every feedback block of the updated network is tied ---- *)
  Definition blocks (P : feedback -> Prop) (ls : list (layer N)) : Prop :=
    Forall (fun l => match l with LFeedback b => P b | _ => True end) ls.

  Theorem net_update_tied (n n' : network N) stepnr wgs bgs :
    blocks wfb (n_layers n) -> update n stepnr wgs bgs = Ok n' ->
    blocks (fun b => wfb b /\ Tied b) (n_layers n').
  Proof.
    intros Hw H. unfold update in H.
    match type of H with (do st <- ?F; _) = _ => destruct F as [st|] eqn:E; [|discriminate] end.
    cbn [bind] in H. injection H as <-. cbn [n_layers].
    assert (Hr : blocks wfb (rev (n_layers n))).
    { apply Forall_forall. intros l Hl. apply in_rev in Hl. exact (proj1 (Forall_forall _ _) Hw l Hl). }
    revert E. generalize (n_optimizer n). generalize (seq 0 (length (n_layers n))).
    assert (Hnil : blocks (fun b => wfb b /\ Tied b) []) by constructor.
    revert Hnil. generalize (@nil (layer N)). revert st Hr. generalize (rev (n_layers n)).
    induction l as [|lyr ls IH]; intros st Hr acc Hacc idx o E.
    - destruct idx; cbn [combine foldM] in E; injection E as <-; exact Hacc.
    - destruct idx as [|i idx]; [cbn [combine foldM] in E; injection E as <-; exact Hacc|].
      cbn [combine foldM] in E. inversion Hr as [|? ? Hl Hls]; subst.
      match type of E with (do s1 <- ?F; _) = _ => destruct F as [[o1 acc1]|] eqn:E1; [|discriminate] end.
      cbn [bind] in E. refine (IH st Hls acc1 _ idx o1 E). clear E IH.
      cbn [fst snd] in E1.
      destruct lyr as [d|c|dc|m|b].
      + destruct (nth_res wgs i) as [wg|]; [|discriminate]. cbn [bind] in E1.
        destruct (nth_res bgs i) as [bg|]; [|discriminate]. cbn [bind] in E1.
        destruct wg; try discriminate.
        match type of E1 with (do r <- ?F; _) = _ => destruct F as [r|]; [|discriminate] end.
        cbn [bind] in E1. injection E1 as _ <-. constructor; [exact I|exact Hacc].
      + destruct (nth_res wgs i) as [wg|]; [|discriminate]. cbn [bind] in E1.
        destruct wg; try discriminate.
        match type of E1 with (do r <- ?F; _) = _ => destruct F as [r|]; [|discriminate] end.
        cbn [bind] in E1. injection E1 as _ <-. constructor; [exact I|exact Hacc].
      + destruct (nth_res wgs i) as [wg|]; [|discriminate]. cbn [bind] in E1.
        destruct wg; try discriminate.
        match type of E1 with (do r <- ?F; _) = _ => destruct F as [r|]; [|discriminate] end.
        cbn [bind] in E1. injection E1 as _ <-. constructor; [exact I|exact Hacc].
      + injection E1 as _ <-. constructor; [exact I|exact Hacc].
      + destruct (nth_res wgs i) as [wg|]; [|discriminate]. cbn [bind] in E1.
        destruct (nth_res bgs i) as [bg|]; [|discriminate]. cbn [bind] in E1.
        destruct wg; try discriminate. destruct bg as [bg|]; try discriminate.
        destruct bg; try discriminate.
        match type of E1 with (do r <- ?F; _) = _ => destruct F as [b'|] eqn:Eb; [|discriminate] end.
        cbn [bind] in E1. injection E1 as _ <-. constructor; [|exact Hacc].
        exact (update_tied _ _ _ Hl Eb).
  Qed.

  Lemma blocks_weaken (P Q : feedback -> Prop) ls : (forall b, P b -> Q b) -> blocks P ls -> blocks Q ls.
  Proof.
    intros PQ H. eapply Forall_impl; [|exact H]. intros l Hl. destruct l; try exact I. exact (PQ _ Hl).
  Qed.

  (* any number of network training steps, with any gradients, keeps every block of the network tied *)
  Theorem net_tied_forever (n n' : network N)
          (steps : list (Z * list (grad N) * list (option (bgrad N)))) :
    blocks (fun b => wfb b /\ Tied b) (n_layers n) ->
    foldM (fun m (s : Z * list (grad N) * list (option (bgrad N))) =>
             update m (fst (fst s)) (snd (fst s)) (snd s)) steps n = Ok n' ->
    blocks (fun b => wfb b /\ Tied b) (n_layers n').
  Proof.
    revert n; induction steps as [|s steps IH]; intros n Hn H; cbn [foldM] in H.
    - injection H as <-. exact Hn.
    - destruct (update n (fst (fst s)) (snd (fst s)) (snd s)) as [n1|] eqn:E; [|discriminate].
      cbn [bind] in H. refine (IH n1 _ H).
      exact (net_update_tied _ _ _ _ (blocks_weaken _ (fun b Hb => proj1 Hb) Hn) E).
  Qed.
End C10.

(* ---- an invariant of the state that every step and every validation preserves holds after the
        generic epoch loop, whatever the data, batches, losses and stopping point ---- *)
Section LoopInv.
  Variable N : Num.
  Variable pmap : pmap_t.
  Variables (S X G : Type).
  Variable sample : S -> X -> res (G * T N).
  Variable gadd : G -> G -> res G.
  Variable step : Z -> S -> G -> res S.
  Variable valid : S -> res (S * (T N * T N)).
  Variable Inv : S -> Prop.
  Hypothesis Hstep : forall e s g s', Inv s -> step e s g = Ok s' -> Inv s'.
  Hypothesis Hvalid : forall s s' r, Inv s -> valid s = Ok (s', r) -> Inv s'.

  Lemma run_batch_inv e s group s' l :
    Inv s -> run_batch N pmap sample gadd step e s group = Ok (s', l) -> Inv s'.
  Proof.
    intros Hi H. unfold run_batch in H.
    match type of H with (do rs <- ?F; _) = _ => destruct F as [rs|]; [|discriminate] end.
    cbn [bind] in H.
    match type of H with (check ?c else _; _) = _ => destruct c; [|discriminate] end.
    destruct rs as [|r0 rest]; [discriminate|].
    match type of H with (do g <- ?F; _) = _ => destruct F as [g|]; [|discriminate] end.
    cbn [bind] in H. destruct (step e s g) as [s1|] eqn:Es; [|discriminate].
    cbn [bind] in H. injection H as <- _. eapply Hstep; eassumption.
  Qed.

  Lemma run_epoch_inv e bs : forall s s' l,
    Inv s -> run_epoch N pmap sample gadd step e s bs = Ok (s', l) -> Inv s'.
  Proof.
    intros s s' l Hi H. unfold run_epoch in H.
    match type of H with (do r <- ?F; _) = _ => destruct F as [r|] eqn:E; [|discriminate] end.
    cbn [bind] in H. injection H as <- _.
    assert (G0 : Inv (fst (s, @zero N))) by exact Hi.
    revert E G0. generalize (s, @zero N). clear Hi.
    induction bs as [|b bs IH]; intros st E G0; cbn [foldM] in E.
    - injection E as <-. exact G0.
    - destruct (run_batch N pmap sample gadd step e (fst st) b) as [[s1 l1]|] eqn:Eb; [|discriminate].
      cbn [bind fst snd] in E. refine (IH _ E _). cbn [fst]. eapply run_batch_inv; eassumption.
  Qed.

  Lemma epochs_loop_inv fuel : forall e hv th bs s h s' h',
    Inv s -> epochs_loop pmap sample gadd step valid fuel e hv th bs s h = Ok (s', h') -> Inv s'.
  Proof.
    induction fuel as [|k IH]; intros e hv th bs s h s' h' Hi H; cbn [epochs_loop] in H.
    - injection H as <- _. exact Hi.
    - destruct (run_epoch N pmap sample gadd step e s bs) as [[s1 l]|] eqn:Er; [|discriminate].
      cbn [bind] in H. assert (Hi1 : Inv s1) by (eapply run_epoch_inv; eassumption).
      destruct hv.
      + destruct (valid s1) as [[s2 r]|] eqn:Ev; [|discriminate]. cbn [bind fst snd] in H.
        assert (Hi2 : Inv s2) by (eapply Hvalid; eassumption).
        match type of H with (do stop <- ?F; _) = _ => destruct F as [stop|]; [|discriminate] end.
        cbn [bind] in H. destruct stop.
        * injection H as <- _. exact Hi2.
        * exact (IH _ _ _ _ _ _ _ _ Hi2 H).
      + cbn [bind] in H.
        match type of H with (do stop <- ?F; _) = _ => destruct F as [stop|]; [|discriminate] end.
        cbn [bind] in H. destruct stop.
        * injection H as <- _. exact Hi1.
        * exact (IH _ _ _ _ _ _ _ _ Hi1 H).
  Qed.
End LoopInv.

(* ---- learn: every feedback block of the trained network is tied ---- *)
Section LearnTied.
  Variable N : Num.
  Notation OK := (fun b : feedback N => wfb b /\ Tied b).

  Lemma kind_set_training t (x : blayer N) : kind (blayer_set_training t x) = kind x.
  Proof. destruct x; reflexivity. Qed.
  Lemma weights_set_training t (x : blayer N) : blayer_weights (blayer_set_training t x) = blayer_weights x.
  Proof. destruct x; reflexivity. Qed.

  Lemma feedback_training_ok (b : feedback N) t : OK b -> OK (feedback_training b t).
  Proof.
    intros [[Hd Hh] Ht]. unfold feedback_training, wfb, Tied. cbn [f_layers f_coupled set_f_layers].
    split; [split|].
    - exact Hd.
    - eapply Forall_impl; [|exact Hh]. intros c Hc i j Hi Hj.
      rewrite !nth_error_map. specialize (Hc i j Hi Hj).
      destruct (nth_error (f_layers b) i), (nth_error (f_layers b) j); cbn [option_map] in *;
        rewrite ?kind_set_training; try exact Hc; try discriminate.
    - eapply Forall_impl; [|exact Ht]. intros c Hc i j Hi Hj.
      rewrite !nth_error_map. specialize (Hc i j Hi Hj).
      destruct (nth_error (f_layers b) i), (nth_error (f_layers b) j); cbn [option_map] in *;
        rewrite ?weights_set_training; try exact Hc; try discriminate.
  Qed.

  Lemma layer_set_training_ok t (l : layer N) :
    match l with LFeedback b => OK b | _ => True end ->
    match layer_set_training t l with LFeedback b => OK b | _ => True end.
  Proof. destruct l; cbn [layer_set_training blayer_set_training lift_b]; try exact (fun _ => I). apply feedback_training_ok. Qed.

  Lemma set_all_training_ok t (n : network N) :
    blocks OK (n_layers n) -> blocks OK (n_layers (set_all_training t n)).
  Proof.
    unfold set_all_training, blocks. cbn [n_layers set_layers]. intros H.
    apply Forall_forall. intros l Hl. apply in_map_iff in Hl. destruct Hl as (l0 & <- & Hl0).
    apply layer_set_training_ok. exact (proj1 (Forall_forall _ _) H l0 Hl0).
  Qed.

  Lemma validate_clear_ok (ls : list (layer N)) : forall tr,
    blocks OK ls -> blocks OK (fst (validate_clear ls tr)).
  Proof.
    induction ls as [|l ls IH]; intros tr H; [exact H|].
    inversion H as [|? ? Hl Hls]; subst.
    destruct l; cbn [validate_clear];
      match goal with |- context [validate_clear ls ?t] =>
        specialize (IH t Hls); destruct (validate_clear ls t) as [rest' t'] end;
      cbn [fst] in *; constructor; try exact IH;
      first [exact I | apply layer_set_training_ok; exact Hl].
  Qed.

  Lemma validate_ok p (n n' : network N) xs ts tol r :
    blocks OK (n_layers n) -> validate p n xs ts tol = Ok (n', r) -> blocks OK (n_layers n').
  Proof.
    intros Hn H. unfold validate in H.
    pose proof (validate_clear_ok false Hn) as Hc.
    destruct (validate_clear (n_layers n) false) as [ls training]. cbn [fst] in Hc.
    match type of H with (do rs <- ?F; _) = _ => destruct F as [rs|]; [|discriminate] end.
    cbn [bind] in H. injection H as <- _.
    destruct training; [apply set_all_training_ok|]; cbn [n_layers set_layers]; exact Hc.
  Qed.

  (* after learn - all epochs or early stopping, any data, batch size, optimizer, with or without
     validation data - every feedback block of the returned network is well-formed and tied *)
  Theorem learn_keeps_blocks_tied p (n n' : network N) xs ts val batch epochs h :
    blocks OK (n_layers n) -> learn p n xs ts val batch epochs = Ok (n', h) -> blocks OK (n_layers n').
  Proof.
    intros Hn H. unfold learn in H. destruct (negb (batch =? 0)); [|discriminate].
    match type of H with (do r <- ?E; _) = _ => destruct E as [[s hh]|] eqn:El; [|discriminate] end.
    cbn [bind fst snd] in H. injection H as <- _.
    apply set_all_training_ok.
    refine (@epochs_loop_inv N p _ _ _ _ _ _ _ (fun m => blocks OK (n_layers m)) _ _ _ _ _ _ _ _ _ _ _ _ El).
    - intros e m g m' Hm Hs. unfold net_step in Hs.
      exact (net_update_tied _ _ _ _ (blocks_weaken _ (fun b Hb => proj1 Hb) Hm) Hs).
    - intros m m' r Hm Hv. destruct val as [[[vi vt] th]|]; [|discriminate].
      exact (validate_ok _ _ _ _ _ Hm Hv).
    - apply set_all_training_ok. exact Hn.
  Qed.
End LearnTied.

(* ---- learn changes layers and optimizer state only: the connection maps, accumulations, input shape
        and objective of the returned network are those of the network it was called on ---- *)
Section LearnFrame.
  Variable N : Num.

  Definition same_arch (a b : network N) : Prop :=
    n_input a = n_input b /\ n_loopbacks a = n_loopbacks b /\ n_loopacc a = n_loopacc b /\
    n_connect a = n_connect b /\ n_skipacc a = n_skipacc b /\ n_objective a = n_objective b.

  Lemma same_arch_refl a : same_arch a a.
  Proof. repeat split. Qed.

  Lemma same_arch_trans a b c : same_arch a b -> same_arch b c -> same_arch a c.
  Proof.
    intros (A1 & A2 & A3 & A4 & A5 & A6) (B1 & B2 & B3 & B4 & B5 & B6).
    repeat split; congruence.
  Qed.

  Lemma set_layers_same_arch (n : network N) ls : same_arch (set_layers n ls) n.
  Proof. repeat split. Qed.

  Lemma set_all_training_same_arch t (n : network N) : same_arch (set_all_training t n) n.
  Proof. repeat split. Qed.

  Lemma update_same_arch (n n' : network N) stepnr wgs bgs :
    update n stepnr wgs bgs = Ok n' -> same_arch n' n.
  Proof.
    unfold update. intros H.
    match type of H with (do st <- ?F; _) = _ => destruct F as [st|]; [|discriminate] end.
    cbn [bind] in H. injection H as <-. repeat split.
  Qed.

  Lemma validate_same_arch p (n n' : network N) xs ts tol r :
    validate p n xs ts tol = Ok (n', r) -> same_arch n' n.
  Proof.
    unfold validate. destruct (validate_clear (n_layers n) false) as [ls training]. intros H.
    match type of H with (do rs <- ?F; _) = _ => destruct F as [rs|]; [|discriminate] end.
    cbn [bind] in H. injection H as <- _. destruct training; repeat split.
  Qed.

  Theorem learn_same_arch p (n n' : network N) xs ts val batch epochs h :
    learn p n xs ts val batch epochs = Ok (n', h) -> same_arch n' n.
  Proof.
    intros H. unfold learn in H. destruct (negb (batch =? 0)); [|discriminate].
    match type of H with (do r <- ?E; _) = _ => destruct E as [[s hh]|] eqn:El; [|discriminate] end.
    cbn [bind fst snd] in H. injection H as <- _.
    apply same_arch_trans with s; [apply set_all_training_same_arch|].
    refine (@epochs_loop_inv N p _ _ _ _ _ _ _ (fun m => same_arch m n) _ _ _ _ _ _ _ _ _ _ _ _ El).
    - intros e m g m' Hm Hs. unfold net_step in Hs.
      exact (same_arch_trans (update_same_arch _ _ _ _ Hs) Hm).
    - intros m m' r Hm Hv. destruct val as [[[vi vt] th]|]; [|discriminate].
      exact (same_arch_trans (validate_same_arch _ _ _ _ _ Hv) Hm).
    - apply set_all_training_same_arch.
  Qed.
End LearnFrame.
