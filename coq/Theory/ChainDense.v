(* C01: a dense layer is a stage in the sense of Theory/Chain.v, the mean-squared-error objective
   satisfies the objective contract, hence for every multi-layer perceptron (any depth, widths,
   activations differentiable at the pre-activations) the reverse layer walk returns the derivative
   of the objective along every differentiable change of all weights, biases and the input. *)
From NV.Theory Require Import RSum Adjoint Deriv Chain.
Require Import Reals Lra Lia List.
From Coquelicot Require Import Coquelicot.
Import ListNotations.
Local Open Scope list_scope.
Local Open Scope R_scope.
Set Implicit Arguments.

Section DenseStage.
  Variables (o n : nat) (phi phi' : R -> R).

  (* parameters: the o x n weights in row-major order, then the o biases *)
  Definition Wof (th : vec) : nat -> nat -> R := fun i j => th (i * n + j)%nat.
  Definition Bof (th : vec) : nat -> R := fun i => th (o * n + i)%nat.
  Definition pre (th x : vec) (i : nat) : R := affR n (Wof th) (Bof th) x i.

  Definition dense_stage : stage := {|
    din := n; dpar := o * n + o; dout := o;
    sfwd := fun th x i => phi (pre th x i);
    sbwd := fun th x g =>
      let D := fun i => g i * phi' (pre th x i) in
      (fun j => bsum o (fun i => Wof th i j * D i),
       fun k => if (k <? o * n)%nat then D (k / n)%nat * x (k mod n)%nat else D (k - o * n)%nat) |}.

  Lemma dense_stage_ok (theta0 x0 : vec) :
    (forall i, (i < o)%nat -> is_derive phi (pre theta0 x0 i) (phi' (pre theta0 x0 i))) ->
    stage_ok dense_stage theta0 x0.
  Proof.
    intros Hphi Th X Th' X' h0 HT0 HX0 HT HX. cbn [dense_stage din dpar dout sfwd sbwd] in *.
    assert (Epre : forall i, (i < o)%nat -> pre (Th h0) (X h0) i = pre theta0 x0 i).
    { intros i Hi. unfold pre, affR, Wof, Bof. rewrite HT0 by nia. f_equal.
      apply bsum_ext. intros j Hj. rewrite HT0 by nia. rewrite HX0 by exact Hj. reflexivity. }
    assert (HW : forall i j, (i < o)%nat -> (j < n)%nat -> is_derive (fun t => Wof (Th t) i j) h0 (Wof Th' i j))
      by (intros i j Hi Hj; apply HT; nia).
    assert (HB : forall i, (i < o)%nat -> is_derive (fun t => Bof (Th t) i) h0 (Bof Th' i))
      by (intros i Hi; apply HT; nia).
    assert (Hphi' : forall i, (i < o)%nat ->
              is_derive phi (affR n (Wof (Th h0)) (Bof (Th h0)) (X h0) i)
                        (phi' (affR n (Wof (Th h0)) (Bof (Th h0)) (X h0) i))).
    { intros i Hi. fold (pre (Th h0) (X h0) i). rewrite (Epre i Hi). apply Hphi. exact Hi. }
    (* the output tangent *)
    set (Y' := fun i => (bsum n (fun j => Wof Th' i j * X h0 j + Wof (Th h0) i j * X' j) + Bof Th' i)
                        * phi' (pre (Th h0) (X h0) i)).
    exists Y'. split.
    - intros i Hi. unfold Y'.
      apply (is_derive_comp phi (fun t => pre (Th t) (X t) i)); [apply Hphi'; exact Hi|].
      unfold pre, affR. apply @is_derive_plus; [|apply HB; exact Hi].
      apply is_derive_bsum. intros j Hj.
      apply (is_derive_mult (fun t => Wof (Th t) i j) (fun t => X t j)); [apply HW; assumption|apply HX; exact Hj|].
      intros a b. apply Rmult_comm.
    - intros g.
      (* both sides are the derivative of t |-> sum_i g_i * phi (pre_i t) *)
      assert (D1 : is_derive (fun t => bsum o (fun i => g i * phi (pre (Th t) (X t) i))) h0 (dotp o g Y')).
      { unfold dotp. apply is_derive_bsum. intros i Hi.
        apply (is_derive_scal (fun t => phi (pre (Th t) (X t) i)) h0 (g i)).
        unfold Y'. apply (is_derive_comp phi (fun t => pre (Th t) (X t) i)); [apply Hphi'; exact Hi|].
        unfold pre, affR. apply @is_derive_plus; [|apply HB; exact Hi].
        apply is_derive_bsum. intros j Hj.
        apply (is_derive_mult (fun t => Wof (Th t) i j) (fun t => X t j)); [apply HW; assumption|apply HX; exact Hj|].
        intros a b. apply Rmult_comm. }
      pose proof (@dense_reverse_mode o n (fun t => Wof (Th t)) (fun t => Bof (Th t)) X (Wof Th') (Bof Th') X' h0 g phi phi'
                    HW HB HX Hphi') as D2.
      cbv zeta in D2.
      transitivity (Derive (fun t => bsum o (fun i => g i * phi (pre (Th t) (X t) i))) h0);
        [symmetry; apply is_derive_unique; exact D1|].
      etransitivity; [apply is_derive_unique; exact D2|]. clear D1 D2.
      set (D := fun i => g i * phi' (affR n (Wof (Th h0)) (Bof (Th h0)) (X h0) i)).
      unfold dotp. cbn [fst snd]. rewrite bsum_split, bsum_prod. f_equal; [f_equal|].
      + apply bsum_ext. intros i Hi. apply bsum_ext. intros j Hj.
        replace (i * n + j <? o * n)%nat with true by (symmetry; apply Nat.ltb_lt; nia).
        replace ((i * n + j) / n)%nat with i by (apply Nat.div_unique with j; lia).
        replace ((i * n + j) mod n)%nat with j by (apply Nat.mod_unique with i; lia).
        unfold Wof, pre. subst D. cbv beta. ring.
      + apply bsum_ext. intros i Hi.
        replace (o * n + i <? o * n)%nat with false by (symmetry; apply Nat.ltb_ge; lia).
        replace (o * n + i - o * n)%nat with i by lia. unfold Bof, pre. subst D. cbv beta. ring.
      + apply bsum_ext. intros j Hj. unfold pre. subst D. cbv beta. ring.
  Qed.
End DenseStage.

(* ---- the mean-squared-error objective ---- *)
Section MSE.
  Variables (m : nat) (tg : vec).
  Definition mseR (y : vec) : R := bsum m (fun i => (tg i - y i) * (tg i - y i) / INR m).
  Definition mse_gradR (y : vec) : vec := fun i => -2 * (tg i - y i) / INR m.

  Lemma mse_contract (Y : R -> vec) Y' h0 :
    (0 < m)%nat -> dvec m Y h0 Y' ->
    is_derive (fun t => mseR (Y t)) h0 (dotp m (mse_gradR (Y h0)) Y').
  Proof.
    intros Hm HY. unfold mseR, dotp, mse_gradR.
    apply is_derive_bsum. intros i Hi.
    assert (Hn : INR m <> 0) by (apply not_0_INR; lia).
    replace (-2 * (tg i - Y h0 i) / INR m * Y' i) with (scal (Y' i) (-2 * (tg i - Y h0 i) / INR m))
      by (unfold scal; cbn; unfold mult; cbn; ring).
    apply (is_derive_comp (fun u => (tg i - u) * (tg i - u) / INR m) (fun t => Y t i)); [|apply HY; exact Hi].
    auto_derive; [exact I|]. field. exact Hn.
  Qed.
End MSE.

(* ---- multi-layer perceptrons ---- *)
Record dense_spec := { ds_o : nat; ds_n : nat; ds_phi : R -> R; ds_phi' : R -> R;
                       ds_th : R -> vec; ds_th' : vec }.
Definition mlp (ls : list dense_spec) : net :=
  map (fun l => (dense_stage (ds_o l) (ds_n l) (ds_phi l) (ds_phi' l), ds_th l, ds_th' l)) ls.

Theorem mlp_backprop_is_derivative (ls : list dense_spec) (d : nat) (X : R -> vec) (X' : vec) h0 (tg : vec) :
  chained (mlp ls) d -> all_ok (mlp ls) X h0 -> dvec d X h0 X' -> (0 < last_dim (mlp ls) d)%nat ->
  let '(gin, gps) := reverse (mlp ls) X h0 (mse_gradR (last_dim (mlp ls) d) tg) in
  is_derive (fun t => mseR (last_dim (mlp ls) d) tg (run (mlp ls) X t)) h0
            (param_pairing (mlp ls) gps + dotp d gin X').
Proof.
  intros Hch Hok HX Hpos.
  apply (@reverse_accumulation (mlp ls) d X X' h0 (mseR (last_dim (mlp ls) d) tg)
           (mse_gradR (last_dim (mlp ls) d) tg) Hch Hok HX).
  intros Y Y' HY. apply mse_contract; assumption.
Qed.

(* with activations differentiable everywhere (linear, sigmoid, tanh) the local contracts hold at
   every point: the theorem above is not vacuous *)
Lemma mlp_all_ok (ls : list dense_spec) h0 : forall (X : R -> vec),
  List.Forall (fun l => (forall u, is_derive (ds_phi l) u (ds_phi' l u)) /\
                   dvec (ds_o l * ds_n l + ds_o l) (ds_th l) h0 (ds_th' l)) ls ->
  all_ok (mlp ls) X h0.
Proof.
  induction ls as [|l ls IH]; intros X H; [exact I|].
  pose proof (Forall_inv H) as [Hphi Hth]. cbn [mlp map all_ok]. split; [|split].
  - apply dense_stage_ok. intros i _. apply Hphi.
  - exact Hth.
  - apply IH. exact (Forall_inv_tail H).
Qed.

(* the dense stage reads its parameters and input only inside their dimensions *)
Lemma dense_stage_local o n phi phi' (th th' x x' : vec) :
  (forall i, (i < o * n + o)%nat -> th i = th' i) -> (forall i, (i < n)%nat -> x i = x' i) ->
  forall i, (i < o)%nat -> sfwd (dense_stage o n phi phi') th x i = sfwd (dense_stage o n phi phi') th' x' i.
Proof.
  intros Ht Hx i Hi. cbn [dense_stage sfwd]. f_equal. unfold pre, affR, Wof, Bof.
  rewrite (Ht (o * n + i)%nat) by lia. f_equal. apply bsum_ext. intros j Hj.
  rewrite (Ht (i * n + j)%nat) by nia. rewrite (Hx j Hj). reflexivity.
Qed.
