(* C01: the cells of the model's forward and backward passes, instantiated at the reals, are the
   operators of Theory/Adjoint.v and Theory/Deriv.v. *)
From NV Require Import Prelude Num NumR Random Tensor Activation Layers.
From NV.Theory Require Import Monad Lists Build Conv Forward RSum Adjoint Deriv.
Require Import Reals Lra Lia List.
Import ListNotations.
Local Open Scope R_scope.
Set Implicit Arguments.

Notation z0 := (@Num.zero NumR).

(* ---- convolution, forward ---- *)
Lemma xpad_pad2 (d : vec3 R) ih iw ph pw c i j :
  xpad NumR d ih iw ph pw c i j = pad2 ph pw ih iw (get3 z0 d c) i j.
Proof.
  unfold xpad, pad2, pad1.
  destruct ((ph <=? i)%nat && (i - ph <? ih)%nat); cbn [andb]; [|reflexivity].
  destruct ((pw <=? j)%nat && (j - pw <? iw)%nat); reflexivity.
Qed.

Lemma corr_cell_R (stride dilation : nat * nat) (src : nat -> nat -> nat -> R) (ks : vec4 R) kc kh kw f oy ox :
  corr_cell NumR stride dilation src ks kc kh kw f oy ox
  = bsum3 kc kh kw (fun c h w => get4 z0 ks f c h w
        * src c (oy * fst stride + h * fst dilation)%nat (ox * snd stride + w * snd dilation)%nat).
Proof.
  unfold corr_cell, bsum3.
  rewrite (@fold_acc_bsum kc _ (fun c => bsum kh (fun h => bsum kw (fun w => get4 z0 ks f c h w
     * src c (oy * fst stride + h * fst dilation)%nat (ox * snd stride + w * snd dilation)%nat)))).
  - apply Rplus_0_l.
  - intros acc c _.
    apply (@fold_acc_bsum kh _ (fun h => bsum kw (fun w => get4 z0 ks f c h w
       * src c (oy * fst stride + h * fst dilation)%nat (ox * snd stride + w * snd dilation)%nat))).
    intros acc2 h _.
    apply (@fold_acc_bsum kw _ (fun w => get4 z0 ks f c h w
       * src c (oy * fst stride + h * fst dilation)%nat (ox * snd stride + w * snd dilation)%nat)).
    intros acc3 w _. reflexivity.
Qed.

Theorem conv_cell_is_convR (stride dilation padding : nat * nat) (d : vec3 R) (ks : vec4 R) ih iw kc kh kw f oy ox :
  corr_cell NumR stride dilation (xpad NumR d ih iw (fst padding) (snd padding)) ks kc kh kw f oy ox
  = convR (fst stride) (snd stride) (fst dilation) (snd dilation) (fst padding) (snd padding)
          kc kh kw ih iw (get4 z0 ks) (get3 z0 d) f oy ox.
Proof.
  rewrite corr_cell_R. unfold convR. apply bsum3_ext. intros c h w _ _ _. rewrite xpad_pad2. reflexivity.
Qed.

(* ---- deconvolution, forward ---- *)
Lemma deconv_guard_tap i s p k o (G : nat -> R) :
  (if (i * s <=? o + p)%nat && (o + p - i * s <? k)%nat then G (o + p - i * s)%nat else 0)
  = tapv i s 1 p k o G.
Proof.
  unfold tapv, tap. cbn [Nat.eqb negb]. rewrite Nat.mod_1_r, Nat.div_1_r. cbn [Nat.eqb andb].
  rewrite !Bool.andb_true_r. destruct ((i * s <=? o + p)%nat && (o + p - i * s <? k)%nat); reflexivity.
Qed.

Theorem deconv_cell_is_deconvR (stride padding : nat * nat) (x : vec3 R) (ks : vec4 R) kc ih iw kh kw k oi oj :
  deconv_cell NumR stride padding x ks kc ih iw kh kw k oi oj
  = deconvR (fst stride) (snd stride) (fst padding) (snd padding) kc kh kw ih iw (get4 z0 ks) (get3 z0 x) k oi oj.
Proof.
  unfold deconv_cell, deconvR, conv_igR, bsum3.
  rewrite (@fold_acc_bsum kc _ (fun c => bsum ih (fun i => bsum iw (fun j =>
     tapv i (fst stride) 1 (fst padding) kh oi (fun h => tapv j (snd stride) 1 (snd padding) kw oj (fun w =>
       get3 z0 x c i j * swapK (get4 z0 ks) c k h w)))))).
  - apply Rplus_0_l.
  - intros acc c _.
    apply (@fold_acc_bsum ih _ (fun i => bsum iw (fun j =>
       tapv i (fst stride) 1 (fst padding) kh oi (fun h => tapv j (snd stride) 1 (snd padding) kw oj (fun w =>
         get3 z0 x c i j * swapK (get4 z0 ks) c k h w))))).
    intros acc2 i _.
    apply (@fold_acc_bsum iw _ (fun j =>
       tapv i (fst stride) 1 (fst padding) kh oi (fun h => tapv j (snd stride) 1 (snd padding) kw oj (fun w =>
         get3 z0 x c i j * swapK (get4 z0 ks) c k h w)))).
    intros acc3 j _.
    rewrite <- (deconv_guard_tap i (fst stride) (fst padding) kh oi).
    destruct ((i * fst stride <=? oi + fst padding)%nat && (oi + fst padding - i * fst stride <? kh)%nat) eqn:E1; cbn [andb].
    + rewrite <- (deconv_guard_tap j (snd stride) (snd padding) kw oj).
      destruct ((j * snd stride <=? oj + snd padding)%nat && (oj + snd padding - j * snd stride <? kw)%nat) eqn:E2.
      * unfold swapK. reflexivity.
      * ring.
    + ring.
Qed.

(* ---- convolution, backward: the cells of the model, named ---- *)
Section BackwardCells.
  Variable N : Num.
  Notation T := (T N).

  Definition conv_ig_cell (delta : vec3 T) (ks : vec4 T) (kf oh ow kh kw sh sw dh dw ph pw : nat) (c y x : nat) : T :=
    fold_left (fun acc f =>
      fold_left (fun acc oy =>
        fold_left (fun acc ox =>
          match tap oy sh dh ph kh y, tap ox sw dw pw kw x with
          | Some h, Some w => nadd N acc (nmul N (get3 zero delta f oy ox) (get4 zero ks f c h w))
          | _, _ => acc
          end) (seq 0 ow) acc) (seq 0 oh) acc) (seq 0 kf) zero.

  Definition conv_kg_cell (delta inp : vec3 T) (oh ow ih iw sh sw dh dw ph pw : nat) (f c h w : nat) : T :=
    fold_left (fun acc oy =>
      fold_left (fun acc ox =>
        if (ph <=? oy * sh + h * dh) && (oy * sh + h * dh - ph <? ih)
           && (pw <=? ox * sw + w * dw) && (ox * sw + w * dw - pw <? iw)
        then nadd N acc (nmul N (get3 zero delta f oy ox)
                                (get3 zero inp c (oy * sh + h * dh - ph) (ox * sw + w * dw - pw)))
        else acc) (seq 0 ow) acc) (seq 0 oh) zero.

  Theorem conv_backward_spec (l : conv N) (gradient input output : tensor N)
          gg der0 der inp ih iw oh ow ks kf kc kh kw :
    get_triple gradient (c_outputs l) = Ok gg ->
    act_backward (c_act l) output = Ok der0 ->
    get_triple der0 (c_outputs l) = Ok der ->
    let delta := hadamard3d N gg der (scale N (c_loops l)) in
    get_triple input (c_inputs l) = Ok inp ->
    xdims N inp = Ok (ih, iw) -> xdims N delta = Ok (oh, ow) ->
    mapM (@kernel_data N) (c_kernels l) = Ok ks -> kdims N ks = Ok (kf, kc, kh, kw) ->
    (kf <= length delta)%nat -> (kc <= length inp)%nat ->
    conv_backward l gradient input output =
    (do igt <- t_triple N (build3 kc ih iw
                 (conv_ig_cell delta ks kf oh ow kh kw (fst (c_stride l)) (snd (c_stride l))
                               (fst (c_dilation l)) (snd (c_dilation l)) (fst (c_padding l)) (snd (c_padding l))));
     do kgt <- t_quad N (build4 kf kc kh kw
                 (conv_kg_cell delta inp oh ow ih iw (fst (c_stride l)) (snd (c_stride l))
                               (fst (c_dilation l)) (snd (c_dilation l)) (fst (c_padding l)) (snd (c_padding l))));
     Ok (igt, kgt, None)).
  Proof.
    intros Hg Hd0 Hd delta Hi Hxi Hxd Hks Hkd Hkf Hkc.
    unfold conv_backward. rewrite Hg. cbn [bind]. rewrite Hd0. cbn [bind]. rewrite Hd. cbn [bind].
    rewrite Hi. cbn [bind]. rewrite Hxi. cbn [bind]. fold delta. rewrite Hxd. cbn [bind].
    rewrite Hks. cbn [bind]. rewrite Hkd. cbn [bind].
    destruct (c_stride l) as [sh sw]. destruct (c_dilation l) as [dh dw]. destruct (c_padding l) as [ph pw].
    cbn [fst snd].
    replace (kf <=? length delta)%nat with true by (symmetry; apply Nat.leb_le; exact Hkf).
    replace (kc <=? length inp)%nat with true by (symmetry; apply Nat.leb_le; exact Hkc).
    cbn [bind]. reflexivity.
  Qed.
End BackwardCells.

(* over the reals the named cells are the gradients of Theory/Adjoint.v *)
Theorem conv_ig_cell_R (delta : vec3 R) (ks : vec4 R) kf oh ow kh kw sh sw dh dw ph pw c y x :
  conv_ig_cell NumR delta ks kf oh ow kh kw sh sw dh dw ph pw c y x
  = conv_igR sh sw dh dw ph pw kf kh kw oh ow (get3 z0 delta) (get4 z0 ks) c y x.
Proof.
  unfold conv_ig_cell, conv_igR, bsum3.
  rewrite (@fold_acc_bsum kf _ (fun f => bsum oh (fun oy => bsum ow (fun ox =>
     tapv oy sh dh ph kh y (fun h => tapv ox sw dw pw kw x (fun w => get3 z0 delta f oy ox * get4 z0 ks f c h w)))))).
  - apply Rplus_0_l.
  - intros acc f _.
    apply (@fold_acc_bsum oh _ (fun oy => bsum ow (fun ox =>
       tapv oy sh dh ph kh y (fun h => tapv ox sw dw pw kw x (fun w => get3 z0 delta f oy ox * get4 z0 ks f c h w))))).
    intros acc2 oy _.
    apply (@fold_acc_bsum ow _ (fun ox =>
       tapv oy sh dh ph kh y (fun h => tapv ox sw dw pw kw x (fun w => get3 z0 delta f oy ox * get4 z0 ks f c h w)))).
    intros acc3 ox _. unfold tapv.
    destruct (tap oy sh dh ph kh y); [|ring]. destruct (tap ox sw dw pw kw x); [reflexivity|ring].
Qed.

Theorem conv_kg_cell_R (delta inp : vec3 R) oh ow ih iw sh sw dh dw ph pw f c h w :
  conv_kg_cell NumR delta inp oh ow ih iw sh sw dh dw ph pw f c h w
  = conv_kgR sh sw dh dw ph pw ih iw oh ow (get3 z0 delta) (get3 z0 inp) f c h w.
Proof.
  unfold conv_kg_cell, conv_kgR.
  rewrite (@fold_acc_bsum oh _ (fun oy => bsum ow (fun ox =>
     get3 z0 delta f oy ox * pad2 ph pw ih iw (get3 z0 inp c) (oy * sh + h * dh) (ox * sw + w * dw)))).
  - apply Rplus_0_l.
  - intros acc oy _.
    apply (@fold_acc_bsum ow _ (fun ox =>
       get3 z0 delta f oy ox * pad2 ph pw ih iw (get3 z0 inp c) (oy * sh + h * dh) (ox * sw + w * dw))).
    intros acc2 ox _. unfold pad2, pad1.
    destruct ((ph <=? oy * sh + h * dh)%nat && (oy * sh + h * dh - ph <? ih)%nat); cbn [andb]; [|ring].
    destruct ((pw <=? ox * sw + w * dw)%nat && (ox * sw + w * dw - pw <? iw)%nat) eqn:E.
    + reflexivity.
    + ring.
Qed.

(* ---- deconvolution, backward ---- *)
Section DeconvBackwardCells.
  Variable N : Num.
  Notation T := (T N).

  Definition deconv_ig_cell (delta : vec3 T) (ks : vec4 T) (kf kh kw oh ow sh sw ph pw : nat) (c h w : nat) : T :=
    fold_left (fun acc f =>
      fold_left (fun acc i =>
        fold_left (fun acc j =>
          if (ph <=? h * sh + i) && (h * sh + i - ph <? oh)
             && (pw <=? w * sw + j) && (w * sw + j - pw <? ow)
          then nadd N acc (nmul N (get3 zero delta f (h * sh + i - ph) (w * sw + j - pw))
                                  (get4 zero ks f c i j))
          else acc) (seq 0 kw) acc) (seq 0 kh) acc) (seq 0 kf) zero.

  Definition deconv_kg_cell (delta inp : vec3 T) (ih iw oh ow sh sw ph pw : nat) (f c i j : nat) : T :=
    fold_left (fun acc h =>
      fold_left (fun acc w =>
        if (ph <=? h * sh + i) && (h * sh + i - ph <? oh)
           && (pw <=? w * sw + j) && (w * sw + j - pw <? ow)
        then nadd N acc (nmul N (get3 zero delta f (h * sh + i - ph) (w * sw + j - pw))
                                (get3 zero inp c h w))
        else acc) (seq 0 iw) acc) (seq 0 ih) zero.

  Theorem deconv_backward_spec (l : deconv N) (gradient input output : tensor N)
          gg der0 der inp ih iw oh ow ks kf kc kh kw :
    get_triple gradient (dc_outputs l) = Ok gg ->
    act_backward (dc_act l) output = Ok der0 ->
    get_triple der0 (dc_outputs l) = Ok der ->
    let delta := hadamard3d N gg der (scale N (dc_loops l)) in
    get_triple input (dc_inputs l) = Ok inp ->
    xdims N inp = Ok (ih, iw) -> xdims N delta = Ok (oh, ow) ->
    mapM (@kernel_data N) (dc_kernels l) = Ok ks -> kdims N ks = Ok (kf, kc, kh, kw) ->
    (kf <= length delta)%nat -> (kc <= length inp)%nat ->
    deconv_backward l gradient input output =
    (do igt <- t_triple N (build3 kc ih iw
                 (deconv_ig_cell delta ks kf kh kw oh ow (fst (dc_stride l)) (snd (dc_stride l))
                                 (fst (dc_padding l)) (snd (dc_padding l))));
     do kgt <- t_quad N (build4 kf kc kh kw
                 (deconv_kg_cell delta inp ih iw oh ow (fst (dc_stride l)) (snd (dc_stride l))
                                 (fst (dc_padding l)) (snd (dc_padding l))));
     Ok (igt, kgt, None)).
  Proof.
    intros Hg Hd0 Hd delta Hi Hxi Hxd Hks Hkd Hkf Hkc.
    unfold deconv_backward. rewrite Hg. cbn [bind]. rewrite Hd0. cbn [bind]. rewrite Hd. cbn [bind].
    rewrite Hi. cbn [bind]. rewrite Hxi. cbn [bind]. fold delta. rewrite Hxd. cbn [bind].
    rewrite Hks. cbn [bind]. rewrite Hkd. cbn [bind].
    destruct (dc_stride l) as [sh sw]. destruct (dc_padding l) as [ph pw]. cbn [fst snd].
    replace (kf <=? length delta)%nat with true by (symmetry; apply Nat.leb_le; exact Hkf).
    replace (kc <=? length inp)%nat with true by (symmetry; apply Nat.leb_le; exact Hkc).
    cbn [bind]. reflexivity.
  Qed.
End DeconvBackwardCells.

Lemma guard4_pad2 ph pw oh ow (Y : nat -> nat -> R) a b (v : R) :
  (if (ph <=? a)%nat && (a - ph <? oh)%nat && (pw <=? b)%nat && (b - pw <? ow)%nat
   then Y (a - ph)%nat (b - pw)%nat * v else 0) = pad2 ph pw oh ow Y a b * v.
Proof.
  unfold pad2, pad1.
  destruct ((ph <=? a)%nat && (a - ph <? oh)%nat); cbn [andb]; [|ring].
  destruct ((pw <=? b)%nat && (b - pw <? ow)%nat) eqn:E.
  - reflexivity.
  - ring.
Qed.

Theorem deconv_ig_cell_R (delta : vec3 R) (ks : vec4 R) kf kh kw oh ow sh sw ph pw c h w :
  deconv_ig_cell NumR delta ks kf kh kw oh ow sh sw ph pw c h w
  = deconv_igR sh sw ph pw kf kh kw oh ow (get3 z0 delta) (get4 z0 ks) c h w.
Proof.
  unfold deconv_ig_cell, deconv_igR, convR, bsum3.
  rewrite (@fold_acc_bsum kf _ (fun f => bsum kh (fun i => bsum kw (fun j =>
     swapK (get4 z0 ks) c f i j * pad2 ph pw oh ow (get3 z0 delta f) (h * sh + i * 1) (w * sw + j * 1))))).
  - apply Rplus_0_l.
  - intros acc f _.
    apply (@fold_acc_bsum kh _ (fun i => bsum kw (fun j =>
       swapK (get4 z0 ks) c f i j * pad2 ph pw oh ow (get3 z0 delta f) (h * sh + i * 1) (w * sw + j * 1)))).
    intros acc2 i _.
    apply (@fold_acc_bsum kw _ (fun j =>
       swapK (get4 z0 ks) c f i j * pad2 ph pw oh ow (get3 z0 delta f) (h * sh + i * 1) (w * sw + j * 1))).
    intros acc3 j _. rewrite !Nat.mul_1_r. unfold swapK.
    rewrite (Rmult_comm (get4 z0 ks f c i j)), <- guard4_pad2.
    destruct ((ph <=? h * sh + i)%nat && (h * sh + i - ph <? oh)%nat && (pw <=? w * sw + j)%nat && (w * sw + j - pw <? ow)%nat);
      [reflexivity|ring].
Qed.

Theorem deconv_kg_cell_R (delta inp : vec3 R) ih iw oh ow sh sw ph pw f c i j :
  deconv_kg_cell NumR delta inp ih iw oh ow sh sw ph pw f c i j
  = deconv_kgR sh sw ph pw ih iw oh ow (get3 z0 delta) (get3 z0 inp) f c i j.
Proof.
  unfold deconv_kg_cell, deconv_kgR, conv_kgR.
  rewrite (@fold_acc_bsum ih _ (fun h => bsum iw (fun w =>
     get3 z0 inp c h w * pad2 ph pw oh ow (get3 z0 delta f) (h * sh + i * 1) (w * sw + j * 1)))).
  - apply Rplus_0_l.
  - intros acc h _.
    apply (@fold_acc_bsum iw _ (fun w =>
       get3 z0 inp c h w * pad2 ph pw oh ow (get3 z0 delta f) (h * sh + i * 1) (w * sw + j * 1))).
    intros acc2 w _. rewrite !Nat.mul_1_r.
    rewrite (Rmult_comm (get3 z0 inp c h w)), <- guard4_pad2.
    destruct ((ph <=? h * sh + i)%nat && (h * sh + i - ph <? oh)%nat && (pw <=? w * sw + j)%nat && (w * sw + j - pw <? ow)%nat);
      [reflexivity|ring].
Qed.

(* ---- dense, backward ---- *)
Section DenseBackward.
  Variable N : Num.
  Notation T := (T N).

  Theorem dense_backward_spec (l : dense N) (gradient input output dert : tensor N) k gv dv xv m r0 :
    tshape gradient = SSingle k -> tdata gradient = DSingle gv ->
    (match d_act l with Softmax => ones N (tshape output) | a => act_backward a output end) = Ok dert ->
    tshape dert = SSingle k -> tdata dert = DSingle dv ->
    tdata input = DSingle xv ->
    tdata (d_weights l) = DDouble m -> m = r0 :: tl m -> r0 <> [] ->
    Forall (fun r => length r = length r0) m ->
    let delta := zipk (fun x y => nmul N (nmul N x y) (scale N (d_loops l))) dv gv in
    let dt := mkT (SSingle k) (DSingle delta) in
    dense_backward l gradient input output =
    (do wg <- t_double N (map (fun u => map (fun v => nmul N u v) xv) delta);
     Ok (t_single N (map (fun row => fsum (map2 (nmul N) row delta))
                         (build2 (length r0) (length m) (fun j i => get2 zero m i j))),
         wg, match d_bias l with Some _ => Some dt | None => None end)).
  Proof.
    intros Hgs Hgd Hder Hds Hdd Hx Hw Hm Hr0 Hrows delta dt.
    unfold dense_backward. rewrite Hgs. cbn [bind]. rewrite Hder. cbn [bind].
    unfold hadamard, binop_inplace. rewrite Hds, Hgs. cbn [shape_eqb]. rewrite Nat.eqb_refl. cbn [bind].
    rewrite Hdd, Hgd. cbn [ew2 bind]. fold delta. fold dt.
    unfold product. cbn [tdata dt]. rewrite Hx.
    destruct (t_double N (map (fun u => map (fun v => nmul N u v) xv) delta)) as [wg|]; [|reflexivity].
    cbn [bind]. unfold transpose. rewrite Hw, Hm. rewrite <- Hm.
    replace (forallb (fun r => length r <=? length r0) m) with true.
    2:{ symmetry. apply forallb_forall. intros r Hr. apply Nat.leb_le.
        rewrite (proj1 (Forall_forall _ _) Hrows r Hr). apply Nat.le_refl. }
    cbn [bind]. replace (length r0 =? 0) with false by (symmetry; apply Nat.eqb_neq; destruct r0; [contradiction|discriminate]).
    cbn [negb bind]. unfold dot. cbn [tdata]. reflexivity.
  Qed.
End DenseBackward.

Lemma fsum_map2_build1_R o (f : nat -> R) (dl : list R) :
  length dl = o -> fsum (N := NumR) (map2 Rmult (build1 o f) dl) = bsum o (fun i => f i * nth i dl 0).
Proof.
  intros Hl. rewrite fsum_Rsum. unfold build1, bsum.
  assert (G : forall a o dl, length dl = o ->
            Rsum (map2 Rmult (map f (seq a o)) dl) = Rsum (map (fun i => f (a + i)%nat * nth i dl 0) (seq 0 o))).
  { clear. intros a o. revert a. induction o as [|o IH]; intros a dl Hl.
    - reflexivity.
    - destruct dl as [|x dl]; [discriminate|]. cbn [seq map map2 Rsum nth]. rewrite Nat.add_0_r. f_equal.
      rewrite (IH (S a) dl) by (cbn [length] in Hl; lia).
      rewrite <- seq_shift, map_map. f_equal. apply map_ext. intros i. cbn [nth].
      replace (S a + i)%nat with (a + S i)%nat by lia. reflexivity. }
  rewrite (G 0%nat o dl Hl). reflexivity.
Qed.

(* input gradient entry j of the dense layer: sum_i W[i][j] * delta[i] *)
Theorem dense_ig_entry_R (m : vec2 R) (delta : list R) o n j :
  length delta = o -> (j < n)%nat ->
  nth j (map (fun row => fsum (N := NumR) (map2 Rmult row delta))
             (build2 n o (fun j i => get2 z0 m i j))) 0
  = bsum o (fun i => get2 z0 m i j * nth i delta 0).
Proof.
  intros Hl Hj. unfold build2.
  rewrite (@nth_map_lt _ _ _ _ j 0 []) by (rewrite length_build1; exact Hj).
  rewrite nth_build1 by exact Hj. apply fsum_map2_build1_R. exact Hl.
Qed.

(* weight gradient entry (i, j): delta[i] * x[j] *)
Theorem dense_wg_entry_R (delta xv : list R) i j :
  (i < length delta)%nat -> (j < length xv)%nat ->
  get2 z0 (map (fun u => map (fun v => u * v) xv) delta) i j = nth i delta 0 * nth j xv 0.
Proof.
  intros Hi Hj. unfold get2.
  rewrite (@nth_map_lt _ _ _ _ i [] 0) by exact Hi.
  rewrite (@nth_map_lt _ _ _ _ j 0 0) by exact Hj. reflexivity.
Qed.

(* ---- max-pool, backward ---- *)
Section PoolBackward.
  Variable N : Num.
  Notation T := (T N).

  Definition pool_ig_cell (og : vec3 T) (mx : maxidx) (oh ow : nat) (inv : T) (c a b : nat) : T :=
    fold_left (fun acc h =>
      fold_left (fun acc w =>
        fold_left (fun acc (p : nat * nat) =>
          if (fst p =? a) && (snd p =? b)
          then nmul N (nadd N acc (get3 zero og c h w)) inv
          else acc) (nth w (nth h (nth c mx []) []) []) acc)
        (seq 0 ow) acc) (seq 0 oh) zero.

  Theorem maxpool_backward_spec (l : maxpool N) (gradient : tensor N) (mx : maxidx) ic ih iw og oh ow :
    m_inputs l = STriple ic ih iw ->
    get_triple gradient (m_outputs l) = Ok og -> xdims N og = Ok (oh, ow) ->
    (ic <= length mx)%nat -> (ic <= length og)%nat ->
    (forall c h w p, (c < ic)%nat -> (h < oh)%nat -> (w < ow)%nat ->
                     In p (nth w (nth h (nth c mx []) []) []) -> (fst p < ih)%nat /\ (snd p < iw)%nat) ->
    maxpool_backward l gradient mx =
    t_triple N (build3 ic ih iw (pool_ig_cell og mx oh ow (ndiv N one (m_loops l)))).
  Proof.
    intros Hin Hg Hx Hmx Hog Hidx. unfold maxpool_backward. rewrite Hin, Hg. cbn [bind]. rewrite Hx. cbn [bind].
    replace (ic <=? length mx)%nat with true by (symmetry; apply Nat.leb_le; exact Hmx).
    replace (ic <=? length og)%nat with true by (symmetry; apply Nat.leb_le; exact Hog). cbn [bind].
    match goal with |- (check ?b else _; _) = _ => replace b with true end; [reflexivity|].
    symmetry. apply forallb_forall. intros c Hc. apply in_seq in Hc.
    apply forallb_forall. intros h Hh. apply in_seq in Hh.
    apply forallb_forall. intros w Hw. apply in_seq in Hw.
    apply forallb_forall. intros p Hp.
    destruct (Hidx c h w p ltac:(lia) ltac:(lia) ltac:(lia) Hp) as [H1 H2].
    apply andb_true_iff. split; apply Nat.ltb_lt; assumption.
  Qed.
End PoolBackward.

Theorem pool_ig_cell_R (og : vec3 R) (mx : maxidx) oh ow (iy ix : nat -> nat -> nat -> nat) c a b :
  (forall h w, (h < oh)%nat -> (w < ow)%nat -> nth w (nth h (nth c mx []) []) [] = [(iy c h w, ix c h w)]) ->
  pool_ig_cell NumR og mx oh ow (1 / 1) c a b = pool_igR oh ow (get3 z0 og) iy ix c a b.
Proof.
  intros Hmx. unfold pool_ig_cell, pool_igR.
  rewrite (@fold_acc_bsum oh _ (fun h => bsum ow (fun w =>
     if (iy c h w =? a)%nat && (ix c h w =? b)%nat then get3 z0 og c h w else 0))).
  - apply Rplus_0_l.
  - intros acc h Hh.
    apply (@fold_acc_bsum ow _ (fun w =>
       if (iy c h w =? a)%nat && (ix c h w =? b)%nat then get3 z0 og c h w else 0)).
    intros acc2 w Hw. rewrite (Hmx h w Hh Hw). cbn [fold_left fst snd].
    destruct ((iy c h w =? a)%nat && (ix c h w =? b)%nat); cbn [nmul nadd NumR]; [field|ring].
Qed.

(* ---- the delta of the spatial layers: gradient * activation derivative * loop factor ---- *)
Lemma nth_map2 A B C (f : A -> B -> C) l1 l2 i d1 d2 d :
  (i < length l1)%nat -> (i < length l2)%nat -> nth i (map2 f l1 l2) d = f (nth i l1 d1) (nth i l2 d2).
Proof.
  revert l2 i; induction l1 as [|x l1 IH]; intros [|y l2] i H1 H2; cbn [length] in *; try lia.
  destruct i as [|i]; cbn [map2 nth]; [reflexivity|]. apply IH; lia.
Qed.

Theorem hadamard3d_cell (N : Num) (a b : vec3 (T N)) (s : T N) c h w k i j :
  rect3 c h w a -> rect3 c h w b -> (k < c)%nat -> (i < h)%nat -> (j < w)%nat ->
  get3 zero (hadamard3d N a b s) k i j = nmul N (nmul N (get3 zero a k i j) (get3 zero b k i j)) s.
Proof.
  intros [Hla Hfa] [Hlb Hfb] Hk Hi Hj. unfold hadamard3d, get3. unfold vec3, vec2 in *.
  assert (Hka : (k < length a)%nat) by lia. assert (Hkb : (k < length b)%nat) by lia.
  rewrite (@nth_map2 _ _ _ _ a b k [] [] []) by assumption.
  destruct (proj1 (Forall_forall _ _) Hfa _ (nth_In a [] Hka)) as [Hra Hrowsa].
  destruct (proj1 (Forall_forall _ _) Hfb _ (nth_In b [] Hkb)) as [Hrb Hrowsb].
  assert (Hia : (i < length (nth k a []))%nat) by lia. assert (Hib : (i < length (nth k b []))%nat) by lia.
  rewrite (@nth_map2 _ _ _ _ (nth k a []) (nth k b []) i [] [] []) by assumption.
  pose proof (proj1 (Forall_forall _ _) Hrowsa _ (nth_In _ [] Hia)) as Hwa.
  pose proof (proj1 (Forall_forall _ _) Hrowsb _ (nth_In _ [] Hib)) as Hwb.
  cbv beta in Hwa, Hwb.
  apply (@nth_map2 _ _ _ (fun e f : T N => nmul N (nmul N e f) s)); lia.
Qed.
