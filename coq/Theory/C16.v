(* C16: skip connections. Builder: a connection never discards an earlier one, a second connection
   into the same layer is rejected, everything else that passes the index and size checks is
   accepted. Forward: a network without loop connections processes, at layer b, the configured
   accumulation of its ordinary input with the input that was fed to the source layer a. *)
From NV Require Import Prelude Num Random Tensor Activation Objective Optimizer Layers Network.
From NV.Theory Require Import Monad Alist Lists Build Forward.
Set Implicit Arguments.

Section C16.
  Variable N : Num.
  Notation tensor := (tensor N).

  (* ---- the builder ---- *)
  Theorem connect_keeps_earlier (n n' : network N) a b :
    add_connect n a b = Ok n' ->
    (forall k v, alist_get (n_connect n) k = Some v -> alist_get (n_connect n') k = Some v) /\
    alist_get (n_connect n') b = Some a /\
    alist_get (n_connect n) b = None /\
    n_layers n' = n_layers n /\ n_loopbacks n' = n_loopbacks n /\ n_skipacc n' = n_skipacc n.
  Proof.
    unfold add_connect. destruct (negb _); [|discriminate]. cbn [bind].
    unfold alist_mem. destruct (alist_get (n_connect n) b) eqn:Eb; [discriminate|]. cbn [negb bind].
    destruct (nth_res (n_layers n) a) as [lf|]; [|discriminate]. cbn [bind].
    destruct (nth_res (n_layers n) b) as [lt|]; [|discriminate]. cbn [bind].
    destruct (connect_count lf true) as [cf|]; [|discriminate]. cbn [bind].
    destruct (connect_count lt false) as [ct|]; [|discriminate]. cbn [bind].
    destruct (cf =? ct); [|discriminate]. cbn [bind]. intros H. injection H as <-.
    cbn [n_connect n_layers n_loopbacks n_skipacc]. repeat split; try reflexivity.
    - intros k v Hk. rewrite alist_get_set_other; [exact Hk|]. intros ->. congruence.
    - apply alist_get_set_same.
  Qed.

  Theorem connect_rejects_second_into_same_target (n : network N) a b :
    alist_mem (n_connect n) b = true -> exists c, add_connect n a b = Panic c.
  Proof.
    intros Hm. unfold add_connect. destruct (negb _); [|eexists; reflexivity]. cbn [bind].
    rewrite Hm. eexists; reflexivity.
  Qed.

  Theorem connect_accepts (n : network N) a b lf lt cnt :
    a <= b -> b < length (n_layers n) ->
    alist_get (n_connect n) b = None ->
    nth_error (n_layers n) a = Some lf -> nth_error (n_layers n) b = Some lt ->
    connect_count lf true = Ok cnt -> connect_count lt false = Ok cnt ->
    exists n', add_connect n a b = Ok n' /\ n_connect n' = alist_set (n_connect n) b a.
  Proof.
    intros Hab Hb Hnone Hlf Hlt Hcf Hct. unfold add_connect.
    replace (length (n_layers n) <? a) with false by (symmetry; apply Nat.ltb_ge; lia).
    replace (length (n_layers n) <=? b) with false by (symmetry; apply Nat.leb_gt; lia).
    replace (b <? a) with false by (symmetry; apply Nat.ltb_ge; lia). cbn [orb negb bind].
    unfold alist_mem. rewrite Hnone. cbn [negb bind]. unfold nth_res. rewrite Hlf, Hlt. cbn [bind].
    rewrite Hcf, Hct. cbn [bind]. rewrite Nat.eqb_refl. cbn [bind]. eexists. split; reflexivity.
  Qed.

  (* any sequence of accepted connections keeps all of them *)
  Theorem connects_all_kept (pairs : list (nat * nat)) : forall (n n' : network N),
    foldM (fun m ab => add_connect m (fst ab) (snd ab)) pairs n = Ok n' ->
    (forall k v, alist_get (n_connect n) k = Some v -> alist_get (n_connect n') k = Some v) /\
    (forall ab, In ab pairs -> alist_get (n_connect n') (snd ab) = Some (fst ab)).
  Proof.
    induction pairs as [|[a b] pairs IH]; intros n n' H; cbn [foldM] in H.
    - injection H as <-. split; [auto|intros ab []].
    - cbn [fst snd] in H. destruct (add_connect n a b) as [n1|] eqn:E1; [|discriminate]. cbn [bind] in H.
      destruct (connect_keeps_earlier _ _ _ E1) as (Hk1 & Hb1 & _).
      destruct (IH _ _ H) as (Hk & Hall). split.
      + intros k v Hkv. apply Hk, Hk1, Hkv.
      + intros ab [<-|Hin]; [cbn [fst snd]; apply Hk, Hb1|apply Hall, Hin].
  Qed.

  (* ---- forward ---- *)
  (* what a skip connection does to the input of its target: `s0` is the tensor that was fed to the
     source layer; it is reshaped to the target's representation when the shapes differ *)
  Definition skip_combine (acc : accumulation) (x0 s0 : tensor) : res tensor :=
    do s <- (if shape_eqb (tshape s0) (tshape x0) then Ok s0 else reshape s0 (tshape x0));
    match acc with
    | AccAdd => add_inplace x0 s
    | AccSub => sub_inplace x0 s
    | AccMul => mul_inplace x0 s
    | AccOverwrite => Ok s
    | AccMean => mean_inplace x0 [s]
    end.

  (* acts = [network input; output of layer 0; output of layer 1; ...]: acts[k] is the input that
     was fed to layer k (before any skip accumulation at k) *)
  Definition skip_step (n : network N) (acts : list tensor) (il : nat * layer N) : res (list tensor) :=
    let '(i, l) := il in
    do x0 <- (match last_opt acts with Some t => Ok t | None => Panic P_unwrap end);
    do x <- (match alist_get (n_connect n) i with
             | Some src => do s0 <- nth_res acts src; skip_combine (n_skipacc n) x0 s0
             | None => Ok x0
             end);
    do y <- layer_out l x;
    Ok (acts ++ [y]).

  Definition skip_forward (n : network N) (input : tensor) : res (list tensor) :=
    foldM (skip_step n) (combine (seq 0 (length (n_layers n))) (n_layers n)) [input].

  Lemma skip_step_unfold (n : network N) acts i l :
    skip_step n acts (i, l) =
    (do x0 <- (match last_opt acts with Some t => Ok t | None => Panic P_unwrap end);
     do x <- (match alist_get (n_connect n) i with
              | Some src => do s0 <- nth_res acts src; skip_combine (n_skipacc n) x0 s0
              | None => Ok x0
              end);
     do y <- layer_out l x;
     Ok (acts ++ [y])).
  Proof. reflexivity. Qed.

  Lemma skip_combine_unfold acc (x0 s0 : tensor) :
    skip_combine acc x0 s0 =
    (do s <- (if shape_eqb (tshape s0) (tshape x0) then Ok s0 else reshape s0 (tshape x0));
     match acc with
     | AccAdd => add_inplace x0 s
     | AccSub => sub_inplace x0 s
     | AccMul => mul_inplace x0 s
     | AccOverwrite => Ok s
     | AccMean => mean_inplace x0 [s]
     end).
  Proof. reflexivity. Qed.

  Theorem forward_with_skips (n : network N) (x : tensor) :
    n_loopbacks n = [] ->
    (do f <- forward n x; Ok (fw_post f)) = skip_forward n x.
  Proof.
    intros Hl. unfold forward, skip_forward. rewrite Hl.
    set (layers := n_layers n).
    set (step := fun (st : fwd N) (i : nat) => _).
    assert (G : forall rest done st,
               layers = done ++ rest -> fw_post st <> [] ->
               (do f <- foldM step (seq (length done) (length rest)) st; Ok (fw_post f))
               = foldM (skip_step n) (combine (seq (length done) (length rest)) rest) (fw_post st)).
    { induction rest as [|l rest IH]; intros done st Hlay Hne.
      - reflexivity.
      - cbn [length seq foldM combine]. unfold step at 1. unfold skip_step at 1.
        destruct (last_opt (fw_post st)) as [x0|] eqn:Elast.
        2:{ exfalso. unfold last_opt in Elast. destruct (rev (fw_post st)) eqn:Er; [|discriminate].
            apply (f_equal (@rev _)) in Er. rewrite rev_involutive in Er. cbn [rev] in Er. contradiction. }
        cbn [bind].
        assert (Hx : (match alist_get (n_connect n) (length done) with
                      | Some src =>
                          do s0 <- nth_res (fw_post st) src;
                          do s <- (if shape_eqb (tshape s0) (tshape x0) then Ok s0 else reshape s0 (tshape x0));
                          match n_skipacc n with
                          | AccAdd => add_inplace x0 s
                          | AccSub => sub_inplace x0 s
                          | AccMul => mul_inplace x0 s
                          | AccOverwrite => Ok s
                          | AccMean => mean_inplace x0 [s]
                          end
                      | None => Ok x0
                      end)
                     = (match alist_get (n_connect n) (length done) with
                        | Some src => do s0 <- nth_res (fw_post st) src; skip_combine (n_skipacc n) x0 s0
                        | None => Ok x0
                        end)) by reflexivity.
        rewrite Hx. clear Hx.
        set (XI := match alist_get (n_connect n) (length done) with
                   | Some src => do s0 <- nth_res (fw_post st) src; skip_combine (n_skipacc n) x0 s0
                   | None => Ok x0
                   end).
        destruct XI as [xi|]; [|reflexivity].
        cbn [bind alist_get]. rewrite Hlay at 1. rewrite sub_layers_one.
        pose proof (forward_range_single_cases l xi) as Hcase.
        destruct (forward_range [l] xi) as [r|e].
        + destruct Hcase as (y & Hpost & Hout). rewrite Hout. cbn [bind].
          specialize (IH (done ++ [l])
                         {| fw_pre := fw_pre st ++ fw_pre r; fw_post := fw_post st ++ fw_post r;
                            fw_max := fw_max st ++ fw_max r; fw_fb := fw_fb st ++ fw_fb r |}).
          rewrite app_length in IH. cbn [length] in IH. rewrite Nat.add_1_r in IH.
          cbn [fw_post] in IH. rewrite Hpost in IH. rewrite Hpost. apply IH.
          * rewrite <- app_assoc. exact Hlay.
          * intros E. apply app_eq_nil in E. destruct E as [_ E]. discriminate.
        + rewrite Hcase. reflexivity. }
    apply (G layers [] {| fw_pre := []; fw_post := [x]; fw_max := []; fw_fb := [] |} eq_refl). cbn [fw_post]. discriminate.
  Qed.
End C16.
