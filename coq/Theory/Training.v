(* C13 (early stopping / history lengths), C04 (ordered mini-batch gradient-sum descent),
   C12 (validate / predict_batch as aggregations of predict).
   Everything is proved for the generic training loop of Learn.v, i.e. for arbitrary per-sample,
   accumulate, step and validate functions: every network, optimizer, objective and data set. *)
From NV Require Import Prelude Num Random Tensor Activation Objective Optimizer Layers Network Learn.
From NV.Theory Require Import Monad Chunks Par.
Set Implicit Arguments.

Section Contract.
  Variable N : Num.
  Notation T := (T N).
  Variable pmap : pmap_t.
  Variables (S X G : Type).
  Variable sample : S -> X -> res (G * T).
  Variable gadd : G -> G -> res G.
  Variable step : Z -> S -> G -> res S.
  Variable valid : S -> res (S * (T * T)).

  Notation loop := (epochs_loop pmap sample gadd step valid).

  (* ---------------- C13 ---------------- *)
  (* the stopping rule in closed form: more than T epochs have run and, in the window of the last
     T validation losses (chronological order), no loss is <= its predecessor *)
  Definition window (Tn : nat) (vl : list T) : list T := firstn Tn (rev vl).
  Definition stop_at (Tn : nat) (epoch : Z) (vl : list T) : bool :=
    (Z.of_nat Tn <? epoch)%Z &&
    forallb (fun i => negb (nleb N (nth i (window Tn vl) zero) (nth (i + 1) (window Tn vl) zero)))
            (seq 0 (Tn - 1)).

  Lemma window_increasing_closed Tn vl :
    0 < Tn -> Tn <= length vl ->
    window_increasing N Tn vl
    = Ok (forallb (fun i => negb (nleb N (nth i (window Tn vl) zero) (nth (i + 1) (window Tn vl) zero)))
                  (seq 0 (Tn - 1))).
  Proof.
    intros Hpos Hlen. unfold window_increasing, csub, window. cbv zeta.
    replace (1 <=? Tn) with true by (symmetry; apply Nat.leb_le; lia). cbn [bind].
    set (W := firstn Tn (rev vl)).
    assert (Hw : length W = Tn).
    { unfold W. rewrite firstn_length, rev_length. lia. }
    assert (Hgen : forall l acc, (forall i, In i l -> i + 1 < Tn) ->
      foldM (fun (acc : bool) i =>
               if acc then do a <- nth_res W i; do b <- nth_res W (i + 1);
                           Ok (negb (nleb N a b))
               else Ok false) l acc
      = Ok (acc && forallb (fun i => negb (nleb N (nth i W zero) (nth (i + 1) W zero))) l)).
    { induction l as [|i l IH]; intros acc Hin; cbn [foldM forallb]; [rewrite andb_true_r; reflexivity|].
      assert (Hi : i + 1 < Tn) by (apply Hin; left; reflexivity).
      destruct acc.
      - rewrite (nth_res_nth W zero (i := i)) by lia.
        rewrite (nth_res_nth W zero (i := i + 1)) by lia.
        cbn [bind]. rewrite IH by (intros j Hj; apply Hin; right; exact Hj). reflexivity.
      - cbn [bind]. rewrite IH by (intros j Hj; apply Hin; right; exact Hj). reflexivity. }
    rewrite Hgen; [reflexivity|]. intros i Hi. apply in_seq in Hi. lia.
  Qed.

  Lemma should_stop_closed Tn epoch vl :
    0 < Tn -> ((Z.of_nat Tn < epoch)%Z -> Tn <= length vl) ->
    should_stop N (Some (Z.of_nat Tn)) epoch vl = Ok (stop_at Tn epoch vl).
  Proof.
    intros Hpos Hlen. unfold should_stop, stop_at.
    destruct (Z.of_nat Tn <? epoch)%Z eqn:E; [|reflexivity].
    replace (0 <=? Z.of_nat Tn)%Z with true by (symmetry; apply Z.leb_le; lia).
    rewrite Nat2Z.id, window_increasing_closed; [reflexivity|exact Hpos|].
    apply Hlen. apply Z.ltb_lt. exact E.
  Qed.

  (* the contract of the epoch loop: lengths of the three histories, stop only when the rule
     holds, never continue past the first epoch at which it holds *)
  Theorem epochs_loop_contract fuel e0 hv th bs s h s' h' :
    loop fuel e0 hv th bs s h = Ok (s', h') ->
    exists n,
      n <= fuel /\
      length (h_train h') = length (h_train h) + n /\
      firstn (length (h_vloss h)) (h_vloss h') = h_vloss h /\
      (if hv then length (h_vloss h') = length (h_vloss h) + n /\ length (h_vacc h') = length (h_vacc h) + n
       else h_vloss h' = h_vloss h /\ h_vacc h' = h_vacc h) /\
      (n < fuel -> 0 < n /\ should_stop N th (e0 + Z.of_nat n - 1) (h_vloss h') = Ok true) /\
      (forall k, Datatypes.S k < n ->
         should_stop N th (e0 + Z.of_nat k)
                     (firstn (length (h_vloss h) + (if hv then Datatypes.S k else 0)) (h_vloss h')) = Ok false).
  Proof.
    revert e0 s h; induction fuel as [|f IH]; intros e0 s h H.
    - cbn [epochs_loop] in H. injection H as <- <-. exists 0.
      repeat split; try lia; try apply firstn_all.
      destruct hv; split; lia || reflexivity.
    - cbn [epochs_loop] in H.
      destruct (run_epoch N pmap sample gadd step e0 s bs) as [[s1 l]|c]; [|discriminate].
      cbn [bind] in H.
      set (V := (if hv then do v <- valid s1; Ok (fst v, h_vloss h ++ [fst (snd v)], h_vacc h ++ [snd (snd v)])
                 else Ok (s1, h_vloss h, h_vacc h))) in H.
      destruct V as [[[s2 vl] va]|c] eqn:EV; [|discriminate]. cbn [bind] in H.
      assert (Hvl : if hv then exists a b, vl = h_vloss h ++ [a] /\ va = h_vacc h ++ [b]
                    else vl = h_vloss h /\ va = h_vacc h).
      { subst V. destruct hv.
        - destruct (valid s1) as [[s3 [a b]]|]; [|discriminate]. cbn [bind fst snd] in EV.
          injection EV as _ <- <-. eauto.
        - injection EV as _ <- <-. split; reflexivity. }
      destruct (should_stop N th e0 vl) as [[|]|c] eqn:Estop; [| |discriminate]; cbn [bind] in H.
      + (* stopped after this epoch *)
        injection H as <- <-. exists 1. cbn [h_train h_vloss h_vacc].
        split; [lia|]. split; [rewrite app_length; simpl; lia|].
        split.
        { destruct hv; [destruct Hvl as (a & b & -> & ->); rewrite firstn_app, Nat.sub_diag, firstn_all; simpl; apply app_nil_r
                       |destruct Hvl as [-> _]; apply firstn_all]. }
        split.
        { destruct hv; [destruct Hvl as (a & b & -> & ->); rewrite !app_length; simpl; lia|exact Hvl]. }
        split; [intros _; split; [lia|]; replace (e0 + Z.of_nat 1 - 1)%Z with e0 by lia; exact Estop|].
        intros k Hk. lia.
      + (* continue *)
        destruct (IH _ _ _ H) as (n & Hn & Htr & Hpre & Hlen & Hstop & Hearlier).
        cbn [h_train h_vloss h_vacc] in *.
        exists (Datatypes.S n). split; [lia|].
        split; [rewrite Htr, app_length; simpl; lia|].
        assert (Hpre0 : firstn (length (h_vloss h)) (h_vloss h') = h_vloss h).
        { destruct hv.
          - destruct Hvl as (a & b & -> & ->).
            assert (E : firstn (length (h_vloss h)) (h_vloss h')
                        = firstn (length (h_vloss h)) (firstn (length (h_vloss h ++ [a])) (h_vloss h'))).
            { rewrite firstn_firstn. f_equal. rewrite app_length. simpl. lia. }
            rewrite E, Hpre, firstn_app, Nat.sub_diag, firstn_all. simpl. apply app_nil_r.
          - destruct Hvl as [-> _]. exact Hpre. }
        split; [exact Hpre0|].
        split.
        { destruct hv.
          - destruct Hvl as (a & b & -> & ->). rewrite !app_length in Hlen. simpl in Hlen. lia.
          - destruct Hvl as [-> ->]. exact Hlen. }
        split.
        { intros Hlt. destruct Hstop as [Hpos Hs]; [lia|]. split; [lia|].
          replace (e0 + Z.of_nat (Datatypes.S n) - 1)%Z with (e0 + 1 + Z.of_nat n - 1)%Z by lia. exact Hs. }
        intros k Hk. destruct k as [|k].
        * replace (e0 + Z.of_nat 0)%Z with e0 by lia.
          destruct hv.
          -- destruct Hvl as (a & b & Hv & _). rewrite Hv in Hpre, Estop.
             replace (length (h_vloss h) + 1) with (length (h_vloss h ++ [a])) by (rewrite app_length; simpl; lia).
             rewrite Hpre. exact Estop.
          -- destruct Hvl as [Hv _]. rewrite Nat.add_0_r, Hpre0, <- Hv. exact Estop.
        * specialize (Hearlier k ltac:(lia)).
          replace (e0 + Z.of_nat (Datatypes.S k))%Z with (e0 + 1 + Z.of_nat k)%Z by lia.
          destruct hv.
          -- destruct Hvl as (a & b & Hv & _). rewrite Hv, app_length in Hearlier. simpl in Hearlier.
             replace (length (h_vloss h) + Datatypes.S (Datatypes.S k))
               with (length (h_vloss h) + 1 + Datatypes.S k) by lia. exact Hearlier.
          -- destruct Hvl as [Hv _]. rewrite Hv in Hearlier. exact Hearlier.
  Qed.

  (* without validation data the loop never stops early *)
  Theorem no_validation_runs_all fuel e0 bs s h s' h' :
    loop fuel e0 false None bs s h = Ok (s', h') ->
    length (h_train h') = length (h_train h) + fuel /\ h_vloss h' = h_vloss h /\ h_vacc h' = h_vacc h.
  Proof.
    intros H. destruct (epochs_loop_contract _ _ _ _ _ _ _ H) as (n & Hn & Htr & _ & [Hv Ha] & Hstop & _).
    destruct (Nat.eq_dec n fuel) as [->|Hne]; [auto|].
    destruct Hstop as [_ Hs]; [lia|]. discriminate.
  Qed.
  (* ---------------- a NaN training loss is an abort, not a way of stopping early ---------------- *)
  (* a mini-batch in which some sample's loss is NaN panics: no step is taken and nothing is returned; a
     mini-batch that returns has seen no NaN loss *)
  Lemma run_batch_nan_aborts epoch (s : S) (group : list X) rs :
    sequence (pmap (sample s) group) = Ok rs ->
    existsb (fun r => nisnan N (snd r)) rs = true ->
    exists c, run_batch N pmap sample gadd step epoch s group = Panic c.
  Proof.
    intros Hs Hn. unfold run_batch. rewrite Hs. cbn [bind].
    assert (E : forallb (fun r : G * T => negb (nisnan N (snd r))) rs = false).
    { clear Hs. induction rs as [|r rs IH]; [discriminate|]. cbn [existsb forallb] in *.
      destruct (nisnan N (snd r)); [reflexivity|]. cbn [orb negb andb] in *. apply IH. exact Hn. }
    rewrite E. eexists. reflexivity.
  Qed.

  Lemma run_batch_ok_no_nan epoch (s s' : S) (group : list X) l :
    run_batch N pmap sample gadd step epoch s group = Ok (s', l) ->
    exists rs, sequence (pmap (sample s) group) = Ok rs /\
               forallb (fun r => negb (nisnan N (snd r))) rs = true.
  Proof.
    unfold run_batch. destruct (sequence (pmap (sample s) group)) as [rs|]; [|discriminate]. cbn [bind].
    destruct (forallb _ rs) eqn:E; [|discriminate]. intros _. exists rs. split; [reflexivity|exact E].
  Qed.
End Contract.

(* ---------------- C04 ---------------- *)
Section Descent.
  Variable N : Num.
  Notation T := (T N).
  Variables (S X G : Type).
  (* total per-sample gradient and loss, accumulation and optimizer step *)
  Variable grad : S -> X -> G.
  Variable lossf : S -> X -> T.
  Variable gsum : G -> G -> G.
  Variable opt : Z -> S -> G -> S.
  Hypothesis no_nan : forall s x, nisnan N (lossf s x) = false.

  Definition sample_t (s : S) (x : X) : res (G * T) := Ok (grad s x, lossf s x).
  Definition gadd_t (a b : G) : res G := Ok (gsum a b).
  Definition step_t (e : Z) (s : S) (g : G) : res S := Ok (opt e s g).

  (* the specification: one step per group on the in-order sum of the per-sample gradients, all
     evaluated at the weights held before the step; the group's loss is the mean sample loss *)
  Definition spec_batch (e : Z) (s : S) (group : list X) (d : G) : S :=
    match group with
    | [] => s
    | x :: rest => opt e s (fold_left gsum (map (grad s) rest) (grad s x))
    end.
  Definition spec_batch_loss (s : S) (group : list X) : T :=
    ndiv N (fsum (map (lossf s) group)) (of_nat (length group)).
  Definition spec_epoch (e : Z) (s : S) (bs : list (list X)) (d : G) : S * T :=
    let r := fold_left (fun (st : S * T) g => (spec_batch e (fst st) g d, nadd N (snd st) (spec_batch_loss (fst st) g)))
                       bs (s, zero) in
    (fst r, ndiv N (snd r) (of_nat (length bs))).

  Lemma run_batch_spec p e s group d :
    pmap_ordered p -> group <> [] ->
    run_batch N p sample_t gadd_t step_t e s group = Ok (spec_batch e s group d, spec_batch_loss s group).
  Proof.
    intros Hp Hne. unfold run_batch. rewrite Hp, sequence_map.
    unfold sample_t at 1. rewrite mapM_total. cbn [bind].
    replace (forallb _ _) with true.
    2:{ symmetry. apply forallb_forall. intros r Hr. apply in_map_iff in Hr.
        destruct Hr as (x & <- & _). cbn [snd]. rewrite no_nan. reflexivity. }
    destruct group as [|x rest]; [contradiction|]. cbn [map fst].
    unfold gadd_t. rewrite foldM_total. cbn [bind]. unfold step_t. cbn [bind].
    unfold spec_batch, spec_batch_loss. rewrite !map_map. cbn [fst snd map length].
    rewrite map_length. reflexivity.
  Qed.

  Theorem run_epoch_spec p e s bs d :
    pmap_ordered p -> Forall (fun g => g <> []) bs ->
    run_epoch N p sample_t gadd_t step_t e s bs = Ok (spec_epoch e s bs d).
  Proof.
    intros Hp Hne. unfold run_epoch, spec_epoch.
    assert (Hgen : forall st,
      foldM (fun (st : S * T) group =>
               do r <- run_batch N p sample_t gadd_t step_t e (fst st) group;
               Ok (fst r, nadd N (snd st) (snd r))) bs st
      = Ok (fold_left (fun (st : S * T) g => (spec_batch e (fst st) g d, nadd N (snd st) (spec_batch_loss (fst st) g))) bs st)).
    { induction Hne as [|g bs Hg _ IH]; intros st; [reflexivity|].
      cbn [foldM fold_left]. rewrite (run_batch_spec e (fst st) d Hp Hg). cbn [bind fst snd]. apply IH. }
    rewrite Hgen. reflexivity.
  Qed.

  (* the whole run without validation: E epochs, epoch e uses step number e *)
  Fixpoint spec_epochs (fuel : nat) (e : Z) (s : S) (bs : list (list X)) (d : G) (tr : list T) : S * list T :=
    match fuel with
    | O => (s, tr)
    | Datatypes.S k => let r := spec_epoch e s bs d in spec_epochs k (e + 1) (fst r) bs d (tr ++ [snd r])
    end.

  Theorem learn_refines_spec p valid fuel e s bs d h :
    pmap_ordered p -> Forall (fun g => g <> []) bs ->
    epochs_loop p sample_t gadd_t step_t valid fuel e false None bs s h
    = Ok (fst (spec_epochs fuel e s bs d (h_train h)),
          {| h_train := snd (spec_epochs fuel e s bs d (h_train h)); h_vloss := h_vloss h; h_vacc := h_vacc h |}).
  Proof.
    intros Hp Hne. revert e s h; induction fuel as [|k IH]; intros e s h.
    - cbn [epochs_loop spec_epochs fst snd]. destruct h; reflexivity.
    - cbn [epochs_loop spec_epochs]. rewrite (run_epoch_spec e s d Hp Hne). cbn [bind].
      destruct (spec_epoch e s bs d) as [s1 l] eqn:E. cbn [bind should_stop fst snd].
      rewrite IH. reflexivity.
  Qed.
End Descent.

(* every batch produced by chunking is non-empty; together with chunks_concat / chunks_count
   (Theory/Chunks.v): every sample is used exactly once per epoch, in order, in ceil(N/B) steps *)
Lemma chunks_nonempty A n (l : list A) : 0 < n -> Forall (fun g => g <> []) (chunks n l).
Proof.
  intros Hn. eapply Forall_impl; [|apply (chunks_bounds l Hn)].
  intros c [Hc _] ->. simpl in Hc. lia.
Qed.

(* the trace instance: state = list of (step number, samples of the step) *)
Section Trace.
  Variable N : Num.
  Variable X : Type.
  Definition tr_state := list (Z * list X).
  Definition tr_grad (s : tr_state) (x : X) : list X := [x].
  Definition tr_opt (e : Z) (s : tr_state) (g : list X) : tr_state := s ++ [(e, g)].

  Lemma tr_batch e s (g : list X) : g <> [] -> spec_batch tr_grad (@app X) tr_opt e s g [] = s ++ [(e, g)].
  Proof.
    intros Hg. destruct g as [|x rest]; [contradiction|]. clear Hg. cbn [spec_batch]. unfold tr_opt, tr_grad.
    assert (Hgen : forall acc, fold_left (@app X) (map (fun x => [x]) rest) acc = acc ++ rest).
    { induction rest as [|y r IH]; intros acc; simpl; [symmetry; apply app_nil_r|].
      rewrite IH, <- app_assoc. reflexivity. }
    rewrite Hgen. reflexivity.
  Qed.

  (* one epoch performs exactly one step per group, in order, with the epoch number as step number *)
  Theorem epoch_trace e s (bs : list (list X)) (lossf : tr_state -> X -> T N) :
    Forall (fun g => g <> []) bs ->
    fst (spec_epoch N tr_grad lossf (@app X) tr_opt e s bs []) = s ++ map (fun g => (e, g)) bs.
  Proof.
    intros Hne. unfold spec_epoch. cbn [fst].
    assert (Hgen : forall st, fst (fold_left (fun (st : tr_state * T N) g =>
                (spec_batch tr_grad (@app X) tr_opt e (fst st) g [],
                 nadd N (snd st) (spec_batch_loss N lossf (fst st) g))) bs st) = fst st ++ map (fun g => (e, g)) bs).
    { induction Hne as [|g bs Hg _ IH]; intros st; [simpl; symmetry; apply app_nil_r|].
      cbn [fold_left map]. rewrite IH. cbn [fst]. rewrite (tr_batch e (fst st) Hg), <- app_assoc. reflexivity. }
    apply Hgen.
  Qed.
End Trace.

(* ---------------- C12 ---------------- *)
Section Aggregation.
  Variable N : Num.
  Variable p : pmap_t.
  Hypothesis Hp : pmap_ordered p.

  Theorem predict_batch_spec (n : network N) xs : predict_batch p n xs = mapM (predict n) xs.
  Proof.
    unfold predict_batch. rewrite Hp, <- sequence_map.
    rewrite <- (chunks_concat xs (n := CHUNKS)) at 2 by (unfold CHUNKS; lia).
    rewrite concat_map. reflexivity.
  Qed.

  Theorem validate_spec (n : network N) xs ts tol :
    length xs = length ts ->
    validate p n xs ts tol =
    (let '(ls, training) := validate_clear (n_layers n) false in
     let n1 := set_layers n ls in
     do rs <- mapM (validate_sample n1 tol) (combine xs ts);
     let n2 := if training then set_all_training true n1 else n1 in
     let len := of_nat (length rs) in
     Ok (n2, (ndiv N (fsum (map fst rs)) len, ndiv N (fsum (map snd rs)) len))).
  Proof.
    intros Hlen. unfold validate. destruct (validate_clear (n_layers n) false) as [ls tr].
    rewrite Hp. unfold zip_chunks. rewrite (chunks_combine xs ts) by (unfold CHUNKS; lia || exact Hlen).
    rewrite <- concat_map, chunks_concat by (unfold CHUNKS; lia). rewrite sequence_map. reflexivity.
  Qed.

  Theorem predict_is_last_activation (n : network N) x :
    predict n x = do f <- forward n x; match last_opt (fw_post f) with Some t => Ok t | None => Panic P_unwrap end.
  Proof. reflexivity. Qed.
End Aggregation.

(* C04, batch sizes beyond the data set (B > N): `learn` returns the same for every two batch sizes
   that are at least the number of inputs and of targets - the N samples are the single partial group
   of each epoch.  (The extracted driver represents a requested usize batch size beyond the data by
   N + 1; this theorem is what makes that representation faithful.) *)
Lemma learn_batch_beyond (N : Num) (pm : pmap_t) (n : network N) (inputs targets : list (tensor N))
      (validation : option (list (tensor N) * list (tensor N) * Z)) (b1 b2 : nat) (epochs : Z) :
  0 < b1 -> 0 < b2 ->
  length inputs <= b1 -> length inputs <= b2 -> length targets <= b1 -> length targets <= b2 ->
  learn pm n inputs targets validation b1 epochs = learn pm n inputs targets validation b2 epochs.
Proof.
  intros H1 H2 I1 I2 T1 T2. unfold learn.
  rewrite (chunks_beyond inputs H1 H2 I1 I2), (chunks_beyond targets H1 H2 T1 T2).
  destruct b1 as [|b1]; [lia|]. destruct b2 as [|b2]; [lia|]. reflexivity.
Qed.
