(* Finite sums over the reals: the left folds of the model, instantiated at NumR, are ordinary
   sums; sums commute, distribute, and collapse on indicators. Used by C01 and C02. *)
From NV Require Import Prelude Num NumR.
Require Import Reals Lra Lia List.
Import ListNotations.
Local Open Scope R_scope.
Set Implicit Arguments.

Definition bsum (n : nat) (f : nat -> R) : R := Rsum (map f (seq 0 n)).

Lemma Rsum_app l1 l2 : Rsum (l1 ++ l2) = Rsum l1 + Rsum l2.
Proof. induction l1 as [|x l1 IH]; cbn [app Rsum]; [ring|rewrite IH; ring]. Qed.

Lemma bsum_0 f : bsum 0 f = 0.
Proof. reflexivity. Qed.

Lemma bsum_S n f : bsum (S n) f = bsum n f + f n.
Proof. unfold bsum. rewrite seq_S, map_app, Rsum_app. cbn [map Rsum Nat.add]. ring. Qed.

Lemma bsum_ext n f g : (forall i, (i < n)%nat -> f i = g i) -> bsum n f = bsum n g.
Proof.
  intros H. induction n as [|n IH]; [reflexivity|]. rewrite !bsum_S, IH by (intros i Hi; apply H; lia).
  rewrite (H n) by lia. reflexivity.
Qed.

Lemma bsum_zero n : bsum n (fun _ => 0) = 0.
Proof. induction n as [|n IH]; [reflexivity|]. rewrite bsum_S, IH. ring. Qed.

Lemma bsum_plus n f g : bsum n (fun i => f i + g i) = bsum n f + bsum n g.
Proof. induction n as [|n IH]; [cbn; ring|]. rewrite !bsum_S, IH. ring. Qed.

Lemma bsum_scal_l n c f : bsum n (fun i => c * f i) = c * bsum n f.
Proof. induction n as [|n IH]; [cbn; ring|]. rewrite !bsum_S, IH. ring. Qed.

Lemma bsum_scal_r n c f : bsum n (fun i => f i * c) = bsum n f * c.
Proof. induction n as [|n IH]; [cbn; ring|]. rewrite !bsum_S, IH. ring. Qed.

Lemma bsum_swap n m (f : nat -> nat -> R) :
  bsum n (fun i => bsum m (fun j => f i j)) = bsum m (fun j => bsum n (fun i => f i j)).
Proof.
  induction n as [|n IH].
  - cbn [bsum seq map Rsum]. symmetry. apply bsum_zero.
  - rewrite bsum_S, IH. rewrite <- bsum_plus. apply bsum_ext. intros j _. rewrite bsum_S. reflexivity.
Qed.

(* an indicator picks at most one term *)
Lemma bsum_pick n (a : nat) (g : nat -> R) :
  bsum n (fun i => if Nat.eqb i a then g i else 0) = if Nat.ltb a n then g a else 0.
Proof.
  induction n as [|n IH]; [reflexivity|]. rewrite bsum_S, IH.
  destruct (Nat.eqb_spec n a) as [->|Hne].
  - replace (a <? a)%nat with false by (symmetry; apply Nat.ltb_ge; lia).
    replace (a <? S a)%nat with true by (symmetry; apply Nat.ltb_lt; lia). ring.
  - destruct (Nat.ltb_spec a n); destruct (Nat.ltb_spec a (S n)); try lia; ring.
Qed.

Lemma bsum_if_false n (c : nat -> bool) (g : nat -> R) :
  (forall i, (i < n)%nat -> c i = false) -> bsum n (fun i => if c i then g i else 0) = 0.
Proof.
  intros H. transitivity (bsum n (fun _ => 0)); [|apply bsum_zero].
  apply bsum_ext. intros i Hi. rewrite (H i Hi). reflexivity.
Qed.

(* ---- the model's folds over NumR ---- *)
Lemma fold_acc_bsum n (F : R -> nat -> R) (G : nat -> R) a :
  (forall acc i, (i < n)%nat -> F acc i = acc + G i) ->
  fold_left F (seq 0 n) a = a + bsum n G.
Proof.
  intros H. induction n as [|n IH]; [cbn; ring|].
  rewrite seq_S, fold_left_app. cbn [fold_left Nat.add]. rewrite IH by (intros acc i Hi; apply H; lia).
  rewrite (H _ n) by lia. rewrite bsum_S. ring.
Qed.

Lemma fold_cond_bsum n (c : nat -> bool) (g : nat -> R) a :
  fold_left (fun acc i => if c i then acc + g i else acc) (seq 0 n) a
  = a + bsum n (fun i => if c i then g i else 0).
Proof. apply fold_acc_bsum. intros acc i _. destruct (c i); ring. Qed.

Lemma bsum_minus n f g : bsum n (fun i => f i - g i) = bsum n f - bsum n g.
Proof. induction n as [|n IH]; [cbn; ring|]. rewrite !bsum_S, IH. ring. Qed.

Lemma bsum_split m k f : bsum (m + k) f = bsum m f + bsum k (fun i => f (m + i)%nat).
Proof.
  induction k as [|k IH]; [rewrite Nat.add_0_r; cbn; ring|].
  replace (m + S k)%nat with (S (m + k)) by lia. rewrite !bsum_S, IH. ring.
Qed.

Lemma bsum_prod a b f : bsum (a * b) f = bsum a (fun i => bsum b (fun j => f (i * b + j)%nat)).
Proof.
  induction a as [|a IH]; [reflexivity|].
  replace (S a * b)%nat with (a * b + b)%nat by lia. rewrite bsum_split, IH, bsum_S. reflexivity.
Qed.
