(* C06: the gradient has the prediction's shape (any number structure). *)
From NV Require Import Prelude Num Random Tensor Objective.
From NV.Theory Require Import Lists C14 C06.
Require Import Lia List.
Import ListNotations.
Set Implicit Arguments.

(* ---- the gradient has the prediction's shape ---- *)
Section GradShape.
  Variable N : Num.

  Lemma map2_len A B C (f : A -> B -> C) l1 l2 n : length l1 = n -> length l2 = n -> length (map2 f l1 l2) = n.
  Proof. revert l2 n; induction l1 as [|a l1 IH]; intros [|b l2] n H1 H2; cbn [length map2] in *; try lia. rewrite (IH l2 (n - 1)); lia. Qed.

  Lemma map2_Forall A B C (P : A -> Prop) (Q : B -> Prop) (R0 : C -> Prop) (f : A -> B -> C) l1 l2 :
    (forall a b, P a -> Q b -> R0 (f a b)) -> List.Forall P l1 -> List.Forall Q l2 -> List.Forall R0 (map2 f l1 l2).
  Proof.
    intros Hf H1. revert l2. induction H1 as [|a l1 Ha _ IH]; intros l2 H2; [constructor|].
    destruct H2 as [|b l2 Hb H2]; [constructor|]. cbn [map2]. constructor; [apply Hf; assumption|apply IH; exact H2].
  Qed.

  Lemma rect3_map2 (f : T N -> T N -> T N) c h w (t p : vec3 (T N)) :
    rect3 c h w t -> rect3 c h w p -> rect3 c h w (map2 (map2 (map2 f)) t p).
  Proof.
    intros [Hlt Hft] [Hlp Hfp]. split; [apply map2_len; assumption|].
    apply (@map2_Forall _ _ _ (rect2 h w) (rect2 h w) (rect2 h w)); [|exact Hft|exact Hfp].
    intros a b [Hla Hfa] [Hlb Hfb]. split; [apply map2_len; assumption|].
    apply (@map2_Forall _ _ _ (fun r => length r = w) (fun r => length r = w) (fun r => length r = w)); [|exact Hfa|exact Hfb].
    intros r1 r2 H1 H2. apply map2_len; assumption.
  Qed.

  Theorem gradient_has_prediction_shape o cl (prediction target : tensor N) l g :
    C14.wf prediction -> C14.wf target -> tshape prediction = tshape target -> C14.pos_shape (tshape prediction) ->
    loss o cl prediction target = Ok (l, g) ->
    tshape g = tshape prediction /\ C14.wf g.
  Proof.
    intros Wp Wt Hs Hpos H. destruct (clamp_spec _ _ _ _ H) as (g0 & H0 & Hg).
    assert (G : tshape g0 = tshape prediction /\ C14.wf g0).
    { clear H Hg. unfold loss in H0. destruct (get_flat target) as [tv|]; [|discriminate]. cbn [bind] in H0.
      destruct (get_flat prediction) as [pv|]; [|discriminate]. cbn [bind] in H0.
      destruct (grad_tensor _ _ _ _) as [g1|] eqn:Eg; [|discriminate]. cbn [bind] in H0. injection H0 as _ <-.
      unfold grad_tensor in Eg. unfold C14.wf in Wp, Wt. rewrite <- Hs in Wt.
      destruct (tshape prediction) as [n| |c h w| |] eqn:Esh; try contradiction.
      - destruct (tdata prediction) as [p| | |]; try contradiction.
        destruct (tdata target) as [t| | |]; try contradiction.
        injection Eg as <-. unfold t_single, C14.wf. cbn [tshape tdata].
        rewrite (map2_len _ _ _ Wt Wp). split; reflexivity.
      - destruct (tdata prediction) as [|?|p|]; try contradiction.
        destruct (tdata target) as [|?|t|]; try contradiction.
        destruct Hpos as (Hc & Hh & Hw).
        pose proof (rect3_map2 (grad_fun N o (of_nat (length tv))) Wt Wp) as Hr.
        destruct (C14.rect3_pos_pattern N Hr Hc Hh) as (r & ch & d' & Ed).
        unfold t_triple in Eg. rewrite Ed in Eg. injection Eg as <-.
        unfold C14.wf. cbn [tshape tdata hd_len hd].
        rewrite Ed in Hr. destruct Hr as [Hl Hf]. pose proof (Forall_inv Hf) as [Hch Hrows].
        pose proof (Forall_inv Hrows) as Hrw. cbv beta in Hrw.
        assert (K : forall a b c', a = c -> b = h -> c' = w ->
                  STriple a b c' = STriple c h w /\ rect3 a b c' ((r :: ch) :: d')).
        { intros a b c' -> -> ->. split; [reflexivity|split; assumption]. }
        apply K; assumption. }
    destruct G as [G1 G2]. destruct cl as [[lo hi]|]; subst g.
    - unfold t_clamp. cbn [tshape]. split; [exact G1|].
      unfold C14.wf in *. cbn [tshape tdata]. destruct (tshape g0), (tdata g0); try contradiction; cbn [map_data].
      + rewrite map_length. exact G2.
      + destruct G2 as [Hl Hf]. split; [rewrite map_length; exact Hl|].
        apply Forall_forall. intros ch Hch. apply in_map_iff in Hch. destruct Hch as (ch0 & <- & Hin).
        destruct (proj1 (Forall_forall _ _) Hf _ Hin) as [Hl2 Hf2]. split; [rewrite map_length; exact Hl2|].
        apply Forall_forall. intros r Hr. apply in_map_iff in Hr. destruct Hr as (r0 & <- & Hin2).
        rewrite map_length. exact (proj1 (Forall_forall _ _) Hf2 _ Hin2).
    - split; assumption.
  Qed.
End GradShape.
