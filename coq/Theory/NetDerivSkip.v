(* C16, gradient clause, for dense networks with one additive skip connection a -> b: the input of
   layer b is (output of layer b-1) + (input of layer a). The walk that the repaired
   Network::backward performs - the gradient handed to the layer before the source is the gradient
   through layers a..b-1 PLUS the gradient with respect to the input layer b processed - returns the
   derivative of the objective with respect to every parameter. Lists throughout (Theory/NetDeriv.v). *)
From NV Require Import Prelude Num NumR Random Tensor Activation Objective Optimizer Layers Network Learn.
From NV.Theory Require Import Monad Lists Build RSum Adjoint Deriv Chain ChainDense C07 C01 Forward NetDeriv NetDerivObj.
Require Import Reals Lra Lia List.
From Coquelicot Require Import Coquelicot.
Import ListNotations.
Local Open Scope list_scope.
Local Open Scope R_scope.
Set Implicit Arguments.

(* ---- a chain of dense layers as a vector-valued stage: every output component is differentiable
        and the walk started from ANY output gradient g is the transposed Jacobian applied to g ---- *)
Lemma chain_contract (cs : curves) d (X : R -> list R) (X' : vec) h0 (m : nat) :
  chainedS (at_t cs h0) d -> (forall t, length (X t) = d) -> dvec d (fun t => vof (X t)) h0 X' ->
  curves_ok cs h0 -> smoothL (at_t cs h0) (X h0) -> m = lastD (at_t cs h0) d ->
  exists Y' : vec,
    dvec m (fun t => vof (predL (at_t cs t) (X t))) h0 Y' /\
    forall g : list R, length g = m ->
      let '(gin, gps, _) := gradsL (at_t cs h0) (X h0) g in
      dotp m (vof g) Y' = pairing cs gps + dotp d (vof gin) X'.
Proof.
  intros Hch HXl HX Hcu Hsm Hm.
  (* component i: the objective y |-> y_i, whose gradient is the i-th unit vector *)
  set (unit := fun i : nat => lof m (fun k => if (k =? i)%nat then 1 else 0)).
  assert (Hcomp : forall i, (i < m)%nat ->
            let '(gin, gps, _) := gradsL (at_t cs h0) (X h0) (unit i) in
            is_derive (fun t => vof (predL (at_t cs t) (X t)) i) h0 (pairing cs gps + dotp d (vof gin) X')).
  { intros i Hi.
    pose proof (@gradsL_derivative cs d X X' h0 m (fun y => vof y i) (fun _ => unit i) Hch HXl HX Hcu Hsm Hm) as D.
    cbv beta in D. destruct (gradsL (at_t cs h0) (X h0) (unit i)) as [[gin gps] gins]. apply D.
    intros Y Y' HYl HYd.
    replace (dotp m (vof (unit i)) Y') with (Y' i).
    - apply HYd. exact Hi.
    - unfold dotp. rewrite (@bsum_ext m _ (fun k => if (k =? i)%nat then Y' k else 0)).
      + rewrite bsum_pick. replace (i <? m)%nat with true by (symmetry; apply Nat.ltb_lt; exact Hi). reflexivity.
      + intros k Hk. unfold unit. rewrite vof_lof by exact Hk. destruct (k =? i)%nat; ring. }
  exists (fun i => let '(gin, gps, _) := gradsL (at_t cs h0) (X h0) (unit i) in pairing cs gps + dotp d (vof gin) X').
  split.
  - intros i Hi. specialize (Hcomp i Hi). destruct (gradsL (at_t cs h0) (X h0) (unit i)) as [[gin gps] gins]. exact Hcomp.
  - intros g Hg.
    (* both sides are the derivative of t |-> <g, prediction(t)> *)
    pose proof (@gradsL_derivative cs d X X' h0 m (fun y => dotp m (vof g) (vof y)) (fun _ => g) Hch HXl HX Hcu Hsm Hm) as D.
    cbv beta in D. destruct (gradsL (at_t cs h0) (X h0) g) as [[gin gps] gins].
    assert (D1 : is_derive (fun t => dotp m (vof g) (vof (predL (at_t cs t) (X t)))) h0 (pairing cs gps + dotp d (vof gin) X')).
    { apply D. intros Y Y' HYl HYd. unfold dotp. apply is_derive_bsum. intros i Hi.
      apply (is_derive_scal (fun t => vof (Y t) i) h0 (vof g i)). apply HYd. exact Hi. }
    assert (D2 : is_derive (fun t => dotp m (vof g) (vof (predL (at_t cs t) (X t)))) h0
                   (dotp m (vof g) (fun i => let '(gin, gps, _) := gradsL (at_t cs h0) (X h0) (unit i) in
                                              pairing cs gps + dotp d (vof gin) X'))).
    { unfold dotp. apply is_derive_bsum. intros i Hi.
      apply (is_derive_scal (fun t => vof (predL (at_t cs t) (X t)) i) h0 (vof g i)).
      specialize (Hcomp i Hi). destruct (gradsL (at_t cs h0) (X h0) (unit i)) as [[gin' gps'] gins']. exact Hcomp. }
    transitivity (Derive (fun t => dotp m (vof g) (vof (predL (at_t cs t) (X t)))) h0).
    + symmetry. apply is_derive_unique. exact D2.
    + apply is_derive_unique. exact D1.
Qed.

(* ---- the network with one additive skip a -> b ----
   pre = layers 0..a-1, mid = layers a..b-1 (empty when a = b), lb = layer b, post = layers b+1.. *)
Definition addL (u v : list R) : list R := map2 Rplus u v.

Lemma length_addL u v n : length u = n -> length v = n -> length (addL u v) = n.
Proof. intros Hu Hv. unfold addL. rewrite (map2_lof Rplus u v Hu Hv). apply length_lof. Qed.
Lemma vof_addL u v n i : length u = n -> length v = n -> (i < n)%nat -> vof (addL u v) i = vof u i + vof v i.
Proof. intros Hu Hv Hi. unfold addL. rewrite (map2_lof Rplus u v Hu Hv). apply vof_lof. exact Hi. Qed.

Definition skip_pred (pre mid post : list (lspec * vec)) (lb : lspec * vec) (xl : list R) : list R :=
  let xa := predL pre xl in
  let xb := predL mid xa in
  predL (lb :: post) (addL xb xa).

(* the gradients of the walk: (parameter gradients of pre, of mid, of lb :: post) *)
Definition skip_grads (pre mid post : list (lspec * vec)) (lb : lspec * vec) (xl gfin : list R)
  : list vec * list vec * list vec :=
  let xa := predL pre xl in
  let xb := predL mid xa in
  let '(gb, gps_bp, _) := gradsL (lb :: post) (addL xb xa) gfin in     (* gb: gradient w.r.t. the input layer b processed *)
  let '(gm, gps_mid, _) := gradsL mid xa gb in
  let '(_, gps_pre, _) := gradsL pre xl (addL gm gb) in
  (gps_pre, gps_mid, gps_bp).

Theorem skip_walk_is_derivative (cpre cmid cpost : curves) (cb : lspec * (R -> vec) * vec)
        d (xl : list R) h0 (m : nat) (Lf : list R -> R) (gL : list R -> list R) :
  let da := lastD (at_t cpre h0) d in
  chainedS (at_t cpre h0) d -> length xl = d ->
  chainedS (at_t cmid h0) da -> lastD (at_t cmid h0) da = da ->            (* layer b reads what layer a reads *)
  chainedS (at_t (cb :: cpost) h0) da -> m = lastD (at_t (cb :: cpost) h0) da ->
  curves_ok cpre h0 -> curves_ok cmid h0 -> curves_ok (cb :: cpost) h0 ->
  let xa := predL (at_t cpre h0) xl in
  let xb := predL (at_t cmid h0) xa in
  smoothL (at_t cpre h0) xl -> smoothL (at_t cmid h0) xa -> smoothL (at_t (cb :: cpost) h0) (addL xb xa) ->
  (forall (Y : R -> list R) Y', (forall t, length (Y t) = m) -> dvec m (fun t => vof (Y t)) h0 Y' ->
        is_derive (fun t => Lf (Y t)) h0 (dotp m (vof (gL (Y h0))) Y')) ->
  (forall y, length y = m -> length (gL y) = m) ->
  let pred t := skip_pred (at_t cpre t) (at_t cmid t) (at_t cpost t) (fst (fst cb), snd (fst cb) t) xl in
  let '(gps_pre, gps_mid, gps_bp) :=
      skip_grads (at_t cpre h0) (at_t cmid h0) (at_t cpost h0) (fst (fst cb), snd (fst cb) h0) xl (gL (pred h0)) in
  is_derive (fun t => Lf (pred t)) h0 (pairing cpre gps_pre + pairing cmid gps_mid + pairing (cb :: cpost) gps_bp).
Proof.
  intros da Hchp Hxl Hchm Hda Hchb Hm Hcup Hcum Hcub xa xb Hsmp Hsmm Hsmb HL HgLl pred.
  (* the curves of the intermediate values *)
  set (XA := fun t => predL (at_t cpre t) xl).
  set (XB := fun t => predL (at_t cmid t) (XA t)).
  set (Z := fun t => addL (XB t) (XA t)).
  assert (HXAl : forall t, length (XA t) = da).
  { intros t. unfold XA. rewrite (@length_predL (at_t cpre t) d xl (@chainedS_at_t cpre h0 t d Hchp) Hxl).
    unfold da. apply lastD_at_t. }
  assert (HXBl : forall t, length (XB t) = da).
  { intros t. unfold XB. rewrite (@length_predL (at_t cmid t) da (XA t) (@chainedS_at_t cmid h0 t da Hchm) (HXAl t)).
    rewrite (lastD_at_t cmid t h0 da). exact Hda. }
  assert (HZl : forall t, length (Z t) = da) by (intros t; apply length_addL; [apply HXBl|apply HXAl]).
  (* pre: input constant *)
  destruct (@chain_contract cpre d (fun _ => xl) (fun _ => 0) h0 da Hchp (fun _ => Hxl)
              (fun i Hi => @is_derive_const _ _ (vof xl i) h0) Hcup Hsmp eq_refl) as (XA' & HXA & AdjA).
  fold XA in HXA.
  (* mid: input XA *)
  destruct (@chain_contract cmid da XA XA' h0 da Hchm HXAl HXA Hcum Hsmm (eq_sym Hda)) as (XB' & HXB & AdjB).
  fold XB in HXB.
  (* the sum *)
  assert (HZ : dvec da (fun t => vof (Z t)) h0 (fun i => XB' i + XA' i)).
  { intros i Hi. apply (is_derive_ext (fun t => vof (XB t) i + vof (XA t) i)).
    - intros t. unfold Z. rewrite (@vof_addL (XB t) (XA t) da i (HXBl t) (HXAl t) Hi). reflexivity.
    - apply @is_derive_plus; [apply HXB; exact Hi|apply HXA; exact Hi]. }
  (* layer b and everything behind it, with the objective *)
  pose proof (@gradsL_derivative (cb :: cpost) da Z (fun i => XB' i + XA' i) h0 m Lf gL Hchb HZl HZ Hcub Hsmb Hm HL) as D.
  unfold skip_grads. fold xa. fold xb.
  change (addL xb xa) with (Z h0).
  change ((fst (fst cb), snd (fst cb) h0) :: at_t cpost h0) with (at_t (cb :: cpost) h0).
  change (pred h0) with (predL (at_t (cb :: cpost) h0) (Z h0)).
  destruct (gradsL (at_t (cb :: cpost) h0) (Z h0) (gL (predL (at_t (cb :: cpost) h0) (Z h0)))) as [[gb gps_bp] gins_bp] eqn:Egb.
  assert (Hgbl : length gb = da).
  { pose proof (@gradsL_gin_length (at_t (cb :: cpost) h0) da (Z h0) (gL (predL (at_t (cb :: cpost) h0) (Z h0))) Hchb) as Hl.
    rewrite Egb in Hl. cbn [fst] in Hl. apply Hl. rewrite <- Hm. apply HgLl.
    rewrite (@length_predL (at_t (cb :: cpost) h0) da (Z h0) Hchb (HZl h0)). symmetry. exact Hm. }
  (* through layers a..b-1 *)
  specialize (AdjB gb Hgbl). change (XA h0) with xa in AdjB.
  destruct (gradsL (at_t cmid h0) xa gb) as [[gm gps_mid] gins_mid] eqn:Egm.
  assert (Hgml : length gm = da).
  { pose proof (@gradsL_gin_length (at_t cmid h0) da xa gb Hchm ltac:(rewrite Hda; exact Hgbl)) as Hl.
    rewrite Egm in Hl. exact Hl. }
  (* through the layers before a: the two gradients arriving at the input of layer a add up *)
  specialize (AdjA (addL gm gb) (@length_addL gm gb da Hgml Hgbl)).
  destruct (gradsL (at_t cpre h0) xl (addL gm gb)) as [[gin gps_pre] gins_pre].
  cbv beta iota.
  apply (is_derive_ext (fun t => Lf (predL (at_t (cb :: cpost) t) (Z t)))); [intros t; reflexivity|].
  replace (pairing cpre gps_pre + pairing cmid gps_mid + pairing (cb :: cpost) gps_bp)
    with (pairing (cb :: cpost) gps_bp + dotp da (vof gb) (fun i => XB' i + XA' i)); [exact D|].
  assert (E1 : dotp da (vof gb) (fun i => XB' i + XA' i) = dotp da (vof gb) XB' + dotp da (vof gb) XA').
  { unfold dotp. rewrite <- bsum_plus. apply bsum_ext. intros i _. ring. }
  assert (E2 : dotp da (vof (addL gm gb)) XA' = dotp da (vof gm) XA' + dotp da (vof gb) XA').
  { unfold dotp. rewrite <- bsum_plus. apply bsum_ext. intros i Hi.
    rewrite (@vof_addL gm gb da i Hgml Hgbl Hi). ring. }
  assert (E3 : dotp d (vof gin) (fun _ => 0) = 0).
  { unfold dotp. rewrite (@bsum_ext d _ (fun _ => 0)) by (intros; ring). apply bsum_zero. }
  rewrite E1, AdjB. rewrite E2, E3 in AdjA. lra.
Qed.
