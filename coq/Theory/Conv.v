(* Characterisation of the convolution forward pass (shared by C02, C08 and C01):
   zero padding, the always-true bounds guard, shapes of the result. *)
From NV Require Import Prelude Num Random Tensor Activation Layers.
From NV.Theory Require Import Monad Lists Build.
Set Implicit Arguments.

Section Conv.
  Variable N : Num.
  Notation T := (T N).
  Notation tensor := (tensor N).

  (* ---- zero padding ---- *)
  Definition xpad (x : vec3 T) (ih iw ph pw : nat) (c i j : nat) : T :=
    if (ph <=? i) && (i - ph <? ih) && (pw <=? j) && (j - pw <? iw) then get3 zero x c (i - ph) (j - pw) else zero.

  Lemma rect3_dims A c h w (x : vec3 A) : rect3 c h w x -> 0 < c -> 0 < h ->
    exists r0 ch0 rest, x = (r0 :: ch0) :: rest /\ hd_len x = h /\ length r0 = w.
  Proof.
    intros [Hl Hf] Hc Hh. destruct x as [|ch rest]; [simpl in Hl; lia|].
    pose proof (Forall_inv Hf) as [Hch Hrows].
    destruct ch as [|r0 ch0]; [simpl in Hch; lia|].
    exists r0, ch0, rest. split; [reflexivity|]. split; [exact Hch|exact (Forall_inv Hrows)].
  Qed.

  Lemma pad3d_spec (x : vec3 T) c h w ph pw :
    rect3 c h w x -> 0 < c -> 0 < h ->
    exists xp, pad3d N x (h + 2 * ph) (w + 2 * pw) = Ok xp /\
               rect3 c (h + 2 * ph) (w + 2 * pw) xp /\
               forall k i j, k < c -> i < h + 2 * ph -> j < w + 2 * pw ->
                             get3 zero xp k i j = xpad x h w ph pw k i j.
  Proof.
    intros Hr Hc Hh. destruct (rect3_dims Hr Hc Hh) as (r0 & ch0 & rest & Ex & Ehd & Ew).
    unfold pad3d. rewrite Ex. rewrite <- Ex. rewrite Ehd, Ew.
    set (dh := if h <? h + 2 * ph then (h + 2 * ph - h) / 2 else 0).
    set (dw := if w <? w + 2 * pw then (w + 2 * pw - w) / 2 else 0).
    assert (Edh : dh = ph).
    { subst dh. destruct (Nat.ltb_spec h (h + 2 * ph)); [|lia].
      replace (h + 2 * ph - h) with (ph * 2) by lia. apply Nat.div_mul. lia. }
    assert (Edw : dw = pw).
    { subst dw. destruct (Nat.ltb_spec w (w + 2 * pw)); [|lia].
      replace (w + 2 * pw - w) with (pw * 2) by lia. apply Nat.div_mul. lia. }
    rewrite Edh, Edw. eexists. split; [reflexivity|]. destruct Hr as [Hl Hf]. split.
    - split; [rewrite map_length; exact Hl|].
      apply Forall_forall. intros ch Hch. apply in_map_iff in Hch. destruct Hch as (ch' & <- & _).
      unfold build2. split; [apply length_build1|].
      apply Forall_forall. intros r Hr'. unfold build1 in Hr'. apply in_map_iff in Hr'.
      destruct Hr' as (i & <- & _). apply length_build1.
    - intros k i j Hk Hi Hj. unfold get3. unfold vec3, vec2 in *.
      erewrite nth_map_lt by lia.
      change (nth j (nth i (build2 ?a ?b ?f) []) zero) with (get2 zero (build2 a b f) i j).
      rewrite get2_build2 by assumption.
      assert (Hkx : k < length x) by lia.
      pose proof (proj1 (Forall_forall _ _) Hf (nth k x []) (nth_In x [] Hkx)) as [Hch Hrows].
      rewrite Hch. unfold xpad.
      replace (Nat.min h (h + 2 * ph)) with h by lia.
      destruct ((ph <=? i) && (i - ph <? h)) eqn:E1; cbn [andb]; [|reflexivity].
      apply andb_true_iff in E1. destruct E1 as [E1a E1b]. apply Nat.ltb_lt in E1b.
      assert (Hix : i - ph < length (nth k x [])) by lia.
      pose proof (proj1 (Forall_forall _ _) Hrows (nth (i - ph) (nth k x []) []) (nth_In (nth k x []) [] Hix)) as Hrow.
      cbv beta in Hrow. rewrite Hrow. replace (Nat.min w (w + 2 * pw)) with w by lia.
      destruct ((pw <=? j) && (j - pw <? w)); reflexivity.
  Qed.
  (* ---- kernels ---- *)
  Definition rect4 {A} (kf kc kh kw : nat) (ks : vec4 A) : Prop := length ks = kf /\ Forall (rect3 kc kh kw) ks.

  Lemma kdims_rect4 (ks : vec4 T) kf kc kh kw :
    rect4 kf kc kh kw ks -> 0 < kf -> 0 < kc -> 0 < kh -> kdims N ks = Ok (kf, kc, kh, kw).
  Proof.
    intros [Hl Hf] Hkf Hkc Hkh. destruct ks as [|k0 rest]; [simpl in Hl; lia|].
    pose proof (Forall_inv Hf) as Hk0.
    destruct (rect3_dims Hk0 Hkc Hkh) as (r0 & ch0 & rest0 & Ek & Ehd & Ew).
    unfold kdims. rewrite Ek. cbn [length hd_len hd]. f_equal. f_equal; [f_equal; [f_equal|]|].
    - exact Hl.
    - destruct Hk0 as [Hk0l _]. rewrite Ek in Hk0l. exact Hk0l.
    - rewrite Ek in Ehd. exact Ehd.
    - exact Ew.
  Qed.

  Lemma xdims_rect3 (x : vec3 T) c h w : rect3 c h w x -> 0 < c -> 0 < h -> xdims N x = Ok (h, w).
  Proof.
    intros Hr Hc Hh. destruct (rect3_dims Hr Hc Hh) as (r0 & ch0 & rest & Ex & Ehd & Ew).
    unfold xdims. rewrite Ex. rewrite <- Ex. rewrite Ehd, Ew. reflexivity.
  Qed.

  (* the cell of a cross-correlation, without the bounds guard *)
  Definition corr_cell (stride dilation : nat * nat) (src : nat -> nat -> nat -> T) (ks : vec4 T)
             (kc kh kw : nat) (f oy ox : nat) : T :=
    fold_left (fun sum c =>
      fold_left (fun sum h =>
        fold_left (fun sum w =>
          nadd N sum (nmul N (get4 zero ks f c h w)
                             (src c (oy * fst stride + h * fst dilation) (ox * snd stride + w * snd dilation))))
          (seq 0 kw) sum) (seq 0 kh) sum) (seq 0 kc) zero.

  Lemma fold_left_ext_in A B (f g : A -> B -> A) l a :
    (forall a x, In x l -> f a x = g a x) -> fold_left f l a = fold_left g l a.
  Proof.
    revert a; induction l as [|x l IH]; intros a H; [reflexivity|]. cbn [fold_left].
    rewrite (H a x (or_introl eq_refl)). apply IH. intros a' y Hy. apply H. right. exact Hy.
  Qed.

  Definition out_len (i k s d : nat) : nat := (i - (k - 1) * d - 1) / s + 1.

  Lemma guard_in_range i k s d o h :
    0 < s -> (k - 1) * d + 1 <= i -> o < out_len i k s d -> h < k -> o * s + h * d < i.
  Proof.
    intros Hs Hfit Ho Hh. unfold out_len in Ho.
    set (b := i - (k - 1) * d - 1) in *.
    assert (H1 : o * s <= (b / s) * s) by (apply Nat.mul_le_mono_r; lia).
    assert (H2 : (b / s) * s <= b) by (rewrite Nat.mul_comm; apply Nat.mul_div_le; lia).
    assert (H3 : h * d <= (k - 1) * d) by (apply Nat.mul_le_mono_r; lia).
    subst b. lia.
  Qed.

  Theorem convolve_spec (stride dilation : nat * nat) (x : vec3 T) (ks : vec4 T) c ih iw kf kc kh kw :
    rect3 c ih iw x -> 0 < c -> 0 < ih ->
    rect4 kf kc kh kw ks -> 0 < kf -> 0 < kc -> 0 < kh -> kc <= c ->
    0 < fst stride -> 0 < snd stride ->
    (kh - 1) * fst dilation + 1 <= ih -> (kw - 1) * snd dilation + 1 <= iw ->
    convolve N stride dilation x ks =
    Ok (build3 kf (out_len ih kh (fst stride) (fst dilation)) (out_len iw kw (snd stride) (snd dilation))
               (corr_cell stride dilation (get3 zero x) ks kc kh kw)).
  Proof.
    intros Hx Hc Hih Hk Hkf Hkc Hkh Hkcc Hs1 Hs2 Hf1 Hf2. unfold convolve.
    rewrite (xdims_rect3 Hx Hc Hih). cbn [bind]. rewrite (kdims_rect4 Hk Hkf Hkc Hkh). cbn [bind].
    unfold csub, cdiv.
    replace ((kh - 1) * fst dilation <=? ih) with true by (symmetry; apply Nat.leb_le; lia). cbn [bind].
    replace (1 <=? ih - (kh - 1) * fst dilation) with true by (symmetry; apply Nat.leb_le; lia). cbn [bind].
    replace (fst stride =? 0) with false by (symmetry; apply Nat.eqb_neq; lia). cbn [bind].
    replace ((kw - 1) * snd dilation <=? iw) with true by (symmetry; apply Nat.leb_le; lia). cbn [bind].
    replace (1 <=? iw - (kw - 1) * snd dilation) with true by (symmetry; apply Nat.leb_le; lia). cbn [bind].
    replace (snd stride =? 0) with false by (symmetry; apply Nat.eqb_neq; lia). cbn [bind].
    destruct Hx as [Hxl _]. replace (kc <=? length x) with true by (symmetry; apply Nat.leb_le; lia).
    f_equal. apply build3_ext. intros f oy ox Hf Hoy Hox. unfold corr_cell.
    apply fold_left_ext_in. intros s1 cc _.
    apply fold_left_ext_in. intros s2 h Hh. apply in_seq in Hh.
    apply fold_left_ext_in. intros s3 w Hw. apply in_seq in Hw.
    replace (oy * fst stride + h * fst dilation <? ih) with true
      by (symmetry; apply Nat.ltb_lt; apply guard_in_range with (k := kh); fold (out_len ih kh (fst stride) (fst dilation)); lia || assumption).
    replace (ox * snd stride + w * snd dilation <? iw) with true
      by (symmetry; apply Nat.ltb_lt; apply guard_in_range with (k := kw); fold (out_len iw kw (snd stride) (snd dilation)); lia || assumption).
    reflexivity.
  Qed.
  Lemma t_triple_build3 kf oh ow (f : nat -> nat -> nat -> T) :
    0 < kf -> 0 < oh ->
    t_triple N (build3 kf oh ow f) = Ok (mkT (STriple kf oh ow) (DTriple (build3 kf oh ow f))).
  Proof.
    intros Hkf Hoh. destruct kf as [|kf']; [lia|]. destruct oh as [|oh']; [lia|].
    unfold t_triple, build3, build2, build1. cbn [seq map length hd_len hd].
    rewrite !map_length, !seq_length. reflexivity.
  Qed.

  Lemma corr_cell_ext stride dilation (s1 s2 : nat -> nat -> nat -> T) ks kc kh kw f oy ox :
    (forall c h w, c < kc -> h < kh -> w < kw ->
       s1 c (oy * fst stride + h * fst dilation) (ox * snd stride + w * snd dilation)
       = s2 c (oy * fst stride + h * fst dilation) (ox * snd stride + w * snd dilation)) ->
    corr_cell stride dilation s1 ks kc kh kw f oy ox = corr_cell stride dilation s2 ks kc kh kw f oy ox.
  Proof.
    intros H. unfold corr_cell.
    apply fold_left_ext_in. intros a c Hc. apply in_seq in Hc.
    apply fold_left_ext_in. intros a2 h Hh. apply in_seq in Hh.
    apply fold_left_ext_in. intros a3 w Hw. apply in_seq in Hw.
    rewrite H by lia. reflexivity.
  Qed.

  (* ---- the convolution layer: forward = zero-padded, strided, dilated cross-correlation ---- *)
  Theorem conv_forward_spec (l : conv N) (x : tensor) d ks ic ih iw kf kh kw :
    c_inputs l = STriple ic ih iw ->
    tdata x = DTriple d -> rect3 ic ih iw d ->
    mapM (@kernel_data N) (c_kernels l) = Ok ks -> rect4 kf ic kh kw ks ->
    0 < ic -> 0 < ih -> 0 < kf -> 0 < kh ->
    0 < fst (c_stride l) -> 0 < snd (c_stride l) ->
    (kh - 1) * fst (c_dilation l) + 1 <= ih + 2 * fst (c_padding l) ->
    (kw - 1) * snd (c_dilation l) + 1 <= iw + 2 * snd (c_padding l) ->
    let oh := out_len (ih + 2 * fst (c_padding l)) kh (fst (c_stride l)) (fst (c_dilation l)) in
    let ow := out_len (iw + 2 * snd (c_padding l)) kw (snd (c_stride l)) (snd (c_dilation l)) in
    conv_forward l x =
    post_process N (c_act l) (c_training l) (c_dropout l) (c_flatten l)
      (build3 kf oh ow (corr_cell (c_stride l) (c_dilation l)
                                  (xpad d ih iw (fst (c_padding l)) (snd (c_padding l))) ks ic kh kw)).
  Proof.
    intros Hin Hd Hr Hks Hk Hic Hih Hkf Hkh Hs1 Hs2 Hf1 Hf2 oh ow.
    unfold conv_forward, conv_input. rewrite Hd. cbn [bind].
    rewrite (xdims_rect3 Hr Hic Hih). cbn [bind].
    destruct (pad3d_spec (fst (c_padding l)) (snd (c_padding l)) Hr Hic Hih) as (xp & Ep & Hxp & Hget).
    rewrite Ep. cbn [bind]. rewrite Hks. cbn [bind].
    rewrite (@convolve_spec (c_stride l) (c_dilation l) xp ks ic _ _ kf ic kh kw Hxp Hic ltac:(lia) Hk Hkf Hic Hkh
               (Nat.le_refl _) Hs1 Hs2 Hf1 Hf2).
    cbn [bind]. f_equal. apply build3_ext. intros f oy ox Hf Hoy Hox.
    apply corr_cell_ext. intros c h w Hc Hh Hw. apply Hget; [exact Hc| |].
    - apply guard_in_range with (k := kh); assumption.
    - apply guard_in_range with (k := kw); assumption.
  Qed.

  (* the pre-activation has exactly the dimensions kf x oh x ow *)
  Corollary conv_forward_shape (l : conv N) (x : tensor) d ks ic ih iw kf kh kw pre post :
    c_inputs l = STriple ic ih iw ->
    tdata x = DTriple d -> rect3 ic ih iw d ->
    mapM (@kernel_data N) (c_kernels l) = Ok ks -> rect4 kf ic kh kw ks ->
    0 < ic -> 0 < ih -> 0 < kf -> 0 < kh ->
    0 < fst (c_stride l) -> 0 < snd (c_stride l) ->
    (kh - 1) * fst (c_dilation l) + 1 <= ih + 2 * fst (c_padding l) ->
    (kw - 1) * snd (c_dilation l) + 1 <= iw + 2 * snd (c_padding l) ->
    conv_forward l x = Ok (pre, post) ->
    tshape pre = STriple kf (out_len (ih + 2 * fst (c_padding l)) kh (fst (c_stride l)) (fst (c_dilation l)))
                            (out_len (iw + 2 * snd (c_padding l)) kw (snd (c_stride l)) (snd (c_dilation l))).
  Proof.
    intros Hin Hd Hr Hks Hk Hic Hih Hkf Hkh Hs1 Hs2 Hf1 Hf2 H.
    rewrite (conv_forward_spec l x Hin Hd Hr Hks Hk Hic Hih Hkf Hkh Hs1 Hs2 Hf1 Hf2) in H.
    unfold post_process in H. rewrite t_triple_build3 in H by (unfold out_len; lia). cbn [bind] in H.
    destruct (act_forward _ _) as [p0|]; [|discriminate]. cbn [bind] in H.
    match type of H with (do p <- ?X; _) = _ => destruct X as [p1|]; [|discriminate] end.
    cbn [bind] in H. injection H as <- _. reflexivity.
  Qed.
End Conv.
