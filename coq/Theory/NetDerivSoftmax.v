(* C01, soft-max output layer under the cross-entropy objective, end to end on the model's own
   functions: for a dense network whose LAST layer has the soft-max activation, trained with the
   cross-entropy objective, Learn.sample_grad returns the cross-entropy of the soft-max outputs and
   the gradients it returns are the derivative of that loss along every differentiable curve of all
   weights and biases - provided the targets sum to one and the predicted probabilities lie inside
   the clamp interval (eps, 1 - eps) of the objective. The library propagates (p - t) times a
   soft-max "derivative" of one; Theory/Deriv.v (softmax_ce_gradient) shows that p - t IS the
   derivative with respect to the logits. *)
From NV Require Import Prelude Num NumR Random Tensor Activation Objective Optimizer Layers Network Learn.
From NV.Theory Require Import Monad Lists Build RSum Adjoint Deriv Chain ChainDense C07 C01 Forward NetDeriv NetDerivObj PoolDeriv NetDerivSkipModel.
From NV.Theory Require C06.
Require Import Reals Lra Lia List.
From Coquelicot Require Import Coquelicot.
Import ListNotations.
Local Open Scope list_scope.
Local Open Scope R_scope.
Set Implicit Arguments.

(* ---- the soft-max layer differs from the linear layer only in what forward returns ---- *)
Definition as_linear (s : lspec) : lspec :=
  {| ls_o := ls_o s; ls_n := ls_n s; ls_act := Linear; ls_bias := ls_bias s |}.

Lemma mk_dense_backward_softmax (s : lspec) (th : vec) (g i o : tensor NR) :
  ls_act s = Softmax ->
  dense_backward (mk_dense s th) g i o = dense_backward (mk_dense (as_linear s) th) g i o.
Proof.
  intros Ha. unfold dense_backward. cbn [mk_dense as_linear d_act d_weights d_bias d_loops ls_o ls_n ls_act ls_bias].
  rewrite Ha. reflexivity.
Qed.

Lemma softmax_list_length (x : list R) : length (softmax_list NR x) = length x.
Proof. unfold softmax_list. rewrite !map_length. reflexivity. Qed.

Lemma mk_dense_forward_softmax (s : lspec) (th : vec) (xl : list R) :
  length xl = ls_n s -> ls_act s = Softmax ->
  dense_forward (mk_dense s th) (t_single NR xl)
  = Ok (t_single NR (preL (as_linear s, th) xl), t_single NR (softmax_list NR (preL (as_linear s, th) xl))).
Proof.
  intros Hl Ha.
  pose proof (@mk_dense_forward (as_linear s) th xl Hl ltac:(cbn; discriminate)) as Hlin.
  unfold dense_forward in *. cbn [mk_dense as_linear d_weights d_bias d_act d_training d_dropout ls_o ls_n ls_act ls_bias] in *.
  change (Wl (as_linear s) th) with (Wl s th) in Hlin. change (Bl (as_linear s) th) with (Bl s th) in Hlin.
  rewrite Ha.
  match goal with |- context [dot ?a ?b] => destruct (dot a b) as [pre0|] eqn:E0 end; [|cbn [bind] in Hlin; discriminate Hlin]. cbn [bind] in *.
  destruct (ls_bias s).
  - match goal with |- context [add_inplace ?a ?b] => destruct (add_inplace a b) as [pre1|] eqn:E1 end; [|cbn [bind] in Hlin; discriminate Hlin].
    cbn [bind act_forward] in *. injection Hlin as Hpre _. subst pre1.
    unfold softmax_f, get_flat, preL. cbn [fst snd as_linear ls_o ls_n ls_act ls_bias t_single tdata bind tshape].
    unfold reshape. cbn [tshape]. unfold apply_dropout. reflexivity.
  - cbn [bind act_forward] in *. injection Hlin as Hpre _. subst pre0.
    unfold softmax_f, get_flat, preL. cbn [fst snd as_linear ls_o ls_n ls_act ls_bias t_single tdata bind tshape].
    unfold reshape. cbn [tshape]. unfold apply_dropout. reflexivity.
Qed.

(* ---- folds over element-wise related lists ---- *)
Lemma foldM_Forall2 A B S (f : S -> A -> res S) (g : S -> B -> res S) (R0 : A -> B -> Prop) l1 l2 :
  Forall2 R0 l1 l2 -> (forall s x y, R0 x y -> f s x = g s y) -> forall s, foldM f l1 s = foldM g l2 s.
Proof.
  intros H Hfg. induction H as [|x y l1 l2 Hxy _ IH]; intros s; [reflexivity|].
  cbn [foldM]. rewrite (Hfg s x y Hxy). destruct (g s y) as [s'|]; [apply IH|reflexivity].
Qed.

(* the backward pass of the network with a soft-max last layer is the backward pass of the same
   network with a linear last layer *)
Lemma bstep_dense_ext (n1 n2 : network NR) (f : fwd NR) (st : bstate) (i : nat) (d1 d2 : dense NR) :
  length (n_layers n1) = length (n_layers n2) -> n_connect n1 = n_connect n2 -> n_skipacc n1 = n_skipacc n2 ->
  (forall g x o, dense_backward d1 g x o = dense_backward d2 g x o) ->
  bstep n1 f st (i, LDense d1) = bstep n2 f st (i, LDense d2).
Proof.
  intros Hl Hc Ha Hd. unfold bstep. destruct st as [[[[gs wgs] bgs] fbs] ps]. rewrite Hl, Hc, Ha.
  cbn [layer_backward].
  destruct (nth_res (fw_post f) _) as [input0|]; [|reflexivity]. cbn [bind].
  match goal with |- (do input <- ?I; _) = _ => destruct I as [input|]; [|reflexivity] end. cbn [bind].
  destruct (nth_res (fw_pre f) _) as [output|]; [|reflexivity]. cbn [bind].
  destruct (last_opt gs) as [lastg|]; [|reflexivity]. cbn [bind].
  destruct (nth_res (fw_max f) _) as [mx|]; [|reflexivity]. cbn [bind].
  rewrite (Hd lastg input output). reflexivity.
Qed.

Lemma backward_softmax_as_linear (n0 : network NR) (front : list (lspec * vec)) (s : lspec) (th : vec)
      (g : tensor NR) (f : fwd NR) :
  ls_act s = Softmax ->
  backward (set_layers n0 (map mkL front ++ mkL (s, th) :: nil)) g f
  = backward (set_layers n0 (map mkL front ++ mkL (as_linear s, th) :: nil)) g f.
Proof.
  intros Ha. rewrite !backward_is_fold. cbn [set_layers n_layers].
  rewrite !app_length. cbn [length]. rewrite !rev_app_distr. cbn [rev app].
  set (n1 := set_layers n0 (map mkL front ++ mkL (s, th) :: nil)).
  set (n2 := set_layers n0 (map mkL front ++ mkL (as_linear s, th) :: nil)).
  assert (Hl : length (n_layers n1) = length (n_layers n2)).
  { unfold n1, n2. cbn [set_layers n_layers]. rewrite !app_length. reflexivity. }
  destruct (length (map mkL front) + 1)%nat as [|len'] eqn:El; [lia|]. cbn [seq combine foldM].
  cbn [mkL fst snd].
  rewrite (@bstep_dense_ext n1 n2 f _ 0%nat (mk_dense s th) (mk_dense (as_linear s) th) Hl eq_refl eq_refl
             (fun g0 x o => @mk_dense_backward_softmax s th g0 x o Ha)).
  destruct (bstep n2 f _ _) as [st1|]; [|reflexivity]. cbn [bind].
  f_equal. apply foldM_ext. intros st il _. destruct il as [i lyr].
  unfold bstep. destruct st as [[[[gs wgs] bgs] fbs] ps]. rewrite Hl. reflexivity.
Qed.

(* ---- forward of the network with a soft-max last layer ---- *)
Lemma outL_linear (s : lspec) (th : vec) (x : list R) : outL (as_linear s, th) x = preL (as_linear s, th) x.
Proof. reflexivity. Qed.

Lemma predL_app (s1 s2 : list (lspec * vec)) x : predL (s1 ++ s2) x = predL s2 (predL s1 x).
Proof. revert x; induction s1 as [|p s1 IH]; intros x; cbn [app predL]; [reflexivity|apply IH]. Qed.
Lemma presL_app (s1 s2 : list (lspec * vec)) x : presL (s1 ++ s2) x = presL s1 x ++ presL s2 (predL s1 x).
Proof. revert x; induction s1 as [|p s1 IH]; intros x; cbn [app presL predL]; [reflexivity|]. rewrite IH. reflexivity. Qed.
Lemma lastD_app (s1 s2 : list (lspec * vec)) d : lastD (s1 ++ s2) d = lastD s2 (lastD s1 d).
Proof. revert d; induction s1 as [|[s th] s1 IH]; intros d; cbn [app lastD]; [reflexivity|apply IH]. Qed.
Lemma chainedS_app (s1 s2 : list (lspec * vec)) d : chainedS s1 d -> chainedS s2 (lastD s1 d) -> chainedS (s1 ++ s2) d.
Proof.
  revert d; induction s1 as [|[s th] s1 IH]; intros d H1 H2; cbn [app chainedS lastD] in *; [exact H2|].
  destruct H1 as (A & B & C & D & E). repeat split; try assumption. apply IH; assumption.
Qed.

Section SoftmaxNet.
  Variables (front : list (lspec * vec)) (s : lspec) (th : vec) (n0 : network NR).
  Hypothesis Hc : n_connect n0 = [].
  Hypothesis Hl : n_loopbacks n0 = [].
  Hypothesis Ha : ls_act s = Softmax.
  Variables (d : nat) (xl : list R).
  Hypothesis Hxl : length xl = d.
  Hypothesis Hchf : chainedS front d.
  Hypothesis Hns : ls_n s = lastD front d.
  Hypothesis Hos : (0 < ls_o s)%nat.
  Hypothesis Hns0 : (0 < ls_n s)%nat.

  Let n_sm := set_layers n0 (map mkL front ++ mkL (s, th) :: nil).
  Let lin := front ++ (as_linear s, th) :: nil.
  Let logits := predL lin xl.

  Lemma chained_lin : chainedS lin d.
  Proof.
    unfold lin. apply chainedS_app; [exact Hchf|]. cbn [chainedS as_linear ls_n ls_o ls_act].
    repeat split; try assumption; discriminate.
  Qed.

  Lemma forward_softmax_net :
    forward n_sm (t_single NR xl)
    = Ok {| fw_pre := map (t_single NR) (presL lin xl);
            fw_post := map (t_single NR) (insL lin xl ++ softmax_list NR logits :: nil);
            fw_max := repeat None (length lin); fw_fb := [] |}.
  Proof.
    assert (Hlay : n_layers n_sm = map mkL (front ++ (s, th) :: nil)).
    { unfold n_sm. cbn [set_layers n_layers]. rewrite map_app. reflexivity. }
    rewrite (forward_is_fold n_sm (t_single NR xl) Hl). rewrite Hlay, map_length, app_length. cbn [length].
    rewrite seq_app. cbn [seq Nat.add]. rewrite foldM_app.
    rewrite (@fwd_plain_segment' n_sm front [] ((s, th) :: nil) _ d xl []); try assumption; try reflexivity.
    2:{ intros i _. unfold n_sm. cbn [set_layers n_connect]. rewrite Hc. reflexivity. }
    cbn [bind fw_pre fw_post fw_max fw_fb app length Nat.add foldM].
    set (xlast := predL front xl).
    assert (Hxlast : length xlast = ls_n s) by (unfold xlast; rewrite Hns; apply (@length_predL front d xl Hchf Hxl)).
    unfold fstep at 1. cbn [fw_post]. rewrite map_app. cbn [map]. rewrite last_opt_app. cbn [bind].
    replace (alist_get (n_connect n_sm) (length front)) with (@None nat) by (unfold n_sm; cbn [set_layers n_connect]; rewrite Hc; reflexivity).
    cbn [bind].
    assert (Esub : sub_layers (n_layers n_sm) (length front) (length front + 1) = mkL (s, th) :: nil).
    { rewrite Hlay, map_app. cbn [map]. replace (length front) with (length (map mkL front)) by apply map_length.
      apply sub_layers_one. }
    rewrite Esub. unfold forward_range, mkL. cbn [foldM fw_post last_opt rev app bind fst snd].
    rewrite (@mk_dense_forward_softmax s th xlast Hxlast Ha). cbn [bind fw_pre fw_post fw_max fw_fb fst snd tl app].
    unfold logits, lin. rewrite presL_app, insL_app, predL_app, app_length. cbn [presL insL predL length]. fold xlast.
    rewrite outL_linear.
    f_equal. f_equal.
    - rewrite !map_app. reflexivity.
    - rewrite !map_app. cbn [map]. rewrite <- !app_assoc. reflexivity.
    - change (@None mpval :: nil) with (repeat (@None mpval) 1). rewrite <- repeat_app. reflexivity.
  Qed.
End SoftmaxNet.

(* ================= the cross-entropy of the soft-max outputs ================= *)
Lemma loss_ce_single (pl tgl : list R) :
  loss (N := NR) CrossEntropy None (t_single NR pl) (t_single NR tgl)
  = Ok (loss_value NR CrossEntropy tgl pl, t_single NR (map2 (fun a q => q - a) tgl pl)).
Proof. reflexivity. Qed.

Lemma Rsum_map_bsum (g : R -> R) (l : list R) m : length l = m -> Rsum (map g l) = bsum m (fun i => g (vof l i)).
Proof.
  intros H. rewrite <- (lof_vof l) at 1. rewrite H. unfold lof. rewrite map_build1. reflexivity.
Qed.

Lemma softmax_as_smR (yl : list R) m : (0 < m)%nat -> length yl = m ->
  softmax_list NR yl = lof m (smR m (vof yl)).
Proof.
  intros Hm Hl. rewrite softmax_closed_form by (destruct yl; [cbn in Hl; lia|discriminate]).
  rewrite (Rsum_map_bsum exp yl Hl).
  rewrite <- (lof_vof yl) at 1. rewrite Hl. unfold lof. rewrite map_build1. reflexivity.
Qed.

Definition ce_of_logits (tgl : list R) (yl : list R) : R := loss_value NR CrossEntropy tgl (softmax_list NR yl).
Definition ce_logit_grad (tgl : list R) (yl : list R) : list R := map2 (fun a q => q - a) tgl (softmax_list NR yl).

Lemma smR_pos m (z : nat -> R) i : (0 < m)%nat -> 0 < smR m z i.
Proof. intros Hm. unfold smR. apply Rdiv_lt_0_compat; [apply exp_pos|apply sum_exp_pos; exact Hm]. Qed.

Lemma smR_derivable m (Z : R -> nat -> R) (Z' : nat -> R) h0 i :
  (0 < m)%nat -> (forall j, (j < m)%nat -> is_derive (fun t => Z t j) h0 (Z' j)) -> (i < m)%nat ->
  exists D, is_derive (fun t => smR m (Z t) i) h0 D.
Proof.
  intros Hm HZ Hi. unfold smR. eexists.
  apply (is_derive_div (fun t => exp (Z t i)) (fun t => bsum m (fun j => exp (Z t j)))).
  - apply (is_derive_comp exp (fun t => Z t i)); [apply is_derive_Reals, derivable_pt_lim_exp|apply HZ; exact Hi].
  - apply is_derive_bsum. intros j Hj.
    apply (is_derive_comp exp (fun t => Z t j)); [apply is_derive_Reals, derivable_pt_lim_exp|apply HZ; exact Hj].
  - apply Rgt_not_eq. apply sum_exp_pos. exact Hm.
Qed.

(* the contract: at logits whose soft-max lies inside the clamp interval, with targets summing to one *)
Lemma ce_softmax_contract (tgl y0 : list R) m h0 :
  (0 < m)%nat -> length tgl = m -> bsum m (vof tgl) = 1 ->
  (forall i, (i < m)%nat -> C06.eps_R < smR m (vof y0) i < 1 - C06.eps_R) ->
  contract_at m (ce_of_logits tgl) (ce_logit_grad tgl) y0 h0.
Proof.
  intros Hm Htl Hsum Hin Y Y' HYl HY0 HYd.
  assert (HZ : forall j, (j < m)%nat -> is_derive (fun t => vof (Y t) j) h0 (Y' j)) by exact HYd.
  (* near h0 every predicted probability stays inside the clamp interval *)
  assert (Hloc : locally h0 (fun t => forall i, In i (seq 0 m) -> C06.clampR (smR m (vof (Y t)) i) = smR m (vof (Y t)) i)).
  { apply (@locally_forall_list _ (seq 0 m) (fun i t => C06.clampR (smR m (vof (Y t)) i) = smR m (vof (Y t)) i)).
    intros i Hi. apply in_seq in Hi.
    destruct (@smR_derivable m (fun t => vof (Y t)) Y' h0 i Hm HZ ltac:(lia)) as (D & HD).
    specialize (Hin i ltac:(lia)). rewrite <- HY0 in Hin.
    pose proof (@locally_gt (fun t => smR m (vof (Y t)) i) (fun _ => C06.eps_R) h0 D 0 HD (@is_derive_const _ _ _ _) (proj1 Hin)) as L1.
    pose proof (@locally_gt (fun _ => 1 - C06.eps_R) (fun t => smR m (vof (Y t)) i) h0 0 D (@is_derive_const _ _ _ _) HD (proj2 Hin)) as L2.
    generalize (filter_and _ _ L1 L2). apply filter_imp. intros t [A B]. apply C06.clampR_id. split; assumption. }
  (* there the model's loss is the cross-entropy of the soft-max of the logits *)
  apply (is_derive_ext_loc (fun t => ce_smR m (vof tgl) (vof (Y t)))).
  - revert Hloc. apply filter_imp. intros t Ht. unfold ce_of_logits, ce_smR.
    rewrite C06.loss_formula_CE. rewrite (@softmax_as_smR (Y t) m Hm (HYl t)).
    rewrite (map2_lof (fun a q => a * ln (C06.clampR q)) tgl (lof m (smR m (vof (Y t)))) Htl (length_lof _ _)), Rsum_lof.
    f_equal. apply bsum_ext. intros i Hi. rewrite vof_lof by exact Hi.
    rewrite (Ht i ltac:(apply in_seq; lia)). reflexivity.
  - replace (dotp m (vof (ce_logit_grad tgl (Y h0))) Y') with (bsum m (fun i => Y' i * (smR m (vof (Y h0)) i - vof tgl i))).
    + apply (@softmax_ce_gradient m (fun t => vof (Y t)) Y' h0 (vof tgl) Hm Hsum HZ).
    + unfold dotp, ce_logit_grad. apply bsum_ext. intros i Hi.
      rewrite (@softmax_as_smR (Y h0) m Hm (HYl h0)).
      rewrite (map2_lof (fun a q => q - a) tgl (lof m (smR m (vof (Y h0)))) Htl (length_lof _ _)).
      rewrite !vof_lof by exact Hi. ring.
Qed.

(* ================= end to end ================= *)
Section SoftmaxEndToEnd.
  Variables (cfront : curves) (s : lspec) (Th : R -> vec) (Th' : vec) (n0 : network NR).
  Hypothesis Hc : n_connect n0 = [].
  Hypothesis Hl : n_loopbacks n0 = [].
  Hypothesis Hobj : n_objective n0 = (CrossEntropy, None).
  Hypothesis Ha : ls_act s = Softmax.

  (* the model network: the front layers, then the soft-max layer *)
  Definition sm_net_at (t : R) : network NR :=
    set_layers n0 (map mkL (at_t cfront t) ++ mkL (s, Th t) :: nil).
  (* the curves of the same network with a linear last layer (the logits) *)
  Definition clin : curves := cfront ++ (as_linear s, Th, Th') :: nil.

  Variables (d : nat) (xl tgl : list R) (h0 : R).
  Hypothesis Hxl : length xl = d.
  Hypothesis Hchf : chainedS (at_t cfront h0) d.
  Hypothesis Hns : ls_n s = lastD (at_t cfront h0) d.
  Hypothesis Hos : (0 < ls_o s)%nat.
  Hypothesis Hns0 : (0 < ls_n s)%nat.
  Hypothesis Htl : length tgl = ls_o s.
  Hypothesis Hsum : bsum (ls_o s) (vof tgl) = 1.
  Hypothesis Hcu : curves_ok clin h0.
  Hypothesis Hsm : smoothL (at_t clin h0) xl.
  Let logits (t : R) : list R := predL (at_t clin t) xl.
  Hypothesis Hin : forall i, (i < ls_o s)%nat -> C06.eps_R < smR (ls_o s) (vof (logits h0)) i < 1 - C06.eps_R.

  Lemma at_t_clin t : at_t clin t = at_t cfront t ++ (as_linear s, Th t) :: nil.
  Proof. unfold clin, at_t. rewrite map_app. reflexivity. Qed.

  Theorem softmax_ce_model_gradient :
    exists gps : list vec,
      length gps = length clin /\
      (* the gradient tensors returned for the soft-max network are those of the walk on the logits network *)
      sample_grad (sm_net_at h0) (t_single NR xl, t_single NR tgl)
        = Ok ((ws_of (at_t clin h0) gps, bs_of (at_t clin h0) gps), ce_of_logits tgl (logits h0)) /\
      (forall t, loss_of (sample_grad (sm_net_at t) (t_single NR xl, t_single NR tgl)) = ce_of_logits tgl (logits t)) /\
      is_derive (fun t => loss_of (sample_grad (sm_net_at t) (t_single NR xl, t_single NR tgl))) h0 (pairing clin gps).
  Proof.
    set (m := ls_o s).
    assert (Hch : chainedS (at_t clin h0) d).
    { rewrite at_t_clin. apply chainedS_app; [exact Hchf|]. cbn [chainedS as_linear ls_n ls_o ls_act].
      repeat split; try assumption; discriminate. }
    assert (HlastD : forall t, lastD (at_t clin t) d = m).
    { intros t. rewrite at_t_clin, lastD_app. reflexivity. }
    (* sample_grad of the soft-max network at an arbitrary t *)
    assert (SG : forall t,
               let '(gin, gps, gins) := gradsL (at_t clin t) xl (ce_logit_grad tgl (logits t)) in
               sample_grad (sm_net_at t) (t_single NR xl, t_single NR tgl)
               = Ok ((ws_of (at_t clin t) gps, bs_of (at_t clin t) gps), ce_of_logits tgl (logits t))).
    { intros t.
      assert (Hchf_t : chainedS (at_t cfront t) d) by (apply (@chainedS_at_t cfront h0 t d); exact Hchf).
      assert (Hns_t : ls_n s = lastD (at_t cfront t) d) by (rewrite (lastD_at_t cfront t h0 d); exact Hns).
      assert (Hch_t : chainedS (at_t clin t) d) by (apply (@chainedS_at_t clin h0 t d); exact Hch).
      pose proof (@forward_softmax_net (at_t cfront t) s (Th t) n0 Hc Hl Ha d xl Hxl Hchf_t Hns_t) as Hf.
      rewrite <- at_t_clin in Hf. fold (logits t) in Hf.
      set (f := {| fw_pre := map (t_single NR) (presL (at_t clin t) xl);
                   fw_post := map (t_single NR) (insL (at_t clin t) xl ++ softmax_list NR (logits t) :: nil);
                   fw_max := repeat None (length (at_t clin t)); fw_fb := [] |}) in *.
      assert (Hlog : length (logits t) = m).
      { unfold logits. rewrite (@length_predL (at_t clin t) d xl Hch_t Hxl). apply HlastD. }
      assert (Hgl : length (ce_logit_grad tgl (logits t)) = lastD (at_t clin t) d).
      { rewrite HlastD. unfold ce_logit_grad.
        rewrite (map2_lof (fun a q => q - a) tgl (softmax_list NR (logits t)) Htl ltac:(rewrite softmax_list_length; exact Hlog)).
        apply length_lof. }
      pose proof (@backward_mlp (set_layers n0 (map mkL (at_t clin t))) (at_t clin t) d xl (ce_logit_grad tgl (logits t)) f
                    Hc eq_refl Hch_t Hxl Hgl eq_refl (@posts_lookup f (at_t clin t) xl _ eq_refl) eq_refl) as Hb.
      destruct (gradsL (at_t clin t) xl (ce_logit_grad tgl (logits t))) as [[gin gps] gins].
      unfold sample_grad. cbn [fst snd]. unfold sm_net_at in *. rewrite Hf. cbn [bind].
      assert (Elast : last_opt (fw_post f) = Some (t_single NR (softmax_list NR (logits t)))).
      { unfold f. cbn [fw_post]. rewrite map_app. cbn [map]. apply last_opt_app. }
      rewrite Elast. cbn [bind]. cbn [set_layers n_objective]. rewrite Hobj. cbn [fst snd].
      rewrite loss_ce_single. cbn [bind fst snd].
      rewrite (@backward_softmax_as_linear n0 (at_t cfront t) s (Th t) _ f Ha).
      change (map mkL (at_t cfront t) ++ mkL (as_linear s, Th t) :: nil) with (map mkL (at_t cfront t) ++ map mkL ((as_linear s, Th t) :: nil)).
      rewrite <- map_app, <- at_t_clin. fold (ce_logit_grad tgl (logits t)). rewrite Hb. reflexivity. }
    pose proof (SG h0) as SG0.
    destruct (gradsL (at_t clin h0) xl (ce_logit_grad tgl (logits h0))) as [[gin gps] gins] eqn:Eg.
    exists gps. split.
    { pose proof (gradsL_lengths (at_t clin h0) xl (ce_logit_grad tgl (logits h0))) as [Hl1 _].
      rewrite Eg in Hl1. cbn [fst snd] in Hl1. rewrite Hl1. unfold at_t. apply map_length. }
    split; [exact SG0|].
    assert (LV : forall t, loss_of (sample_grad (sm_net_at t) (t_single NR xl, t_single NR tgl)) = ce_of_logits tgl (logits t)).
    { intros t. pose proof (SG t) as SGt. destruct (gradsL (at_t clin t) xl _) as [[gin' gps'] gins']. rewrite SGt. reflexivity. }
    split; [exact LV|].
    apply (is_derive_ext (fun t => ce_of_logits tgl (logits t))); [intros t; symmetry; apply LV|].
    pose proof (@gradsL_derivative_at clin d (fun _ => xl) (fun _ => 0) h0 m (ce_of_logits tgl) (ce_logit_grad tgl)
                  Hch (fun _ => Hxl) (fun i Hi => @is_derive_const _ _ (vof xl i) h0) Hcu Hsm (eq_sym (HlastD h0))) as D.
    cbv beta in D. fold (logits h0) in D. rewrite Eg in D.
    replace (pairing clin gps) with (pairing clin gps + dotp d (vof gin) (fun _ => 0)).
    - apply D. apply (@ce_softmax_contract tgl (logits h0) m h0 Hos Htl Hsum Hin).
    - unfold dotp. rewrite (@bsum_ext d _ (fun _ => 0)) by (intros; ring). rewrite bsum_zero. ring.
  Qed.
End SoftmaxEndToEnd.

Lemma preD_zero o n (th x : vec) k : (forall i, th i = 0) -> preD o n th x k = 0.
Proof.
  intros H. unfold ChainDense.pre, affR, Wof, Bof. rewrite H.
  rewrite (@bsum_ext n _ (fun _ => 0)) by (intros j _; rewrite H; ring). rewrite bsum_zero. ring.
Qed.

(* ---- the hypotheses are satisfiable: 2 -> 2 (tanh) -> 2 (soft-max), one-hot target, the output layer
        starting from zero parameters (predicted probabilities 1/2, 1/2), every parameter moving along a line ---- *)
Example softmax_ce_model_gradient_applies (th0 d0 dl : vec) (x1 x2 : R) :
  let s0 := {| ls_o := 2; ls_n := 2; ls_act := Tanh; ls_bias := true |} in
  let s := {| ls_o := 2; ls_n := 2; ls_act := Softmax; ls_bias := true |} in
  let cfront : curves := (s0, (fun t i => th0 i + t * d0 i), d0) :: nil in
  let n0 := set_objective (network_new NR (SSingle 2)) CrossEntropy None in
  exists gps : list vec,
    is_derive (fun t => loss_of (sample_grad (sm_net_at cfront s (fun t i => t * dl i) n0 t)
                                              (t_single NR (x1 :: x2 :: nil), t_single NR (1 :: 0 :: nil)))) 0
              (pairing (clin cfront s (fun t i => t * dl i) dl) gps).
Proof.
  intros s0 s cfront n0.
  destruct (@softmax_ce_model_gradient cfront s (fun t i => t * dl i) dl n0 eq_refl eq_refl eq_refl eq_refl
              2%nat (x1 :: x2 :: nil) (1 :: 0 :: nil) 0 eq_refl) as (gps & _ & _ & _ & D).
  - cbn. repeat split; try lia; discriminate.
  - reflexivity.
  - cbn. lia.
  - cbn. lia.
  - reflexivity.
  - cbn. unfold bsum. cbn. unfold vof. cbn. ring.
  - cbn [curves_ok clin cfront app]. split; [|split; [|exact I]]; intros k Hk; cbv beta; auto_derive; try exact I; ring.
  - cbn. repeat split; intros; exact I.
  - intros i Hi.
    assert (E : forall k, (k < 2)%nat -> vof (predL (at_t (clin cfront s (fun t i => t * dl i) dl) 0) (x1 :: x2 :: nil)) k = 0).
    { intros k Hk. unfold clin, cfront. cbn [app at_t map fst snd predL].
      unfold outL at 1. cbn [fst snd as_linear ls_o ls_n ls_act ls_bias s]. rewrite vof_lof by exact Hk.
      cbn [stage_of dense_stage sfwd phi_of as_linear ls_act ls_o ls_n].
      apply preD_zero. intros j. unfold eff, as_linear, s. cbn [ls_bias]. ring. }
    assert (Hi2 : (i < 2)%nat) by exact Hi.
    unfold smR. change (ls_o s) with 2%nat. unfold bsum. cbn [seq map Rsum].
    rewrite (E 0%nat) by lia. rewrite (E 1%nat) by lia. rewrite (E i Hi2). rewrite exp_0. unfold C06.eps_R. lra.
  - exists gps. exact D.
Qed.
