(* Reverse accumulation (C01): if every stage of a sequential network hands back the transpose of
   its Jacobian (the per-layer theorems of Theory/Deriv.v), then the reverse layer walk, started
   from the objective's gradient, returns for every parameter vector the derivative of the
   objective along any differentiable change of the parameters, and for the network input the
   derivative with respect to the input. *)
From NV.Theory Require Import RSum.
Require Import Reals Lra Lia List.
From Coquelicot Require Import Coquelicot.
Import ListNotations.
Local Open Scope R_scope.
Set Implicit Arguments.

Definition vec := nat -> R.
Definition dotp (n : nat) (u v : vec) : R := bsum n (fun i => u i * v i).
(* a curve of vectors with componentwise derivative V' at h0 *)
Definition dvec (n : nat) (V : R -> vec) (h0 : R) (V' : vec) : Prop :=
  forall i, (i < n)%nat -> is_derive (fun t => V t i) h0 (V' i).

Record stage := {
  din : nat; dpar : nat; dout : nat;
  sfwd : vec -> vec -> vec;                       (* parameters -> input -> output *)
  sbwd : vec -> vec -> vec -> vec * vec           (* parameters -> input -> output gradient ->
                                                     (input gradient, parameter gradient) *)
}.

(* the local contract at the point (theta0, x0): along every differentiable curve through it the
   output is differentiable and the backward pass is the transposed Jacobian *)
Definition stage_ok (s : stage) (theta0 x0 : vec) : Prop :=
  forall (Th X : R -> vec) (Th' X' : vec) h0,
    (forall i, (i < dpar s)%nat -> Th h0 i = theta0 i) -> (forall i, (i < din s)%nat -> X h0 i = x0 i) ->
    dvec (dpar s) Th h0 Th' -> dvec (din s) X h0 X' ->
    exists Y', dvec (dout s) (fun t => sfwd s (Th t) (X t)) h0 Y' /\
               forall g, dotp (dout s) g Y'
                         = dotp (dpar s) (snd (sbwd s (Th h0) (X h0) g)) Th' + dotp (din s) (fst (sbwd s (Th h0) (X h0) g)) X'.

(* a network: stages with their parameter curves *)
Definition net := list (stage * (R -> vec) * vec).   (* stage, parameter curve, its tangent *)

Fixpoint run (nw : net) (X : R -> vec) : R -> vec :=
  match nw with
  | [] => X
  | (s, Th, _) :: rest => run rest (fun t => sfwd s (Th t) (X t))
  end.

(* the reverse walk at h0: returns the input gradient and the parameter gradients, first layer first *)
Fixpoint reverse (nw : net) (X : R -> vec) (h0 : R) (gfinal : vec -> vec) : vec * list vec :=
  match nw with
  | [] => (gfinal (X h0), [])
  | (s, Th, _) :: rest =>
      let '(gmid, gps) := reverse rest (fun t => sfwd s (Th t) (X t)) h0 gfinal in
      let '(gin, gp) := sbwd s (Th h0) (X h0) gmid in
      (gin, gp :: gps)
  end.

Fixpoint chained (nw : net) (d : nat) : Prop :=
  match nw with
  | [] => True
  | (s, _, _) :: rest => din s = d /\ chained rest (dout s)
  end.
Fixpoint last_dim (nw : net) (d : nat) : nat :=
  match nw with [] => d | (s, _, _) :: rest => last_dim rest (dout s) end.

Fixpoint all_ok (nw : net) (X : R -> vec) (h0 : R) : Prop :=
  match nw with
  | [] => True
  | (s, Th, Th') :: rest =>
      stage_ok s (Th h0) (X h0) /\ dvec (dpar s) Th h0 Th' /\ all_ok rest (fun t => sfwd s (Th t) (X t)) h0
  end.

Fixpoint param_pairing (nw : net) (gps : list vec) : R :=
  match nw, gps with
  | (s, _, Th') :: rest, gp :: gps' => dotp (dpar s) gp Th' + param_pairing rest gps'
  | _, _ => 0
  end.

Theorem reverse_accumulation (nw : net) : forall (d : nat) (X : R -> vec) (X' : vec) h0
    (Lf : vec -> R) (gL : vec -> vec),
  chained nw d -> all_ok nw X h0 -> dvec d X h0 X' ->
  (* the objective's gradient is its derivative along every differentiable curve of predictions *)
  (forall (Y : R -> vec) Y', dvec (last_dim nw d) Y h0 Y' ->
        is_derive (fun t => Lf (Y t)) h0 (dotp (last_dim nw d) (gL (Y h0)) Y')) ->
  let '(gin, gps) := reverse nw X h0 gL in
  is_derive (fun t => Lf (run nw X t)) h0 (param_pairing nw gps + dotp d gin X').
Proof.
  induction nw as [|[[s Th] Th'] rest IH]; intros d X X' h0 Lf gL Hch Hok HX HL.
  - cbn [reverse run param_pairing last_dim] in *. rewrite Rplus_0_l. apply HL. exact HX.
  - cbn [chained all_ok last_dim] in *. destruct Hch as [Hd Hch]. destruct Hok as (Hs & HTh & Hok).
    cbn [reverse run].
    destruct (Hs Th X Th' X' h0 (fun _ _ => eq_refl) (fun _ _ => eq_refl) HTh ltac:(rewrite Hd; exact HX))
      as (Y' & HY & Hadj).
    specialize (IH (dout s) (fun t => sfwd s (Th t) (X t)) Y' h0 Lf gL Hch Hok HY HL).
    destruct (reverse rest (fun t => sfwd s (Th t) (X t)) h0 gL) as [gmid gps].
    specialize (Hadj gmid).
    destruct (sbwd s (Th h0) (X h0) gmid) as [gin gp]. cbn [fst snd] in Hadj.
    cbn [param_pairing].
    replace (dotp (dpar s) gp Th' + param_pairing rest gps + dotp d gin X')
      with (param_pairing rest gps + dotp (dout s) gmid Y') by (rewrite Hadj, Hd; ring).
    exact IH.
Qed.
