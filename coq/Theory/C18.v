(* C18: the linear congruential generator and shuffle. *)
From NV Require Import Prelude Num NumF32 Random Tensor.
From NV.Theory Require Import Monad.
From Coq Require Import Permutation.
Set Implicit Arguments.
Local Open Scope Z_scope.

(* ---- integer part: the state sequence ---- *)
Lemma next_range cur : 0 <= lcg_next cur < lcg_m.
Proof. unfold lcg_next. apply Z.mod_pos_bound. reflexivity. Qed.

(* the u64 product `multiplier * (current % modulus)` cannot overflow, whatever the seed *)
Lemma next_no_overflow cur : 0 <= cur -> 0 <= lcg_a * (cur mod lcg_m) < two64.
Proof.
  intros H. pose proof (Z.mod_pos_bound cur lcg_m ltac:(reflexivity)) as B.
  unfold lcg_a, lcg_m, two64 in *. lia.
Qed.

(* a seed and its residue modulo m generate the same sequence *)
Lemma next_reduces cur : lcg_next (cur mod lcg_m) = lcg_next cur.
Proof. unfold lcg_next. rewrite Z.mod_mod by (unfold lcg_m; lia). reflexivity. Qed.

(* the k-th state is a function of the seed alone *)
Fixpoint state_after (k : nat) (seed : Z) : Z :=
  match k with O => seed | S k' => state_after k' (lcg_next seed) end.

Section Gen.
  Variable N : Num.
  Lemma generate_n_states n seed lo hi :
    fst (generate_n N n seed lo hi) = state_after n seed /\
    length (snd (generate_n N n seed lo hi)) = n.
  Proof.
    revert seed; induction n as [|n IH]; intros seed; [split; reflexivity|].
    cbn [generate_n state_after]. unfold generate_wrap, lcg_next_wrap.
    destruct (generate_n N n (lcg_next seed) lo hi) as [c vs] eqn:E.
    specialize (IH (lcg_next seed)). rewrite E in IH. cbn [fst snd] in *.
    destruct IH as [-> Hl]. split; [reflexivity|]. simpl. rewrite Hl. reflexivity.
  Qed.
End Gen.

(* ---- shuffle is a permutation whenever it returns ---- *)
Lemma set_nth_length A (l : list A) i v : length (set_nth l i v) = length l.
Proof. revert i; induction l as [|x l IH]; intros [|i]; simpl; try reflexivity. rewrite IH. reflexivity. Qed.

Lemma nth_error_set_nth_eq A (l : list A) i v : (i < length l)%nat -> nth_error (set_nth l i v) i = Some v.
Proof.
  revert i; induction l as [|x l IH]; intros [|i] H; simpl in *; try lia; [reflexivity|]. apply IH. lia.
Qed.

Lemma nth_error_set_nth_neq A (l : list A) i j v : i <> j -> nth_error (set_nth l i v) j = nth_error l j.
Proof.
  revert i j; induction l as [|x l IH]; intros [|i] [|j] H; simpl; try reflexivity; try contradiction.
  apply IH. lia.
Qed.

Lemma set_nth_split A (l : list A) i v x :
  nth_error l i = Some x -> exists a b, l = a ++ x :: b /\ set_nth l i v = a ++ v :: b /\ length a = i.
Proof.
  revert i; induction l as [|y l IH]; intros [|i] H; simpl in H; try discriminate.
  - injection H as ->. exists [], l. repeat split.
  - destruct (IH i H) as (a & b & -> & E & Hl). exists (y :: a), b. simpl. rewrite E, Hl. repeat split.
Qed.

Lemma swap_perm A (l l' : list A) i j : swap l i j = Ok l' -> Permutation l l'.
Proof.
  unfold swap, nth_res. intros H.
  destruct (nth_error l i) as [x|] eqn:Ei; [|discriminate].
  destruct (nth_error l j) as [y|] eqn:Ej; [|discriminate]. cbn [bind] in H. injection H as <-.
  destruct (Nat.eq_dec i j) as [->|Hne].
  - (* i = j : writing y = x at i then x at i *)
    assert (x = y) as -> by congruence.
    destruct (@set_nth_split A l j y y Ej) as (a & b & -> & E & Hl). rewrite E.
    assert (Hj : nth_error (a ++ y :: b) j = Some y) by exact Ej.
    destruct (@set_nth_split A (a ++ y :: b) j y y Hj) as (a' & b' & E1 & E2 & Hl').
    rewrite E2, <- E1. apply Permutation_refl.
  - destruct (@set_nth_split A l i y x Ei) as (a & b & El & E & Hl).
    assert (Hj : nth_error (set_nth l i y) j = Some y) by (rewrite nth_error_set_nth_neq; assumption).
    destruct (@set_nth_split A (set_nth l i y) j x y Hj) as (a' & b' & E1 & E2 & Hl').
    rewrite E2. rewrite E in E1.
    (* l = a ++ x :: b,  a ++ y :: b = a' ++ y :: b',  result = a' ++ x :: b' *)
    transitivity (x :: a ++ b); [rewrite El; symmetry; apply Permutation_middle|].
    transitivity (x :: a' ++ b'); [|apply Permutation_middle].
    constructor. apply (Permutation_cons_inv (a := y)).
    transitivity (a ++ y :: b); [apply Permutation_middle|].
    rewrite E1. symmetry. apply Permutation_middle.
Qed.

Section Shuffle.
  Variable N : Num.
  Lemma shuffle_from_perm A wrap fuel i cur (l : list A) c' l' :
    shuffle_from N wrap fuel i cur l = Ok (c', l') -> Permutation l l'.
  Proof.
    revert i cur l; induction fuel as [|k IH]; intros i cur l H; cbn [shuffle_from] in H.
    - injection H as _ <-. apply Permutation_refl.
    - destruct (if wrap then Ok (lcg_next_wrap cur) else lcg_next_checked cur) as [c|] eqn:Ec; [|discriminate].
      cbn [bind] in H.
      destruct (swap l i _) as [l1|] eqn:Es; [|discriminate]. cbn [bind] in H.
      transitivity l1; [exact (swap_perm _ _ _ Es)|exact (IH _ _ _ H)].
  Qed.

  Theorem shuffle_perm A wrap seed (l : list A) c' l' :
    shuffle N wrap seed l = Ok (c', l') -> Permutation l l'.
  Proof. apply shuffle_from_perm. Qed.

  (* shuffle never panics: the index is clamped to len - 1 and the state step is total *)
  Lemma swap_ok A (l : list A) i j : (i < length l)%nat -> (j < length l)%nat ->
    exists l', swap l i j = Ok l' /\ length l' = length l.
  Proof.
    intros Hi Hj. unfold swap. rewrite (nth_res_nth l (nth 0 l (hd_default l)) Hi) || idtac.
    unfold nth_res.
    destruct (nth_error l i) as [x|] eqn:Ei; [|apply nth_error_None in Ei; lia].
    destruct (nth_error l j) as [y|] eqn:Ej; [|apply nth_error_None in Ej; lia].
    cbn [bind]. eexists. split; [reflexivity|]. rewrite !set_nth_length. reflexivity.
  Qed.

  Lemma shuffle_from_total A wrap fuel i cur (l : list A) :
    (i + fuel <= length l)%nat -> exists c' l', shuffle_from N wrap fuel i cur l = Ok (c', l').
  Proof.
    revert i cur l; induction fuel as [|k IH]; intros i cur l H; cbn [shuffle_from]; [eauto|].
    assert (E : (if wrap then Ok (lcg_next_wrap cur) else lcg_next_checked cur) = Ok (lcg_next cur))
      by (destruct wrap; reflexivity).
    rewrite E. cbn [bind].
    set (j := Nat.min _ (length l - 1)).
    assert (Hj : (j < length l)%nat) by (subst j; lia).
    destruct (@swap_ok A l i j ltac:(lia) Hj) as (l1 & -> & Hl). cbn [bind].
    apply IH. rewrite Hl. lia.
  Qed.

  Theorem shuffle_total A wrap seed (l : list A) : exists c' l', shuffle N wrap seed l = Ok (c', l').
  Proof. apply shuffle_from_total. lia. Qed.
End Shuffle.

(* ---- generate(min, max) lies in [min, max] for every state, whatever the affine map produced ---- *)
From Flocq Require Import Core BinarySingleNaN.
Require Import Reals Lra.

Lemma ltb_ninf_fin (lo : f32) : is_finite lo = true -> @Bltb prec32 emax32 (B754_infinity true) lo = true.
Proof. destruct lo as [s| | |s m e H]; try discriminate; intros _; reflexivity. Qed.
Lemma ltb_pinf_fin (lo : f32) : is_finite lo = true -> @Bltb prec32 emax32 (B754_infinity false) lo = false.
Proof. destruct lo as [s| | |s m e H]; try discriminate; intros _; reflexivity. Qed.
Lemma ltb_fin_pinf (lo : f32) : is_finite lo = true -> @Bltb prec32 emax32 lo (B754_infinity false) = true.
Proof. destruct lo as [s| | |s m e H]; try discriminate; intros _; reflexivity. Qed.
Lemma ltb_fin_ninf (lo : f32) : is_finite lo = true -> @Bltb prec32 emax32 lo (B754_infinity true) = false.
Proof. destruct lo as [s| | |s m e H]; try discriminate; intros _; reflexivity. Qed.
Lemma finite_not_nan (x : f32) : is_finite x = true -> is_nan x = false.
Proof. destruct x; try discriminate; reflexivity. Qed.

Theorem clamp_value_in_range (L : Libm) (v lo hi : f32) :
  is_finite lo = true -> is_finite hi = true -> (B2R lo <= B2R hi)%R ->
  let r := fminn (N := NumF32 L) (fmax (N := NumF32 L) v lo) hi in
  is_finite r = true /\ (B2R lo <= B2R r <= B2R hi)%R.
Proof.
  intros Hlo Hhi Hle. cbv zeta. unfold fminn, fmax. cbn [nisnan nltb NumF32]. unfold f_is_nan, f_ltb.
  rewrite (finite_not_nan lo Hlo), (finite_not_nan hi Hhi).
  destruct v as [s|s| |s m e Hb].
  - (* v = +-0 : finite *)
    cbn [is_nan].
    rewrite (Bltb_correct prec32 emax32 (B754_zero s) lo eq_refl Hlo).
    destruct (Rlt_bool_spec (B2R (B754_zero s : f32)) (B2R lo)) as [H1|H1].
    + rewrite (finite_not_nan lo Hlo). rewrite (Bltb_correct prec32 emax32 hi lo Hhi Hlo).
      destruct (Rlt_bool_spec (B2R hi) (B2R lo)); [lra|]. split; [exact Hlo|lra].
    + cbn [is_nan]. rewrite (Bltb_correct prec32 emax32 hi (B754_zero s) Hhi eq_refl).
      destruct (Rlt_bool_spec (B2R hi) (B2R (B754_zero s : f32))); [split; [exact Hhi|lra]|split; [reflexivity|lra]].
  - (* v infinite *)
    cbn [is_nan]. destruct s.
    + rewrite (ltb_ninf_fin lo Hlo), (finite_not_nan lo Hlo).
      rewrite (Bltb_correct prec32 emax32 hi lo Hhi Hlo).
      destruct (Rlt_bool_spec (B2R hi) (B2R lo)); [lra|]. split; [exact Hlo|lra].
    + rewrite (ltb_pinf_fin lo Hlo). cbn [is_nan]. rewrite (ltb_fin_pinf hi Hhi). split; [exact Hhi|lra].
  - (* v NaN: max ignores it *)
    cbn [is_nan]. rewrite (finite_not_nan lo Hlo).
    rewrite (Bltb_correct prec32 emax32 hi lo Hhi Hlo).
    destruct (Rlt_bool_spec (B2R hi) (B2R lo)); [lra|]. split; [exact Hlo|lra].
  - (* v finite *)
    cbn [is_nan]. set (v := B754_finite s m e Hb : f32).
    assert (Hv : is_finite v = true) by reflexivity.
    rewrite (Bltb_correct prec32 emax32 v lo Hv Hlo).
    destruct (Rlt_bool_spec (B2R v) (B2R lo)) as [H1|H1].
    + rewrite (finite_not_nan lo Hlo), (Bltb_correct prec32 emax32 hi lo Hhi Hlo).
      destruct (Rlt_bool_spec (B2R hi) (B2R lo)); [lra|]. split; [exact Hlo|lra].
    + replace (is_nan v) with false by reflexivity.
      rewrite (Bltb_correct prec32 emax32 hi v Hhi Hv).
      destruct (Rlt_bool_spec (B2R hi) (B2R v)); [split; [exact Hhi|lra]|split; [exact Hv|lra]].
Qed.

(* hence generate(min, max), which is that clamp applied to the affine map of the state *)
Corollary generate_in_range (L : Libm) cur (lo hi : f32) :
  is_finite lo = true -> is_finite hi = true -> (B2R lo <= B2R hi)%R ->
  is_finite (lcg_value (NumF32 L) cur lo hi) = true /\
  (B2R lo <= B2R (lcg_value (NumF32 L) cur lo hi) <= B2R hi)%R.
Proof. intros. unfold lcg_value. apply clamp_value_in_range; assumption. Qed.
