(* C18: the linear congruential generator and shuffle. *)
From NV Require Import Prelude Num NumF32 Random Tensor.
From NV.Theory Require Import Monad.
From Coq Require Import Permutation.
Set Implicit Arguments.
Local Open Scope Z_scope.

(* ---- integer part: the state sequence ---- *)
Lemma next_wrap_range cur : 0 <= lcg_next_wrap cur < lcg_m.
Proof. unfold lcg_next_wrap. apply Z.mod_pos_bound. reflexivity. Qed.

(* below 2^64 / 48271 the checked (debug) and the wrapping (release) step coincide and do not panic;
   in particular for every state 0 <= cur < m *)
Lemma next_checked_eq_wrap cur :
  0 <= cur -> lcg_a * cur < two64 -> lcg_next_checked cur = Ok (lcg_next_wrap cur).
Proof.
  intros H0 H. unfold lcg_next_checked, lcg_next_wrap.
  replace (lcg_a * cur <? two64) with true by (symmetry; apply Z.ltb_lt; exact H).
  rewrite (Z.mod_small (lcg_a * cur) two64); [reflexivity|]. unfold lcg_a in *. lia.
Qed.

Lemma state_no_overflow cur : 0 <= cur < lcg_m -> lcg_a * cur < two64.
Proof. unfold lcg_a, lcg_m, two64. lia. Qed.

(* a seed at or above 2^64 / 48271 (rounded up) makes the debug build panic *)
Lemma big_seed_panics cur : two64 <= lcg_a * cur -> lcg_next_checked cur = Panic P_overflow.
Proof.
  intros H. unfold lcg_next_checked.
  replace (lcg_a * cur <? two64) with false by (symmetry; apply Z.ltb_ge; exact H). reflexivity.
Qed.

(* the k-th state is a function of the seed alone *)
Fixpoint state_after (k : nat) (seed : Z) : Z :=
  match k with O => seed | S k' => state_after k' (lcg_next_wrap seed) end.

Section Gen.
  Variable N : Num.
  Lemma generate_n_states n seed lo hi :
    fst (generate_n N n seed lo hi) = state_after n seed /\
    length (snd (generate_n N n seed lo hi)) = n.
  Proof.
    revert seed; induction n as [|n IH]; intros seed; [split; reflexivity|].
    cbn [generate_n state_after]. unfold generate_wrap.
    destruct (generate_n N n (lcg_next_wrap seed) lo hi) as [c vs] eqn:E.
    specialize (IH (lcg_next_wrap seed)). rewrite E in IH. cbn [fst snd] in *.
    destruct IH as [-> Hl]. split; [reflexivity|]. simpl. rewrite Hl. reflexivity.
  Qed.
End Gen.

(* ---- shuffle is a permutation whenever it returns ---- *)
Lemma set_nth_length A (l : list A) i v : length (set_nth l i v) = length l.
Proof. revert i; induction l as [|x l IH]; intros [|i]; simpl; try reflexivity. rewrite IH. reflexivity. Qed.

Lemma nth_error_set_nth_eq A (l : list A) i v : (i < length l)%nat -> nth_error (set_nth l i v) i = Some v.
Proof.
  revert i; induction l as [|x l IH]; intros [|i] H; simpl in *; try lia; [reflexivity|]. apply IH. lia.
Qed.

Lemma nth_error_set_nth_neq A (l : list A) i j v : i <> j -> nth_error (set_nth l i v) j = nth_error l j.
Proof.
  revert i j; induction l as [|x l IH]; intros [|i] [|j] H; simpl; try reflexivity; try contradiction.
  apply IH. lia.
Qed.

Lemma set_nth_split A (l : list A) i v x :
  nth_error l i = Some x -> exists a b, l = a ++ x :: b /\ set_nth l i v = a ++ v :: b /\ length a = i.
Proof.
  revert i; induction l as [|y l IH]; intros [|i] H; simpl in H; try discriminate.
  - injection H as ->. exists [], l. repeat split.
  - destruct (IH i H) as (a & b & -> & E & Hl). exists (y :: a), b. simpl. rewrite E, Hl. repeat split.
Qed.

Lemma swap_perm A (l l' : list A) i j : swap l i j = Ok l' -> Permutation l l'.
Proof.
  unfold swap, nth_res. intros H.
  destruct (nth_error l i) as [x|] eqn:Ei; [|discriminate].
  destruct (nth_error l j) as [y|] eqn:Ej; [|discriminate]. cbn [bind] in H. injection H as <-.
  destruct (Nat.eq_dec i j) as [->|Hne].
  - (* i = j : writing y = x at i then x at i *)
    assert (x = y) as -> by congruence.
    destruct (@set_nth_split A l j y y Ej) as (a & b & -> & E & Hl). rewrite E.
    assert (Hj : nth_error (a ++ y :: b) j = Some y) by exact Ej.
    destruct (@set_nth_split A (a ++ y :: b) j y y Hj) as (a' & b' & E1 & E2 & Hl').
    rewrite E2, <- E1. apply Permutation_refl.
  - destruct (@set_nth_split A l i y x Ei) as (a & b & El & E & Hl).
    assert (Hj : nth_error (set_nth l i y) j = Some y) by (rewrite nth_error_set_nth_neq; assumption).
    destruct (@set_nth_split A (set_nth l i y) j x y Hj) as (a' & b' & E1 & E2 & Hl').
    rewrite E2. rewrite E in E1.
    (* l = a ++ x :: b,  a ++ y :: b = a' ++ y :: b',  result = a' ++ x :: b' *)
    transitivity (x :: a ++ b); [rewrite El; symmetry; apply Permutation_middle|].
    transitivity (x :: a' ++ b'); [|apply Permutation_middle].
    constructor. apply (Permutation_cons_inv (a := y)).
    transitivity (a ++ y :: b); [apply Permutation_middle|].
    rewrite E1. symmetry. apply Permutation_middle.
Qed.

Section Shuffle.
  Variable N : Num.
  Lemma shuffle_from_perm A wrap fuel i cur (l : list A) c' l' :
    shuffle_from N wrap fuel i cur l = Ok (c', l') -> Permutation l l'.
  Proof.
    revert i cur l; induction fuel as [|k IH]; intros i cur l H; cbn [shuffle_from] in H.
    - injection H as _ <-. apply Permutation_refl.
    - destruct (if wrap then Ok (lcg_next_wrap cur) else lcg_next_checked cur) as [c|]; [|discriminate].
      cbn [bind] in H.
      destruct (swap l i _) as [l1|] eqn:Es; [|discriminate]. cbn [bind] in H.
      transitivity l1; [exact (swap_perm _ _ _ Es)|exact (IH _ _ _ H)].
  Qed.

  Theorem shuffle_perm A wrap seed (l : list A) c' l' :
    shuffle N wrap seed l = Ok (c', l') -> Permutation l l'.
  Proof. apply shuffle_from_perm. Qed.
End Shuffle.
