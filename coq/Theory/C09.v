(* C09: dropout never leaks into prediction or validation. *)
From NV Require Import Prelude Num Random Tensor Activation Objective Optimizer Layers Network Learn.
From NV.Theory Require Import Monad Chunks Par Training.
Set Implicit Arguments.

Section C09.
  Variable N : Num.
  Notation tensor := (tensor N).
  Notation layer := (layer N).
  Notation network := (network N).

  Definition flag_clear (f : option bool) : Prop := f <> Some true.
  Definition all_clear (ls : list layer) : Prop := Forall flag_clear (flat_map (@layer_flags N) ls).

  Lemma blayer_flag_set t (b : blayer N) :
    blayer_flag (blayer_set_training t b) = match blayer_flag b with Some _ => Some t | None => None end.
  Proof. destruct b; reflexivity. Qed.

  Lemma layer_flags_set t (l : layer) :
    Forall (fun f => f = Some t \/ f = None) (layer_flags (layer_set_training t l)).
  Proof.
    destruct l as [d|c|c|m|b]; cbn [layer_set_training layer_flags lift_b blayer_set_training];
      try (repeat constructor; fail).
    cbn [feedback_training set_f_layers f_layers]. rewrite map_map.
    apply Forall_forall. intros f Hf. apply in_map_iff in Hf. destruct Hf as (x & <- & _).
    rewrite blayer_flag_set. destruct (blayer_flag x); auto.
  Qed.

  Lemma flags_set_all t (n : network) :
    Forall (fun f => f = Some t \/ f = None) (network_flags (set_all_training t n)).
  Proof.
    unfold network_flags, set_all_training. cbn [set_layers n_layers].
    induction (n_layers n) as [|l ls IH]; [constructor|].
    cbn [map flat_map]. apply Forall_app. split; [apply layer_flags_set|exact IH].
  Qed.

  Lemma all_clear_set_false (ls : list layer) : all_clear (map (layer_set_training false) ls).
  Proof.
    unfold all_clear. induction ls as [|l ls IH]; [constructor|].
    cbn [map flat_map]. apply Forall_app. split; [|exact IH].
    eapply Forall_impl; [|apply (layer_flags_set false l)]. intros f [->| ->]; discriminate.
  Qed.

  (* after training returns (normally or by early stopping) every flag is off *)
  Theorem learn_clears_flags p (n n' : network) xs ts val batch epochs h :
    learn p n xs ts val batch epochs = Ok (n', h) -> all_clear (n_layers n').
  Proof.
    unfold learn. destruct (negb (batch =? 0)); [|discriminate].
    match goal with |- (do r <- ?E; _) = _ -> _ => destruct E as [[s hh]|]; [|discriminate] end.
    cbn [bind fst snd]. intros H; injection H as <- _.
    unfold set_all_training. cbn [set_layers n_layers]. apply all_clear_set_false.
  Qed.

  (* the flag-clearing loop of validate clears every flag, whatever the architecture *)
  Lemma validate_clear_all_clear (ls : list layer) tr :
    all_clear (fst (validate_clear ls tr)).
  Proof.
    revert tr; induction ls as [|l ls IH]; intros tr; [constructor|].
    cbn [validate_clear]. destruct l as [d|c|c|m|b].
    - destruct (validate_clear ls (d_training d || tr)) as [rest t] eqn:E. cbn [fst].
      specialize (IH (d_training d || tr)). rewrite E in IH. cbn [fst] in IH.
      unfold all_clear. cbn [flat_map]. apply Forall_app. split; [|exact IH].
      eapply Forall_impl; [|apply (layer_flags_set false (LDense d))]. intros f [->| ->]; discriminate.
    - destruct (validate_clear ls tr) as [rest t] eqn:E. cbn [fst].
      specialize (IH tr). rewrite E in IH. cbn [fst] in IH.
      unfold all_clear. cbn [flat_map]. apply Forall_app. split; [|exact IH].
      eapply Forall_impl; [|apply (layer_flags_set false (LConv c))]. intros f [->| ->]; discriminate.
    - destruct (validate_clear ls tr) as [rest t] eqn:E. cbn [fst].
      specialize (IH tr). rewrite E in IH. cbn [fst] in IH.
      unfold all_clear. cbn [flat_map]. apply Forall_app. split; [|exact IH].
      eapply Forall_impl; [|apply (layer_flags_set false (LDeconv c))]. intros f [->| ->]; discriminate.
    - destruct (validate_clear ls tr) as [rest t] eqn:E. cbn [fst].
      specialize (IH tr). rewrite E in IH. cbn [fst] in IH.
      unfold all_clear. cbn [flat_map layer_flags]. constructor; [discriminate|exact IH].
    - destruct (validate_clear ls tr) as [rest t] eqn:E. cbn [fst].
      specialize (IH tr). rewrite E in IH. cbn [fst] in IH.
      unfold all_clear. cbn [flat_map]. apply Forall_app. split; [|exact IH].
      eapply Forall_impl; [|apply (layer_flags_set false (LFeedback b))]. intros f [->| ->]; discriminate.
  Qed.

  (* validate evaluates every sample on a network whose flags are all off, and afterwards the flags
     are all on again iff a dense layer was in training mode on entry, else all still off *)
  Theorem validate_runs_dropout_free p (n : network) xs ts tol n' r :
    validate p n xs ts tol = Ok (n', r) ->
    let '(ls, training) := validate_clear (n_layers n) false in
    all_clear ls /\
    validate p n xs ts tol =
      (do rs <- sequence (concat (p _ _ (fun chunk => map (validate_sample (set_layers n ls) tol) chunk)
                                        (zip_chunks xs ts)));
       let n2 := if training then set_all_training true (set_layers n ls) else set_layers n ls in
       let len := of_nat (length rs) in
       Ok (n2, (ndiv N (fsum (map fst rs)) len, ndiv N (fsum (map snd rs)) len))) /\
    (training = false -> all_clear (n_layers n')).
  Proof.
    intros H. pose proof (validate_clear_all_clear (n_layers n) false) as Hc.
    unfold validate in *. destruct (validate_clear (n_layers n) false) as [ls training]. cbn [fst] in Hc.
    split; [exact Hc|]. split; [reflexivity|].
    intros ->. destruct (sequence _) as [rs|]; [|discriminate]. cbn [bind] in H. injection H as <- _.
    exact Hc.
  Qed.

  (* ---- with every flag off, dropout rates are irrelevant ---- *)
  Lemma apply_dropout_off rate (t : tensor) : apply_dropout false rate t = t.
  Proof. reflexivity. Qed.

  Definition strip_dense (d : dense N) : dense N :=
    {| d_inputs := d_inputs d; d_outputs := d_outputs d; d_loops := d_loops d; d_weights := d_weights d;
       d_bias := d_bias d; d_act := d_act d; d_dropout := None; d_training := d_training d |}.
  Definition strip_conv (c : conv N) : conv N :=
    {| c_inputs := c_inputs c; c_outputs := c_outputs c; c_loops := c_loops c; c_kernels := c_kernels c;
       c_stride := c_stride c; c_padding := c_padding c; c_dilation := c_dilation c; c_act := c_act c;
       c_dropout := None; c_flatten := c_flatten c; c_training := c_training c |}.
  Definition strip_deconv (c : deconv N) : deconv N :=
    {| dc_inputs := dc_inputs c; dc_outputs := dc_outputs c; dc_loops := dc_loops c; dc_kernels := dc_kernels c;
       dc_stride := dc_stride c; dc_padding := dc_padding c; dc_act := dc_act c;
       dc_dropout := None; dc_flatten := dc_flatten c; dc_training := dc_training c |}.

  Theorem dense_forward_no_dropout (d : dense N) x :
    d_training d = false -> dense_forward d x = dense_forward (strip_dense d) x.
  Proof. intros H. unfold dense_forward. cbn [strip_dense d_weights d_bias d_act d_training d_dropout]. rewrite H. reflexivity. Qed.

  Theorem conv_forward_no_dropout (c : conv N) x :
    c_training c = false -> conv_forward c x = conv_forward (strip_conv c) x.
  Proof.
    intros H. unfold conv_forward, post_process.
    cbn [strip_conv c_inputs c_padding c_kernels c_stride c_dilation c_act c_training c_dropout c_flatten].
    rewrite H. reflexivity.
  Qed.

  Theorem deconv_forward_no_dropout (c : deconv N) x :
    dc_training c = false -> deconv_forward c x = deconv_forward (strip_deconv c) x.
  Proof.
    intros H. unfold deconv_forward, post_process.
    cbn [strip_deconv dc_inputs dc_padding dc_kernels dc_stride dc_act dc_training dc_dropout dc_flatten].
    rewrite H. reflexivity.
  Qed.
  (* ---- the whole network: with every flag off, forward = forward of the dropout-free network ---- *)
  Definition strip_blayer (b : blayer N) : blayer N :=
    match b with
    | BDense d => BDense (strip_dense d) | BConv c => BConv (strip_conv c)
    | BDeconv c => BDeconv (strip_deconv c) | BMaxpool _ => b
    end.
  Definition strip_feedback (f : feedback N) : feedback N := set_f_layers f (map strip_blayer (f_layers f)).
  Definition strip_layer (l : layer) : layer :=
    match l with
    | LDense d => LDense (strip_dense d) | LConv c => LConv (strip_conv c)
    | LDeconv c => LDeconv (strip_deconv c) | LMaxpool _ => l
    | LFeedback f => LFeedback (strip_feedback f)
    end.
  Definition strip_net (n : network) : network := set_layers n (map strip_layer (n_layers n)).

  Lemma foldM_map A B S (f : S -> B -> res S) (h : A -> B) l s :
    foldM f (map h l) s = foldM (fun s x => f s (h x)) l s.
  Proof. revert s; induction l as [|x l IH]; intros s; simpl; [reflexivity|]. destruct (f s (h x)); simpl; [apply IH|reflexivity]. Qed.

  Lemma combine_map_r A B C (h : B -> C) (a : list A) (b : list B) :
    combine a (map h b) = map (fun p => (fst p, h (snd p))) (combine a b).
  Proof. revert b; induction a as [|x a IH]; intros [|y b]; simpl; try reflexivity. rewrite IH. reflexivity. Qed.

  Lemma blayer_forward_strip (b : blayer N) x :
    blayer_flag b <> Some true -> blayer_forward (strip_blayer b) x = blayer_forward b x.
  Proof.
    intros H. destruct b as [d|c|c|m]; cbn [blayer_flag] in H; unfold blayer_forward; cbn [strip_blayer];
      try reflexivity.
    - assert (E : d_training d = false) by (destruct (d_training d); [congruence|reflexivity]).
      rewrite <- (dense_forward_no_dropout d x E). reflexivity.
    - assert (E : c_training c = false) by (destruct (c_training c); [congruence|reflexivity]).
      rewrite <- (conv_forward_no_dropout c x E). reflexivity.
    - assert (E : dc_training c = false) by (destruct (dc_training c); [congruence|reflexivity]).
      rewrite <- (deconv_forward_no_dropout c x E). reflexivity.
  Qed.

  Lemma feedback_forward_strip (f : feedback N) x :
    Forall flag_clear (map (@blayer_flag N) (f_layers f)) ->
    feedback_forward (strip_feedback f) x = feedback_forward f x.
  Proof.
    intros H. unfold feedback_forward, strip_feedback.
    cbn [set_f_layers f_layers f_connect f_accumulation f_flatten f_inputs].
    destruct (if shape_eqb (tshape x) (f_inputs f) then Ok x else reshape x (f_inputs f)) as [inp|]; [|reflexivity].
    cbn [bind]. rewrite map_length, combine_map_r, foldM_map.
    match goal with |- (do st <- ?A; _) = (do st <- ?B; _) => assert (E : A = B) end.
    { apply foldM_ext. intros [[unact act] mps] [i lyr] Hin. cbn [fst snd].
      assert (Hc : blayer_flag lyr <> Some true).
      { apply in_combine_r in Hin. rewrite Forall_map in H. exact (proj1 (Forall_forall _ _) H lyr Hin). }
      destruct (last_opt act) as [x0|]; [|reflexivity]. cbn [bind].
      destruct (alist_get (f_connect f) i) as [idxs|].
      - destruct (gather_sources act idxs) as [s0|]; [|reflexivity]. cbn [bind].
        destruct (accumulate (f_accumulation f) x0 s0) as [x1|]; [|reflexivity]. cbn [bind].
        rewrite (blayer_forward_strip lyr x1 Hc). reflexivity.
      - cbn [bind]. rewrite (blayer_forward_strip lyr x0 Hc). reflexivity. }
    rewrite E. reflexivity.
  Qed.

  Lemma forward_range_strip (ls : list layer) x :
    all_clear ls -> forward_range (map strip_layer ls) x = forward_range ls x.
  Proof.
    intros H. unfold forward_range. rewrite foldM_map.
    match goal with |- (do st <- ?A; _) = (do st <- ?B; _) => assert (E : A = B) end.
    { apply foldM_ext. intros st l Hin.
      assert (Hl : Forall flag_clear (layer_flags l)).
      { unfold all_clear in H. rewrite Forall_forall in *. intros f Hf. apply H.
        apply in_flat_map. exists l. split; assumption. }
      destruct (last_opt (fw_post st)) as [t|]; [|reflexivity]. cbn [bind].
      destruct l as [d|c|c|m|b]; cbn [strip_layer layer_flags] in *.
      - assert (Ed : d_training d = false).
        { inversion Hl as [|? ? H1 _]; subst. unfold flag_clear in H1. destruct (d_training d); [congruence|reflexivity]. }
        rewrite <- (dense_forward_no_dropout d t Ed). reflexivity.
      - assert (Ec : c_training c = false).
        { inversion Hl as [|? ? H1 _]; subst. unfold flag_clear in H1. destruct (c_training c); [congruence|reflexivity]. }
        rewrite <- (conv_forward_no_dropout c t Ec). reflexivity.
      - assert (Ec : dc_training c = false).
        { inversion Hl as [|? ? H1 _]; subst. unfold flag_clear in H1. destruct (dc_training c); [congruence|reflexivity]. }
        rewrite <- (deconv_forward_no_dropout c t Ec). reflexivity.
      - reflexivity.
      - rewrite (feedback_forward_strip b t Hl). reflexivity. }
    rewrite E. reflexivity.
  Qed.

  Lemma sub_layers_map (ls : list layer) a b :
    sub_layers (map strip_layer ls) a b = map strip_layer (sub_layers ls a b).
  Proof. unfold sub_layers. rewrite skipn_map, firstn_map. reflexivity. Qed.

  Lemma in_skipn A (l : list A) n x : In x (skipn n l) -> In x l.
  Proof. revert l; induction n as [|n IH]; intros l H; [exact H|]. destruct l as [|y l]; [destruct H|]. right. apply IH. exact H. Qed.
  Lemma in_firstn A (l : list A) n x : In x (firstn n l) -> In x l.
  Proof. revert l; induction n as [|n IH]; intros l H; [destruct H|]. destruct l as [|y l]; [destruct H|]. destruct H as [->|H]; [left; reflexivity|right; apply IH; exact H]. Qed.

  Lemma all_clear_sub (ls : list layer) a b : all_clear ls -> all_clear (sub_layers ls a b).
  Proof.
    unfold all_clear, sub_layers. intros H. rewrite Forall_forall in *. intros f Hf. apply H.
    apply in_flat_map in Hf. destruct Hf as (l & Hl & Hfl). apply in_flat_map. exists l. split; [|exact Hfl].
    apply in_firstn in Hl. apply in_skipn in Hl. exact Hl.
  Qed.
  Lemma nth_res_map A B (h : A -> B) (l : list A) i : nth_res (map h l) i = rmap h (nth_res l i).
  Proof. unfold nth_res. rewrite nth_error_map. destruct (nth_error l i); reflexivity. Qed.
  Lemma layer_inputs_strip (l : layer) : layer_inputs (strip_layer l) = layer_inputs l.
  Proof. destruct l; reflexivity. Qed.
  Lemma layer_outputs_strip (l : layer) : layer_outputs (strip_layer l) = layer_outputs l.
  Proof. destruct l; reflexivity. Qed.

  Theorem forward_ignores_dropout_when_clear (n : network) x :
    all_clear (n_layers n) -> forward (strip_net n) x = forward n x.
  Proof.
    intros H. unfold forward, strip_net.
    cbn [set_layers n_layers n_connect n_skipacc n_loopbacks n_loopacc]. rewrite map_length.
    apply foldM_ext. intros st i _.
    destruct (last_opt (fw_post st)) as [x0|]; [|reflexivity]. cbn [bind].
    match goal with |- (do x <- ?X; _) = _ => destruct X as [x1|]; [|reflexivity] end. cbn [bind].
    rewrite sub_layers_map, (@forward_range_strip _ x1 (@all_clear_sub (n_layers n) i (i + 1) H)).
    destruct (forward_range (sub_layers (n_layers n) i (i + 1)) x1) as [r|]; [|reflexivity]. cbn [bind].
    destruct (alist_get (n_loopbacks n) i) as [[[into iterations] inskips]|]; [|reflexivity].
    rewrite !nth_res_map.
    destruct (nth_res (n_layers n) into) as [li|]; [|reflexivity]. cbn [rmap bind].
    destruct (nth_res (n_layers n) i) as [lo|]; [|reflexivity]. cbn [rmap bind].
    match goal with |- (do f <- ?X; _) = _ => destruct X as [first|]; [|reflexivity] end. cbn [bind].
    rewrite layer_inputs_strip.
    match goal with |- (do its <- ?A; _) = (do its <- ?B; _) => assert (E : A = B) end.
    { apply foldM_ext. intros [cur0 fs] k _. cbn [fst snd].
      match goal with |- (do c <- ?X; _) = _ => destruct X as [cur1|]; [|reflexivity] end. cbn [bind].
      match goal with |- (do c <- ?X; _) = _ => destruct X as [cur|]; [|reflexivity] end. cbn [bind].
      rewrite sub_layers_map, (@forward_range_strip _ cur (@all_clear_sub (n_layers n) into (i + 1) H)). reflexivity. }
    rewrite E. reflexivity.
  Qed.

  (* predict of the network after training = predict of the same network without dropout *)
  Corollary predict_dropout_free (n : network) x :
    all_clear (n_layers n) -> predict (strip_net n) x = predict n x.
  Proof. intros H. unfold predict. rewrite (@forward_ignores_dropout_when_clear n x H). reflexivity. Qed.
End C09.

(* predict_batch (any ordered parallel map, any number of inputs): with every flag off the batch is that
   of the network configured without dropout; in particular after learn has returned *)
Theorem predict_batch_dropout_free (N : Num) (p : pmap_t) (Hp : pmap_ordered p) (n : network N) xs :
  all_clear (n_layers n) -> predict_batch p (strip_net n) xs = predict_batch p n xs.
Proof.
  intros H. rewrite !(predict_batch_spec Hp). apply mapM_ext. intros x _. apply predict_dropout_free. exact H.
Qed.

Theorem after_learn_predict_batch_dropout_free (N : Num) (p q : pmap_t) (Hq : pmap_ordered q)
        (n n' : network N) xs ts val batch epochs h zs :
  learn p n xs ts val batch epochs = Ok (n', h) ->
  predict_batch q (strip_net n') zs = predict_batch q n' zs.
Proof. intros H. apply (predict_batch_dropout_free Hq). exact (learn_clears_flags _ _ _ _ _ _ _ H). Qed.
