(* slice::chunks : the partition lemmas behind mini-batching (C04) and the 64-element parallel
   chunks of validate / predict_batch (C12). *)
From NV Require Import Prelude.
Set Implicit Arguments.

Lemma chunks_fuel_concat A n fuel (l : list A) :
  0 < n -> length l <= fuel -> concat (chunks_fuel fuel n l) = l.
Proof.
  intros Hn. revert l; induction fuel as [|k IH]; intros l Hl.
  - destruct l; [reflexivity|simpl in Hl; lia].
  - destruct l as [|x l]; [reflexivity|]. cbn [chunks_fuel concat].
    rewrite IH; [apply firstn_skipn|]. rewrite skipn_length. cbn [length] in *; lia.
Qed.

Lemma chunks_concat A n (l : list A) : 0 < n -> concat (chunks n l) = l.
Proof. intros Hn. apply chunks_fuel_concat; [exact Hn|apply Nat.le_refl]. Qed.

Lemma chunks_fuel_bounds A n fuel (l : list A) :
  0 < n -> Forall (fun c => 0 < length c /\ length c <= n) (chunks_fuel fuel n l).
Proof.
  intros Hn. revert l; induction fuel as [|k IH]; intros l; [constructor|].
  destruct l as [|x l]; [constructor|]. cbn [chunks_fuel]. constructor; [|apply IH].
  rewrite firstn_length. simpl. lia.
Qed.

Lemma chunks_bounds A n (l : list A) :
  0 < n -> Forall (fun c => 0 < length c /\ length c <= n) (chunks n l).
Proof. apply chunks_fuel_bounds. Qed.

(* every chunk but the last is full *)
Lemma chunks_fuel_full A n fuel (l : list A) :
  0 < n -> length l <= fuel ->
  forall i, S i < length (chunks_fuel fuel n l) -> length (nth i (chunks_fuel fuel n l) []) = n.
Proof.
  intros Hn. revert l; induction fuel as [|k IH]; intros l Hl i Hi; [simpl in Hi; lia|].
  destruct l as [|x l]; [simpl in Hi; lia|]. cbn [chunks_fuel] in *.
  destruct i as [|i].
  - cbn [nth]. rewrite firstn_length. cbn [length] in Hi.
    destruct (chunks_fuel k n (skipn n (x :: l))) as [|c cs] eqn:E; [simpl in Hi; lia|].
    (* the rest is non-empty, hence skipn n is non-empty, hence the list has more than n elements *)
    destruct (skipn n (x :: l)) as [|y r] eqn:Es.
    + destruct k; discriminate.
    + pose proof (skipn_length n (x :: l)) as Hs. rewrite Es in Hs. cbn [length] in Hs |- *. lia.
  - cbn [nth]. apply IH; [rewrite skipn_length; cbn [length] in *; lia|]. cbn [length] in Hi. lia.
Qed.

Lemma chunks_fuel_count A n fuel (l : list A) :
  0 < n -> length l <= fuel -> length (chunks_fuel fuel n l) = (length l + n - 1) / n.
Proof.
  intros Hn. revert l; induction fuel as [|k IH]; intros l Hl.
  - destruct l; [|simpl in Hl; lia]. simpl. symmetry. apply Nat.div_small. lia.
  - destruct l as [|x l].
    + simpl. symmetry. apply Nat.div_small. lia.
    + cbn [chunks_fuel length]. rewrite IH by (rewrite skipn_length; cbn [length] in *; lia).
      rewrite skipn_length. cbn [length].
      destruct (Nat.le_gt_cases n (S (length l))) as [Hle|Hgt].
      * replace (S (length l) + n - 1) with ((S (length l) - n + n - 1) + 1 * n) by lia.
        rewrite Nat.div_add by lia. lia.
      * replace (S (length l) - n) with 0 by lia.
        rewrite (Nat.div_small (0 + n - 1) n) by lia.
        replace (S (length l) + n - 1) with (length l + 1 * n) by lia.
        rewrite Nat.div_add by lia. rewrite Nat.div_small by lia. reflexivity.
Qed.

Lemma chunks_count A n (l : list A) : 0 < n -> length (chunks n l) = (length l + n - 1) / n.
Proof. intros Hn. apply chunks_fuel_count; [exact Hn|apply Nat.le_refl]. Qed.

(* chunking two equally long lists and zipping = chunking the zipped list *)
Lemma skipn_combine A B m (u : list A) (v : list B) :
  skipn m (combine u v) = combine (skipn m u) (skipn m v).
Proof.
  revert u v; induction m as [|m IHm]; intros u v; [reflexivity|].
  destruct u, v; simpl; try reflexivity; [destruct (skipn m u); reflexivity|apply IHm].
Qed.

Lemma chunks_fuel_combine A B n fuel (a : list A) (b : list B) :
  0 < n -> length a = length b -> length a <= fuel ->
  map (fun p => combine (fst p) (snd p)) (combine (chunks_fuel fuel n a) (chunks_fuel fuel n b))
  = chunks_fuel fuel n (combine a b).
Proof.
  intros Hn. revert a b; induction fuel as [|k IH]; intros a b Hab Hl; [reflexivity|].
  destruct a as [|x a]; destruct b as [|y b]; try discriminate; [reflexivity|].
  cbn [chunks_fuel combine map fst snd].
  change ((x, y) :: combine a b) with (combine (x :: a) (y :: b)).
  rewrite combine_firstn, skipn_combine. f_equal.
  apply IH.
  - rewrite !skipn_length. cbn [length] in *; lia.
  - rewrite skipn_length. cbn [length] in *; lia.
Qed.

Lemma chunks_combine A B n (a : list A) (b : list B) :
  0 < n -> length a = length b ->
  map (fun p => combine (fst p) (snd p)) (combine (chunks n a) (chunks n b)) = chunks n (combine a b).
Proof.
  intros Hn Hab. unfold chunks. rewrite combine_length, <- Hab, Nat.min_id.
  apply chunks_fuel_combine; [exact Hn|exact Hab|apply Nat.le_refl].
Qed.
