(* slice::chunks : the partition lemmas behind mini-batching (C04) and the 64-element parallel
   chunks of validate / predict_batch (C12). *)
From NV Require Import Prelude.
Set Implicit Arguments.

Lemma chunks_fuel_concat A n fuel (l : list A) :
  0 < n -> length l <= fuel -> concat (chunks_fuel fuel n l) = l.
Proof.
  intros Hn. revert l; induction fuel as [|k IH]; intros l Hl.
  - destruct l; [reflexivity|simpl in Hl; lia].
  - destruct l as [|x l]; [reflexivity|]. cbn [chunks_fuel concat].
    rewrite IH; [apply firstn_skipn|]. rewrite skipn_length. cbn [length] in *; lia.
Qed.

Lemma chunks_concat A n (l : list A) : 0 < n -> concat (chunks n l) = l.
Proof. intros Hn. apply chunks_fuel_concat; [exact Hn|apply Nat.le_refl]. Qed.

Lemma chunks_fuel_bounds A n fuel (l : list A) :
  0 < n -> Forall (fun c => 0 < length c /\ length c <= n) (chunks_fuel fuel n l).
Proof.
  intros Hn. revert l; induction fuel as [|k IH]; intros l; [constructor|].
  destruct l as [|x l]; [constructor|]. cbn [chunks_fuel]. constructor; [|apply IH].
  rewrite firstn_length. simpl. lia.
Qed.

Lemma chunks_bounds A n (l : list A) :
  0 < n -> Forall (fun c => 0 < length c /\ length c <= n) (chunks n l).
Proof. apply chunks_fuel_bounds. Qed.

(* every chunk but the last is full *)
Lemma chunks_fuel_full A n fuel (l : list A) :
  0 < n -> length l <= fuel ->
  forall i, S i < length (chunks_fuel fuel n l) -> length (nth i (chunks_fuel fuel n l) []) = n.
Proof.
  intros Hn. revert l; induction fuel as [|k IH]; intros l Hl i Hi; [simpl in Hi; lia|].
  destruct l as [|x l]; [simpl in Hi; lia|]. cbn [chunks_fuel] in *.
  destruct i as [|i].
  - cbn [nth]. rewrite firstn_length. cbn [length] in Hi.
    destruct (chunks_fuel k n (skipn n (x :: l))) as [|c cs] eqn:E; [simpl in Hi; lia|].
    (* the rest is non-empty, hence skipn n is non-empty, hence the list has more than n elements *)
    destruct (skipn n (x :: l)) as [|y r] eqn:Es.
    + destruct k; discriminate.
    + pose proof (skipn_length n (x :: l)) as Hs. rewrite Es in Hs. cbn [length] in Hs |- *. lia.
  - cbn [nth]. apply IH; [rewrite skipn_length; cbn [length] in *; lia|]. cbn [length] in Hi. lia.
Qed.

Lemma chunks_fuel_count A n fuel (l : list A) :
  0 < n -> length l <= fuel -> length (chunks_fuel fuel n l) = (length l + n - 1) / n.
Proof.
  intros Hn. revert l; induction fuel as [|k IH]; intros l Hl.
  - destruct l; [|simpl in Hl; lia]. simpl. symmetry. apply Nat.div_small. lia.
  - destruct l as [|x l].
    + simpl. symmetry. apply Nat.div_small. lia.
    + cbn [chunks_fuel length]. rewrite IH by (rewrite skipn_length; cbn [length] in *; lia).
      rewrite skipn_length. cbn [length].
      destruct (Nat.le_gt_cases n (S (length l))) as [Hle|Hgt].
      * replace (S (length l) + n - 1) with ((S (length l) - n + n - 1) + 1 * n) by lia.
        rewrite Nat.div_add by lia. lia.
      * replace (S (length l) - n) with 0 by lia.
        rewrite (Nat.div_small (0 + n - 1) n) by lia.
        replace (S (length l) + n - 1) with (length l + 1 * n) by lia.
        rewrite Nat.div_add by lia. rewrite Nat.div_small by lia. reflexivity.
Qed.

Lemma chunks_count A n (l : list A) : 0 < n -> length (chunks n l) = (length l + n - 1) / n.
Proof. intros Hn. apply chunks_fuel_count; [exact Hn|apply Nat.le_refl]. Qed.

(* chunking two equally long lists and zipping = chunking the zipped list *)
Lemma skipn_combine A B m (u : list A) (v : list B) :
  skipn m (combine u v) = combine (skipn m u) (skipn m v).
Proof.
  revert u v; induction m as [|m IHm]; intros u v; [reflexivity|].
  destruct u, v; simpl; try reflexivity; [destruct (skipn m u); reflexivity|apply IHm].
Qed.

Lemma chunks_fuel_combine A B n fuel (a : list A) (b : list B) :
  0 < n -> length a = length b -> length a <= fuel ->
  map (fun p => combine (fst p) (snd p)) (combine (chunks_fuel fuel n a) (chunks_fuel fuel n b))
  = chunks_fuel fuel n (combine a b).
Proof.
  intros Hn. revert a b; induction fuel as [|k IH]; intros a b Hab Hl; [reflexivity|].
  destruct a as [|x a]; destruct b as [|y b]; try discriminate; [reflexivity|].
  cbn [chunks_fuel combine map fst snd].
  change ((x, y) :: combine a b) with (combine (x :: a) (y :: b)).
  rewrite combine_firstn, skipn_combine. f_equal.
  apply IH.
  - rewrite !skipn_length. cbn [length] in *; lia.
  - rewrite skipn_length. cbn [length] in *; lia.
Qed.

Lemma chunks_combine A B n (a : list A) (b : list B) :
  0 < n -> length a = length b ->
  map (fun p => combine (fst p) (snd p)) (combine (chunks n a) (chunks n b)) = chunks n (combine a b).
Proof.
  intros Hn Hab. unfold chunks. rewrite combine_length, <- Hab, Nat.min_id.
  apply chunks_fuel_combine; [exact Hn|exact Hab|apply Nat.le_refl].
Qed.

(* chunking a concatenation of equally long rows gives the rows back *)
Lemma chunks_fuel_any A n f1 f2 (l : list A) :
  0 < n -> length l <= f1 -> length l <= f2 -> chunks_fuel f1 n l = chunks_fuel f2 n l.
Proof.
  intros Hn. revert f2 l; induction f1 as [|k IH]; intros f2 l H1 H2.
  - destruct l; [destruct f2; reflexivity|cbn [length] in H1; lia].
  - destruct l as [|x l]; [destruct f2; reflexivity|].
    destruct f2 as [|k2]; [cbn [length] in H2; lia|]. cbn [chunks_fuel]. f_equal.
    apply IH; rewrite skipn_length; cbn [length] in *; lia.
Qed.

Lemma chunks_fuel_more A n fuel (l : list A) :
  0 < n -> length l <= fuel -> chunks_fuel fuel n l = chunks_fuel (length l) n l.
Proof. intros Hn H. apply chunks_fuel_any; [exact Hn|exact H|apply Nat.le_refl]. Qed.

Lemma chunks_fuel_S A n k (l : list A) :
  l <> [] -> chunks_fuel (S k) n l = firstn n l :: chunks_fuel k n (skipn n l).
Proof. destruct l; [contradiction|reflexivity]. Qed.

Lemma chunks_concat_rows A n (rows : list (list A)) :
  0 < n -> Forall (fun r => length r = n) rows -> chunks n (concat rows) = rows.
Proof.
  intros Hn H. induction H as [|r rows Hr _ IH]; [reflexivity|].
  unfold chunks in *. cbn [concat]. set (L := r ++ concat rows).
  assert (HL : length L = n + length (concat rows)) by (unfold L; rewrite app_length; lia).
  assert (Hne : L <> []) by (intros E; rewrite E in HL; cbn [length] in HL; lia).
  replace (length L) with (S (length L - 1)) by lia.
  rewrite (chunks_fuel_S _ _ Hne).
  assert (Hf : firstn n L = r).
  { unfold L. rewrite firstn_app, Hr, Nat.sub_diag, firstn_O, app_nil_r. apply firstn_all2. lia. }
  assert (Hs : skipn n L = concat rows).
  { unfold L. rewrite skipn_app, Hr, Nat.sub_diag. rewrite (skipn_all2 (n := n)) by lia. reflexivity. }
  rewrite Hf, Hs. f_equal.
  rewrite <- IH at 2. apply chunks_fuel_any; [exact Hn|lia|apply Nat.le_refl].
Qed.

Lemma chunks_exact_concat_rows A n (rows : list (list A)) :
  0 < n -> Forall (fun r => length r = n) rows -> chunks_exact n (concat rows) = rows.
Proof.
  intros Hn H. unfold chunks_exact. rewrite (chunks_concat_rows Hn H).
  induction H as [|r rows Hr _ IH]; [reflexivity|]. cbn [filter]. rewrite (proj2 (Nat.eqb_eq _ _) Hr), IH. reflexivity.
Qed.

(* a group size at or beyond the length of the list: the whole list is the single (partial) group,
   whatever the size is; hence every two such sizes give the same grouping *)
Lemma chunks_whole A n (l : list A) :
  0 < n -> length l <= n -> chunks n l = match l with [] => [] | _ => [l] end.
Proof.
  intros Hn Hl. unfold chunks. destruct l as [|x l]; [reflexivity|].
  cbn [length chunks_fuel]. rewrite firstn_all2 by exact Hl.
  rewrite skipn_all2 by exact Hl. destruct (length l); reflexivity.
Qed.

Lemma chunks_beyond A n m (l : list A) :
  0 < n -> 0 < m -> length l <= n -> length l <= m -> chunks n l = chunks m l.
Proof. intros Hn Hm Ln Lm. rewrite (chunks_whole l Hn Ln), (chunks_whole l Hm Lm). reflexivity. Qed.
