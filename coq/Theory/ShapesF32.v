(* C08, binary32 part: `(size as f32).sqrt() as usize` recovers r from r*r for every r up to 8192
   (sizes up to 2^26; a finite sweep evaluated by the kernel, the bound is part of the statement),
   hence such flat sizes are accepted as 1 x r x r. *)
From NV Require Import Prelude Num NumF32 Random Tensor Activation Layers.
Require Import ZArith List Lia. Import ListNotations.

Definition frootZ (z : Z) : Z := f_to_Z (f_sqrt (f_of_Z z)).
Definition zs (n : nat) : list Z := map Z.of_nat (seq 0 n).

Lemma froot_sweep : forallb (fun r => Z.eqb (frootZ (r * r)) r) (zs (Z.to_nat 8193)) = true.
Proof. vm_compute. reflexivity. Qed.

Theorem froot_square_F32 (L : Libm) (r : nat) : (Z.of_nat r <= 8192)%Z -> froot (NumF32 L) (r * r) = r.
Proof.
  intros Hr. change (froot (NumF32 L) (r * r)) with (Z.to_nat (frootZ (Z.of_nat (r * r)))).
  rewrite Nat2Z.inj_mul.
  pose proof (proj1 (forallb_forall _ _) froot_sweep (Z.of_nat r)) as H.
  rewrite (proj1 (Z.eqb_eq _ _) (H ltac:(unfold zs; apply in_map, in_seq; lia))).
  apply Nat2Z.id.
Qed.

Theorem flat_square_accepted_F32 (L : Libm) (r : nat) :
  (Z.of_nat r <= 8192)%Z -> spatial_inputs (NumF32 L) (SSingle (r * r)) = Ok (STriple 1 r r, 1).
Proof.
  intros Hr. unfold spatial_inputs. rewrite (froot_square_F32 L r Hr), Nat.eqb_refl. reflexivity.
Qed.
