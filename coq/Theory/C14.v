(* C14: reshaping and flattening preserve the row-major element sequence. Generic in Num:
   nothing here depends on the arithmetic, only on the element sequence. *)
From NV Require Import Prelude Num Random Tensor.
From NV.Theory Require Import Lists.
Set Implicit Arguments.

Section C14.
  Variable N : Num.
  Notation tensor := (tensor N).

  (* the recorded shape matches the (rectangular) data *)
  Definition wf (t : tensor) : Prop :=
    match tshape t, tdata t with
    | SSingle n, DSingle v => length v = n
    | STriple c h w, DTriple d => rect3 c h w d
    | _, _ => False
    end.

  (* shapes for which every dimension is positive: Tensor::flatten indexes data[0][0] *)
  Definition pos_shape (s : shape) : Prop :=
    match s with
    | SSingle _ => True
    | STriple c h w => 0 < c /\ 0 < h /\ 0 < w
    | _ => False
    end.

  Definition supported (s : shape) : Prop :=
    match s with SSingle _ | STriple _ _ _ => True | _ => False end.

  Lemma wf_get_flat (t : tensor) : wf t -> exists v, get_flat t = Ok v /\ length v = shape_numel (tshape t).
  Proof.
    unfold wf, get_flat. destruct (tshape t), (tdata t); try contradiction; intros H.
    - eexists; split; [reflexivity|exact H].
    - eexists; split; [reflexivity|]. simpl. apply length_flat3_rect3; exact H.
  Qed.

  Lemma rect3_pos_pattern c h w (d : vec3 (T N)) :
    rect3 c h w d -> 0 < c -> 0 < h ->
    exists r ch d', d = (r :: ch) :: d'.
  Proof.
    intros [Hl Hf] Hc Hh. destruct d as [|x d']; [simpl in Hl; lia|].
    pose proof (Forall_inv Hf) as [Hx _].
    destruct x as [|r ch]; [simpl in Hx; lia|]. eauto.
  Qed.

  (* flatten: row-major sequence, shape Single(c*h*w) *)
  Theorem flatten_seq (t : tensor) c h w d :
    tshape t = STriple c h w -> tdata t = DTriple d -> rect3 c h w d -> 0 < c -> 0 < h ->
    flatten t = Ok (mkT (N:=N) (SSingle (c * h * w)) (DSingle (flat3 d))).
  Proof.
    intros _ Hd Hr Hc Hh. unfold flatten. rewrite Hd.
    destruct (rect3_pos_pattern Hr Hc Hh) as (r & ch & d' & ->).
    unfold t_single. rewrite (length_flat3_rect3 Hr). reflexivity.
  Qed.

  Theorem flatten_single (t : tensor) v : tdata t = DSingle v -> flatten t = Ok (mkT (N:=N) (SSingle (length v)) (DSingle v)).
  Proof. intros H. unfold flatten. rewrite H. reflexivity. Qed.

  Theorem get_flat_triple (t : tensor) d : tdata t = DTriple d -> get_flat t = Ok (flat3 d).
  Proof. intros H. unfold get_flat. rewrite H. reflexivity. Qed.

  (* reshape succeeds exactly when the element counts agree; the result has the requested shape,
     is well formed, and reads out flat as the same sequence *)
  Theorem reshape_ok (t : tensor) s :
    wf t -> pos_shape (tshape t) -> supported s ->
    shape_numel (tshape t) = shape_numel s ->
    exists t', reshape t s = Ok t' /\ get_flat t' = get_flat t /\ wf t' /\
               (match tshape t, s with SSingle _, SSingle _ => t' = t | _, _ => tshape t' = s end).
  Proof.
    intros Hwf Hpos Hsup Hn. unfold reshape.
    destruct (tshape t) as [n| | c h w| |] eqn:Hs; try contradiction;
    destruct s as [n'| |c' h' w'| |]; try contradiction; simpl in Hn.
    - (* Single -> Single *)
      exists t. repeat split; try reflexivity; assumption.
    - (* Single -> Triple *)
      unfold wf in Hwf. rewrite Hs in Hwf. destruct (tdata t) as [v| | |] eqn:Hd; try contradiction.
      rewrite (proj2 (Nat.eqb_eq _ _) Hn). unfold get_flat at 1. rewrite Hd. simpl.
      destruct (@take_chans_enough (T N) c' h' w' v) as (d & r & E); [lia|].
      rewrite E. simpl. destruct (take_chans_ok _ _ _ _ E) as [Hv Hr].
      assert (r = []) as ->.
      { apply length_zero_iff_nil. apply (f_equal (@length _)) in Hv.
        rewrite app_length, (length_flat3_rect3 Hr) in Hv. lia. }
      rewrite app_nil_r in Hv. eexists; split; [reflexivity|].
      split; [unfold get_flat; simpl; rewrite Hd; rewrite Hv; reflexivity|].
      split; [exact Hr|reflexivity].
    - (* Triple -> Single *)
      unfold wf in Hwf. rewrite Hs in Hwf. destruct (tdata t) as [|?|d|] eqn:Hd; try contradiction.
      rewrite (proj2 (Nat.eqb_eq _ _) Hn). destruct Hpos as (Hc & Hh & Hw).
      rewrite (flatten_seq t Hs Hd Hwf Hc Hh). eexists; split; [reflexivity|].
      split; [unfold get_flat; simpl; rewrite Hd; reflexivity|].
      split; [unfold wf; simpl; rewrite (length_flat3_rect3 Hwf); reflexivity|simpl; congruence].
    - (* Triple -> Triple *)
      unfold wf in Hwf. rewrite Hs in Hwf. destruct (tdata t) as [|?|d0|] eqn:Hd; try contradiction.
      rewrite (proj2 (Nat.eqb_eq _ _) Hn). unfold get_flat at 1. rewrite Hd. simpl.
      destruct (@take_chans_enough (T N) c' h' w' (flat3 d0)) as (d & r & E).
      { rewrite (length_flat3_rect3 Hwf). lia. }
      rewrite E. simpl. destruct (take_chans_ok _ _ _ _ E) as [Hv Hr].
      assert (r = []) as ->.
      { apply length_zero_iff_nil. apply (f_equal (@length _)) in Hv.
        rewrite app_length, (length_flat3_rect3 Hr), (length_flat3_rect3 Hwf) in Hv. lia. }
      rewrite app_nil_r in Hv. eexists; split; [reflexivity|].
      split; [unfold get_flat; simpl; rewrite Hd, Hv; reflexivity|].
      split; [exact Hr|reflexivity].
  Qed.

  (* a reshape to a shape with a different element count is refused (except flat -> flat, which
     returns the tensor unchanged without looking at the requested length) *)
  Theorem reshape_refused (t : tensor) s :
    shape_numel (tshape t) <> shape_numel s ->
    (match tshape t, s with SSingle _, SSingle _ => False | _, _ => True end) ->
    exists c, reshape t s = Panic c.
  Proof.
    intros Hn Hns. unfold reshape.
    destruct (tshape t) as [n|? ?|c h w|? ? ? ?|?]; destruct s as [n'|? ?|c' h' w'|? ? ? ?|?];
      simpl in *; try contradiction; try (eexists; reflexivity).
    - rewrite (proj2 (Nat.eqb_neq _ _) Hn). eexists; reflexivity.
    - rewrite (proj2 (Nat.eqb_neq _ _) Hn). eexists; reflexivity.
    - rewrite (proj2 (Nat.eqb_neq _ _) Hn). eexists; reflexivity.
  Qed.

  (* there and back is the identity *)
  Theorem reshape_roundtrip (t : tensor) s t' :
    wf t -> pos_shape (tshape t) -> supported s -> pos_shape s ->
    shape_numel (tshape t) = shape_numel s ->
    (match tshape t, s with SSingle _, SSingle _ => False | _, _ => True end) ->
    reshape t s = Ok t' ->
    exists t'', reshape t' (tshape t) = Ok t'' /\ tshape t'' = tshape t /\ get_flat t'' = get_flat t
                /\ (forall d, tdata t = DTriple d -> tdata t'' = DTriple d)
                /\ (forall v, tdata t = DSingle v -> tdata t'' = DSingle v).
  Proof.
    intros Hwf Hpos Hsup Hpos' Hn Hns Hr.
    destruct (@reshape_ok t s Hwf Hpos Hsup Hn) as (t1 & E1 & Hf1 & Hwf1 & Hs1).
    rewrite Hr in E1. injection E1 as <-.
    assert (Hs1' : tshape t' = s).
    { destruct (tshape t), s; try contradiction; exact Hs1. }
    assert (Hsup0 : supported (tshape t)) by (destruct (tshape t); simpl in *; tauto).
    assert (Hpos1 : pos_shape (tshape t')) by (rewrite Hs1'; exact Hpos').
    assert (Hn' : shape_numel (tshape t') = shape_numel (tshape t)) by (rewrite Hs1'; congruence).
    destruct (@reshape_ok t' (tshape t) Hwf1 Hpos1 Hsup0 Hn') as (t2 & E2 & Hf2 & Hwf2 & Hs2).
    exists t2. split; [exact E2|].
    assert (Hs2' : tshape t2 = tshape t).
    { rewrite Hs1' in Hs2. destruct s, (tshape t); try contradiction; exact Hs2. }
    split; [exact Hs2'|]. split; [congruence|].
    assert (Hff : get_flat t2 = get_flat t) by congruence.
    split.
    - intros d Hd. unfold wf in Hwf, Hwf2. rewrite Hs2' in Hwf2. rewrite Hd in Hwf.
      destruct (tshape t) as [|? ?|c h w|? ? ? ?|?]; try contradiction.
      destruct (tdata t2) as [|?|d2|] eqn:Hd2; try contradiction.
      unfold get_flat in Hff. rewrite Hd, Hd2 in Hff. injection Hff as Hff.
      f_equal.
      pose proof (take_chans_flat3 [] Hwf2) as A.
      pose proof (take_chans_flat3 [] Hwf) as B.
      rewrite Hff in A. rewrite A in B. congruence.
    - intros v Hv. unfold wf in Hwf, Hwf2. rewrite Hs2' in Hwf2. rewrite Hv in Hwf.
      destruct (tshape t) as [n|? ?|c h w|? ? ? ?|?]; try contradiction.
      destruct (tdata t2) as [v2| | |] eqn:Hd2; try contradiction.
      unfold get_flat in Hff. rewrite Hv, Hd2 in Hff. congruence.
  Qed.

  (* reading a flat vector out as c x h x w: the row-major prefix, refused when too short *)
  Theorem get_triple_single (t : tensor) v c h w :
    tdata t = DSingle v ->
    (c * h * w <= length v ->
       exists d r, get_triple t (STriple c h w) = Ok d /\ v = flat3 d ++ r /\ rect3 c h w d) /\
    (length v < c * h * w -> exists k, get_triple t (STriple c h w) = Panic k).
  Proof.
    intros Hd. unfold get_triple. rewrite Hd. split; intros H.
    - destruct (@take_chans_enough (T N) c h w v H) as (d & r & E). rewrite E. simpl.
      destruct (take_chans_ok _ _ _ _ E) as [Hv Hr]. eauto.
    - destruct (@take_chans_short (T N) c h w v H) as [k E]. rewrite E. simpl. eauto.
  Qed.
End C14.
