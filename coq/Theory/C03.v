(* C03: optimizer updates are element-wise (hence independent of the tensor rank), touch only
   the addressed state slot, and follow the documented scalar equations. *)
From NV Require Import Prelude Num Random Tensor Optimizer.
From NV.Theory Require Import Monad Build.
Set Implicit Arguments.

Lemma mapM_indexed A B (g : nat -> A -> res B) (h : nat -> A -> B) (l : list A) k :
  (forall i x, nth_error l i = Some x -> g (k + i) x = Ok (h (k + i) x)) ->
  mapM (fun iv : nat * A => g (fst iv) (snd iv)) (combine (seq k (length l)) l) = Ok (mapi_from k h l).
Proof.
  revert k; induction l as [|x l IH]; intros k H; [reflexivity|].
  cbn [length seq combine mapM mapi_from fst snd].
  rewrite <- (Nat.add_0_r k) at 1. rewrite (H 0 x eq_refl), Nat.add_0_r. cbn [bind].
  rewrite IH; [reflexivity|]. intros i y Hy. replace (S k + i) with (k + S i) by lia. apply H. exact Hy.
Qed.

Lemma nth_mapi_from A B (h : nat -> A -> B) (l : list A) k i d d' :
  i < length l -> nth i (mapi_from k h l) d' = h (k + i) (nth i l d).
Proof.
  revert k i; induction l as [|x l IH]; intros k i H; [simpl in H; lia|].
  destruct i as [|i]; cbn [mapi_from nth]; [rewrite Nat.add_0_r; reflexivity|].
  rewrite (IH (S k) i) by (simpl in H; lia). f_equal. lia.
Qed.

Lemma length_mapi_from A B (h : nat -> A -> B) (l : list A) k : length (mapi_from k h l) = length l.
Proof. revert k; induction l as [|x l IH]; intros k; simpl; [reflexivity|rewrite IH; reflexivity]. Qed.

Section Lift.
  Variable N : Num.
  Notation T := (T N).
  Variable step : T -> list T -> T * list T.

  (* the auxiliary values (gradient, state tensors) seen at one position *)
  Definition aux_at1 (auxs : list (list T)) (i : nat) : list T := map (fun a => nth i a zero) auxs.
  Definition aux_at2 (auxs : list (vec2 T)) (i j : nat) : list T := map (fun a => get2 zero a i j) auxs.
  Definition aux_at3 (auxs : list (vec3 T)) (c i j : nat) : list T := map (fun a => get3 zero a c i j) auxs.

  (* closed forms of the three lifts *)
  Definition row_fun (ws : list T) (auxs : list (list T)) : list T * list (list T) :=
    let r := mapi (fun i w => step w (aux_at1 auxs i)) ws in
    (map fst r, mapi (fun k aux => zipk (fun (_ : T) (o : list T) => nth k o zero) aux (map snd r)) auxs).
  Definition mat_fun (ws : vec2 T) (auxs : list (vec2 T)) : vec2 T * list (vec2 T) :=
    let r := mapi (fun i row => row_fun row (map (fun a => nth i a []) auxs)) ws in
    (map fst r, mapi (fun k aux => zipk (fun (_ : list T) (o : list (list T)) => nth k o []) aux (map snd r)) auxs).
  Definition cube_fun (ws : vec3 T) (auxs : list (vec3 T)) : vec3 T * list (vec3 T) :=
    let r := mapi (fun i m => mat_fun m (map (fun a => nth i a []) auxs)) ws in
    (map fst r, mapi (fun k aux => zipk (fun (_ : vec2 T) (o : list (vec2 T)) => nth k o []) aux (map snd r)) auxs).

  Lemma map_fst_mapi_from A B C (h : nat -> A -> B * C) l k :
    map fst (mapi_from k h l) = mapi_from k (fun i x => fst (h i x)) l.
  Proof. revert k; induction l as [|x l IH]; intros k; simpl; [reflexivity|rewrite IH; reflexivity]. Qed.

  Lemma lift_row_ok (ws : list T) (auxs : list (list T)) :
    Forall (fun a => length ws <= length a) auxs ->
    lift_row N step ws auxs = Ok (row_fun ws auxs).
  Proof.
    intros Hlen. unfold lift_row.
    rewrite (@mapM_indexed T (T * list T)
               (fun i w => do a <- mapM (fun aux => nth_res aux i) auxs; Ok (step w a))
               (fun i w => step w (aux_at1 auxs i)) ws 0); [reflexivity|].
    intros i x Hx. cbn [Nat.add].
    replace (mapM (fun aux => nth_res aux i) auxs) with (Ok (aux_at1 auxs i)); [reflexivity|].
    symmetry. unfold aux_at1. rewrite <- mapM_total. apply mapM_ext. intros a Ha.
    apply nth_res_nth. pose proof (proj1 (Forall_forall _ _) Hlen a Ha) as Hla. cbv beta in Hla.
    assert (i < length ws) by (apply nth_error_Some; congruence). lia.
  Qed.

  (* every weight is updated by the scalar rule applied to the values at its own position *)
  Lemma row_fun_w ws auxs i : i < length ws ->
    nth i (fst (row_fun ws auxs)) zero = fst (step (nth i ws zero) (aux_at1 auxs i)).
  Proof.
    intros Hi. unfold row_fun, mapi. cbn [fst]. rewrite map_fst_mapi_from.
    rewrite (nth_mapi_from _ ws 0 zero zero Hi). reflexivity.
  Qed.
  Lemma row_fun_len ws auxs : length (fst (row_fun ws auxs)) = length ws /\ length (snd (row_fun ws auxs)) = length auxs.
  Proof. unfold row_fun, mapi. cbn [fst snd]. rewrite map_length, !length_mapi_from. split; reflexivity. Qed.

  (* ... and so is every auxiliary value (mutated gradient, optimizer state) *)
  Lemma row_fun_aux ws auxs k i :
    Forall (fun a => length ws <= length a) auxs -> k < length auxs -> i < length ws ->
    nth i (nth k (snd (row_fun ws auxs)) []) zero = nth k (snd (step (nth i ws zero) (aux_at1 auxs i))) zero.
  Proof.
    intros Hlen Hk Hi. unfold row_fun, mapi. cbn [snd].
    rewrite (nth_mapi_from _ auxs 0 [] [] Hk). cbn [Nat.add].
    pose proof (proj1 (Forall_forall _ _) Hlen (nth k auxs []) (nth_In _ _ Hk)) as Hla. cbv beta in Hla.
    rewrite (zipk_nth (fun (_ : T) (o : list T) => nth k o zero) (nth k auxs [])
                      (map snd (mapi_from 0 (fun i0 w => step w (aux_at1 auxs i0)) ws)) zero []);
      [|lia|rewrite map_length, length_mapi_from; exact Hi].
    rewrite (nth_indep _ [] (snd (step zero []))) by (rewrite map_length, length_mapi_from; exact Hi).
    rewrite map_nth.
    rewrite (nth_mapi_from _ ws 0 zero (step zero []) Hi). reflexivity.
  Qed.

  (* matrices: row by row *)
  Definition fits2 (ws : vec2 T) (a : vec2 T) : Prop :=
    length ws <= length a /\ forall i, i < length ws -> length (nth i ws []) <= length (nth i a []).

  Lemma lift_mat_ok (ws : vec2 T) (auxs : list (vec2 T)) :
    Forall (fits2 ws) auxs -> lift_mat N step ws auxs = Ok (mat_fun ws auxs).
  Proof.
    intros Hfit. unfold lift_mat.
    rewrite (@mapM_indexed (list T) (list T * list (list T))
               (fun i row => do a <- mapM (fun aux => nth_res aux i) auxs; lift_row N step row a)
               (fun i row => row_fun row (map (fun a => nth i a []) auxs)) ws 0); [reflexivity|].
    intros i row Hrow. cbn [Nat.add].
    assert (Hi : i < length ws) by (apply nth_error_Some; congruence).
    replace (mapM (fun aux => nth_res aux i) auxs) with (Ok (map (fun a => nth i a []) auxs)).
    2:{ symmetry. rewrite <- mapM_total. apply mapM_ext. intros a Ha. apply nth_res_nth.
        destruct (proj1 (Forall_forall _ _) Hfit a Ha) as [Hl _]. lia. }
    cbn [bind]. apply lift_row_ok. apply Forall_forall. intros r Hr. apply in_map_iff in Hr.
    destruct Hr as (a & <- & Ha). destruct (proj1 (Forall_forall _ _) Hfit a Ha) as [_ Hrows].
    specialize (Hrows i Hi). rewrite (nth_error_nth _ _ [] Hrow) in Hrows. exact Hrows.
  Qed.

  Lemma mat_fun_w ws auxs i j : i < length ws -> j < length (nth i ws []) ->
    get2 zero (fst (mat_fun ws auxs)) i j = fst (step (get2 zero ws i j) (aux_at2 auxs i j)).
  Proof.
    intros Hi Hj. unfold mat_fun, mapi, get2. cbn [fst]. rewrite map_fst_mapi_from.
    rewrite (nth_mapi_from _ ws 0 [] [] Hi). cbn [Nat.add].
    rewrite row_fun_w by exact Hj. f_equal. f_equal. unfold aux_at1, aux_at2, get2. rewrite map_map. reflexivity.
  Qed.

  (* cubes: matrix by matrix *)
  Definition fits3 (ws : vec3 T) (a : vec3 T) : Prop :=
    length ws <= length a /\ forall c, c < length ws -> fits2 (nth c ws []) (nth c a []).

  Lemma lift_cube_ok (ws : vec3 T) (auxs : list (vec3 T)) :
    Forall (fits3 ws) auxs -> lift_cube N step ws auxs = Ok (cube_fun ws auxs).
  Proof.
    intros Hfit. unfold lift_cube.
    match goal with |- (do r <- ?M; _) = _ =>
      replace M with (Ok (mapi_from 0 (fun i (m : vec2 T) => mat_fun m (map (fun a : vec3 T => nth i a []) auxs)) ws)) end;
      [reflexivity|].
    symmetry.
    apply (@mapM_indexed (vec2 T) (vec2 T * list (vec2 T))
               (fun i m => do a <- mapM (fun aux : vec3 T => nth_res aux i) auxs; lift_mat N step m a)
               (fun i m => mat_fun m (map (fun a : vec3 T => nth i a []) auxs)) ws 0).
    intros i m Hm. cbn [Nat.add].
    assert (Hi : i < length ws) by (apply (proj1 (nth_error_Some ws i)); intros E; unfold vec3, vec2 in *; rewrite E in Hm; discriminate).
    assert (E : mapM (fun aux : vec3 T => nth_res aux i) auxs = Ok (map (fun a : vec3 T => nth i a []) auxs)).
    { rewrite <- mapM_total. apply mapM_ext. intros a Ha. apply nth_res_nth.
      destruct (proj1 (Forall_forall _ _) Hfit a Ha) as [Hl _]. lia. }
    rewrite E.
    cbn [bind]. apply lift_mat_ok. apply Forall_forall. intros r Hr. apply in_map_iff in Hr.
    destruct Hr as (a & <- & Ha). destruct (proj1 (Forall_forall _ _) Hfit a Ha) as [_ Hm2].
    specialize (Hm2 i Hi). rewrite (nth_error_nth _ _ [] Hm) in Hm2. exact Hm2.
  Qed.

  Lemma cube_fun_w ws auxs c i j :
    c < length ws -> i < length (nth c ws []) -> j < length (nth i (nth c ws []) []) ->
    get3 zero (fst (cube_fun ws auxs)) c i j = fst (step (get3 zero ws c i j) (aux_at3 auxs c i j)).
  Proof.
    intros Hc Hi Hj. unfold cube_fun, mapi, get3. cbn [fst]. rewrite map_fst_mapi_from. unfold vec3, vec2 in *.
    rewrite (nth_mapi_from _ ws 0 [] [] Hc). cbn [Nat.add].
    match goal with |- nth j (nth i ?m []) zero = _ => change (nth j (nth i m []) zero) with (get2 zero m i j) end.
    rewrite mat_fun_w by assumption. f_equal. f_equal. unfold aux_at2, aux_at3, get2, get3. rewrite map_map. reflexivity.
  Qed.
End Lift.

(* ---- frame: an update touches only the addressed slot ---- *)
Section Frame.
  Variable N : Num.
  Notation tensor := (tensor N).

  Lemma nth_error_upd_nth_neq A (l : list A) i j f : i <> j -> nth_error (upd_nth l i f) j = nth_error l j.
  Proof.
    intros H. unfold upd_nth. destruct (nth_error l i); [|reflexivity].
    revert i j H; induction l as [|x l IH]; intros [|i] [|j] H; simpl; try reflexivity; try contradiction.
    apply IH. lia.
  Qed.
  Lemma nth_error_set_nth_neq' A (l : list A) i j v : i <> j -> nth_error (set_nth l i v) j = nth_error l j.
  Proof.
    revert i j; induction l as [|x l IH]; intros [|i] [|j] H; simpl; try reflexivity; try contradiction.
    apply IH. lia.
  Qed.
  Lemma nth_error_upd_nth_eq A (l : list A) i f x : nth_error l i = Some x -> nth_error (upd_nth l i f) i = Some (f x).
  Proof.
    intros H. unfold upd_nth. rewrite H.
    revert i H; induction l as [|y l IH]; intros [|i] H; simpl in *; try discriminate; [reflexivity|]. apply IH. exact H.
  Qed.

  Theorem slot_set_frame (s : slots N) l f b t l' f' b' :
    (l, f, b) <> (l', f', b') -> slot_get (slot_set s l f b t) l' f' b' = slot_get s l' f' b'.
  Proof.
    intros Hne. unfold slot_get, slot_set, nth_res.
    destruct (Nat.eq_dec l l') as [<-|Hl]; [|rewrite nth_error_upd_nth_neq by exact Hl; reflexivity].
    destruct (nth_error s l) as [lf|] eqn:El.
    2:{ unfold upd_nth. rewrite El, El. reflexivity. }
    rewrite (@nth_error_upd_nth_eq _ s l _ lf El). cbn [bind].
    destruct (Nat.eq_dec f f') as [<-|Hf]; [|rewrite nth_error_upd_nth_neq by exact Hf; reflexivity].
    destruct (nth_error lf f) as [fb|] eqn:Ef.
    2:{ unfold upd_nth. rewrite Ef, Ef. reflexivity. }
    rewrite (@nth_error_upd_nth_eq _ lf f _ fb Ef). cbn [bind].
    assert (Hb : b <> b') by (intros ->; apply Hne; reflexivity).
    rewrite nth_error_set_nth_neq'; [reflexivity|]. destruct b, b'; try contradiction; discriminate.
  Qed.

  (* the state arrays of an optimizer *)
  Definition opt_states (o : optimizer N) : list (slots N) :=
    match o with
    | OSGD _ => []
    | OSGDM p => [sgdm_velocity p]
    | OAdam p => [adam_velocity p; adam_momentum p]
    | OAdamW p => [adamw_velocity p; adamw_momentum p]
    | ORMS p => [rms_velocity p; rms_gradient p; rms_buffer p]
    end.

  Theorem update_frame (o o' : optimizer N) l f b stepnr v g v' g' l' f' b' :
    opt_update o l f b stepnr v g = Ok (o', v', g') ->
    (l, f, b) <> (l', f', b') ->
    map (fun st => slot_get st l' f' b') (opt_states o') = map (fun st => slot_get st l' f' b') (opt_states o).
  Proof.
    intros H Hne. destruct o as [p|p|p|p|p]; cbn [opt_update] in H.
    - destruct (lift_tensor _ _ _) as [r|]; [|discriminate]. cbn [bind] in H. injection H as <- _ _. reflexivity.
    - destruct (slot_get _ _ _ _) as [vel|]; [|discriminate]. cbn [bind] in H.
      destruct (lift_tensor _ _ _) as [r|]; [|discriminate]. cbn [bind] in H.
      destruct (snd r) as [|g1 [|v1 [|]]]; try discriminate. injection H as <- _ _.
      cbn [opt_states map sgdm_velocity]. rewrite slot_set_frame by exact Hne. reflexivity.
    - destruct (slot_get (adam_momentum p) _ _ _) as [mo|]; [|discriminate]. cbn [bind] in H.
      destruct (slot_get (adam_velocity p) _ _ _) as [vel|]; [|discriminate]. cbn [bind] in H.
      destruct (lift_tensor _ _ _) as [r|]; [|discriminate]. cbn [bind] in H.
      destruct (snd r) as [|g1 [|m1 [|v1 [|]]]]; try discriminate. injection H as <- _ _.
      cbn [opt_states map adam_velocity adam_momentum]. rewrite !slot_set_frame by exact Hne. reflexivity.
    - destruct (slot_get (adamw_momentum p) _ _ _) as [mo|]; [|discriminate]. cbn [bind] in H.
      destruct (slot_get (adamw_velocity p) _ _ _) as [vel|]; [|discriminate]. cbn [bind] in H.
      destruct (lift_tensor _ _ _) as [r|]; [|discriminate]. cbn [bind] in H.
      destruct (snd r) as [|g1 [|m1 [|v1 [|]]]]; try discriminate. injection H as <- _ _.
      cbn [opt_states map adamw_velocity adamw_momentum]. rewrite !slot_set_frame by exact Hne. reflexivity.
    - destruct (slot_get (rms_velocity p) _ _ _) as [vel|]; [|discriminate]. cbn [bind] in H.
      destruct (slot_get (rms_gradient p) _ _ _) as [gr|]; [|discriminate]. cbn [bind] in H.
      destruct (slot_get (rms_buffer p) _ _ _) as [bu|]; [|discriminate]. cbn [bind] in H.
      destruct (lift_tensor _ _ _) as [r|]; [|discriminate]. cbn [bind] in H.
      destruct (snd r) as [|g1 [|a1 [|a2 [|a3 [|]]]]]; try discriminate. injection H as <- _ _.
      cbn [opt_states map rms_velocity rms_gradient rms_buffer]. rewrite !slot_set_frame by exact Hne. reflexivity.
  Qed.
End Frame.

(* ---- attaching the optimizer again: the state is zero-initialised whatever the value held ---- *)
Section Reattach.
  Variable N : Num.
  Notation optimizer := (optimizer N).
  Notation slots := (slots N).

  (* the hyper-parameters of an optimizer value: the value with its running statistics dropped *)
  Definition hyper (o : optimizer) : optimizer :=
    match o with
    | OSGD p => OSGD p
    | OSGDM p => OSGDM {| sgdm_lr := sgdm_lr p; sgdm_momentum := sgdm_momentum p;
                          sgdm_dampening := sgdm_dampening p; sgdm_decay := sgdm_decay p;
                          sgdm_velocity := [] |}
    | OAdam p => OAdam {| adam_lr := adam_lr p; adam_b1 := adam_b1 p; adam_b2 := adam_b2 p;
                          adam_eps := adam_eps p; adam_decay := adam_decay p;
                          adam_velocity := []; adam_momentum := [] |}
    | OAdamW p => OAdamW {| adamw_lr := adamw_lr p; adamw_b1 := adamw_b1 p; adamw_b2 := adamw_b2 p;
                            adamw_eps := adamw_eps p; adamw_decay := adamw_decay p;
                            adamw_velocity := []; adamw_momentum := [] |}
    | ORMS p => ORMS {| rms_lr := rms_lr p; rms_alpha := rms_alpha p; rms_eps := rms_eps p;
                        rms_decay := rms_decay p; rms_momentum := rms_momentum p;
                        rms_centered := rms_centered p;
                        rms_velocity := []; rms_gradient := []; rms_buffer := [] |}
    end.

  (* validate installs the given state and reads nothing of the state held before *)
  Lemma validate_reads_hyper_only (o : optimizer) (v : slots) :
    opt_validate o v = opt_validate (hyper o) v.
  Proof. destruct o; reflexivity. Qed.

  (* a step never changes a hyper-parameter *)
  Lemma update_keeps_hyper (o o' : optimizer) l f b s w g w' g' :
    opt_update o l f b s w g = Ok (o', w', g') -> hyper o' = hyper o.
  Proof.
    destruct o as [p|p|p|p|p]; cbn [opt_update]; intros H.
    - destruct (lift_tensor _ w [g]); cbn [bind] in H; [|discriminate]. inversion H; reflexivity.
    - destruct (slot_get (sgdm_velocity p) l f b); cbn [bind] in H; [|discriminate].
      destruct (lift_tensor _ w _) as [r|]; cbn [bind] in H; [|discriminate].
      destruct (snd r) as [|x1 [|x2 [|x3 xs]]]; try discriminate. inversion H; reflexivity.
    - destruct (slot_get (adam_momentum p) l f b); cbn [bind] in H; [|discriminate].
      destruct (slot_get (adam_velocity p) l f b); cbn [bind] in H; [|discriminate].
      destruct (lift_tensor _ w _) as [r|]; cbn [bind] in H; [|discriminate].
      destruct (snd r) as [|x1 [|x2 [|x3 [|x4 xs]]]]; try discriminate. inversion H; reflexivity.
    - destruct (slot_get (adamw_momentum p) l f b); cbn [bind] in H; [|discriminate].
      destruct (slot_get (adamw_velocity p) l f b); cbn [bind] in H; [|discriminate].
      destruct (lift_tensor _ w _) as [r|]; cbn [bind] in H; [|discriminate].
      destruct (snd r) as [|x1 [|x2 [|x3 [|x4 xs]]]]; try discriminate. inversion H; reflexivity.
    - destruct (slot_get (rms_velocity p) l f b); cbn [bind] in H; [|discriminate].
      destruct (slot_get (rms_gradient p) l f b); cbn [bind] in H; [|discriminate].
      destruct (slot_get (rms_buffer p) l f b); cbn [bind] in H; [|discriminate].
      destruct (lift_tensor _ w _) as [r|]; cbn [bind] in H; [|discriminate].
      destruct (snd r) as [|x1 [|x2 [|x3 [|x4 [|x5 xs]]]]]; try discriminate. inversion H; reflexivity.
  Qed.

  (* any history of steps (on any slots, with any step numbers, values and gradients) *)
  Inductive stepped : optimizer -> optimizer -> Prop :=
  | stepped_refl o : stepped o o
  | stepped_step o o1 o2 l f b s w g w' g' :
      stepped o o1 -> opt_update o1 l f b s w g = Ok (o2, w', g') -> stepped o o2.

  Lemma stepped_keeps_hyper o o' : stepped o o' -> hyper o' = hyper o.
  Proof.
    induction 1 as [o|o o1 o2 l f b s w g w' g' _ IH Hu]; [reflexivity|].
    rewrite (update_keeps_hyper _ _ _ _ _ _ _ Hu). exact IH.
  Qed.

  Lemma dflt_idem (x d : T N) : dflt N (dflt N x d) d = dflt N x d.
  Proof. unfold dflt. destruct (is0 N x) eqn:E; [destruct (is0 N d); reflexivity|rewrite E; reflexivity]. Qed.

  Lemma validate_twice (o : optimizer) (v1 v2 : slots) :
    opt_validate (opt_validate o v1) v2 = opt_validate o v2.
  Proof. destruct o; cbn [opt_validate]; cbn; rewrite ?dflt_idem; reflexivity. Qed.

  (* the optimizer value that was attached with any state v1, stepped through ANY history, and is attached
     again with state v2 is the value a fresh attachment with v2 gives: no running statistic survives *)
  Theorem reattach_is_fresh (o o' : optimizer) (v1 v2 : slots) :
    stepped (opt_validate o v1) o' -> opt_validate o' v2 = opt_validate o v2.
  Proof.
    intros H. rewrite validate_reads_hyper_only, (stepped_keeps_hyper H),
      <- validate_reads_hyper_only. apply validate_twice.
  Qed.
End Reattach.
