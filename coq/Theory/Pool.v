(* The max-pool cell is the maximum of its window (C02), for any number structure whose `<` agrees
   with the order of the reals on a domain of admissible values; instantiated at the reals and at
   the finite binary32 numbers. *)
From NV Require Import Prelude Num NumR NumF32 Random Tensor Activation Layers.
From NV.Theory Require Import Monad Lists Build Conv Forward.
Require Import Reals Lra.
Set Implicit Arguments.

Section PoolOrder.
  Variable N : Num.
  Notation T := (T N).
  Variable val : T -> R.
  Variable dom : T -> Prop.
  Hypothesis lt_val : forall a b, dom a -> dom b -> nltb N a b = Rltb (val a) (val b).

  Definition pick (acc p : T * (nat * nat)) : T * (nat * nat) :=
    if gtb (fst p) (fst acc) then p else acc.

  Definition window_list (x : vec3 T) (kernel : nat * nat) (c h w : nat) : list (T * (nat * nat)) :=
    flat_map (fun k => map (fun l => (get3 zero x c (h + k) (w + l), (h + k, w + l))) (seq 0 (snd kernel)))
             (seq 0 (fst kernel)).

  Lemma fold_left_flat_map A B S (f : S -> B -> S) (g : A -> list B) l s :
    fold_left f (flat_map g l) s = fold_left (fun s a => fold_left f (g a) s) l s.
  Proof.
    revert s; induction l as [|a l IH]; intros s; [reflexivity|].
    cbn [flat_map fold_left]. rewrite fold_left_app. apply IH.
  Qed.

  Lemma fold_left_map A B S (f : S -> B -> S) (g : A -> B) l s :
    fold_left f (map g l) s = fold_left (fun s a => f s (g a)) l s.
  Proof. revert s; induction l as [|a l IH]; intros s; [reflexivity|]. cbn [map fold_left]. apply IH. Qed.

  Lemma pool_cell_fold (x : vec3 T) kernel c h w :
    pool_cell N x kernel c h w = fold_left pick (window_list x kernel c h w) (nfmin N, (0, 0)).
  Proof.
    unfold pool_cell, window_list. rewrite fold_left_flat_map.
    apply fold_left_ext_in. intros a k _. rewrite fold_left_map. reflexivity.
  Qed.

  (* the running maximum *)
  Lemma pick_fold_spec (cells : list (T * (nat * nat))) (s : T * (nat * nat)) :
    dom (fst s) -> Forall (fun p => dom (fst p)) cells ->
    let r := fold_left pick cells s in
    dom (fst r) /\ (val (fst s) <= val (fst r))%R /\
    Forall (fun p => (val (fst p) <= val (fst r))%R) cells /\
    (r = s \/ In r cells) /\
    (r = s -> Forall (fun p => (val (fst p) <= val (fst s))%R) cells).
  Proof.
    revert s. induction cells as [|p cells IH]; intros s Hs Hc; cbn [fold_left].
    - repeat split; auto using Rle_refl.
    - pose proof (Forall_inv Hc) as Hp. pose proof (Forall_inv_tail Hc) as Hc'.
      assert (Ep : pick s p = if Rltb (val (fst s)) (val (fst p)) then p else s)
        by (unfold pick, gtb; rewrite (lt_val Hs Hp); reflexivity).
      rewrite Ep. clear Ep.
      destruct (Rltb (val (fst s)) (val (fst p))) eqn:E.
      + cbv beta iota zeta. apply Rltb_true in E. destruct (IH p Hp Hc') as (Hd & Hle & Hall & Hin & Hst).
        split; [exact Hd|]. split; [lra|]. split; [constructor; [exact Hle|exact Hall]|].
        split.
        * right. destruct Hin as [-> | Hin]; [left; reflexivity|right; exact Hin].
        * intros Er. exfalso. rewrite Er in Hle. lra.
      + cbv beta iota zeta. apply Rltb_false in E. destruct (IH s Hs Hc') as (Hd & Hle & Hall & Hin & Hst).
        split; [exact Hd|]. split; [exact Hle|]. split; [constructor; [lra|exact Hall]|].
        split.
        * destruct Hin as [-> | Hin]; [left; reflexivity|right; right; exact Hin].
        * intros Er. constructor; [lra|apply Hst; exact Er].
  Qed.

  Lemma in_window_list (x : vec3 T) kh kw c h w p :
    In p (window_list x (kh, kw) c h w) <->
    exists k l, k < kh /\ l < kw /\ p = (get3 zero x c (h + k) (w + l), (h + k, w + l)).
  Proof.
    unfold window_list. cbn [fst snd]. rewrite in_flat_map. split.
    - intros (k & Hk & Hp). apply in_map_iff in Hp. destruct Hp as (l & <- & Hl).
      apply in_seq in Hk. apply in_seq in Hl. exists k, l. repeat split; lia.
    - intros (k & l & Hk & Hl & ->). exists k. split; [apply in_seq; lia|].
      apply in_map_iff. exists l. split; [reflexivity|apply in_seq; lia].
  Qed.

  (* Every admissible window: the cell's value dominates every window element and is attained at
     the recorded coordinates inside the window (unless no element exceeds the start value
     f32::MIN, in which case the value is f32::MIN and the recorded coordinates are (0,0)). *)
  Theorem pool_cell_is_max (x : vec3 T) kh kw c h w :
    dom (nfmin N) ->
    (forall k l, k < kh -> l < kw -> dom (get3 zero x c (h + k) (w + l))) ->
    let r := pool_cell N x (kh, kw) c h w in
    (forall k l, k < kh -> l < kw -> (val (get3 zero x c (h + k) (w + l)) <= val (fst r))%R) /\
    ((exists k l, k < kh /\ l < kw /\ snd r = (h + k, w + l) /\ fst r = get3 zero x c (h + k) (w + l)) \/
     (r = (nfmin N, (0, 0)) /\
      forall k l, k < kh -> l < kw -> (val (get3 zero x c (h + k) (w + l)) <= val (nfmin N))%R)).
  Proof.
    intros Hmin Hdom r. subst r. rewrite pool_cell_fold.
    assert (Hc : Forall (fun p => dom (fst p)) (window_list x (kh, kw) c h w)).
    { apply Forall_forall. intros p Hp. apply in_window_list in Hp.
      destruct Hp as (k & l & Hk & Hl & ->). cbn [fst]. apply Hdom; assumption. }
    destruct (@pick_fold_spec (window_list x (kh, kw) c h w) (nfmin N, (0, 0)) Hmin Hc)
      as (_ & _ & Hall & Hin & Hst).
    split.
    - intros k l Hk Hl. rewrite Forall_forall in Hall.
      apply (Hall (get3 zero x c (h + k) (w + l), (h + k, w + l))).
      apply in_window_list. exists k, l. auto.
    - destruct Hin as [Es | Hin].
      + right. split; [exact Es|]. intros k l Hk Hl. specialize (Hst Es). rewrite Forall_forall in Hst.
        apply (Hst (get3 zero x c (h + k) (w + l), (h + k, w + l))).
        apply in_window_list. exists k, l. auto.
      + left. apply in_window_list in Hin. destruct Hin as (k & l & Hk & Hl & E).
        exists k, l. rewrite E. auto.
  Qed.
End PoolOrder.

(* ---- instance: the reals ---- *)
Theorem pool_cell_is_max_R (x : vec3 R) kh kw c h w :
  let r := pool_cell NumR x (kh, kw) c h w in
  (forall k l, k < kh -> l < kw -> (get3 (@zero NumR) x c (h + k) (w + l) <= fst r)%R) /\
  ((exists k l, k < kh /\ l < kw /\ snd r = (h + k, w + l) /\ fst r = get3 (@zero NumR) x c (h + k) (w + l)) \/
   (r = (nfmin NumR, (0, 0)) /\
    forall k l, k < kh -> l < kw -> (get3 (@zero NumR) x c (h + k) (w + l) <= nfmin NumR)%R)).
Proof.
  apply (@pool_cell_is_max NumR (fun v => v) (fun _ => True)); auto.
Qed.

(* ---- instance: finite binary32 numbers (any libm oracle) ---- *)
From Flocq Require Import Core BinarySingleNaN.
Section PoolF32.
  Variable L : Libm.
  Definition finite32 (x : f32) : Prop := is_finite x = true.

  Lemma f_ltb_val (a b : f32) : finite32 a -> finite32 b -> f_ltb a b = Rltb (B2R a) (B2R b).
  Proof.
    intros Ha Hb. unfold f_ltb. rewrite (Bltb_correct prec32 emax32 a b Ha Hb).
    unfold Rltb. destruct (Rlt_bool_spec (B2R a) (B2R b)) as [H|H]; destruct (Rlt_dec (B2R a) (B2R b)); auto; lra.
  Qed.

  Lemma f_fmin_finite : finite32 f_fmin.
  Proof. vm_compute. reflexivity. Qed.

  Lemma f_fmin_val : B2R f_fmin = (- (bpow radix2 emax32 - bpow radix2 (emax32 - prec32)))%R.
  Proof.
    pose (f := f_fmin). assert (E : f_fmin = f) by reflexivity. vm_compute in f.
    rewrite E. subst f. unfold B2R, F2R. cbn [Fnum Fexp cond_Zopp Z.opp].
    change (emax32 - prec32)%Z with 104%Z. change emax32 with 128%Z. unfold bpow.
    change (Z.pow_pos radix2 128) with 340282366920938463463374607431768211456%Z.
    change (Z.pow_pos radix2 104) with 20282409603651670423947251286016%Z.
    lra.
  Qed.

  Lemma f_fmin_least (a : f32) : finite32 a -> (B2R f_fmin <= B2R a)%R.
  Proof.
    intros _. rewrite f_fmin_val.
    pose proof (abs_B2R_le_emax_minus_prec prec32 emax32 prec32_gt_0 a) as H.
    apply Rabs_le_inv in H. lra.
  Qed.

  (* for every window of finite numbers the recorded value is the window's maximum and is attained
     inside the window at the recorded coordinates or, when no element exceeds f32::MIN, every
     element equals f32::MIN as a real number *)
  Theorem pool_cell_is_max_F32 (x : vec3 f32) kh kw c h w :
    (forall k l, k < kh -> l < kw -> finite32 (get3 (@zero (NumF32 L)) x c (h + k) (w + l))) ->
    let r := pool_cell (NumF32 L) x (kh, kw) c h w in
    (forall k l, k < kh -> l < kw -> (B2R (get3 (@zero (NumF32 L)) x c (h + k) (w + l)) <= B2R (fst r))%R) /\
    ((exists k l, k < kh /\ l < kw /\ snd r = (h + k, w + l) /\ fst r = get3 (@zero (NumF32 L)) x c (h + k) (w + l)) \/
     (r = (f_fmin, (0, 0)) /\
      forall k l, k < kh -> l < kw -> B2R (get3 (@zero (NumF32 L)) x c (h + k) (w + l)) = B2R f_fmin)).
  Proof.
    intros Hfin.
    destruct (@pool_cell_is_max (NumF32 L) (@B2R prec32 emax32) finite32 f_ltb_val x kh kw c h w f_fmin_finite Hfin)
      as [Hmax Hcase].
    split; [exact Hmax|]. destruct Hcase as [Hin | [Er Hle]]; [left; exact Hin|right].
    split; [exact Er|]. intros k l Hk Hl. apply Rle_antisym; [apply Hle; assumption|].
    apply f_fmin_least. apply Hfin; assumption.
  Qed.
End PoolF32.
