(* C05: rayon's indexed parallel iterators, as far as their results are concerned.
   A schedule is the tree along which a producer is split (work stealing decides where the
   splits fall and in which order the leaves run). An ORDERED collect assembles the leaf
   results by position, so its value does not depend on the tree; a tree-shaped REDUCTION
   with a non-associative operator does. *)
From NV Require Import Prelude Num NumF32 Random Tensor Activation Objective Optimizer Layers Network Learn.
From NV.Theory Require Import Monad.
Set Implicit Arguments.

Inductive sched := Leaf | Split (k : nat) (l r : sched).

(* evaluate [f] over [xs] along the split tree; each leaf is a sequential fold of its piece *)
Fixpoint par_collect {A B} (s : sched) (f : A -> B) (xs : list A) : list B :=
  match s with
  | Leaf => map f xs
  | Split k l r => par_collect l f (firstn k xs) ++ par_collect r f (skipn k xs)
  end.

Theorem par_collect_det A B (s : sched) (f : A -> B) xs : par_collect s f xs = map f xs.
Proof.
  revert xs; induction s as [|k l IHl r IHr]; intros xs; [reflexivity|].
  simpl. rewrite IHl, IHr, <- map_app, firstn_skipn. reflexivity.
Qed.

(* the parallel map used by the model, driven by one schedule per call site *)
Definition sched_pmap (pick : forall A, list A -> sched) : pmap_t :=
  fun A B f l => par_collect (pick A l) f l.

Definition pmap_ordered (p : pmap_t) : Prop := forall A B (f : A -> B) l, p A B f l = map f l.

Lemma sched_pmap_ordered pick : pmap_ordered (sched_pmap pick).
Proof. intros A B f l. apply par_collect_det. Qed.

(* a tree-shaped reduction: what `reduce`/`sum` on a parallel iterator would compute *)
Fixpoint par_reduce {A} (s : sched) (op : A -> A -> A) (e : A) (xs : list A) : A :=
  match s with
  | Leaf => fold_left op xs e
  | Split k l r => op (par_reduce l op e (firstn k xs)) (par_reduce r op e (skipn k xs))
  end.

Section Invariance.
  Variable N : Num.
  Variables p1 p2 : pmap_t.
  Hypothesis H1 : pmap_ordered p1.
  Hypothesis H2 : pmap_ordered p2.

  Lemma pmap_eq A B (f : A -> B) l : @p1 A B f l = @p2 A B f l.
  Proof. rewrite H1, H2. reflexivity. Qed.

  Section Gen.
    Variables (S X G : Type).
    Variable sample : S -> X -> res (G * T N).
    Variable gadd : G -> G -> res G.
    Variable step : Z -> S -> G -> res S.
    Variable valid1 valid2 : S -> res (S * (T N * T N)).
    Hypothesis Hvalid : forall s, valid1 s = valid2 s.

    Lemma run_batch_inv e s g :
      run_batch N p1 sample gadd step e s g = run_batch N p2 sample gadd step e s g.
    Proof. unfold run_batch. rewrite pmap_eq. reflexivity. Qed.

    Lemma run_epoch_inv e s bs :
      run_epoch N p1 sample gadd step e s bs = run_epoch N p2 sample gadd step e s bs.
    Proof.
      unfold run_epoch. f_equal. apply foldM_ext. intros st x _. rewrite run_batch_inv. reflexivity.
    Qed.

    Lemma epochs_loop_inv fuel e hv th bs s h :
      epochs_loop p1 sample gadd step valid1 fuel e hv th bs s h
      = epochs_loop p2 sample gadd step valid2 fuel e hv th bs s h.
    Proof.
      revert e s h; induction fuel as [|k IH]; intros e s h; [reflexivity|].
      cbn [epochs_loop]. rewrite run_epoch_inv.
      destruct (run_epoch N p2 sample gadd step e s bs) as [[s1 l]|c]; [|reflexivity].
      cbn [bind]. destruct hv.
      - rewrite Hvalid. destruct (valid2 s1) as [[s2 [vl va]]|c]; [|reflexivity]. cbn [bind fst snd].
        destruct (should_stop N th e (h_vloss h ++ [vl])) as [[|]|c]; cbn [bind]; [reflexivity|apply IH|reflexivity].
      - cbn [bind]. destruct (should_stop N th e (h_vloss h)) as [[|]|c]; cbn [bind]; [reflexivity|apply IH|reflexivity].
    Qed.
  End Gen.

  Lemma validate_inv (n : network N) xs ts tol : validate p1 n xs ts tol = validate p2 n xs ts tol.
  Proof. unfold validate. destruct (validate_clear (n_layers n) false). rewrite pmap_eq. reflexivity. Qed.

  Lemma predict_batch_inv (n : network N) xs : predict_batch p1 n xs = predict_batch p2 n xs.
  Proof. unfold predict_batch. rewrite pmap_eq. reflexivity. Qed.

  Theorem learn_inv (n : network N) xs ts val batch epochs :
    learn p1 n xs ts val batch epochs = learn p2 n xs ts val batch epochs.
  Proof.
    unfold learn. destruct (negb (batch =? 0)); [|reflexivity].
    erewrite epochs_loop_inv; [reflexivity|].
    intros s. destruct val as [[[vi vt] th]|]; [apply validate_inv|reflexivity].
  Qed.
End Invariance.

(* contrast: a float reduction along the split tree depends on the tree *)
Definition b32 (z : Z) : f32 := f_of_bits z.
Definition tr_xs : list f32 := [b32 1065353216; b32 864026624; b32 864026624]. (* 1.0, 2^-24, 2^-24 *)
Lemma tree_reduce_differs :
  f_to_bits (par_reduce Leaf f_add (f_of_Z 0) tr_xs)
  <> f_to_bits (par_reduce (Split 1 Leaf Leaf) f_add (f_of_Z 0) tr_xs).
Proof. vm_compute. discriminate. Qed.
